import LolHtml.Lemmas.ChunkFullPanic
import LolHtml.Lemmas.FullDisp
/-!
# Provenance of the errors at which two controllers part, and the site strings of the real controller

`CtlSim c1 c2 D G` (Lemmas/CtlSim.lean) says the two controllers agree on `D` until `c1` fails with an error
of the class `G`; it forgets that this error was RETURNED BY A CALLBACK of `c1` at a state in `D`
(`CtlSim.prov` puts it back). For the real controller, a callback never returns one of the dispatcher's own
site strings (`DispOwn`) — on the callback-closed set of states whose recorded fault is not such a string
(`DO`). So when the run of the real controller parts from the run of the cleaned one, the error is not a
`DispOwn` one: those are excluded for the real controller by C15 for the cleaned controller.
-/
set_option linter.unusedSimpArgs false
set_option linter.unusedVariables false

namespace LolHtml.Model.Chunk.R
open LolHtml LolHtml.Model LolHtml.Model.Chunk LolHtml.Model.Full LolHtml.Model.Handlers LolHtml.EditModel

variable {γ : Type}

/-- `e` is returned by a callback of `c` at a state in `D` -/
def CbErr (c : Controller γ) (D : γ → Prop) (e : Err) : Prop :=
  ∃ g, D g ∧ ((∃ n ns, (c.startTag g n ns).2 = .err e) ∨ (∃ i, (c.auxInfo g i).2 = .error e) ∨
    (∃ t, (c.token g t).2.err = some e) ∨ (c.handleEnd g).2.2 = some e)

theorem CtlSim.prov {c1 c2 : Controller γ} {D : γ → Prop} {G : Err → Prop} (h : CtlSim c1 c2 D G) :
    CtlSim c1 c2 D (fun e => G e ∧ CbErr c1 D e) where
  flags := h.flags
  emit := h.emit
  startTag := fun g n ns hg => (h.startTag g n ns hg).elim Or.inl
    (fun ⟨e, hG, he⟩ => Or.inr ⟨e, ⟨hG, g, hg, Or.inl ⟨n, ns, he⟩⟩, he⟩)
  auxInfo := fun g i hg => (h.auxInfo g i hg).elim Or.inl
    (fun ⟨e, hG, he⟩ => Or.inr ⟨e, ⟨hG, g, hg, Or.inr (Or.inl ⟨i, he⟩)⟩, he⟩)
  endTag := h.endTag
  token := fun g t hg => (h.token g t hg).elim Or.inl
    (fun ⟨e, hG, he⟩ => Or.inr ⟨e, ⟨hG, g, hg, Or.inr (Or.inr (Or.inl ⟨t, he⟩))⟩, he⟩)
  handleEnd := fun g hg => (h.handleEnd g hg).elim Or.inl
    (fun ⟨e, hG, he⟩ => Or.inr ⟨e, ⟨hG, g, hg, Or.inr (Or.inr (Or.inr he))⟩, he⟩)
  bailOut := h.bailOut

/-! ### a string that is none of the real controller's own sites -/

/-- … none of the sites of `handle_start_tag`, the aux-info continuation and `handle_end_tag` -/
structure NotSiteC (b : String) : Prop where
  vm : vmMsg ≠ b
  disp : dispMsg ≠ b
  sync : syncMsg ≠ b
  matcher : "Bytes::slice out of range (attribute matcher)" ≠ b

structure NotSite (b : String) : Prop extends NotSiteC b where
  payload : "end-tag handler payload missing" ≠ b
  attr : "Bytes::slice out of range (attribute raw)" ≠ b
  base : "token source range before the slice base" ≠ b

/-- the recorded fault is not `b` -/
def NF (b : String) (s : St) : Prop := s.fault ≠ some b

section
variable {b : String} (hb : NotSiteC b)
include hb

theorem endTag_nf (s : St) (name : LocalName) (h : NF b s) : NF b (endTag s name).1 := by
  unfold endTag
  split
  · exact h
  · split
    · exact fun hh => hb.vm (Option.some.inj hh)
    · split
      · simp only
        split
        · exact fun hh => hb.disp (Option.some.inj hh)
        · exact h
      · exact fun hh => hb.sync (Option.some.inj hh)

theorem afterVm_nb (s : St) (n : Nat) (vm' : SelVM.Vm) (infos : List SelVM.MatchInfo) :
    (s.afterVm n vm' infos).2 ≠ .error (.panic b) := by
  unfold St.afterVm
  split
  · intro hh
    simp only [Except.error.injEq, dispErr, Err.panic.injEq] at hh
    exact hb.disp hh
  · intro hh; cases hh

theorem startTagCore_nb (s : St) (name : LocalName) (ns : Model.Ns) :
    (startTagCore s name ns).2 ≠ .err (.panic b) := by
  unfold startTagCore
  split
  · intro hh; cases hh
  · split
    · intro hh
      simp only [StartTagRes.err.injEq, vmErr, Err.panic.injEq] at hh
      exact hb.vm hh
    · simp only
      split
      · intro hh; cases hh
      · rename_i e he
        intro hh
        simp only [StartTagRes.err.injEq] at hh
        subst hh
        exact afterVm_nb hb _ _ _ _ he
    · intro hh; cases hh

theorem startTag_nb (s : St) (name : LocalName) (ns : Model.Ns) (h : NF b s) :
    (startTag s name ns).2 ≠ .err (.panic b) := by
  unfold startTag
  split
  · rename_i m hm
    intro hh
    simp only [StartTagRes.err.injEq, Err.panic.injEq] at hh
    subst hh
    exact h hm
  · exact startTagCore_nb hb _ _ _

theorem auxInfo_nb (s : St) (info : AuxInfo) : (auxInfo s info).2 ≠ .error (.panic b) := by
  unfold auxInfo
  split
  · split
    · intro hh
      simp only [Except.error.injEq, Err.panic.injEq] at hh
      exact hb.matcher hh
    · split
      · intro hh
        simp only [Except.error.injEq, vmErr, Err.panic.injEq] at hh
        exact hb.vm hh
      · exact afterVm_nb hb _ _ _ _
  · intro hh; cases hh

end

section
variable {b : String} (hb : NotSite b)
include hb

omit hb in
theorem outOf_nb (f : Bool) (bs : Bytes) : (outOf f bs).err ≠ some (.panic b) := by
  unfold outOf
  split <;> (intro hh; cases hh)

theorem token_nb (cfg : Cfg) (s : St) (t : Model.Token) (h : NF b s) :
    (token cfg s t).2.err ≠ some (.panic b) := by
  unfold token
  split
  · rename_i m hm
    intro hh
    simp only [Option.some.injEq, Err.panic.injEq] at hh
    subst hh
    exact h hm
  · split
    · -- start tag
      unfold tokStartTag
      split
      · split
        · intro hh
          simp only [Option.some.injEq, Err.panic.injEq] at hh
          exact hb.attr hh
        · rename_i name attrs ns sc raw src base _ _ as _
          simp only
          generalize (if 0 < s.disp.removedContent then
              ({ name := name, attributes := as, ns := nsEdit ns, selfClosing := sc, raw := raw } : StartTag).apply (.mut .remove)
              else { name := name, attributes := as, ns := nsEdit ns, selfClosing := sc, raw := raw }) = st
          split
          · intro hh; cases hh
          · split
            · intro hh
              simp only [Option.some.injEq, dispErr, Err.panic.injEq] at hh
              exact hb.disp hh
            · intro hh; cases hh
      · intro hh
        simp only [Option.some.injEq, Err.panic.injEq] at hh
        exact hb.base hh
    · -- end tag
      unfold tokEndTag
      split
      · intro hh
        simp only [Option.some.injEq, dispErr, Err.panic.injEq] at hh
        exact hb.disp hh
      · simp only
        split
        · intro hh
          simp only [Option.some.injEq, Err.panic.injEq] at hh
          exact hb.payload hh
        · intro hh; cases hh
    · unfold tokComment
      exact outOf_nb _ _
    · unfold tokDoctype
      exact outOf_nb _ _
    · unfold tokText
      exact outOf_nb _ _

theorem handleEnd_nb (cfg : Cfg) (s : St) (h : NF b s) : (handleEnd cfg s).2.2 ≠ some (.panic b) := by
  unfold handleEnd
  split
  · rename_i m hm
    intro hh
    simp only [Option.some.injEq, Err.panic.injEq] at hh
    subst hh
    exact h hm
  · split
    · intro hh
      simp only [Option.some.injEq, dispErr, Err.panic.injEq] at hh
      exact hb.disp hh
    · simp only
      split <;> (intro hh; cases hh)

end

/-! ### the dispatcher's own site strings -/

def OwnStr (b : String) : Prop :=
  b = "Bytes::slice out of range (tag name)" ∨ b = "Bytes::slice out of range in to_token" ∨
  b = "emit_chunk_before_lexeme: range out of bounds" ∨ b = "Bytes::slice out of range (text raw)"

theorem dispOwn_iff (e : Err) : DispOwn e ↔ ∃ b, OwnStr b ∧ e = .panic b := by
  unfold DispOwn OwnStr
  constructor
  · rintro (h | h | h | h) <;> exact ⟨_, by first | exact Or.inl rfl | exact Or.inr (Or.inl rfl) | exact Or.inr (Or.inr (Or.inl rfl)) | exact Or.inr (Or.inr (Or.inr rfl)), h⟩
  · rintro ⟨b, (h | h | h | h), he⟩ <;> subst h
    · exact Or.inl he
    · exact Or.inr (Or.inl he)
    · exact Or.inr (Or.inr (Or.inl he))
    · exact Or.inr (Or.inr (Or.inr he))

theorem ownStr_notSite {b : String} (h : OwnStr b) : NotSite b := by
  rcases h with h | h | h | h <;> subst h <;>
    exact ⟨⟨by decide, by decide, by decide, by decide⟩, by decide, by decide, by decide⟩

/-- the states whose recorded fault is neither the guard's site nor one of the dispatcher's own -/
def DO (cfg : Cfg) (g : FullSt cfg) : Prop := NGF g.1 ∧ ∀ b, OwnStr b → NF b g.1

theorem fullCtl_panicLaws_DO (cfg : Cfg) : PanicLaws (fullCtl cfg) (DO cfg) where
  startTag_D := fun g n ns h => ⟨(fullCtl_panicLaws cfg).startTag_D g n ns h.1, fun b hb => by
    show NF b (startTag g.1 n ns).1
    unfold NF; rw [startTag_fault]; exact h.2 b hb⟩
  auxInfo_D := fun g i h => ⟨(fullCtl_panicLaws cfg).auxInfo_D g i h.1, fun b hb => by
    show NF b (auxInfo g.1 i).1
    unfold NF; rw [auxInfo_fault]; exact h.2 b hb⟩
  endTag_D := fun g n h => ⟨(fullCtl_panicLaws cfg).endTag_D g n h.1, fun b hb =>
    endTag_nf (ownStr_notSite hb).toNotSiteC g.1 n (h.2 b hb)⟩
  token_D := fun g t h => ⟨(fullCtl_panicLaws cfg).token_D g t h.1, fun b hb => by
    show NF b (token cfg g.1 t).1
    unfold NF; rw [(token_frame cfg g.1 t).2]; exact h.2 b hb⟩
  handleEnd_D := fun g h => ⟨(fullCtl_panicLaws cfg).handleEnd_D g h.1, fun b hb => by
    show NF b (handleEnd cfg g.1).1
    unfold NF; rw [handleEnd_fault]; exact h.2 b hb⟩
  startTag_err := fun g n ns e h => (fullCtl_panicLaws cfg).startTag_err g n ns e h.1
  auxInfo_err := fun g i e h => (fullCtl_panicLaws cfg).auxInfo_err g i e h.1
  token_err := fun g t e h => (fullCtl_panicLaws cfg).token_err g t e h.1
  handleEnd_err := fun g e h => (fullCtl_panicLaws cfg).handleEnd_err g e h.1

/-- **a callback of the real controller never returns one of the dispatcher's own site strings** -/
theorem cbErr_not_own (cfg : Cfg) (e : Err) (h : CbErr (fullCtl cfg) (DO cfg) e) : ¬ DispOwn e := by
  intro hown
  obtain ⟨b, hb, rfl⟩ := (dispOwn_iff e).1 hown
  have hs := ownStr_notSite hb
  obtain ⟨g, hg, h1 | h1 | h1 | h1⟩ := h
  · obtain ⟨n, ns, he⟩ := h1
    exact startTag_nb hs.toNotSiteC g.1 n ns (hg.2 b hb) he
  · obtain ⟨i, he⟩ := h1
    exact auxInfo_nb hs.toNotSiteC g.1 i he
  · obtain ⟨t, he⟩ := h1
    exact token_nb hs cfg g.1 t (hg.2 b hb) he
  · exact handleEnd_nb hs cfg g.1 (hg.2 b hb) h1

/-- the real controller and the cleaned one, with the provenance of the parting error -/
theorem fullCtl_sim_prov (cfg : Cfg) :
    CtlSim (fullCtl cfg) (cleanCtl (fullCtl cfg)) (DO cfg) (fun e => GP e ∧ CbErr (fullCtl cfg) (DO cfg) e) :=
  (cleanCtl_sim (fullCtl_panicLaws_DO cfg)).prov

theorem init_DO (cfg : Cfg) : DO cfg (FullSt.init cfg) :=
  ⟨init_fullD cfg, fun b _ hh => by cases hh⟩

end LolHtml.Model.Chunk.R
