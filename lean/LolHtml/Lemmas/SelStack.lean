/-
Lemmas.SelStack — invariants of `SelVM.Stack` (open_name_counts, typed child counters, cumulative
child counters) against the tree state of `Spec.Css`, for Thm/C04_VM.lean (`C04_counters`).
-/
import LolHtml.Lemmas.SelVM

set_option linter.unusedSimpArgs false
namespace LolHtml.SelVM
open LolHtml LolHtml.Sel LolHtml.Spec.Css

/-! ## `open_name_counts` -/

/-- count stored for key `k` (0 = no entry) -/
def cget (cs : List (Bytes × Nat)) (k : Bytes) : Nat :=
  match cs.find? (fun e => e.1 == k) with
  | some e => e.2
  | none => 0

structure CountsOk (cs : List (Bytes × Nat)) : Prop where
  pos : ∀ e ∈ cs, 1 ≤ e.2
  nodup : (cs.map (·.1)).Nodup

theorem cget_nil (k : Bytes) : cget [] k = 0 := rfl

theorem cget_cons (k' : Bytes) (c : Nat) (rest) (k : Bytes) :
    cget ((k', c) :: rest) k = if k' = k then c else cget rest k := by
  unfold cget
  by_cases h : k' = k <;> simp [h]

theorem cget_eq_zero_of_not_mem {cs : List (Bytes × Nat)} {k : Bytes} (h : k ∉ cs.map (·.1)) :
    cget cs k = 0 := by
  induction cs with
  | nil => rfl
  | cons e rest ih =>
    obtain ⟨k', c⟩ := e
    simp only [List.map_cons, List.mem_cons, not_or] at h
    rw [cget_cons, if_neg (fun h' => h.1 h'.symm)]
    exact ih h.2

theorem cget_pos_of_mem {cs : List (Bytes × Nat)} (ok : CountsOk cs) {k : Bytes} (h : k ∈ cs.map (·.1)) :
    1 ≤ cget cs k := by
  induction cs with
  | nil => simp at h
  | cons e rest ih =>
    obtain ⟨k', c⟩ := e
    rw [cget_cons]
    by_cases hk : k' = k
    · simp only [hk, if_true]; exact ok.pos (k', c) (by simp)
    · simp only [hk, if_false]
      have hr : k ∈ rest.map (·.1) := by
        simp only [List.map_cons, List.mem_cons] at h
        rcases h with h | h
        · exact absurd h.symm hk
        · exact h
      exact ih ⟨fun e he => ok.pos e (List.mem_cons_of_mem _ he), (List.nodup_cons.mp ok.nodup).2⟩ hr

theorem any_key_iff {cs : List (Bytes × Nat)} (ok : CountsOk cs) (k : Bytes) :
    (cs.any fun e => e.1 == k) = true ↔ 1 ≤ cget cs k := by
  constructor
  · intro h
    apply cget_pos_of_mem ok
    simp only [List.any_eq_true, beq_iff_eq] at h
    obtain ⟨e, he, hk⟩ := h
    exact List.mem_map.mpr ⟨e, he, hk⟩
  · intro h
    by_cases hm : k ∈ cs.map (·.1)
    · obtain ⟨e, he, hk⟩ := List.mem_map.mp hm
      simp only [List.any_eq_true, beq_iff_eq]
      exact ⟨e, he, hk⟩
    · rw [cget_eq_zero_of_not_mem hm] at h; omega

theorem keys_countsIncr (key : Bytes) (cs : List (Bytes × Nat)) :
    (countsIncr key cs).map (·.1) = if key ∈ cs.map (·.1) then cs.map (·.1) else cs.map (·.1) ++ [key] := by
  induction cs with
  | nil => simp [countsIncr]
  | cons e rest ih =>
    obtain ⟨k', c⟩ := e
    unfold countsIncr
    by_cases h : k' = key
    · simp [h]
    · have h' : ¬ key = k' := fun x => h x.symm
      simp only [beq_iff_eq, h, if_false, List.map_cons, ih, List.mem_cons, h', false_or]
      split <;> simp

theorem cget_countsIncr (key : Bytes) (cs : List (Bytes × Nat)) (k : Bytes) :
    cget (countsIncr key cs) k = cget cs k + (if k = key then 1 else 0) := by
  induction cs with
  | nil =>
    simp only [countsIncr, cget_cons, cget_nil]
    by_cases h : key = k
    · simp [h]
    · have : ¬ k = key := fun x => h x.symm
      simp [h, this]
  | cons e rest ih =>
    obtain ⟨k', c⟩ := e
    unfold countsIncr
    by_cases h : k' = key
    · subst h
      simp only [beq_self_eq_true, if_true, cget_cons]
      by_cases hk : k' = k
      · simp [hk]
      · have : ¬ k = k' := fun x => hk x.symm
        simp [hk, this]
    · simp only [beq_iff_eq, h, if_false, cget_cons, ih]
      by_cases hk : k' = k
      · have : ¬ k = key := fun x => h (hk.trans x)
        simp [hk, this]
      · simp [hk]

theorem countsIncr_ok (key : Bytes) {cs : List (Bytes × Nat)} (ok : CountsOk cs) : CountsOk (countsIncr key cs) := by
  constructor
  · induction cs with
    | nil => intro e he; simp [countsIncr] at he; subst he; exact Nat.le_refl _
    | cons e rest ih =>
      obtain ⟨k', c⟩ := e
      have okr : CountsOk rest := ⟨fun e he => ok.pos e (List.mem_cons_of_mem _ he), (List.nodup_cons.mp ok.nodup).2⟩
      intro e he
      unfold countsIncr at he
      by_cases h : k' = key
      · simp only [h, beq_self_eq_true, if_true, List.mem_cons] at he
        rcases he with he | he
        · subst he; exact Nat.le_add_left _ _
        · exact okr.pos e he
      · simp only [beq_iff_eq, h, if_false, List.mem_cons] at he
        rcases he with he | he
        · subst he; exact ok.pos (k', c) (by simp)
        · exact ih okr e he
  · rw [keys_countsIncr]
    split
    · exact ok.nodup
    · rename_i h
      exact List.nodup_append.mpr ⟨ok.nodup, by simp, by
        intro a ha b hb
        simp at hb; subst hb
        intro hab; subst hab; exact h ha⟩

theorem countsDecr_spec (key : Bytes) : ∀ {cs : List (Bytes × Nat)}, CountsOk cs → 1 ≤ cget cs key →
    ∃ cs', countsDecr key cs = .ok cs' ∧ CountsOk cs' ∧
      ∀ k, cget cs' k = cget cs k - (if k = key then 1 else 0) := by
  intro cs
  induction cs with
  | nil => intro _ h; simp [cget_nil] at h
  | cons e rest ih =>
    obtain ⟨k', c⟩ := e
    intro ok h
    have okr : CountsOk rest := ⟨fun e he => ok.pos e (List.mem_cons_of_mem _ he), (List.nodup_cons.mp ok.nodup).2⟩
    have hk'nr : k' ∉ rest.map (·.1) := (List.nodup_cons.mp ok.nodup).1
    unfold countsDecr
    by_cases hk : k' = key
    · subst hk
      simp only [beq_self_eq_true, if_true]
      have hc : 1 ≤ c := ok.pos (k', c) (by simp)
      match c, hc with
      | 1, _ =>
        refine ⟨rest, rfl, okr, ?_⟩
        intro k
        rw [cget_cons]
        by_cases h2 : k' = k
        · subst h2; simp [cget_eq_zero_of_not_mem hk'nr]
        · have : ¬ k = k' := fun x => h2 x.symm
          simp [h2, this]
      | c + 2, _ =>
        refine ⟨(k', c + 1) :: rest, rfl, ⟨?_, ?_⟩, ?_⟩
        · intro e he
          simp only [List.mem_cons] at he
          rcases he with he | he
          · subst he; exact Nat.le_add_left _ _
          · exact okr.pos e he
        · simpa using ok.nodup
        · intro k
          rw [cget_cons, cget_cons]
          by_cases h2 : k' = k
          · subst h2; simp
          · have : ¬ k = k' := fun x => h2 x.symm
            simp [h2, this]
    · rw [cget_cons, if_neg hk] at h
      obtain ⟨cs', he, ok', hget⟩ := ih okr h
      simp only [beq_iff_eq, hk, if_false, he, bind, Except.bind, pure, Except.pure]
      refine ⟨(k', c) :: cs', rfl, ⟨?_, ?_⟩, ?_⟩
      · intro e hmem
        simp only [List.mem_cons] at hmem
        rcases hmem with hmem | hmem
        · subst hmem; exact ok.pos (k', c) (by simp)
        · exact ok'.pos e hmem
      · simp only [List.map_cons, List.nodup_cons]
        refine ⟨?_, ok'.nodup⟩
        intro hmem
        have h1 : 1 ≤ cget cs' k' := cget_pos_of_mem ok' hmem
        rw [hget k', cget_eq_zero_of_not_mem hk'nr] at h1
        omega
      · intro k
        rw [cget_cons, cget_cons, hget k]
        by_cases h2 : k' = k
        · have : ¬ k = key := fun x => hk (h2.trans x)
          simp [h2, this]
        · simp [h2]


def nameKeyCount (items : List StackItem) (k : Bytes) : Nat :=
  items.countP fun it => asciiLowerBytes it.localName == k

theorem foldlM_countsDecr (d : List StackItem) : ∀ (cs : List (Bytes × Nat)) (f : Bytes → Nat),
    CountsOk cs → (∀ k, cget cs k = f k + nameKeyCount d k) →
    ∃ cs', d.foldlM (fun cs it => countsDecr (asciiLowerBytes it.localName) cs) cs = .ok cs' ∧
      CountsOk cs' ∧ ∀ k, cget cs' k = f k := by
  induction d with
  | nil => intro cs f ok h; exact ⟨cs, rfl, ok, by simpa [nameKeyCount] using h⟩
  | cons x d ih =>
    intro cs f ok h
    have h1 : 1 ≤ cget cs (asciiLowerBytes x.localName) := by
      rw [h]; simp only [nameKeyCount, List.countP_cons, beq_self_eq_true, if_true]; omega
    obtain ⟨cs1, he, ok1, hg⟩ := countsDecr_spec (asciiLowerBytes x.localName) ok h1
    have := ih cs1 f ok1 (by
      intro k
      rw [hg k, h k]
      simp only [nameKeyCount, List.countP_cons, beq_iff_eq]
      by_cases hk : asciiLowerBytes x.localName = k
      · simp [hk]
      · have : ¬ k = asciiLowerBytes x.localName := fun y => hk y.symm
        simp [hk, this])
    obtain ⟨cs', he', ok', hg'⟩ := this
    exact ⟨cs', by simp [List.foldlM_cons, he, he', bind, Except.bind], ok', hg'⟩

/-! ## typed child counters -/

/-- number of names in `sibs` whose lower-cased form is `k` -/
def keyCount (k : Bytes) (sibs : List Bytes) : Nat := sibs.countP fun n => asciiLowerBytes n == k

/-- What the counter list of key `k` must be, top (current level) first, for the sibling-name lists
    `levels` (innermost level first, root level last; the level of a list is the number of lists
    below it). -/
def expectedTop (k : Bytes) : List (List Bytes) → List CounterItem
  | [] => []
  | sibs :: rest =>
    (if 0 < keyCount k sibs then [⟨keyCount k sibs, rest.length⟩] else []) ++ expectedTop k rest

def clList (cl : CounterList) : List CounterItem := cl.current :: cl.items.reverse

def mget (m : TypedChildCounterMap) (k : Bytes) : List CounterItem :=
  match m.find? (fun e => e.1 == k) with
  | some e => clList e.2
  | none => []

structure TypedInv (m : TypedChildCounterMap) (levels : List (List Bytes)) : Prop where
  nodup : (m.map (·.1)).Nodup
  get : ∀ k, mget m k = expectedTop k levels

theorem expectedTop_index_lt (k : Bytes) : ∀ (L : List (List Bytes)) (e : CounterItem),
    e ∈ expectedTop k L → e.index < L.length := by
  intro L
  induction L with
  | nil => intro e h; simp [expectedTop] at h
  | cons sibs rest ih =>
    intro e h
    simp only [expectedTop, List.mem_append] at h
    rcases h with h | h
    · split at h
      · simp at h; subst h; simp
      · simp at h
    · have := ih e h; simp; omega

theorem mget_cons (k' : Bytes) (cl : CounterList) (rest : TypedChildCounterMap) (k : Bytes) :
    mget ((k', cl) :: rest) k = if k' = k then clList cl else mget rest k := by
  unfold mget
  by_cases h : k' = k <;> simp [h]

theorem mget_eq_nil_of_not_mem {m : TypedChildCounterMap} {k : Bytes} (h : k ∉ m.map (·.1)) : mget m k = [] := by
  induction m with
  | nil => rfl
  | cons e rest ih =>
    obtain ⟨k', cl⟩ := e
    simp only [List.map_cons, List.mem_cons, not_or] at h
    rw [mget_cons, if_neg (fun h' => h.1 h'.symm)]
    exact ih h.2

theorem mem_keys_of_mget_ne_nil {m : TypedChildCounterMap} {k : Bytes} (h : mget m k ≠ []) : k ∈ m.map (·.1) := by
  apply Classical.byContradiction; intro hn; exact h (mget_eq_nil_of_not_mem hn)

/-- effect of `add_child` on one key's list -/
def bumpList (idx : Nat) : List CounterItem → List CounterItem
  | [] => [⟨1, idx⟩]
  | c :: r => if c.index == idx then ⟨c.counter + 1, c.index⟩ :: r else ⟨1, idx⟩ :: c :: r

theorem mget_addChild (m : TypedChildCounterMap) (name : Bytes) (idx : Nat) (k : Bytes) :
    mget (TypedChildCounterMap.addChild m name idx) k =
      if k = asciiLowerBytes name then bumpList idx (mget m k) else mget m k := by
  induction m with
  | nil =>
    simp only [TypedChildCounterMap.addChild, mget_cons]
    by_cases h : asciiLowerBytes name = k
    · simp [h, mget, bumpList, clList]
    · have : ¬ k = asciiLowerBytes name := fun x => h x.symm
      simp [h, this, mget]
  | cons e rest ih =>
    obtain ⟨k', cl⟩ := e
    unfold TypedChildCounterMap.addChild
    by_cases hk : k' = asciiLowerBytes name
    · simp only [hk, beq_self_eq_true, if_true]
      by_cases hi : cl.current.index = idx
      · simp only [hi, beq_self_eq_true, if_true, mget_cons]
        by_cases h2 : asciiLowerBytes name = k
        · simp [h2, bumpList, clList, hi]
        · have : ¬ k = asciiLowerBytes name := fun x => h2 x.symm
          simp [h2, this]
      · have hi' : (cl.current.index == idx) = false := by simp [hi]
        simp only [hi', Bool.false_eq_true, if_false, mget_cons]
        by_cases h2 : asciiLowerBytes name = k
        · simp [h2, bumpList, clList, hi']
        · have : ¬ k = asciiLowerBytes name := fun x => h2 x.symm
          simp [h2, this]
    · simp only [beq_iff_eq, hk, if_false, mget_cons, ih]
      by_cases h2 : k' = k
      · have : ¬ k = asciiLowerBytes name := fun x => hk (h2.trans x)
        simp [h2, this]
      · simp [h2]

theorem keys_addChild (m : TypedChildCounterMap) (name : Bytes) (idx : Nat) :
    (TypedChildCounterMap.addChild m name idx).map (·.1) =
      if asciiLowerBytes name ∈ m.map (·.1) then m.map (·.1) else m.map (·.1) ++ [asciiLowerBytes name] := by
  induction m with
  | nil => simp [TypedChildCounterMap.addChild]
  | cons e rest ih =>
    obtain ⟨k', cl⟩ := e
    unfold TypedChildCounterMap.addChild
    by_cases h : k' = asciiLowerBytes name
    · simp only [h, beq_self_eq_true, if_true]
      split <;> simp
    · have h' : ¬ asciiLowerBytes name = k' := fun x => h x.symm
      simp only [beq_iff_eq, h, if_false, List.map_cons, ih, List.mem_cons, h', false_or]
      split <;> simp

theorem keyCount_append_singleton (k : Bytes) (sibs : List Bytes) (name : Bytes) :
    keyCount k (sibs ++ [name]) = keyCount k sibs + (if k = asciiLowerBytes name then 1 else 0) := by
  simp only [keyCount, List.countP_append, List.countP_cons, List.countP_nil, beq_iff_eq]
  by_cases h : asciiLowerBytes name = k
  · simp [h]
  · have : ¬ k = asciiLowerBytes name := fun x => h x.symm
    simp [h, this]

/-- `add_child(name, index)` at the current level keeps the typed counters exact. -/
theorem TypedInv.addChild {m : TypedChildCounterMap} {sibs : List Bytes} {rest : List (List Bytes)}
    (inv : TypedInv m (sibs :: rest)) (name : Bytes) :
    TypedInv (TypedChildCounterMap.addChild m name rest.length) ((sibs ++ [name]) :: rest) := by
  constructor
  · rw [keys_addChild]
    split
    · exact inv.nodup
    · rename_i h
      exact List.nodup_append.mpr ⟨inv.nodup, by simp, by
        intro a ha b hb
        simp at hb; subst hb
        intro hab; subst hab; exact h ha⟩
  · intro k
    rw [mget_addChild, inv.get k]
    simp only [expectedTop, keyCount_append_singleton]
    by_cases hk : k = asciiLowerBytes name
    · simp only [hk, if_true]
      by_cases hc : 0 < keyCount (asciiLowerBytes name) sibs
      · simp [hc, bumpList]
      · have hlt := expectedTop_index_lt (asciiLowerBytes name) rest
        simp only [hc, if_false, List.nil_append]
        cases he : expectedTop (asciiLowerBytes name) rest with
        | nil => simp [bumpList]; omega
        | cons c r =>
          have : c.index < rest.length := hlt c (by simp [he])
          have hne : (c.index == rest.length) = false := by simp; omega
          simp [bumpList, hne]; omega
    · simp [hk]

theorem TypedInv.push {m : TypedChildCounterMap} {levels : List (List Bytes)} (inv : TypedInv m levels) :
    TypedInv m ([] :: levels) :=
  ⟨inv.nodup, fun k => by rw [inv.get k]; simp [expectedTop, keyCount]⟩

theorem CounterList.popTo_eq (index : Nat) : ∀ (itemsRev : List CounterItem) (cur : CounterItem),
    CounterList.popTo cur index itemsRev =
      match (cur :: itemsRev).dropWhile (fun c => decide (c.index > index)) with
      | [] => none
      | c :: r => some (r, c) := by
  intro itemsRev
  induction itemsRev with
  | nil =>
    intro cur
    by_cases h : cur.index > index <;> simp [CounterList.popTo, List.dropWhile, h]
  | cons next rest ih =>
    intro cur
    by_cases h : cur.index > index
    · simp only [CounterList.popTo, h, if_true, ih next, List.dropWhile_cons, decide_true]
    · simp [CounterList.popTo, List.dropWhile, h]

theorem TypedChildCounterMap.popTo_cons (k' : Bytes) (cl : CounterList) (rest : TypedChildCounterMap) (index : Nat) :
    TypedChildCounterMap.popTo ((k', cl) :: rest) index =
      match CounterList.popTo cl.current index cl.items.reverse with
      | none => TypedChildCounterMap.popTo rest index
      | some r => (k', ⟨r.1.reverse, r.2⟩) :: TypedChildCounterMap.popTo rest index := by
  unfold TypedChildCounterMap.popTo
  simp only [List.filterMap_cons]
  cases CounterList.popTo cl.current index cl.items.reverse <;> rfl

theorem mget_popTo {m : TypedChildCounterMap} (nd : (m.map (·.1)).Nodup) (index : Nat) (k : Bytes) :
    mget (TypedChildCounterMap.popTo m index) k =
      (mget m k).dropWhile (fun c => decide (c.index > index)) := by
  induction m with
  | nil => rfl
  | cons e rest ih =>
    obtain ⟨k', cl⟩ := e
    have ndr : (rest.map (·.1)).Nodup := (List.nodup_cons.mp nd).2
    have hk'nr : k' ∉ rest.map (·.1) := (List.nodup_cons.mp nd).1
    have ihr := ih ndr
    rw [TypedChildCounterMap.popTo_cons, CounterList.popTo_eq, mget_cons]
    by_cases hk : k' = k
    · subst hk
      simp only [if_true, clList]
      cases hd : (cl.current :: cl.items.reverse).dropWhile (fun c => decide (c.index > index)) with
      | nil =>
        simp only []
        rw [ihr, mget_eq_nil_of_not_mem hk'nr]; rfl
      | cons c r => simp [mget_cons, clList]
    · simp only [hk, if_false]
      cases hd : (cl.current :: cl.items.reverse).dropWhile (fun c => decide (c.index > index)) with
      | nil => exact ihr
      | cons c r => simp only [mget_cons, hk, if_false]; exact ihr

theorem keys_popTo_sublist (m : TypedChildCounterMap) (index : Nat) :
    ((TypedChildCounterMap.popTo m index).map (·.1)).Sublist (m.map (·.1)) := by
  induction m with
  | nil => exact List.Sublist.slnil
  | cons e rest ih =>
    obtain ⟨k', cl⟩ := e
    rw [TypedChildCounterMap.popTo_cons]
    cases CounterList.popTo cl.current index cl.items.reverse with
    | none => exact List.Sublist.cons _ ih
    | some r => exact List.Sublist.cons_cons _ ih

theorem dropWhile_expectedTop (k : Bytes) (index : Nat) : ∀ (L : List (List Bytes)), index + 1 ≤ L.length →
    (expectedTop k L).dropWhile (fun c => decide (c.index > index)) =
      expectedTop k (L.drop (L.length - (index + 1))) := by
  intro L
  induction L with
  | nil => intro h; simp at h
  | cons sibs rest ih =>
    intro h
    by_cases hlen : index + 1 ≤ rest.length
    · -- the head level is dropped
      have hd : (sibs :: rest).length - (index + 1) = (rest.length - (index + 1)) + 1 := by simp; omega
      rw [hd, List.drop_succ_cons, ← ih hlen]
      simp only [expectedTop]
      split
      · have : rest.length > index := by omega
        simp [this]
      · simp
    · have hl : rest.length = index := by simp at h; omega
      have hd : (sibs :: rest).length - (index + 1) = 0 := by simp; omega
      rw [hd, List.drop_zero]
      have hlt := expectedTop_index_lt k (sibs :: rest)
      cases he : expectedTop k (sibs :: rest) with
      | nil => rfl
      | cons c r =>
        have := hlt c (by simp [he])
        have hn : ¬ (c.index > index) := by simp at this; omega
        simp [hn]

theorem TypedInv.popTo {m : TypedChildCounterMap} {levels : List (List Bytes)} (inv : TypedInv m levels)
    (index : Nat) (h : index + 1 ≤ levels.length) :
    TypedInv (TypedChildCounterMap.popTo m index) (levels.drop (levels.length - (index + 1))) :=
  ⟨(keys_popTo_sublist m index).nodup inv.nodup, fun k => by
    rw [mget_popTo inv.nodup, inv.get k, dropWhile_expectedTop k index levels h]⟩

/-- `get(name, index)` at the current level, right after `add_child(name, index)`. -/
theorem TypedInv.get_current {m : TypedChildCounterMap} {sibs : List Bytes} {rest : List (List Bytes)}
    (inv : TypedInv m (sibs :: rest)) (name : Bytes) (h : 0 < keyCount (asciiLowerBytes name) sibs) :
    TypedChildCounterMap.get m name rest.length = some (keyCount (asciiLowerBytes name) sibs) := by
  have hg := inv.get (asciiLowerBytes name)
  simp only [expectedTop, h, if_true] at hg
  unfold mget at hg
  unfold TypedChildCounterMap.get
  cases hf : m.find? (fun e => e.1 == asciiLowerBytes name) with
  | none => rw [hf] at hg; simp at hg
  | some e =>
    rw [hf] at hg
    simp only [clList, List.singleton_append, List.cons.injEq] at hg
    obtain ⟨k', cl⟩ := e
    simp only at hg ⊢
    simp [hg.1]
/-! ## the stack against the specification's tree state -/

/-- sibling-name lists per level, innermost level first, root level last -/
def levelsOf (ts : TreeState) : List (List Bytes) := ts.open.map (·.children) ++ [ts.rootChildren]

/-- The stack of the VM mirrors the open elements of the specification's tree state. -/
structure StackInv (s : Stack) (ts : TreeState) : Prop where
  names : s.items.reverse.map (·.localName) = ts.open.map (·.elem.tag.name)
  cum : s.items.reverse.map (·.childCounter) = ts.open.map (·.children.length)
  root : s.rootChildCounter = ts.rootChildren.length
  countsOk : CountsOk s.openNameCounts
  counts : ∀ k, cget s.openNameCounts k = nameKeyCount s.items k
  typed : ∀ m, s.typedChildCounters = some m → TypedInv m (levelsOf ts)

theorem StackInv.length_eq {s ts} (inv : StackInv s ts) : s.items.length = ts.open.length := by
  have := congrArg List.length inv.names
  simpa using this

theorem incLastChildCounter_concat (l : List StackItem) (x : StackItem) :
    incLastChildCounter (l ++ [x]) = l ++ [{ x with childCounter := x.childCounter + 1 }] := by
  induction l with
  | nil => rfl
  | cons a l ih =>
    cases l with
    | nil => rfl
    | cons b l => simp only [List.cons_append, incLastChildCounter] at ih ⊢; rw [ih]

theorem incLastChildCounter_length (l : List StackItem) : (incLastChildCounter l).length = l.length := by
  rcases List.eq_nil_or_concat l with h | ⟨l', x, h⟩
  · subst h; rfl
  · subst h; simp [List.concat_eq_append, incLastChildCounter_concat]

theorem StackInv.init (nth : Bool) : StackInv (Stack.new nth) {} := by
  refine ⟨rfl, rfl, rfl, ⟨by simp [Stack.new], by simp [Stack.new]⟩, fun k => by simp [Stack.new, cget, nameKeyCount], ?_⟩
  intro m hm
  cases nth <;> simp [Stack.new] at hm
  subst hm
  exact ⟨by simp, fun k => by simp [mget, levelsOf, expectedTop, keyCount]⟩

/-- tree state after recording the child, before possibly opening it -/
def TreeState.withChild (ts : TreeState) (name : Bytes) : TreeState :=
  match ts.open with
  | [] => { ts with rootChildren := ts.rootChildren ++ [name] }
  | o :: rest => { ts with «open» := { o with children := o.children ++ [name] } :: rest }

theorem startTag_eq (ts : TreeState) (t : StartTag) (esi : Bool) :
    ts.startTag t esi =
      if staysOpen t esi then
        { TreeState.withChild ts t.name with «open» := ⟨ts.elemFor t, []⟩ :: (TreeState.withChild ts t.name).open }
      else TreeState.withChild ts t.name := by
  unfold TreeState.startTag TreeState.withChild
  cases ts.open <;> rfl

theorem StackInv.addChild {s ts} (inv : StackInv s ts) (name : Bytes) :
    StackInv (s.addChild name) (TreeState.withChild ts name) := by
  have hlen := inv.length_eq
  obtain ⟨names, cum, root, cok, counts, typed⟩ := inv
  unfold Stack.addChild TreeState.withChild
  cases hopen : ts.open with
  | nil =>
    have hitems : s.items = [] := by
      rw [hopen] at hlen; exact List.eq_nil_of_length_eq_zero hlen
    simp only [hitems, List.isEmpty_nil, if_true]
    refine ⟨by simp [hitems, hopen], by simp [hitems, hopen], by simp [root], cok,
      by simpa [hitems] using counts, ?_⟩
    intro m hm
    cases htc : s.typedChildCounters with
    | none => simp [htc] at hm
    | some m0 =>
      simp only [htc, Option.map_some, Option.some.injEq] at hm
      subst hm
      have h0 := typed m0 htc
      simp only [levelsOf, hopen, List.map_nil, List.nil_append] at h0 ⊢
      simpa using h0.addChild name
  | cons o rest =>
    rw [hopen] at names cum hlen
    rcases List.eq_nil_or_concat s.items with hitems | ⟨l, x, hitems⟩
    · rw [hitems] at hlen; simp at hlen
    · rw [List.concat_eq_append] at hitems
      have hne : s.items.isEmpty = false := by rw [hitems]; simp
      simp only [hne, Bool.false_eq_true, if_false]
      rw [hitems] at names cum
      simp only [List.reverse_append, List.reverse_cons, List.reverse_nil, List.nil_append,
        List.singleton_append, List.map_cons, List.cons.injEq] at names cum
      refine ⟨?_, ?_, root, cok, ?_, ?_⟩
      · simp [hitems, incLastChildCounter_concat, names.1, names.2]
      · simp [hitems, incLastChildCounter_concat, cum.1, cum.2]
      · intro k
        rw [counts k, hitems, incLastChildCounter_concat]
        simp [nameKeyCount, List.countP_append]
      · intro m hm
        cases htc : s.typedChildCounters with
        | none => simp [htc] at hm
        | some m0 =>
          simp only [htc, Option.map_some, Option.some.injEq] at hm
          subst hm
          have h0 := typed m0 htc
          simp only [levelsOf, hopen, List.map_cons, List.cons_append] at h0 ⊢
          have hl : (incLastChildCounter s.items).length = (rest.map (·.children) ++ [ts.rootChildren]).length := by
            rw [incLastChildCounter_length]; simp [hitems] at hlen ⊢; omega
          rw [hl]
          exact h0.addChild name

theorem StackInv.pushItem {s ts} (inv : StackInv s ts) (item : StackItem) (e : Elem)
    (hn : item.localName = e.tag.name) (hc : item.childCounter = 0) :
    StackInv (s.pushItem item) { ts with «open» := ⟨e, []⟩ :: ts.open } := by
  obtain ⟨names, cum, root, cok, counts, typed⟩ := inv
  unfold Stack.pushItem
  refine ⟨by simp [names, hn], by simp [cum, hc], root, countsIncr_ok _ cok, ?_, ?_⟩
  · intro k
    simp only [cget_countsIncr, counts k, nameKeyCount, List.countP_append, List.countP_cons,
      List.countP_nil, beq_iff_eq]
    by_cases h : asciiLowerBytes item.localName = k
    · simp [h]
    · have : ¬ k = asciiLowerBytes item.localName := fun x => h x.symm
      simp [h, this]
  · intro m hm
    exact (typed m hm).push

theorem closeUpTo_eq_drop (name : Bytes) : ∀ (l : List OpenElem) (i : Nat),
    l.findIdx? (fun o => localNameEq o.elem.tag.name name) = some i → closeUpTo name l = l.drop (i + 1) := by
  intro l
  induction l with
  | nil => intro i h; simp at h
  | cons o rest ih =>
    intro i h
    simp only [List.findIdx?_cons] at h
    unfold closeUpTo
    by_cases hp : localNameEq o.elem.tag.name name = true
    · simp only [hp, if_true] at h ⊢
      simp at h; subst h; simp
    · have hp' : localNameEq o.elem.tag.name name = false := by simpa using hp
      simp only [hp', Bool.false_eq_true, if_false] at h ⊢
      simp only [Option.map_eq_some_iff] at h
      obtain ⟨j, hj, hij⟩ := h
      subst hij
      simpa using ih j hj

theorem findIdx?_reverse_items {s ts} (inv : StackInv s ts) (name : Bytes) :
    s.items.reverse.findIdx? (fun it => localNameEq it.localName name) =
      ts.open.findIdx? (fun o => localNameEq o.elem.tag.name name) := by
  have h1 : s.items.reverse.findIdx? (fun it => localNameEq it.localName name) =
      (s.items.reverse.map (·.localName)).findIdx? (fun n => localNameEq n name) := by
    rw [List.findIdx?_map]; rfl
  have h2 : ts.open.findIdx? (fun o => localNameEq o.elem.tag.name name) =
      (ts.open.map (·.elem.tag.name)).findIdx? (fun n => localNameEq n name) := by
    rw [List.findIdx?_map]; rfl
  rw [h1, h2, inv.names]

theorem localNameEq_iff (a b : Bytes) : localNameEq a b = true ↔ asciiLowerBytes a = asciiLowerBytes b := by
  simp [localNameEq, eqIgnoreAsciiCase]

theorem nameKeyCount_pos_iff (items : List StackItem) (name : Bytes) :
    1 ≤ nameKeyCount items (asciiLowerBytes name) ↔
      (items.reverse.findIdx? (fun it => localNameEq it.localName name)).isSome = true := by
  rw [List.findIdx?_isSome]
  simp only [nameKeyCount, Nat.succ_le_iff, List.countP_pos_iff, beq_iff_eq, List.any_eq_true,
    List.mem_reverse, localNameEq_iff]

theorem nameKeyCount_append (a b : List StackItem) (k : Bytes) :
    nameKeyCount (a ++ b) k = nameKeyCount a k + nameKeyCount b k := by
  simp [nameKeyCount, List.countP_append]

/-- `pop_up_to` never panics on a stack that satisfies the invariant, and closes exactly the
    elements the specification closes for that end tag. -/
theorem StackInv.popUpTo {s ts} (inv : StackInv s ts) (name : Bytes) :
    ∃ s' d, s.popUpTo name = .ok (s', d) ∧ StackInv s' (ts.endTag name) := by
  have hlen := inv.length_eq
  have hfind := findIdx?_reverse_items inv name
  obtain ⟨names, cum, root, cok, counts, typed⟩ := inv
  unfold Stack.popUpTo TreeState.endTag
  have hany : (s.openNameCounts.any fun e => e.1 == asciiLowerBytes name) = true ↔
      (ts.open.findIdx? (fun o => localNameEq o.elem.tag.name name)).isSome = true := by
    rw [any_key_iff cok, counts, nameKeyCount_pos_iff, hfind]
  cases hf : ts.open.findIdx? (fun o => localNameEq o.elem.tag.name name) with
  | none =>
    have h1 : (s.openNameCounts.any fun e => e.1 == asciiLowerBytes name) = false := by
      cases h : (s.openNameCounts.any fun e => e.1 == asciiLowerBytes name) with
      | false => rfl
      | true => rw [hf] at hany; simp [h] at hany
    have h2 : (ts.open.any fun o => localNameEq o.elem.tag.name name) = false := by
      have := List.findIdx?_isSome (xs := ts.open) (p := fun o => localNameEq o.elem.tag.name name)
      rw [hf] at this; simpa using this.symm
    simp only [h1, h2, Bool.not_false, if_true, Bool.false_eq_true, if_false, pure, Except.pure]
    exact ⟨s, [], rfl, ⟨names, cum, root, cok, counts, typed⟩⟩
  | some i =>
    have h1 : (s.openNameCounts.any fun e => e.1 == asciiLowerBytes name) = true := by
      rw [hany, hf]; rfl
    have h2 : (ts.open.any fun o => localNameEq o.elem.tag.name name) = true := by
      have := List.findIdx?_isSome (xs := ts.open) (p := fun o => localNameEq o.elem.tag.name name)
      rw [hf] at this; simpa using this.symm
    have hi : i < ts.open.length := by
      have := List.findIdx?_eq_some_iff_findIdx_eq.mp hf
      exact this.1
    rw [hf] at hfind
    simp only [h1, h2, Bool.not_true, Bool.false_eq_true, if_false, if_true, rposition, hfind,
      closeUpTo_eq_drop name ts.open i hf]
    -- split the items
    have hsplit : s.items = s.items.take (s.items.length - 1 - i) ++ s.items.drop (s.items.length - 1 - i) :=
      (List.take_append_drop _ _).symm
    obtain ⟨cs', hfold, cok', hget⟩ := foldlM_countsDecr (s.items.drop (s.items.length - 1 - i)) s.openNameCounts
      (nameKeyCount (s.items.take (s.items.length - 1 - i))) cok (by
        intro k
        rw [counts k, ← nameKeyCount_append, ← hsplit])
    simp only [hfold, bind, Except.bind, pure, Except.pure]
    refine ⟨_, _, rfl, ?_⟩
    have hrev : (s.items.take (s.items.length - 1 - i)).reverse = s.items.reverse.drop (i + 1) := by
      rw [List.reverse_take]
      congr 1
      omega
    refine ⟨?_, ?_, root, cok', hget, ?_⟩
    · simp only [hrev, List.map_drop, names]
    · simp only [hrev, List.map_drop, cum]
    · intro m hm
      cases htc : s.typedChildCounters with
      | none => simp [htc] at hm
      | some m0 =>
        simp only [htc, Option.map_some, Option.some.injEq] at hm
        subst hm
        have h0 := (typed m0 htc).popTo (s.items.length - 1 - i) (by simp [levelsOf]; omega)
        have hd : (levelsOf ts).length - (s.items.length - 1 - i + 1) = i + 1 := by
          simp [levelsOf]; omega
        rw [hd] at h0
        have : (levelsOf ts).drop (i + 1) =
            levelsOf { ts with «open» := ts.open.drop (i + 1) } := by
          simp only [levelsOf, List.map_drop]
          rw [List.drop_append_of_le_length (by simp; omega)]
        rw [this] at h0
        exact h0
/-! ## the VM run keeps the invariant -/

theorem keyCount_eq_filter (name : Bytes) (sibs : List Bytes) :
    keyCount (asciiLowerBytes name) sibs = (sibs.filter fun n => localNameEq n name).length := by
  simp [keyCount, List.countP_eq_length_filter, localNameEq, eqIgnoreAsciiCase]

/-- `build_state` right after `add_child` returns the 1-based sibling index and (when typed
    counters are enabled) the 1-based index among same-type siblings. -/
theorem StackInv.buildState_addChild {s ts} (inv : StackInv s ts) (name : Bytes) :
    ((s.addChild name).buildState name).cumulative = ts.siblingsSoFar.length + 1 ∧
    (s.typedChildCounters.isSome = true →
      ((s.addChild name).buildState name).typed =
        some ((ts.siblingsSoFar.filter fun n => localNameEq n name).length + 1)) := by
  have inv' := inv.addChild name
  have hlen' := inv'.length_eq
  obtain ⟨names, cum, root, _, _, typed⟩ := inv'
  unfold Stack.buildState
  unfold TreeState.withChild at names cum root typed hlen'
  unfold TreeState.siblingsSoFar
  cases hopen : ts.open with
  | nil =>
    simp only [hopen] at names cum root typed hlen'
    have hitems : (s.addChild name).items = [] := List.eq_nil_of_length_eq_zero (by simpa using hlen')
    constructor
    · simp [hitems, root]
    · intro hsome
      cases htc : (s.addChild name).typedChildCounters with
      | none =>
        simp [Stack.addChild] at htc
        split at htc <;> simp_all
      | some m =>
        have h0 := typed m htc
        simp only [levelsOf, List.map_nil, List.nil_append] at h0
        have := h0.get_current (rest := []) name (by rw [keyCount_append_singleton]; simp)
        simp only [Option.bind_some, hitems, List.length_nil]
        simpa [keyCount_append_singleton, keyCount_eq_filter] using this
  | cons o rest =>
    simp only [hopen] at names cum root typed hlen'
    rcases List.eq_nil_or_concat (s.addChild name).items with hitems | ⟨l, x, hitems⟩
    · rw [hitems] at hlen'; simp at hlen'
    · rw [List.concat_eq_append] at hitems
      rw [hitems] at cum
      simp only [List.reverse_append, List.reverse_cons, List.reverse_nil, List.nil_append,
        List.singleton_append, List.map_cons, List.cons.injEq] at cum
      constructor
      · simp [hitems, cum.1]
      · intro hsome
        cases htc : (s.addChild name).typedChildCounters with
        | none =>
          simp [Stack.addChild] at htc
          split at htc <;> simp_all
        | some m =>
          have h0 := typed m htc
          simp only [levelsOf, List.map_cons, List.cons_append] at h0
          have := h0.get_current name (by rw [keyCount_append_singleton]; simp)
          have hl : (s.addChild name).items.length = (rest.map (·.children) ++ [ts.rootChildren]).length := by
            simp at hlen' ⊢; omega
          simp only [Option.bind_some, hl]
          simpa [keyCount_append_singleton, keyCount_eq_filter] using this

/-- effect of a start tag on the stack, whatever the program -/
theorem Vm.handleStartTag_stack {vm vm' : Vm} {t : StartTag} {ms}
    (h : vm.handleStartTag t = .ok (vm', ms)) :
    vm'.program = vm.program ∧ vm'.enableEsiTags = vm.enableEsiTags ∧
    ∃ item : StackItem, item.localName = t.name ∧ item.childCounter = 0 ∧
      vm'.stack = if staysOpen t vm.enableEsiTags then (vm.stack.addChild t.name).pushItem item
                  else vm.stack.addChild t.name := by
  rw [Vm.handleStartTag_eq] at h
  simp only [bind, Except.bind] at h
  split at h
  · cases h
  · rename_i ctx' hc
    have sf := Vm.execAllWithAttrs_sameFrame _ _ _ _ hc
    simp only [pure, Except.pure, Except.ok.injEq] at h
    have h1 := congrArg Prod.fst h
    simp only at h1
    subst h1
    unfold Vm.finish
    have hw : ctx'.withContent = staysOpen t vm.enableEsiTags := sf.2.2.1
    refine ⟨?_, ?_, ctx'.stackItem, sf.1, sf.2.2.2, ?_⟩
    · split <;> rfl
    · split <;> rfl
    · rw [hw]; split <;> rfl

theorem StackInv.handleStartTag {vm vm' : Vm} {ts : TreeState} {t : StartTag} {ms}
    (inv : StackInv vm.stack ts) (h : vm.handleStartTag t = .ok (vm', ms)) :
    StackInv vm'.stack (ts.startTag t vm.enableEsiTags) := by
  obtain ⟨_, _, item, hn, hc, hs⟩ := Vm.handleStartTag_stack h
  rw [hs, startTag_eq]
  have inv1 := inv.addChild t.name
  split
  · exact inv1.pushItem item (ts.elemFor t) hn hc
  · exact inv1

theorem StackInv.handleEndTag {vm : Vm} {ts : TreeState} (inv : StackInv vm.stack ts) (name : Bytes) :
    ∃ vm', vm.handleEndTag name = .ok vm' ∧ vm'.program = vm.program ∧
      vm'.enableEsiTags = vm.enableEsiTags ∧ StackInv vm'.stack (ts.endTag name) := by
  obtain ⟨s', d, he, inv'⟩ := inv.popUpTo name
  refine ⟨{ vm with stack := s' }, ?_, rfl, rfl, inv'⟩
  simp [Vm.handleEndTag, Vm.execForEndTag, he, bind, Except.bind, pure, Except.pure]

theorem StackInv.runAux (esi : Bool) : ∀ (evs : List Event) (vm vm' : Vm) (ts : TreeState) (ord acc res),
    vm.enableEsiTags = esi → StackInv vm.stack ts → vm.runAux evs ord acc = .ok (vm', res) →
    vm'.program = vm.program ∧ vm'.enableEsiTags = esi ∧
      StackInv vm'.stack (evs.foldl (fun s e => s.step esi e) ts) := by
  intro evs
  induction evs with
  | nil =>
    intro vm vm' ts ord acc res hesi inv h
    simp [Vm.runAux, pure, Except.pure] at h
    rw [← h.1]; exact ⟨rfl, hesi, inv⟩
  | cons e rest ih =>
    intro vm vm' ts ord acc res hesi inv h
    cases e with
    | start t =>
      simp only [Vm.runAux, bind, Except.bind] at h
      split at h
      · cases h
      · rename_i r hr
        obtain ⟨vm1, ms⟩ := r
        have inv1 := inv.handleStartTag hr
        obtain ⟨hp, he, _⟩ := Vm.handleStartTag_stack hr
        have := ih vm1 vm' _ _ _ _ (he.trans hesi) inv1 h
        rw [hesi] at this
        exact ⟨this.1.trans hp, this.2.1, by simpa [List.foldl_cons, TreeState.step] using this.2.2⟩
    | end_ n =>
      obtain ⟨vm1, he1, hp, he, inv1⟩ := inv.handleEndTag n
      simp only [Vm.runAux, he1, bind, Except.bind] at h
      have := ih vm1 vm' _ _ _ _ (he.trans hesi) inv1 h
      exact ⟨this.1.trans hp, this.2.1, by simpa [List.foldl_cons, TreeState.step] using this.2.2⟩

theorem Stack.addChild_typed_isSome (s : Stack) (name : Bytes) :
    (s.addChild name).typedChildCounters.isSome = s.typedChildCounters.isSome := by
  unfold Stack.addChild
  split <;> cases s.typedChildCounters <;> rfl

theorem Stack.pushItem_typed (s : Stack) (item : StackItem) :
    (s.pushItem item).typedChildCounters = s.typedChildCounters := rfl

theorem Stack.popUpTo_typed_isSome {s s' : Stack} {name d} (h : s.popUpTo name = .ok (s', d)) :
    s'.typedChildCounters.isSome = s.typedChildCounters.isSome := by
  unfold Stack.popUpTo at h
  split at h
  · simp [pure, Except.pure] at h; rw [← h.1]
  · split at h
    · simp [pure, Except.pure] at h; rw [← h.1]
    · simp only [bind, Except.bind] at h
      split at h
      · cases h
      · simp [pure, Except.pure] at h
        rw [← h.1]
        cases s.typedChildCounters <;> rfl

theorem Vm.runAux_typed_isSome : ∀ (evs : List Event) (vm vm' : Vm) (ord acc res),
    vm.runAux evs ord acc = .ok (vm', res) →
    vm'.stack.typedChildCounters.isSome = vm.stack.typedChildCounters.isSome := by
  intro evs
  induction evs with
  | nil => intro vm vm' ord acc res h; simp [Vm.runAux, pure, Except.pure] at h; rw [← h.1]
  | cons e rest ih =>
    intro vm vm' ord acc res h
    cases e with
    | start t =>
      simp only [Vm.runAux, bind, Except.bind] at h
      split at h
      · cases h
      · rename_i r hr
        obtain ⟨vm1, ms⟩ := r
        obtain ⟨_, _, item, _, _, hs⟩ := Vm.handleStartTag_stack hr
        rw [ih vm1 vm' _ _ _ h, hs]
        split
        · rw [Stack.pushItem_typed, Stack.addChild_typed_isSome]
        · rw [Stack.addChild_typed_isSome]
    | end_ n =>
      simp only [Vm.runAux, Vm.handleEndTag, Vm.execForEndTag, bind, Except.bind] at h
      split at h
      · cases h
      · rename_i vm1 h1
        split at h1
        · cases h1
        · rename_i r hr
          simp [pure, Except.pure] at h1
          rw [ih vm1 vm' _ _ _ h, ← h1]
          split at hr
          · cases hr
          · rename_i v hv
            simp [pure, Except.pure] at hr
            rw [← hr]
            exact Stack.popUpTo_typed_isSome (d := v.2) hv
end LolHtml.SelVM
