import LolHtml.Lemmas.PreserveOk
/-!
Relational parametricity of the parser in its sink ("the parser treats its sink as a black box").

Two sinks `ops₁` on `κ₁` and `ops₂` on `κ₂`, related by `R`: every operation, started in related
states on the same lexeme, either ends in related states with the same result, or `ops₁` aborts with
the distinguished error `eG` (`OpsRel`). Then, for tables whose sink-calling actions are written with
`?` (`EmitsChecked`), `Parser::parse` over the two sinks, started on related parsers, either ends in
related parsers with the same result, or the first one returns `eG`.

Uses: a *guarded* copy of a sink (`R` = equality, the guard aborts) — whatever is proved about the
guarded run holds of the real run once the guard is shown never to fire; and two sinks that differ
only in data the parser never looks at (e.g. the bytes the handlers wrote).
-/
namespace LolHtml.Model

variable {κ₁ κ₂ : Type}

/-! ### decompositions of two interpreter functions (definitional) -/

section decomp
variable {κ : Type}

/-- outcome of matching a character sequence arm at the consumed byte -/
def seqFirst (inp : Bytes) (ch : Option UInt8) (e0 : UInt8) (es : List UInt8) (ic : Bool) (c : Common) : SeqMatch :=
  match ch with
  | some c0 => if seqCmp c0 e0 ic then matchSeqFrom inp c.isLast ic c.nextPos 1 es else .mismatch
  | none => if c.isLast then .mismatch else .needMore

theorem runSeqArms_chSeq (env : Env κ) (inp : Bytes) (ch : Option UInt8) (arm : Arm) (rest : List Arm) (m : M κ)
    (e0 : UInt8) (es : List UInt8) (ic : Bool) (hp : arm.pat = .chSeq (e0 :: es) ic) :
    runSeqArms env inp ch (arm :: rest) m =
      match seqFirst inp ch e0 es ic (enterSeq m).c with
      | .needMore => .inl (breakOnEndOfInput inp (enterSeq m))
      | .mismatch => runSeqArms env inp ch rest (leaveSeq (enterSeq m))
      | .matched =>
        .inl ((runBody env inp arm.body (leaveSeq { enterSeq m with c := { (enterSeq m).c with nextPos := (enterSeq m).c.nextPos + es.length } })).1,
              (runBody env inp arm.body (leaveSeq { enterSeq m with c := { (enterSeq m).c with nextPos := (enterSeq m).c.nextPos + es.length } })).2.1) := by
  simp only [runSeqArms, hp, seqFirst]
  rfl

/-- the enter-action prelude of a state function -/
def sfPre (env : Env κ) (inp : Bytes) (sd : StateDef) (m : M κ) : M κ × Option Signal :=
  if !sd.enter.isEmpty && !m.c.entered then
    match (runCalls env inp sd.enter { m with c := { m.c with nextPos := m.c.nextPos + 1 } }).2 with
    | some sig => ((runCalls env inp sd.enter { m with c := { m.c with nextPos := m.c.nextPos + 1 } }).1, some sig)
    | none =>
      ({ (runCalls env inp sd.enter { m with c := { m.c with nextPos := m.c.nextPos + 1 } }).1 with
          c := { (runCalls env inp sd.enter { m with c := { m.c with nextPos := m.c.nextPos + 1 } }).1.c with
            nextPos := (runCalls env inp sd.enter { m with c := { m.c with nextPos := m.c.nextPos + 1 } }).1.c.nextPos - 1,
            entered := true } }, none)
  else (m, none)

/-- consume (or `memchr`) and dispatch -/
def sfMain (env : Env κ) (inp : Bytes) (sd : StateDef) (m : M κ) : StepRes κ :=
  match sd.memchr with
  | some needle =>
    match findByte needle (inp.drop m.c.nextPos) with
    | some p => dispatch env inp (some needle) sd.arms { m with c := { m.c with nextPos := m.c.nextPos + 1 + p } }
    | none => dispatch env inp none sd.arms { m with c := { m.c with nextPos := m.c.nextPos + 1 + (inp.drop m.c.nextPos).length } }
  | none => dispatch env inp inp[m.c.nextPos]? sd.arms { m with c := { m.c with nextPos := m.c.nextPos + 1 } }

theorem stateFn_decomp (env : Env κ) (inp : Bytes) (m : M κ) :
    stateFn env inp m =
      match env.tbl.state? m.c.state with
      | none => (m, some (.err (.panic "unknown state")))
      | some sd =>
        match (sfPre env inp sd m).2 with
        | some sig => ((sfPre env inp sd m).1, some sig)
        | none => sfMain env inp sd (sfPre env inp sd m).1 := by
  unfold stateFn sfPre sfMain
  rfl

end decomp

structure OpsRel (ops₁ : SinkOps κ₁) (ops₂ : SinkOps κ₂) (inp : Bytes) (R : κ₁ → κ₂ → Prop) (eG : Err) : Prop where
  handleTag : ∀ lx k₁ k₂, R k₁ k₂ →
    (R (ops₁.handleTag inp lx k₁).1 (ops₂.handleTag inp lx k₂).1 ∧ (ops₁.handleTag inp lx k₁).2 = (ops₂.handleTag inp lx k₂).2) ∨
    (ops₁.handleTag inp lx k₁).2 = .error eG
  handleNonTag : ∀ lx k₁ k₂, R k₁ k₂ →
    (R (ops₁.handleNonTag inp lx k₁).1 (ops₂.handleNonTag inp lx k₂).1 ∧ (ops₁.handleNonTag inp lx k₁).2 = (ops₂.handleNonTag inp lx k₂).2) ∨
    (ops₁.handleNonTag inp lx k₁).2 = .error eG
  startTagHint : ∀ n ns k₁ k₂, R k₁ k₂ →
    (R (ops₁.startTagHint n ns k₁).1 (ops₂.startTagHint n ns k₂).1 ∧ (ops₁.startTagHint n ns k₁).2 = (ops₂.startTagHint n ns k₂).2) ∨
    (ops₁.startTagHint n ns k₁).2 = .error eG
  endTagHint : ∀ n k₁ k₂, R k₁ k₂ →
    (R (ops₁.endTagHint n k₁).1 (ops₂.endTagHint n k₂).1 ∧ (ops₁.endTagHint n k₁).2 = (ops₂.endTagHint n k₂).2) ∨
    (ops₁.endTagHint n k₁).2 = .error eG

/-- related parser contexts -/
def XR (R : κ₁ → κ₂ → Prop) (x₁ : Ctx κ₁) (x₂ : Ctx κ₂) : Prop :=
  R x₁.sink x₂.sink ∧ x₁.sim = x₂.sim ∧ x₁.prevConsumed = x₂.prevConsumed

/-- related machines: same registers, related contexts -/
def MR (R : κ₁ → κ₂ → Prop) (m₁ : M κ₁) (m₂ : M κ₂) : Prop :=
  m₁.c = m₂.c ∧ m₁.r = m₂.r ∧ XR R m₁.x m₂.x

/-- related step results, or the first run aborted (`sinkAct`: an abort can only come out of a
sink-calling action) -/
def ResRel (R : κ₁ → κ₂ → Prop) (eG : Err) (r₁ : M κ₁ × Option Signal) (r₂ : M κ₂ × Option Signal) : Prop :=
  (MR R r₁.1 r₂.1 ∧ r₁.2 = r₂.2) ∨ r₁.2 = some (.err eG)

section
variable {tbl : Table} {cfg : TagCfg} {ops₁ : SinkOps κ₁} {ops₂ : SinkOps κ₂} {inp : Bytes}
  {R : κ₁ → κ₂ → Prop} {eG : Err}

set_option quotPrecheck false in
local notation "env₁" => (Env.mk tbl cfg ops₁ : Env κ₁)
set_option quotPrecheck false in
local notation "env₂" => (Env.mk tbl cfg ops₂ : Env κ₂)

theorem ResRel.same {c : Common} {r : Regs} {x₁ : Ctx κ₁} {x₂ : Ctx κ₂} {s : Option Signal} (h : XR R x₁ x₂) :
    ResRel R eG (⟨c, r, x₁⟩, s) (⟨c, r, x₂⟩, s) := Or.inl ⟨⟨rfl, rfl, h⟩, rfl⟩

theorem rel_lexEmitNonTag (h : OpsRel ops₁ ops₂ inp R eG) (c : Common) (l : LexRegs) (x₁ : Ctx κ₁) (x₂ : Ctx κ₂)
    (o : Option NonTagOutline) (e : Nat) (hx : XR R x₁ x₂) :
    ResRel R eG (lexEmitNonTag env₁ inp c l x₁ o e) (lexEmitNonTag env₂ inp c l x₂ o e) := by
  obtain ⟨hs, hsim, hpc⟩ := hx
  unfold lexEmitNonTag
  dsimp only
  rw [hpc]
  rcases h.handleNonTag ⟨x₂.prevConsumed, ⟨l.lexemeStart, e⟩, o⟩ x₁.sink x₂.sink hs with ⟨hr, hres⟩ | habort
  · rw [hres]
    left
    cases (ops₂.handleNonTag inp ⟨x₂.prevConsumed, ⟨l.lexemeStart, e⟩, o⟩ x₂.sink).2 <;>
      exact ⟨⟨rfl, rfl, hr, by first | rfl | exact hsim, by first | rfl | exact hpc⟩, rfl⟩
  · right
    rw [habort]

theorem rel_lexEmitText (h : OpsRel ops₁ ops₂ inp R eG) (c : Common) (l : LexRegs) (x₁ : Ctx κ₁) (x₂ : Ctx κ₂)
    (hx : XR R x₁ x₂) : ResRel R eG (lexEmitText env₁ inp c l x₁) (lexEmitText env₂ inp c l x₂) := by
  unfold lexEmitText
  split
  · exact rel_lexEmitNonTag h _ _ _ _ _ _ hx
  · exact ResRel.same hx

theorem rel_lexEmitEof (h : OpsRel ops₁ ops₂ inp R eG) (m₁ : M κ₁) (m₂ : M κ₂) (hm : MR R m₁ m₂) :
    ResRel R eG (lexEmitEof env₁ inp m₁) (lexEmitEof env₂ inp m₂) := by
  obtain ⟨hc, hr, hx⟩ := hm
  obtain ⟨c₁, r₁, x₁⟩ := m₁
  obtain ⟨c₂, r₂, x₂⟩ := m₂
  simp only at hc hr hx
  subst hc hr
  unfold lexEmitEof
  cases r₁ with
  | lexer l => exact rel_lexEmitNonTag h _ _ _ _ _ _ hx
  | scanner s => exact ResRel.same hx

theorem rel_andThen {r₁ : M κ₁ × Option Signal} {r₂ : M κ₂ × Option Signal}
    {g₁ : M κ₁ → M κ₁ × Option Signal} {g₂ : M κ₂ → M κ₂ × Option Signal}
    (hr : ResRel R eG r₁ r₂) (hg : ∀ m₁ m₂, MR R m₁ m₂ → ResRel R eG (g₁ m₁) (g₂ m₂)) :
    ResRel R eG (andThen r₁ g₁) (andThen r₂ g₂) := by
  unfold andThen
  rcases hr with ⟨hm, hs⟩ | habort
  · rw [hs]
    cases r₂.2 with
    | some s => exact Or.inl ⟨hm, rfl⟩
    | none => exact hg _ _ hm
  · rw [habort]
    exact Or.inr rfl

theorem rel_lexEmitTagLexeme (h : OpsRel ops₁ ops₂ inp R eG) (c : Common) (l : LexRegs) (x₁ : Ctx κ₁) (x₂ : Ctx κ₂)
    (sim : Sim) (t : TagOutline) (e : Nat) (hx : XR R x₁ x₂) :
    ResRel R eG (lexEmitTagLexeme env₁ inp c l x₁ sim t e) (lexEmitTagLexeme env₂ inp c l x₂ sim t e) := by
  obtain ⟨hs, hsim, hpc⟩ := hx
  unfold lexEmitTagLexeme
  dsimp only
  rw [hpc]
  rcases h.handleTag ⟨x₂.prevConsumed, ⟨l.lexemeStart, e⟩, t⟩ x₁.sink x₂.sink hs with ⟨hr, hres⟩ | habort
  · rw [hres]
    left
    cases (ops₂.handleTag inp ⟨x₂.prevConsumed, ⟨l.lexemeStart, e⟩, t⟩ x₂.sink).2 with
    | error e' => exact ⟨⟨rfl, rfl, hr, rfl, by first | rfl | exact hpc⟩, rfl⟩
    | ok d => cases d <;> exact ⟨⟨rfl, rfl, hr, rfl, by first | rfl | exact hpc⟩, rfl⟩
  · right
    rw [habort]

theorem rel_lexEmitTag (h : OpsRel ops₁ ops₂ inp R eG) (c : Common) (l : LexRegs) (x₁ : Ctx κ₁) (x₂ : Ctx κ₂)
    (hx : XR R x₁ x₂) : ResRel R eG (lexEmitTag env₁ inp c l x₁) (lexEmitTag env₂ inp c l x₂) := by
  have hsim := hx.2.1
  unfold lexEmitTag
  cases l.curTag with
  | none => exact ResRel.same hx
  | some token =>
    dsimp only
    rw [hsim]
    cases lexGetFeedback cfg x₂.sim l.fd token with
    | error e => exact ResRel.same hx
    | ok sf =>
      dsimp only
      split
      · exact ResRel.same ⟨hx.1, rfl, hx.2.2⟩
      · exact rel_lexEmitTagLexeme h _ _ _ _ _ _ _ hx

/-- the lexer's non-sink actions: the new registers and the signal do not depend on the context -/
theorem lexAct_nosink (a : ActName) (ha : a.callsSink = false) (c : Common) (l : LexRegs) (x₁ : Ctx κ₁) (x₂ : Ctx κ₂) :
    (lexAct env₁ a inp c l x₁).1.c = (lexAct env₂ a inp c l x₂).1.c ∧
    (lexAct env₁ a inp c l x₁).1.r = (lexAct env₂ a inp c l x₂).1.r ∧
    (lexAct env₁ a inp c l x₁).2 = (lexAct env₂ a inp c l x₂).2 := by
  cases a <;> simp only [ActName.callsSink, Bool.true_eq_false] at ha <;> simp only [lexAct] <;>
    (repeat' split) <;> simp_all

theorem rel_lexAct (h : OpsRel ops₁ ops₂ inp R eG) (a : ActName) (c : Common) (l : LexRegs) (x₁ : Ctx κ₁) (x₂ : Ctx κ₂)
    (hx : XR R x₁ x₂) : ResRel R eG (lexAct env₁ a inp c l x₁) (lexAct env₂ a inp c l x₂) := by
  by_cases ha : a.callsSink = false
  · obtain ⟨h1, h2, h3⟩ := lexAct_nosink (tbl := tbl) (cfg := cfg) (ops₁ := ops₁) (ops₂ := ops₂) (inp := inp) a ha c l x₁ x₂
    have e1 := lexAct_x (env := env₁) (inp := inp) a ha c l x₁
    have e2 := lexAct_x (env := env₂) (inp := inp) a ha c l x₂
    exact Or.inl ⟨⟨h1, h2, by rw [e1, e2]; exact hx⟩, h3⟩
  · cases a <;> simp only [ActName.callsSink, not_true_eq_false, not_false_eq_true] at ha <;> simp only [lexAct]
    case emitText => exact rel_lexEmitText h _ _ _ _ hx
    case emitTextAndEof => exact rel_andThen (rel_lexEmitText h _ _ _ _ hx) (fun m₁ m₂ hm => rel_lexEmitEof h m₁ m₂ hm)
    case emitCurrentToken => exact rel_lexEmitNonTag h _ _ _ _ _ _ hx
    case emitCurrentTokenAndEof =>
      exact rel_andThen (rel_lexEmitNonTag h _ _ _ _ _ _ hx) (fun m₁ m₂ hm => rel_lexEmitEof h m₁ m₂ hm)
    case emitRawWithoutToken => exact rel_lexEmitNonTag h _ _ _ _ _ _ hx
    case emitRawWithoutTokenAndEof =>
      exact rel_andThen (rel_lexEmitNonTag h _ _ _ _ _ _ hx) (fun m₁ m₂ hm => rel_lexEmitEof h m₁ m₂ hm)
    case emitTag => exact rel_lexEmitTag h _ _ _ _ hx
    case finishTagName => cases l.curTag <;> exact ResRel.same hx

theorem rel_scanEmitHint (h : OpsRel ops₁ ops₂ inp R eG) (c : Common) (s : ScanRegs) (x₁ : Ctx κ₁) (x₂ : Ctx κ₂)
    (ts : Nat) (ie : Bool) (hx : XR R x₁ x₂) :
    ResRel R eG (scanEmitHint env₁ inp c s x₁ ts ie) (scanEmitHint env₂ inp c s x₂ ts ie) := by
  obtain ⟨hs, hsim, hpc⟩ := hx
  unfold scanEmitHint
  cases LocalName.new inp ⟨s.tagNameStart, c.pos⟩ s.tagNameHash with
  | none => exact ResRel.same ⟨hs, hsim, hpc⟩
  | some name =>
    dsimp only
    cases ie with
    | true =>
      simp only [if_true]
      rcases h.endTagHint name x₁.sink x₂.sink hs with ⟨hr, hres⟩ | habort
      · rw [hres]
        left
        cases (ops₂.endTagHint name x₂.sink).2 with
        | error e' => exact ⟨⟨rfl, rfl, hr, by first | rfl | exact hsim, by first | rfl | exact hpc⟩, rfl⟩
        | ok d => cases d <;> exact ⟨⟨rfl, rfl, hr, by first | rfl | exact hsim, by first | rfl | exact hpc⟩, rfl⟩
      · right; rw [habort]
    | false =>
      simp only [Bool.false_eq_true, if_false]
      rw [hsim]
      rcases h.startTagHint name x₂.sim.currentNs x₁.sink x₂.sink hs with ⟨hr, hres⟩ | habort
      · rw [hres]
        left
        cases (ops₂.startTagHint name x₂.sim.currentNs x₂.sink).2 with
        | error e' => exact ⟨⟨rfl, rfl, hr, by first | rfl | exact hsim, by first | rfl | exact hpc⟩, rfl⟩
        | ok d => cases d <;> exact ⟨⟨rfl, rfl, hr, by first | rfl | exact hsim, by first | rfl | exact hpc⟩, rfl⟩
      · right; rw [habort]

theorem rel_scanFinishTagName (h : OpsRel ops₁ ops₂ inp R eG) (c : Common) (s : ScanRegs) (x₁ : Ctx κ₁) (x₂ : Ctx κ₂)
    (hx : XR R x₁ x₂) : ResRel R eG (scanFinishTagName env₁ inp c s x₁) (scanFinishTagName env₂ inp c s x₂) := by
  obtain ⟨hs, hsim, hpc⟩ := hx
  unfold scanFinishTagName
  cases s.tagStart with
  | none => exact ResRel.same ⟨hs, hsim, hpc⟩
  | some tagStart =>
    dsimp only
    rw [hsim]
    generalize (if s.isInEndTag = true then x₂.sim.feedbackForEndTag cfg s.tagNameHash
      else x₂.sim.feedbackForStartTag cfg s.tagNameHash) = fb
    cases fb with
    | error e => exact ResRel.same ⟨hs, hsim, hpc⟩
    | ok sf =>
      dsimp only
      cases (scanApplyFeedback c { s with tagStart := none } sf.2).2.2 with
      | some f => exact ResRel.same ⟨hs, rfl, hpc⟩
      | none => exact rel_scanEmitHint h _ _ _ _ _ _ ⟨hs, rfl, hpc⟩

theorem scanAct_nosink (a : ActName) (ha : a.callsSink = false) (c : Common) (s : ScanRegs) (x₁ : Ctx κ₁) (x₂ : Ctx κ₂) :
    (scanAct env₁ a inp c s x₁).1.c = (scanAct env₂ a inp c s x₂).1.c ∧
    (scanAct env₁ a inp c s x₁).1.r = (scanAct env₂ a inp c s x₂).1.r ∧
    (scanAct env₁ a inp c s x₁).2 = (scanAct env₂ a inp c s x₂).2 := by
  cases a <;> simp only [ActName.callsSink, Bool.true_eq_false] at ha <;> simp only [scanAct] <;>
    (repeat' split) <;> simp_all

theorem rel_scanAct (h : OpsRel ops₁ ops₂ inp R eG) (a : ActName) (c : Common) (s : ScanRegs) (x₁ : Ctx κ₁) (x₂ : Ctx κ₂)
    (hx : XR R x₁ x₂) : ResRel R eG (scanAct env₁ a inp c s x₁) (scanAct env₂ a inp c s x₂) := by
  by_cases ha : a.callsSink = false
  · obtain ⟨h1, h2, h3⟩ := scanAct_nosink (tbl := tbl) (cfg := cfg) (ops₁ := ops₁) (ops₂ := ops₂) (inp := inp) a ha c s x₁ x₂
    have e1 := scanAct_x (env := env₁) (inp := inp) a ha c s x₁
    have e2 := scanAct_x (env := env₂) (inp := inp) a ha c s x₂
    exact Or.inl ⟨⟨h1, h2, by rw [e1, e2]; exact hx⟩, h3⟩
  · cases a <;> simp only [ActName.callsSink, not_true_eq_false, not_false_eq_true] at ha <;> simp only [scanAct]
    case finishTagName => exact rel_scanFinishTagName h _ _ _ _ hx
    all_goals exact ResRel.same hx

theorem rel_act (h : OpsRel ops₁ ops₂ inp R eG) (a : ActName) (m₁ : M κ₁) (m₂ : M κ₂) (hm : MR R m₁ m₂) :
    ResRel R eG (act env₁ a inp m₁) (act env₂ a inp m₂) := by
  obtain ⟨hc, hr, hx⟩ := hm
  obtain ⟨c₁, r₁, x₁⟩ := m₁
  obtain ⟨c₂, r₂, x₂⟩ := m₂
  simp only at hc hr hx
  subst hc hr
  unfold act
  cases r₁ with
  | lexer l => exact rel_lexAct h a _ l _ _ hx
  | scanner s => exact rel_scanAct h a _ s _ _ hx

/-- a non-sink action never aborts -/
theorem rel_act_nosink (a : ActName) (ha : a.callsSink = false) (m₁ : M κ₁) (m₂ : M κ₂) (hm : MR R m₁ m₂) :
    MR R (act env₁ a inp m₁).1 (act env₂ a inp m₂).1 ∧ (act env₁ a inp m₁).2 = (act env₂ a inp m₂).2 := by
  obtain ⟨hc, hr, hx⟩ := hm
  obtain ⟨c₁, r₁, x₁⟩ := m₁
  obtain ⟨c₂, r₂, x₂⟩ := m₂
  simp only at hc hr hx
  subst hc hr
  unfold act
  cases r₁ with
  | lexer l =>
    obtain ⟨h1, h2, h3⟩ := lexAct_nosink (tbl := tbl) (cfg := cfg) (ops₁ := ops₁) (ops₂ := ops₂) (inp := inp) a ha c₁ l x₁ x₂
    have e1 := lexAct_x (env := env₁) (inp := inp) a ha c₁ l x₁
    have e2 := lexAct_x (env := env₂) (inp := inp) a ha c₁ l x₂
    exact ⟨⟨h1, h2, by rw [e1, e2]; exact hx⟩, h3⟩
  | scanner s =>
    obtain ⟨h1, h2, h3⟩ := scanAct_nosink (tbl := tbl) (cfg := cfg) (ops₁ := ops₁) (ops₂ := ops₂) (inp := inp) a ha c₁ s x₁ x₂
    have e1 := scanAct_x (env := env₁) (inp := inp) a ha c₁ s x₁
    have e2 := scanAct_x (env := env₂) (inp := inp) a ha c₁ s x₂
    exact ⟨⟨h1, h2, by rw [e1, e2]; exact hx⟩, h3⟩

theorem rel_runCalls (h : OpsRel ops₁ ops₂ inp R eG) (cs : List Call) (hc : cs.all Call.checked = true)
    (m₁ : M κ₁) (m₂ : M κ₂) (hm : MR R m₁ m₂) :
    ResRel R eG (runCalls env₁ inp cs m₁) (runCalls env₂ inp cs m₂) := by
  induction cs generalizing m₁ m₂ with
  | nil => exact Or.inl ⟨hm, rfl⟩
  | cons cl cs ih =>
    simp only [List.all_cons, Bool.and_eq_true] at hc
    simp only [runCalls]
    by_cases hns : cl.act.callsSink = false
    · obtain ⟨hm', hs⟩ := rel_act_nosink (tbl := tbl) (cfg := cfg) (ops₁ := ops₁) (ops₂ := ops₂) (inp := inp) cl.act hns m₁ m₂ hm
      rw [hs]
      cases (act env₂ cl.act inp m₂).2 with
      | none => exact ih hc.2 _ _ hm'
      | some s =>
        dsimp only
        split
        · exact Or.inl ⟨hm', rfl⟩
        · exact ih hc.2 _ _ hm'
    · have hq : cl.q = true := by
        have := hc.1
        simp only [Call.checked, Bool.or_eq_true, Bool.not_eq_true'] at this
        rcases this with h' | h'
        · exact absurd h' hns
        · exact h'
      rcases rel_act h cl.act m₁ m₂ hm with ⟨hm', hs⟩ | habort
      · rw [hs]
        cases (act env₂ cl.act inp m₂).2 with
        | none => exact ih hc.2 _ _ hm'
        | some s =>
          dsimp only
          rw [if_pos hq, if_pos hq]
          exact Or.inl ⟨hm', rfl⟩
      · rw [habort]
        dsimp only
        rw [if_pos hq]
        exact Or.inr rfl

theorem MR.applyTrans {m₁ : M κ₁} {m₂ : M κ₂} (hm : MR R m₁ m₂) (t : Trans) :
    MR R (applyTrans env₁ t m₁).1 (applyTrans env₂ t m₂).1 ∧ (applyTrans env₁ t m₁).2 = (applyTrans env₂ t m₂).2 := by
  obtain ⟨hc, hr, hx⟩ := hm
  obtain ⟨c₁, r₁, x₁⟩ := m₁
  obtain ⟨c₂, r₂, x₂⟩ := m₂
  simp only at hc hr hx
  subst hc hr
  cases t <;> simp only [Model.applyTrans]
  · refine ⟨⟨?_, ?_, ?_⟩, ?_⟩ <;> first | rfl | trivial | exact hx
  · refine ⟨⟨?_, ?_, ?_⟩, ?_⟩ <;> first | rfl | trivial | exact hx
  · split <;> (refine ⟨⟨?_, ?_, ?_⟩, ?_⟩ <;> first | rfl | trivial | exact hx)

/-- results of an action list with its `SeqEnd` flag -/
def ResRel3 (R : κ₁ → κ₂ → Prop) (eG : Err) (r₁ : M κ₁ × Option Signal × SeqEnd) (r₂ : M κ₂ × Option Signal × SeqEnd) : Prop :=
  (MR R r₁.1 r₂.1 ∧ r₁.2 = r₂.2) ∨ r₁.2.1 = some (.err eG)

theorem rel_runSeq (h : OpsRel ops₁ ops₂ inp R eG) (s : ActSeq) (hc : s.calls.all Call.checked = true)
    (m₁ : M κ₁) (m₂ : M κ₂) (hm : MR R m₁ m₂) :
    ResRel3 R eG (runSeq env₁ inp s m₁) (runSeq env₂ inp s m₂) := by
  unfold runSeq
  dsimp only
  rcases rel_runCalls h s.calls hc m₁ m₂ hm with ⟨hm', hs⟩ | habort
  · rw [hs]
    cases (runCalls env₂ inp s.calls m₂).2 with
    | some sig => exact Or.inl ⟨hm', rfl⟩
    | none =>
      dsimp only
      cases s.trans with
      | none => exact Or.inl ⟨hm', rfl⟩
      | some t =>
        obtain ⟨a, b⟩ := hm'.applyTrans (tbl := tbl) (cfg := cfg) (ops₁ := ops₁) (ops₂ := ops₂) t
        exact Or.inl ⟨a, by simp only; rw [b]⟩
  · rw [habort]
    exact Or.inr rfl

theorem rel_cond (c : Cond) {m₁ : M κ₁} {m₂ : M κ₂} (hm : MR R m₁ m₂) : cond c m₁ = cond c m₂ := by
  obtain ⟨hc, hr, _⟩ := hm
  unfold cond
  rw [hc, hr]

theorem rel_runBody (h : OpsRel ops₁ ops₂ inp R eG) (b : Body)
    (hc : (b.seqs.flatMap (·.calls)).all Call.checked = true) (m₁ : M κ₁) (m₂ : M κ₂) (hm : MR R m₁ m₂) :
    ResRel3 R eG (runBody env₁ inp b m₁) (runBody env₂ inp b m₂) := by
  cases b with
  | seq s =>
    simp only [Body.seqs, List.flatMap_cons, List.flatMap_nil, List.append_nil] at hc
    exact rel_runSeq h s hc m₁ m₂ hm
  | ite c t e =>
    simp only [Body.seqs, List.flatMap_cons, List.flatMap_nil, List.append_nil, List.all_append, Bool.and_eq_true] at hc
    simp only [runBody]
    rw [rel_cond c hm]
    cases cond c m₂ with
    | none => exact Or.inl ⟨hm, rfl⟩
    | some b =>
      cases b
      · exact rel_runSeq h _ hc.2 m₁ m₂ hm
      · exact rel_runSeq h _ hc.1 m₁ m₂ hm

theorem MR.consumed {m₁ : M κ₁} {m₂ : M κ₂} (hm : MR R m₁ m₂) : consumedByteCount inp m₁ = consumedByteCount inp m₂ := by
  unfold consumedByteCount; rw [hm.2.1]

theorem MR.adjust {m₁ : M κ₁} {m₂ : M κ₂} (hm : MR R m₁ m₂) : MR R (adjustForNextInput m₁) (adjustForNextInput m₂) := by
  obtain ⟨hc, hr, hx⟩ := hm
  obtain ⟨c₁, r₁, x₁⟩ := m₁
  obtain ⟨c₂, r₂, x₂⟩ := m₂
  simp only at hc hr hx
  subst hc hr
  cases r₁ with
  | lexer l => exact ⟨rfl, rfl, hx⟩
  | scanner s =>
    simp only [adjustForNextInput]
    cases s.tagStart <;> exact ⟨rfl, rfl, hx⟩

theorem MR.breakEoi {m₁ : M κ₁} {m₂ : M κ₂} (hm : MR R m₁ m₂) :
    MR R (breakOnEndOfInput inp m₁).1 (breakOnEndOfInput inp m₂).1 ∧
    (breakOnEndOfInput inp m₁).2 = (breakOnEndOfInput inp m₂).2 := by
  have hadj := hm.adjust
  have hcons := hm.consumed (inp := inp)
  obtain ⟨hc, hr, hx⟩ := hm
  unfold breakOnEndOfInput
  simp only
  rw [hcons, hc]
  by_cases hl : m₂.c.isLast = true
  · rw [if_pos hl, if_pos hl, hc]
    split
    · exact ⟨⟨hc, hr, hx⟩, rfl⟩
    · exact ⟨⟨rfl, hr, hx⟩, rfl⟩
  · rw [if_neg hl, if_neg hl, hadj.1]
    split
    · exact ⟨hadj, rfl⟩
    · exact ⟨⟨rfl, hadj.2.1, hadj.2.2⟩, rfl⟩


theorem MR.enterSeq {m₁ : M κ₁} {m₂ : M κ₂} (hm : MR R m₁ m₂) : MR R (enterSeq m₁) (enterSeq m₂) := by
  obtain ⟨hc, hr, hx⟩ := hm
  obtain ⟨c₁, r₁, x₁⟩ := m₁
  obtain ⟨c₂, r₂, x₂⟩ := m₂
  simp only at hc hr hx
  subst hc hr
  unfold Model.enterSeq
  cases r₁ <;> exact ⟨rfl, rfl, hx⟩

theorem MR.leaveSeq {m₁ : M κ₁} {m₂ : M κ₂} (hm : MR R m₁ m₂) : MR R (leaveSeq m₁) (leaveSeq m₂) := by
  obtain ⟨hc, hr, hx⟩ := hm
  obtain ⟨c₁, r₁, x₁⟩ := m₁
  obtain ⟨c₂, r₂, x₂⟩ := m₂
  simp only at hc hr hx
  subst hc hr
  unfold Model.leaveSeq
  cases r₁ <;> exact ⟨rfl, rfl, hx⟩

theorem MR.setC {m₁ : M κ₁} {m₂ : M κ₂} (hm : MR R m₁ m₂) (f : Common → Common) :
    MR R { m₁ with c := f m₁.c } { m₂ with c := f m₂.c } :=
  ⟨by rw [hm.1], hm.2.1, hm.2.2⟩

/-- outcome of the sequence arms -/
def SumRel (R : κ₁ → κ₂ → Prop) (eG : Err) :
    (M κ₁ × Option Signal) ⊕ M κ₁ → (M κ₂ × Option Signal) ⊕ M κ₂ → Prop
  | .inl r₁, .inl r₂ => ResRel R eG r₁ r₂
  | .inr m₁, .inr m₂ => MR R m₁ m₂
  | .inl r₁, .inr _ => r₁.2 = some (.err eG)
  | .inr _, .inl _ => False

theorem rel_runSeqArms (h : OpsRel ops₁ ops₂ inp R eG) (ch : Option UInt8) (arms : List Arm) (hc : ArmsChecked arms)
    (m₁ : M κ₁) (m₂ : M κ₂) (hm : MR R m₁ m₂) :
    SumRel R eG (runSeqArms env₁ inp ch arms m₁) (runSeqArms env₂ inp ch arms m₂) := by
  induction arms generalizing m₁ m₂ with
  | nil => exact hm
  | cons arm rest ih =>
    have hrest : ArmsChecked rest := fun a ha => hc a (List.mem_cons_of_mem _ ha)
    cases hp : arm.pat with
    | chSeq bytes ic =>
      cases bytes with
      | nil =>
        simp only [runSeqArms, hp]
        exact ih hrest _ _ hm.enterSeq.leaveSeq
      | cons e0 es =>
        rw [runSeqArms_chSeq env₁ inp ch arm rest m₁ e0 es ic hp, runSeqArms_chSeq env₂ inp ch arm rest m₂ e0 es ic hp]
        have hE := hm.enterSeq
        rw [hE.1]
        cases seqFirst inp ch e0 es ic (enterSeq m₂).c with
        | needMore =>
          obtain ⟨a, b⟩ := hE.breakEoi (inp := inp)
          exact Or.inl ⟨a, b⟩
        | mismatch => exact ih hrest _ _ hE.leaveSeq
        | matched =>
          have hm' := (hE.setC (fun c => { c with nextPos := c.nextPos + es.length })).leaveSeq
          rw [hE.1] at hm'
          rcases rel_runBody (tbl := tbl) (cfg := cfg) h arm.body (hc arm List.mem_cons_self) _ _ hm' with ⟨a, b⟩ | habort
          · exact Or.inl ⟨a, by rw [b]⟩
          · exact Or.inr habort
    | _ => simp only [runSeqArms, hp]; exact ih hrest _ _ hm

theorem rel_dispatch (h : OpsRel ops₁ ops₂ inp R eG) (ch : Option UInt8) (arms : List Arm) (hc : ArmsChecked arms)
    (m₁ : M κ₁) (m₂ : M κ₂) (hm : MR R m₁ m₂) :
    ResRel R eG (dispatch env₁ inp ch arms m₁) (dispatch env₂ inp ch arms m₂) := by
  unfold dispatch
  have h1 := rel_runSeqArms (tbl := tbl) (cfg := cfg) h ch arms hc m₁ m₂ hm
  cases hs1 : runSeqArms env₁ inp ch arms m₁ with
  | inl r₁ =>
    cases hs2 : runSeqArms env₂ inp ch arms m₂ with
    | inl r₂ => rw [hs1, hs2] at h1; exact h1
    | inr m₂' => rw [hs1, hs2] at h1; exact Or.inr h1
  | inr m₁' =>
    cases hs2 : runSeqArms env₂ inp ch arms m₂ with
    | inl r₂ => rw [hs1, hs2] at h1; exact absurd h1 id
    | inr m₂' =>
      rw [hs1, hs2] at h1
      simp only [SumRel] at h1
      simp only
      rw [h1.1]
      cases harm : findArm tbl m₂'.c ch arms with
      | none => exact Or.inl ⟨h1, rfl⟩
      | some arm =>
        simp only
        have hbody := rel_runBody (tbl := tbl) (cfg := cfg) h arm.body (hc arm (findArm_mem harm)) m₁' m₂' h1
        have brk : ResRel R eG
            (match (runBody env₁ inp arm.body m₁').2.1, (runBody env₁ inp arm.body m₁').2.2 with
              | some sig, _ => ((runBody env₁ inp arm.body m₁').1, some sig)
              | none, .transitioned => ((runBody env₁ inp arm.body m₁').1, none)
              | none, .fell => breakOnEndOfInput inp (runBody env₁ inp arm.body m₁').1)
            (match (runBody env₂ inp arm.body m₂').2.1, (runBody env₂ inp arm.body m₂').2.2 with
              | some sig, _ => ((runBody env₂ inp arm.body m₂').1, some sig)
              | none, .transitioned => ((runBody env₂ inp arm.body m₂').1, none)
              | none, .fell => breakOnEndOfInput inp (runBody env₂ inp arm.body m₂').1) := by
          rcases hbody with ⟨a, b⟩ | habort
          · rw [b]
            cases (runBody env₂ inp arm.body m₂').2.1 with
            | some sig => exact Or.inl ⟨a, rfl⟩
            | none =>
              cases (runBody env₂ inp arm.body m₂').2.2 with
              | transitioned => exact Or.inl ⟨a, rfl⟩
              | fell =>
                obtain ⟨a', b'⟩ := a.breakEoi (inp := inp)
                exact Or.inl ⟨a', b'⟩
          · rw [habort]; exact Or.inr rfl
        cases arm.pat with
        | eoc => exact brk
        | eof =>
          simp only
          split
          · exact brk
          · obtain ⟨a', b'⟩ := h1.breakEoi (inp := inp)
            exact Or.inl ⟨a', b'⟩
        | _ =>
          simp only
          rcases hbody with ⟨a, b⟩ | habort
          · exact Or.inl ⟨a, by rw [b]⟩
          · exact Or.inr habort

theorem rel_sfPre (h : OpsRel ops₁ ops₂ inp R eG) (sd : StateDef) (he : sd.enter.all Call.checked = true)
    (m₁ : M κ₁) (m₂ : M κ₂) (hm : MR R m₁ m₂) : ResRel R eG (sfPre env₁ inp sd m₁) (sfPre env₂ inp sd m₂) := by
  unfold sfPre
  rw [hm.1]
  split
  · rcases rel_runCalls (tbl := tbl) (cfg := cfg) h sd.enter he _ _ (hm.setC (fun c => { c with nextPos := c.nextPos + 1 })) with ⟨a, b⟩ | habort
    · rw [hm.1] at a b
      rw [b]
      cases (runCalls env₂ inp sd.enter { m₂ with c := { m₂.c with nextPos := m₂.c.nextPos + 1 } }).2 with
      | some sig => exact Or.inl ⟨a, rfl⟩
      | none => exact Or.inl ⟨a.setC (fun c => { c with nextPos := c.nextPos - 1, entered := true }), rfl⟩
    · rw [hm.1] at habort
      rw [habort]; exact Or.inr rfl
  · exact Or.inl ⟨hm, rfl⟩

theorem rel_sfMain (h : OpsRel ops₁ ops₂ inp R eG) (sd : StateDef) (ha : ArmsChecked sd.arms)
    (m₁ : M κ₁) (m₂ : M κ₂) (hm : MR R m₁ m₂) : ResRel R eG (sfMain env₁ inp sd m₁) (sfMain env₂ inp sd m₂) := by
  have key : ∀ f : Common → Common, MR R { m₁ with c := f m₂.c } { m₂ with c := f m₂.c } := by
    intro f
    have := hm.setC f
    rw [hm.1] at this
    exact this
  unfold sfMain
  rw [hm.1]
  cases sd.memchr with
  | some needle =>
    simp only
    cases findByte needle (inp.drop m₂.c.nextPos) with
    | some p => exact rel_dispatch h _ _ ha _ _ (key (fun c => { c with nextPos := c.nextPos + 1 + p }))
    | none =>
      exact rel_dispatch h _ _ ha _ _ (key (fun c => { c with nextPos := c.nextPos + 1 + (inp.drop m₂.c.nextPos).length }))
  | none =>
    simp only
    exact rel_dispatch h _ _ ha _ _ (key (fun c => { c with nextPos := c.nextPos + 1 }))

theorem rel_stateFn (h : OpsRel ops₁ ops₂ inp R eG) (ht : EmitsChecked tbl = true) (m₁ : M κ₁) (m₂ : M κ₂)
    (hm : MR R m₁ m₂) : ResRel R eG (stateFn env₁ inp m₁) (stateFn env₂ inp m₂) := by
  rw [stateFn_decomp, stateFn_decomp]
  simp only
  rw [hm.1]
  cases hsd : tbl.state? m₂.c.state with
  | none => exact Or.inl ⟨hm, rfl⟩
  | some sd =>
    obtain ⟨he, ha⟩ := state_checked ht hsd
    simp only
    rcases rel_sfPre (tbl := tbl) (cfg := cfg) h sd he m₁ m₂ hm with ⟨a, b⟩ | habort
    · rw [b]
      cases (sfPre env₂ inp sd m₂).2 with
      | some sig => exact Or.inl ⟨a, rfl⟩
      | none => exact rel_sfMain h sd ha _ _ a
    · rw [habort]; exact Or.inr rfl

theorem rel_runLoop (h : OpsRel ops₁ ops₂ inp R eG) (ht : EmitsChecked tbl = true) (n : Nat) (m₁ : M κ₁) (m₂ : M κ₂)
    (hm : MR R m₁ m₂) :
    (MR R (runLoop env₁ inp n m₁).1 (runLoop env₂ inp n m₂).1 ∧ (runLoop env₁ inp n m₁).2 = (runLoop env₂ inp n m₂).2) ∨
    (runLoop env₁ inp n m₁).2 = .err eG := by
  induction n generalizing m₁ m₂ with
  | zero => exact Or.inl ⟨hm, rfl⟩
  | succ n ih =>
    simp only [runLoop]
    rcases rel_stateFn h ht m₁ m₂ hm with ⟨a, b⟩ | habort
    · rw [b]
      cases (stateFn env₂ inp m₂).2 with
      | some sig => exact Or.inl ⟨a, rfl⟩
      | none => exact ih _ _ a
    · rw [habort]; exact Or.inr rfl

/-- related parsers -/
def PR (R : κ₁ → κ₂ → Prop) (p₁ : Parser κ₁) (p₂ : Parser κ₂) : Prop :=
  p₁.lexC = p₂.lexC ∧ p₁.lexR = p₂.lexR ∧ p₁.scanC = p₂.scanC ∧ p₁.scanR = p₂.scanR ∧
  p₁.directive = p₂.directive ∧ XR R p₁.x p₂.x

theorem PR.machine {p₁ : Parser κ₁} {p₂ : Parser κ₂} (hp : PR R p₁ p₂) (last : Bool) :
    MR R (p₁.machine last) (p₂.machine last) := by
  obtain ⟨a, b, c, d, e, f⟩ := hp
  unfold Parser.machine
  rw [e]
  cases p₂.directive
  · exact ⟨by simp only; rw [c], by simp only; rw [d], f⟩
  · exact ⟨by simp only; rw [a], by simp only; rw [b], f⟩

theorem PR.store {p₁ : Parser κ₁} {p₂ : Parser κ₂} (hp : PR R p₁ p₂) {m₁ : M κ₁} {m₂ : M κ₂} (hm : MR R m₁ m₂) :
    PR R (p₁.store m₁) (p₂.store m₂) := by
  obtain ⟨a, b, c, d, e, f⟩ := hp
  obtain ⟨hc, hr, hx⟩ := hm
  unfold Parser.store
  rw [hr]
  cases m₂.r with
  | lexer l => exact ⟨hc, rfl, c, d, e, hx⟩
  | scanner s => exact ⟨a, b, hc, rfl, e, hx⟩

theorem PR.loadBookmark {p₁ : Parser κ₁} {p₂ : Parser κ₂} (hp : PR R p₁ p₂) (d : Directive) (bm : Bookmark) :
    PR R (loadBookmark env₁ d bm p₁) (loadBookmark env₂ d bm p₂) := by
  obtain ⟨a, b, c, e, f, g⟩ := hp
  unfold Model.loadBookmark
  cases d
  · exact ⟨a, b, by simp only; rw [c], e, rfl, g⟩
  · exact ⟨by simp only; rw [a], by simp only; rw [b], c, e, rfl, g⟩

/-- **Parametricity of `Parser::parse` in the sink.** (`eG` must not be an `internal`-class error, which
`parse` reports as a handler error.) -/
theorem Parser.parseLoop_rel (h : OpsRel ops₁ ops₂ inp R eG) (ht : EmitsChecked tbl = true) (hG : ∀ s, eG ≠ .internal s)
    (last : Bool) (n : Nat) (p₁ : Parser κ₁) (p₂ : Parser κ₂) (hp : PR R p₁ p₂) :
    (PR R (Parser.parseLoop env₁ inp last n p₁).1 (Parser.parseLoop env₂ inp last n p₂).1 ∧
      (Parser.parseLoop env₁ inp last n p₁).2 = (Parser.parseLoop env₂ inp last n p₂).2) ∨
    (Parser.parseLoop env₁ inp last n p₁).2 = .error eG := by
  induction n generalizing p₁ p₂ with
  | zero => exact Or.inl ⟨hp, rfl⟩
  | succ n ih =>
    simp only [Parser.parseLoop]
    rcases rel_runLoop h ht (defaultFuel inp) _ _ (hp.machine last) with ⟨a, b⟩ | habort
    · rw [b]
      have hst := hp.store a
      cases (runLoop env₂ inp (defaultFuel inp) (p₂.machine last)).2 with
      | endOfInput consumed =>
        simp only
        obtain ⟨s1, s2, s3, s4, s5, s6, s7, s8⟩ := hst
        refine Or.inl ⟨⟨s1, s2, s3, s4, s5, s6, s7, ?_⟩, ?_⟩
        · simp only; rw [s8]
        · first | rfl | trivial
      | directive d bm => exact ih _ _ (hst.loadBookmark d bm)
      | err e => cases e <;> exact Or.inl ⟨hst, rfl⟩
    · rw [habort]
      cases eG with
      | internal s => exact absurd rfl (hG s)
      | _ => exact Or.inr rfl

theorem Parser.parse_rel (h : OpsRel ops₁ ops₂ inp R eG) (ht : EmitsChecked tbl = true) (hG : ∀ s, eG ≠ .internal s)
    (last : Bool) (p₁ : Parser κ₁) (p₂ : Parser κ₂) (hp : PR R p₁ p₂) :
    (PR R (Parser.parse env₁ inp last p₁).1 (Parser.parse env₂ inp last p₂).1 ∧
      (Parser.parse env₁ inp last p₁).2 = (Parser.parse env₂ inp last p₂).2) ∨
    (Parser.parse env₁ inp last p₁).2 = .error eG :=
  Parser.parseLoop_rel h ht hG last _ p₁ p₂ hp

end
end LolHtml.Model
