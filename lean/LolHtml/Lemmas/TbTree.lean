import LolHtml.Lemmas.TbFrame
/-!
Stack / list provenance for the operations of `Spec.TreeBuilder`: a predicate on (name, namespace) that
holds of every element on the stack of open elements, together with "every entry of the list of active
formatting elements carries a formatting name", is preserved by every operation, provided the elements
an operation creates satisfy the predicate.
-/
namespace LolHtml.Spec.TreeBuilder
open LolHtml.Model (Ns)

/-- a predicate on elements that only looks at name and namespace -/
abbrev NP := Name → Ns → Prop

def StackAll (P : NP) (t : Tree) : Prop := ∀ e ∈ t.stack, P e.name e.ns

/-- every element entry of the list of active formatting elements has a formatting name -/
def AfeFmt (t : Tree) : Prop := ∀ x, AfeEntry.el x ∈ t.afe → x.name.isIn formattingNames = true

structure TreeOk (P : NP) (t : Tree) : Prop where
  stack : StackAll P t
  afe : AfeFmt t

/-- the predicate accepts (clones of) formatting elements -/
def FmtOk (P : NP) : Prop := ∀ n, n.isIn formattingNames = true → P n .html

/-! ### shrinking operations -/

/-- `f` only removes stack elements and list entries (it may add markers) -/
def Shrinks (f : Tree → Tree) : Prop :=
  ∀ t, (∀ e ∈ (f t).stack, e ∈ t.stack) ∧ (∀ x, AfeEntry.el x ∈ (f t).afe → AfeEntry.el x ∈ t.afe)

theorem Shrinks.ok {f : Tree → Tree} (h : Shrinks f) {P : NP} {t : Tree} (ht : TreeOk P t) : TreeOk P (f t) :=
  ⟨fun e he => ht.stack e ((h t).1 e he), fun x hx => ht.afe x ((h t).2 x hx)⟩

theorem Shrinks.comp {f g : Tree → Tree} (hf : Shrinks f) (hg : Shrinks g) : Shrinks (fun t => g (f t)) :=
  fun t => ⟨fun e he => (hf t).1 e ((hg (f t)).1 e he), fun x hx => (hf t).2 x ((hg (f t)).2 x hx)⟩

theorem Shrinks.id : Shrinks (fun t => t) := fun _ => ⟨fun _ h => h, fun _ h => h⟩

theorem Shrinks.ite {f g : Tree → Tree} (b : Tree → Bool) (hf : Shrinks f) (hg : Shrinks g) :
    Shrinks (fun t => if b t then f t else g t) := by
  intro t
  show (∀ e ∈ (if b t then f t else g t).stack, e ∈ t.stack) ∧
    (∀ x, AfeEntry.el x ∈ (if b t then f t else g t).afe → AfeEntry.el x ∈ t.afe)
  by_cases h : b t = true
  · rw [if_pos h]; exact hf t
  · rw [if_neg h]; exact hg t

theorem popUntil_sub (p : El → Bool) (l : List El) : ∀ e ∈ popUntil p l, e ∈ l := by
  induction l with
  | nil => intro e he; cases he
  | cons x xs ih =>
    intro e he
    unfold popUntil at he
    split at he
    · exact List.mem_cons_of_mem _ he
    · exact List.mem_cons_of_mem _ (ih e he)

theorem popWhileNot_sub (p : El → Bool) (l : List El) : ∀ e ∈ popWhileNot p l, e ∈ l := by
  induction l with
  | nil => intro e he; cases he
  | cons x xs ih =>
    intro e he
    unfold popWhileNot at he
    split at he
    · exact he
    · exact List.mem_cons_of_mem _ (ih e he)

theorem popImplied_sub (l : List Name) (ex : Option Name) (st : List El) : ∀ e ∈ popImplied l ex st, e ∈ st := by
  induction st with
  | nil => intro e he; cases he
  | cons x xs ih =>
    intro e he
    unfold popImplied at he
    split at he
    · exact List.mem_cons_of_mem _ (ih e he)
    · exact he

theorem clearToMarker_sub (l : List AfeEntry) : ∀ x ∈ clearToMarker l, x ∈ l := by
  induction l with
  | nil => intro x hx; cases hx
  | cons y ys ih =>
    intro x hx
    cases y with
    | marker => exact List.mem_cons_of_mem _ hx
    | el e => exact List.mem_cons_of_mem _ (ih x hx)

/-- an operation that replaces the stack by a sub-list and leaves the list alone -/
theorem shrinks_stack (g : List El → List El) (hg : ∀ l, ∀ e ∈ g l, e ∈ l) :
    Shrinks (fun t => { t with stack := g t.stack }) :=
  fun t => ⟨fun e he => hg _ e he, fun _ h => h⟩

theorem shrinks_pop : Shrinks Tree.pop :=
  shrinks_stack List.tail (fun _ _ he => List.mem_of_mem_tail he)

theorem shrinks_popUntilNamed (n : Name) : Shrinks (Tree.popUntilNamed · n) :=
  shrinks_stack _ (popUntil_sub _)

theorem shrinks_popUntilIn (l : List Name) : Shrinks (Tree.popUntilIn · l) :=
  shrinks_stack _ (popUntil_sub _)

theorem shrinks_clearToTableContext : Shrinks Tree.clearToTableContext := shrinks_stack _ (popWhileNot_sub _)
theorem shrinks_clearToTableBodyContext : Shrinks Tree.clearToTableBodyContext := shrinks_stack _ (popWhileNot_sub _)
theorem shrinks_clearToTableRowContext : Shrinks Tree.clearToTableRowContext := shrinks_stack _ (popWhileNot_sub _)

theorem shrinks_genImplied (ex : Option Name) : Shrinks (Tree.genImplied · ex) := shrinks_stack _ (popImplied_sub _ _)
theorem shrinks_genImpliedThoroughly : Shrinks Tree.genImpliedThoroughly := shrinks_stack _ (popImplied_sub _ _)

theorem shrinks_closeP : Shrinks Tree.closeP :=
  (shrinks_genImplied (some .p)).comp (shrinks_popUntilNamed .p)

theorem shrinks_closePInButtonScope (c : Cfg) : Shrinks (Tree.closePInButtonScope c) := by
  intro t
  unfold Tree.closePInButtonScope
  split
  · exact shrinks_closeP t
  · exact Shrinks.id t

theorem shrinks_removeFromStack (id : El) : Shrinks (Tree.removeFromStack · id) :=
  shrinks_stack _ (fun _ _ he => (List.mem_filter.mp he).1)

theorem shrinks_anyOtherEndTag (c : Cfg) (n : Name) : Shrinks (Tree.anyOtherEndTag c · n) := by
  intro t
  show (∀ e ∈ (Tree.anyOtherEndTag c t n).stack, e ∈ t.stack) ∧
    (∀ x, AfeEntry.el x ∈ (Tree.anyOtherEndTag c t n).afe → AfeEntry.el x ∈ t.afe)
  unfold Tree.anyOtherEndTag
  cases findEndTarget c.dev n t.stack with
  | some i => exact ⟨fun e he => List.mem_of_mem_drop he, fun _ h => h⟩
  | none => exact ⟨fun _ h => h, fun _ h => h⟩

theorem shrinks_pushMarker : Shrinks Tree.pushMarker := by
  intro t
  refine ⟨fun _ h => h, fun x hx => ?_⟩
  simp only [Tree.pushMarker, List.mem_cons] at hx
  rcases hx with h | h
  · cases h
  · exact h

theorem shrinks_clearAfeToMarker : Shrinks Tree.clearAfeToMarker :=
  fun t => ⟨fun _ h => h, fun x hx => clearToMarker_sub _ _ hx⟩

theorem shrinks_removeFromAfe (id : El) : Shrinks (Tree.removeFromAfe · id) :=
  fun t => ⟨fun _ h => h, fun x hx => (List.mem_filter.mp hx).1⟩

theorem shrinks_closeListItem (c : Cfg) (l : List Name) : Shrinks (Tree.closeListItem c l) := by
  intro t
  unfold Tree.closeListItem
  split
  · exact ((shrinks_genImplied _).comp (shrinks_popUntilNamed _)) t
  · exact Shrinks.id t

theorem shrinks_popForeign (c : Cfg) : Shrinks (Tree.popForeign c) := shrinks_stack _ (popWhileNot_sub _)

theorem shrinks_popToRoot : Shrinks Tree.popToRoot :=
  fun _ => ⟨fun _ he => List.mem_of_mem_drop he, fun _ h => h⟩

/-! ### one lemma per shrinking operation (for `apply`) -/

theorem TreeOk.popToRoot' {P : NP} {t : Tree} (ht : TreeOk P t) : TreeOk P (Tree.popToRoot t) := shrinks_popToRoot.ok ht

theorem TreeOk.pop' {P : NP} {t : Tree}  (ht : TreeOk P t) : TreeOk P (Tree.pop t) :=
  (shrinks_pop).ok ht
theorem TreeOk.popUntilNamed' {P : NP} {t : Tree} (n : Name) (ht : TreeOk P t) : TreeOk P (Tree.popUntilNamed t n) :=
  (shrinks_popUntilNamed n).ok ht
theorem TreeOk.popUntilIn' {P : NP} {t : Tree} (l : List Name) (ht : TreeOk P t) : TreeOk P (Tree.popUntilIn t l) :=
  (shrinks_popUntilIn l).ok ht
theorem TreeOk.clearToTableContext' {P : NP} {t : Tree}  (ht : TreeOk P t) : TreeOk P (Tree.clearToTableContext t) :=
  (shrinks_clearToTableContext).ok ht
theorem TreeOk.clearToTableBodyContext' {P : NP} {t : Tree}  (ht : TreeOk P t) : TreeOk P (Tree.clearToTableBodyContext t) :=
  (shrinks_clearToTableBodyContext).ok ht
theorem TreeOk.clearToTableRowContext' {P : NP} {t : Tree}  (ht : TreeOk P t) : TreeOk P (Tree.clearToTableRowContext t) :=
  (shrinks_clearToTableRowContext).ok ht
theorem TreeOk.genImplied' {P : NP} {t : Tree} (ex : Option Name) (ht : TreeOk P t) : TreeOk P (Tree.genImplied t ex) :=
  (shrinks_genImplied ex).ok ht
theorem TreeOk.genImpliedThoroughly' {P : NP} {t : Tree}  (ht : TreeOk P t) : TreeOk P (Tree.genImpliedThoroughly t) :=
  (shrinks_genImpliedThoroughly).ok ht
theorem TreeOk.closeP' {P : NP} {t : Tree}  (ht : TreeOk P t) : TreeOk P (Tree.closeP t) :=
  (shrinks_closeP).ok ht
theorem TreeOk.closePInButtonScope' {P : NP} {t : Tree} (c : Cfg) (ht : TreeOk P t) : TreeOk P (Tree.closePInButtonScope c t) :=
  (shrinks_closePInButtonScope c).ok ht
theorem TreeOk.removeFromStack' {P : NP} {t : Tree} (id : El) (ht : TreeOk P t) : TreeOk P (Tree.removeFromStack t id) :=
  (shrinks_removeFromStack id).ok ht
theorem TreeOk.anyOtherEndTag' {P : NP} {t : Tree} (n : Name) (c : Cfg) (ht : TreeOk P t) : TreeOk P (Tree.anyOtherEndTag c t n) :=
  (shrinks_anyOtherEndTag c n).ok ht
theorem TreeOk.pushMarker' {P : NP} {t : Tree}  (ht : TreeOk P t) : TreeOk P (Tree.pushMarker t) :=
  (shrinks_pushMarker).ok ht
theorem TreeOk.clearAfeToMarker' {P : NP} {t : Tree}  (ht : TreeOk P t) : TreeOk P (Tree.clearAfeToMarker t) :=
  (shrinks_clearAfeToMarker).ok ht
theorem TreeOk.removeFromAfe' {P : NP} {t : Tree} (id : El) (ht : TreeOk P t) : TreeOk P (Tree.removeFromAfe t id) :=
  (shrinks_removeFromAfe id).ok ht
theorem TreeOk.closeListItem' {P : NP} {t : Tree} (l : List Name) (c : Cfg) (ht : TreeOk P t) : TreeOk P (Tree.closeListItem c l t) :=
  (shrinks_closeListItem c l).ok ht
theorem TreeOk.popForeign' {P : NP} {t : Tree} (c : Cfg) (ht : TreeOk P t) : TreeOk P (Tree.popForeign c t) :=
  (shrinks_popForeign c).ok ht

/-! ### growing operations -/

theorem TreeOk.pushEl' {P : NP} {t : Tree} (e : El) (ht : TreeOk P t) (h : P e.name e.ns) : TreeOk P (t.pushEl e) := by
  refine ⟨fun x hx => ?_, ht.afe⟩
  simp only [Tree.pushEl, List.mem_cons] at hx
  rcases hx with rfl | hx
  · exact h
  · exact ht.stack x hx


theorem TreeOk.pushNew {P : NP} {t : Tree} (ht : TreeOk P t) (ns : Ns) (n : Name) (a : Attrs) (h : P n ns) :
    TreeOk P (t.pushNew ns n a) := by
  refine ⟨fun e he => ?_, ht.afe⟩
  simp only [Tree.pushNew, List.mem_cons] at he
  rcases he with rfl | he
  · exact h
  · exact ht.stack e he

theorem TreeOk.insertHtml {P : NP} {t : Tree} (ht : TreeOk P t) (n : Name) (a : Attrs) (h : P n .html) :
    TreeOk P (t.insertHtml n a) := ht.pushNew .html n a h

theorem insertAndPop_stack (t : Tree) (n : Name) (a : Attrs) : (t.insertAndPop n a).stack = t.stack := rfl
theorem insertAndPop_afe (t : Tree) (n : Name) (a : Attrs) : (t.insertAndPop n a).afe = t.afe := rfl

theorem TreeOk.insertAndPop {P : NP} {t : Tree} (ht : TreeOk P t) (n : Name) (a : Attrs) :
    TreeOk P (t.insertAndPop n a) := ⟨ht.stack, ht.afe⟩

theorem noahRemove_sub (e : El) (afe : List AfeEntry) : ∀ x ∈ noahRemove e afe, x ∈ afe := by
  intro x hx
  unfold noahRemove at hx
  simp only at hx
  split at hx
  · split at hx
    · exact (List.mem_filter.mp hx).1
    · exact hx
  · exact hx

theorem TreeOk.insertFormatting {P : NP} {t : Tree} (ht : TreeOk P t) (n : Name) (a : Attrs)
    (hn : n.isIn formattingNames = true) (h : P n .html) : TreeOk P (t.insertFormatting n a) := by
  refine ⟨fun e he => ?_, fun x hx => ?_⟩
  · simp only [Tree.insertFormatting, Tree.pushFormatting, Tree.insertHtml, Tree.pushNew, List.mem_cons] at he
    rcases he with rfl | he
    · exact h
    · exact ht.stack e he
  · simp only [Tree.insertFormatting, Tree.pushFormatting, Tree.insertHtml, Tree.pushNew, List.mem_cons] at hx
    rcases hx with hx | hx
    · injection hx with hx; subst hx; exact hn
    · exact ht.afe x (noahRemove_sub _ _ _ hx)

/-! ### reconstruct the active formatting elements -/

/-- the predicate does not depend on the namespace being HTML already: an element that satisfies it
also does so as an HTML element (true of every predicate used here: they all say "HTML namespace and …") -/
def HtmlClosed (P : NP) : Prop := ∀ n ns, P n ns → P n .html

theorem reconstructCreate_ok {P : NP} (hP : FmtOk P) (l : List AfeEntry) :
    ∀ (t : Tree), (∀ x, AfeEntry.el x ∈ l → x.name.isIn formattingNames = true) → StackAll P t →
      StackAll P (reconstructCreate t l).1 ∧
      (∀ x, AfeEntry.el x ∈ (reconstructCreate t l).2 → x.name.isIn formattingNames = true) := by
  induction l with
  | nil => intro t _ ht; exact ⟨ht, fun x hx => by cases hx⟩
  | cons y ys ih =>
    intro t hl ht
    cases y with
    | marker =>
      simp only [reconstructCreate]
      exact ih t (fun x hx => hl x (List.mem_cons_of_mem _ hx)) ht
    | el e =>
      simp only [reconstructCreate]
      have he : e.name.isIn formattingNames = true := hl e (by simp)
      have ht1 : StackAll P (t.insertHtml e.name e.attrs) := by
        intro z hz
        simp only [Tree.insertHtml, Tree.pushNew, List.mem_cons] at hz
        rcases hz with rfl | hz
        · exact hP _ he
        · exact ht z hz
      obtain ⟨h1, h2⟩ := ih (t.insertHtml e.name e.attrs) (fun x hx => hl x (List.mem_cons_of_mem _ hx)) ht1
      refine ⟨h1, fun x hx => ?_⟩
      simp only [List.mem_append, List.mem_singleton] at hx
      rcases hx with hx | hx
      · exact h2 x hx
      · injection hx with hx; subst hx; exact he

theorem TreeOk.reconstructAfe {P : NP} (hP : FmtOk P) {t : Tree} (ht : TreeOk P t) : TreeOk P t.reconstructAfe := by
  unfold Tree.reconstructAfe
  have hsub : ∀ x, AfeEntry.el x ∈ (t.afe.takeWhile (fun e => !t.markerOrOpen e)).reverse →
      x.name.isIn formattingNames = true := by
    intro x hx
    exact ht.afe x ((List.takeWhile_prefix _).subset (List.mem_reverse.mp hx))
  obtain ⟨h1, h2⟩ := reconstructCreate_ok hP _ t hsub ht.stack
  refine ⟨h1, fun x hx => ?_⟩
  simp only [List.mem_append] at hx
  rcases hx with hx | hx
  · exact h2 x hx
  · exact ht.afe x ((List.dropWhile_suffix _).subset hx)

/-! ### adoption agency -/

theorem findFormatting_mem (n : Name) (l : List AfeEntry) (e : El) (h : findFormatting n l = some e) :
    AfeEntry.el e ∈ l := by
  induction l with
  | nil => cases h
  | cons y ys ih =>
    cases y with
    | marker => cases h
    | el x =>
      simp only [findFormatting] at h
      split at h
      · injection h with h; subst h; simp
      · exact List.mem_cons_of_mem _ (ih h)

theorem splitAtId_sub (id : El) (l : List El) (a b : List El) (h : splitAtId id l = some (a, b)) :
    (∀ e ∈ a, e ∈ l) ∧ (∀ e ∈ b, e ∈ l) := by
  induction l generalizing a b with
  | nil => cases h
  | cons x xs ih =>
    simp only [splitAtId] at h
    split at h
    · injection h with h; injection h with h1 h2; subst h1 h2
      exact ⟨fun e he => (by cases he), fun e he => List.mem_cons_of_mem _ he⟩
    · cases hr : splitAtId id xs with
      | none => rw [hr] at h; cases h
      | some r =>
        rw [hr] at h
        simp only [Option.map] at h
        injection h with h; injection h with h1 h2; subst h1 h2
        obtain ⟨i1, i2⟩ := ih r.1 r.2 (by rw [hr])
        refine ⟨fun e he => ?_, fun e he => List.mem_cons_of_mem _ (i2 e he)⟩
        rcases List.mem_cons.mp he with rfl | he
        · simp
        · exact List.mem_cons_of_mem _ (i1 e he)

theorem splitFurthest_go_sub (d : Dev) (l acc top btw : List El) (fb : El)
    (h : splitFurthest.go d l acc = some (top, fb, btw)) :
    (∀ e ∈ top, e ∈ l) ∧ fb ∈ l ∧ (∀ e ∈ btw, e ∈ l ∨ e ∈ acc) := by
  induction l generalizing acc with
  | nil => cases h
  | cons x xs ih =>
    simp only [splitFurthest.go] at h
    split at h
    · injection h with h; injection h with h1 h2; injection h2 with h2 h3; subst h1 h2 h3
      exact ⟨fun e he => List.mem_cons_of_mem _ (List.mem_reverse.mp he), by simp, fun e he => Or.inr he⟩
    · obtain ⟨i1, i2, i3⟩ := ih (x :: acc) h
      refine ⟨fun e he => List.mem_cons_of_mem _ (i1 e he), List.mem_cons_of_mem _ i2, fun e he => ?_⟩
      rcases i3 e he with h' | h'
      · exact Or.inl (List.mem_cons_of_mem _ h')
      · rcases List.mem_cons.mp h' with rfl | h''
        · exact Or.inl (by simp)
        · exact Or.inr h''

theorem splitFurthest_sub (d : Dev) (above top btw : List El) (fb : El)
    (h : splitFurthest d above = some (top, fb, btw)) :
    (∀ e ∈ top, e ∈ above) ∧ fb ∈ above ∧ (∀ e ∈ btw, e ∈ above) := by
  unfold splitFurthest at h
  obtain ⟨i1, i2, i3⟩ := splitFurthest_go_sub d _ _ _ _ _ h
  refine ⟨fun e he => List.mem_reverse.mp (i1 e he), List.mem_reverse.mp i2, fun e he => ?_⟩
  rcases i3 e he with h' | h'
  · exact List.mem_reverse.mp h'
  · cases h'

theorem afeFmt_map_replace (l : List AfeEntry) (id : El) (ne : El) (hne : ne.name.isIn formattingNames = true)
    (hl : ∀ x, AfeEntry.el x ∈ l → x.name.isIn formattingNames = true) :
    ∀ x, AfeEntry.el x ∈ l.map (fun y => if AfeEntry.hasId id y then AfeEntry.el ne else y) →
      x.name.isIn formattingNames = true := by
  intro x hx
  obtain ⟨y, hy, hxy⟩ := List.mem_map.mp hx
  split at hxy
  · injection hxy with hxy; subst hxy; exact hne
  · subst hxy; exact hl x hy

theorem inAfe_mem (t : Tree) (x : El) (h : t.inAfe x = true) : AfeEntry.el x ∈ t.afe := by
  unfold Tree.inAfe at h
  obtain ⟨y, hy, hf⟩ := List.any_eq_true.mp h
  cases y with
  | marker => cases hf
  | el z =>
    simp only [AfeEntry.hasId, beq_iff_eq] at hf
    subst hf; exact hy

theorem aaaInner_ok {P : NP} (hP : FmtOk P) (between : List El) :
    ∀ (t : Tree) (k : Nat) (b : Bool), AfeFmt t → (∀ e ∈ between, P e.name e.ns) →
      AfeFmt (aaaInner t k b between).st ∧ (∀ e ∈ (aaaInner t k b between).between, P e.name e.ns) := by
  induction between with
  | nil => intro t k b ht _; exact ⟨ht, fun e he => by cases he⟩
  | cons node rest ih =>
    intro t k b ht hb
    have hrest : ∀ e ∈ rest, P e.name e.ns := fun e he => hb e (List.mem_cons_of_mem _ he)
    simp only [aaaInner]
    split
    · exact ih _ _ _ (fun x hx => ht x ((shrinks_removeFromAfe node t).2 x hx)) hrest
    · rename_i hc
      have hin : t.inAfe node = true := by
        simp only [Bool.or_eq_true, decide_eq_true_eq, Bool.not_eq_true', not_or, Bool.not_eq_false] at hc
        exact hc.2
      have hxf := ht node (inAfe_mem t node hin)
      obtain ⟨h1, h2⟩ := ih
        { t with nextId := t.nextId + 1,
                 afe := t.afe.map (fun y => if AfeEntry.hasId node y then .el ⟨t.nextId, .html, node.name, node.attrs⟩ else y) }
        (k + 1) false (afeFmt_map_replace t.afe node _ hxf ht) hrest
      refine ⟨h1, fun e he => ?_⟩
      rcases List.mem_cons.mp he with rfl | he
      · exact hP _ hxf
      · exact h2 e he

theorem insertAfterId_mem (x : AfeEntry) (id : El) (l : List AfeEntry) : ∀ y ∈ insertAfterId x id l, y = x ∨ y ∈ l := by
  induction l with
  | nil => intro y hy; simp only [insertAfterId, List.mem_singleton] at hy; exact Or.inl hy
  | cons z zs ih =>
    intro y hy
    simp only [insertAfterId] at hy
    split at hy
    · rcases List.mem_cons.mp hy with rfl | hy
      · exact Or.inl rfl
      · exact Or.inr hy
    · rcases List.mem_cons.mp hy with rfl | hy
      · exact Or.inr (by simp)
      · rcases ih y hy with h | h
        · exact Or.inl h
        · exact Or.inr (List.mem_cons_of_mem _ h)

theorem aaaIter_ok {P : NP} (hP : FmtOk P) (c : Cfg) (t : Tree) (subject : Name) (ht : TreeOk P t) :
    TreeOk P (aaaIter c t subject).1 := by
  unfold aaaIter
  cases hf : findFormatting subject t.afe with
  | none => exact (shrinks_anyOtherEndTag c subject).ok ht
  | some fe =>
    have hfe : fe.name.isIn formattingNames = true := ht.afe fe (findFormatting_mem _ _ _ hf)
    simp only
    split
    · exact (shrinks_removeFromAfe fe).ok ht
    · split
      · exact ht
      · cases hs : splitAtId fe t.stack with
        | none => exact ht
        | some ab =>
          obtain ⟨above, below⟩ := ab
          obtain ⟨ha, hb⟩ := splitAtId_sub _ _ _ _ hs
          simp only
          cases hfb : splitFurthest c.dev above with
          | none =>
            simp only
            exact (shrinks_removeFromAfe fe).ok ⟨fun e he => ht.stack e (hb e he), ht.afe⟩
          | some r =>
            obtain ⟨top, fb, between⟩ := r
            obtain ⟨h1, h2, h3⟩ := splitFurthest_sub _ _ _ _ _ hfb
            simp only
            obtain ⟨i1, i2⟩ := aaaInner_ok hP between t 1 true ht.afe (fun e he => ht.stack e (ha e (h3 e he)))
            refine ⟨fun e he => ?_, fun x hx => ?_⟩
            · simp only [List.mem_append, List.mem_cons] at he
              rcases he with he | rfl | rfl | he | he
              · exact ht.stack e (ha e (h1 e he))
              · exact hP _ hfe
              · exact ht.stack _ (ha _ h2)
              · exact i2 e he
              · exact ht.stack e (hb e he)
            · simp only at hx
              split at hx
              · exact afeFmt_map_replace _ fe ⟨_, .html, fe.name, fe.attrs⟩ hfe i1 x hx
              · have hx' := (List.mem_filter.mp hx).1
                rcases insertAfterId_mem _ _ _ _ hx' with h | h
                · injection h with h; subst h; exact hfe
                · exact i1 x h

theorem aaaLoop_ok {P : NP} (hP : FmtOk P) (c : Cfg) (subject : Name) (n : Nat) :
    ∀ t, TreeOk P t → TreeOk P (aaaLoop c subject n t) := by
  induction n with
  | zero => intro t ht; exact ht
  | succ n ih =>
    intro t ht
    simp only [aaaLoop]
    split
    · exact ih _ (aaaIter_ok hP c t subject ht)
    · exact aaaIter_ok hP c t subject ht

theorem TreeOk.adoptionAgency {P : NP} (hP : FmtOk P) (c : Cfg) (subject : Name) {t : Tree} (ht : TreeOk P t) :
    TreeOk P (t.adoptionAgency c subject) := by
  unfold Tree.adoptionAgency
  split
  · split
    · exact shrinks_pop.ok ht
    · exact aaaLoop_ok hP c subject 8 _ ht
  · exact aaaLoop_ok hP c subject 8 _ ht

end LolHtml.Spec.TreeBuilder
