import LolHtml.Lemmas.RawDefs
import LolHtml.Lemmas.TokAct
/-!
# Attribute raw ranges: concretisation, and soundness of the abstract effect of every action
-/
set_option linter.unusedSimpArgs false
set_option linter.unusedVariables false
namespace LolHtml.Model

open LolHtml.Lemmas.Sim (start_eq end_eq guardStart_cases startCore)

variable {κ : Type}

/-- the raw range of an attribute lies inside the lexeme so far: `ls` = `lexeme_start`, `hi` = cursor -/
def RawA (ls hi : Nat) (a : AttrOutline) : Prop :=
  ls ≤ a.raw.start ∧ a.raw.start ≤ a.raw.end ∧ a.raw.start ≤ hi ∧ a.raw.end ≤ hi + 1

def RawL (v : RV) (ls hi : Nat) (l : LexRegs) : Prop :=
  (v.attr = true → ∀ a, l.curAttr = some a → RawA ls hi a) ∧
  (v.tag = true → ∀ n h ns as sc, l.curTag = some (.startTag n h ns as sc) → ∀ a ∈ as, RawA ls hi a) ∧
  (v.tps = true → ls ≤ l.tokenPartStart ∧ l.tokenPartStart ≤ hi)

def RawR (v : RV) (hi : Nat) : Regs → Prop
  | .lexer l => RawL v l.lexemeStart hi l
  | .scanner _ => True

def RawM (v : RV) (hi : Nat) (m : M κ) : Prop := RawR v hi m.r

/-- the attribute raw ranges of a tag lexeme lie inside the lexeme's raw range -/
def AttrsRawOK (lx : TagLexeme) : Prop :=
  match lx.outline with
  | .startTag _ _ _ as _ => ∀ a ∈ as, lx.raw.start ≤ a.raw.start ∧ a.raw.start ≤ a.raw.end ∧ a.raw.end ≤ lx.raw.end
  | .endTag .. => True

instance (lx : TagLexeme) : Decidable (AttrsRawOK lx) := by
  unfold AttrsRawOK
  split <;> infer_instance

/-- the site used for "a tag lexeme with an attribute raw range outside the lexeme was handed to the sink";
the state machine itself never fails there (it is one of the dispatcher's own slice checks) -/
def rawSite : String := "Bytes::slice out of range (tag name)"

def T3 (s : String) : Prop := s = rawSite

/-- on tag lexemes with `AttrsRawOK` the sink does not fail at `rawSite`; the other operations never do -/
structure SinkSafe3 (ops : SinkOps κ) (inp : Bytes) : Prop where
  handleTag : ∀ lx k, AttrsRawOK lx → ∀ e, (ops.handleTag inp lx k).2 = .error e → ErrNot T3 e
  handleNonTag : ∀ lx k e, (ops.handleNonTag inp lx k).2 = .error e → ErrNot T3 e
  startTagHint : ∀ n ns k e, (ops.startTagHint n ns k).2 = .error e → ErrNot T3 e
  endTagHint : ∀ n k e, (ops.endTagHint n k).2 = .error e → ErrNot T3 e

def RawPost (v' : RV) (pos : Nat) (r : M κ × Option Signal) : Prop :=
  RawM v' pos r.1 ∧ ∀ e, r.2 = some (.err e) → ErrNot T3 e

/-! ### basic facts -/

theorem RawA.mono {ls hi hi' : Nat} {a : AttrOutline} (h : RawA ls hi a) (hh : hi ≤ hi') : RawA ls hi' a :=
  ⟨h.1, h.2.1, by have := h.2.2.1; omega, by have := h.2.2.2; omega⟩

theorem RawL.mono {v : RV} {ls hi hi' : Nat} {l : LexRegs} (h : RawL v ls hi l) (hh : hi ≤ hi') : RawL v ls hi' l :=
  ⟨fun hv a ha => (h.1 hv a ha).mono hh, fun hv n hs ns as sc ht a ha => (h.2.1 hv n hs ns as sc ht a ha).mono hh,
   fun hv => ⟨(h.2.2 hv).1, by have := (h.2.2 hv).2; omega⟩⟩

theorem RawR.mono {v : RV} {hi hi' : Nat} {r : Regs} (h : RawR v hi r) (hh : hi ≤ hi') : RawR v hi' r := by
  cases r with
  | lexer l => exact RawL.mono h hh
  | scanner s => trivial

theorem RawL.le {v v' : RV} {ls hi : Nat} {l : LexRegs} (h : RawL v ls hi l) (hle : v.le v' = true) : RawL v' ls hi l := by
  unfold RV.le at hle
  simp only [Bool.and_eq_true, Bool.or_eq_true, Bool.not_eq_true'] at hle
  obtain ⟨⟨h1, h2⟩, h3⟩ := hle
  refine ⟨fun hv => h.1 ?_, fun hv => h.2.1 ?_, fun hv => h.2.2 ?_⟩
  · rcases h1 with h1 | h1
    · rw [h1] at hv; cases hv
    · exact h1
  · rcases h2 with h2 | h2
    · rw [h2] at hv; cases hv
    · exact h2
  · rcases h3 with h3 | h3
    · rw [h3] at hv; cases hv
    · exact h3

theorem RawR.le {v v' : RV} {hi : Nat} {r : Regs} (h : RawR v hi r) (hle : v.le v' = true) : RawR v' hi r := by
  cases r with
  | lexer l => exact RawL.le h hle
  | scanner s => trivial

theorem RawL.top (ls hi : Nat) (l : LexRegs) : RawL .top ls hi l :=
  ⟨fun h => (by cases h), fun h => (by cases h), fun h => by cases h⟩

theorem RawM.top (hi : Nat) (m : M κ) : RawM .top hi m := by
  unfold RawM
  cases m.r with
  | lexer l => exact RawL.top _ _ _
  | scanner s => trivial

theorem RV.le_refl (v : RV) : v.le v = true := by
  cases v with
  | mk a b c => cases a <;> cases b <;> cases c <;> rfl

theorem errNot_T3_panic {s : String} (h : s ≠ rawSite) : ErrNot T3 (.panic s) := h
theorem errNot_T3_internal {s : String} (h : s ≠ rawSite) : ErrNot T3 (.internal s) := h

/-! ### errors of the simulator are not at `rawSite` -/

theorem Sim.feedbackForStartTag_e3 {cfg : TagCfg} {s : Sim} {t : Nat} {e : Err}
    (h : s.feedbackForStartTag cfg t = .error e) : ErrNot T3 e := by
  rw [start_eq] at h
  rcases guardStart_cases cfg s t with ⟨g, hg⟩ | ⟨_, hg⟩
  · rw [hg] at h
    dsimp only at h
    unfold startCore at h
    (repeat' split at h) <;> first | (cases h; done) | (simp only [Except.error.injEq] at h; subst h; exact errNot_T3_panic (by decide))
  · rw [hg] at h
    simp only [Except.error.injEq] at h
    subst h
    trivial

theorem Sim.feedbackForEndTag_e3 {cfg : TagCfg} {s : Sim} {t : Nat} {e : Err}
    (h : s.feedbackForEndTag cfg t = .error e) : ErrNot T3 e := by
  rw [end_eq] at h
  split at h
  · cases h
  · simp only [Except.error.injEq] at h; subst h; exact errNot_T3_panic (by decide)

theorem lexGetFeedback_e3 {cfg : TagCfg} {sim : Sim} {fd : FeedbackDirective} {tok : TagOutline} {e : Err}
    (h : lexGetFeedback cfg sim fd tok = .error e) : ErrNot T3 e := by
  unfold lexGetFeedback at h
  split at h
  · cases h
  · cases h
  · split at h
    · rename_i hsh _ _ _
      cases hfb : sim.feedbackForStartTag cfg hsh with
      | error e' => rw [hfb] at h; simp [Except.map] at h; subst h; exact Sim.feedbackForStartTag_e3 hfb
      | ok v => rw [hfb] at h; simp [Except.map] at h
    · rename_i hsh
      cases hfb : sim.feedbackForEndTag cfg hsh with
      | error e' => rw [hfb] at h; simp [Except.map] at h; subst h; exact Sim.feedbackForEndTag_e3 hfb
      | ok v => rw [hfb] at h; simp [Except.map] at h

theorem lexHandleFeedback_e3 {inp : Bytes} {c : Common} {sim : Sim} {f : Feedback} {o : TagOutline} {e : Err}
    (h : lexHandleFeedback inp c sim f o = .error e) : ErrNot T3 e := by
  unfold lexHandleFeedback at h
  dsimp only at h
  (repeat' split at h) <;>
    first
    | (cases h; done)
    | (simp only [Except.error.injEq] at h; subst h; exact errNot_T3_panic (by decide))

section
variable {env : Env κ} {inp : Bytes} {W : κ → Nat} {lo : Nat}

/-! ### the emitting lexer actions -/

theorem lexEmitNonTag_e3 (hs3 : SinkSafe3 env.ops inp) (c : Common) (l : LexRegs) (x : Ctx κ)
    (o : Option NonTagOutline) (rawEnd : Nat) :
    ∀ e, (lexEmitNonTag env inp c l x o rawEnd).2 = some (.err e) → ErrNot T3 e := by
  intro e h
  unfold lexEmitNonTag at h
  dsimp only at h
  split at h
  · cases h
  · rename_i e' herr
    simp only [Option.some.injEq, Signal.err.injEq] at h
    subst h
    exact hs3.handleNonTag _ _ _ herr

theorem lexEmitText_e3 (hs3 : SinkSafe3 env.ops inp) (c : Common) (l : LexRegs) (x : Ctx κ) :
    ∀ e, (lexEmitText env inp c l x).2 = some (.err e) → ErrNot T3 e := by
  intro e h
  unfold lexEmitText at h
  split at h
  · exact lexEmitNonTag_e3 hs3 _ _ _ _ _ e h
  · cases h

theorem lexEmitEof_e3 (hs3 : SinkSafe3 env.ops inp) (m : M κ) :
    ∀ e, (lexEmitEof env inp m).2 = some (.err e) → ErrNot T3 e := by
  intro e h
  unfold lexEmitEof at h
  split at h
  · exact lexEmitNonTag_e3 hs3 _ _ _ _ _ e h
  · cases h

theorem andThen_e3 (r : M κ × Option Signal) (g : M κ → M κ × Option Signal)
    (hr : ∀ e, r.2 = some (.err e) → ErrNot T3 e) (hg : ∀ m e, (g m).2 = some (.err e) → ErrNot T3 e) :
    ∀ e, (andThen r g).2 = some (.err e) → ErrNot T3 e := by
  intro e h
  unfold andThen at h
  split at h
  · rename_i s hs
    simp only [Option.some.injEq] at h
    subst h
    exact hr e hs
  · exact hg _ e h

theorem lexStampTag_attrsRaw (c : Common) (sim : Sim) (tok : TagOutline) (raw : Range) (pc : Nat)
    (h : AttrsRawOK ⟨pc, raw, tok⟩) : AttrsRawOK ⟨pc, raw, (lexStampTag c sim tok).2⟩ := by
  cases tok with
  | startTag n hsh ns as sc => exact h
  | endTag n hsh => exact h

/-- `emit_tag`: the current tag token is gone afterwards, and the lexeme handed over is good -/
theorem lexEmitTag_raw (hs3 : SinkSafe3 env.ops inp) {v : RV} (c : Common) (l : LexRegs) (x : Ctx κ)
    (ht : RawL v l.lexemeStart c.pos l) (hv : v.tag = true) :
    RawPost ⟨false, true, false⟩ c.pos (lexEmitTag env inp c l x) := by
  have hgood : ∀ (l' : LexRegs), l'.curTag = none → RawL ⟨false, true, false⟩ l'.lexemeStart c.pos l' :=
    fun l' hl' => ⟨fun h => (by cases h), fun _ n hs ns as sc h => (by rw [hl'] at h; cases h), fun h => by cases h⟩
  unfold lexEmitTag
  split
  · rename_i hct
    exact ⟨hgood l hct, fun e h => by
      simp only [Option.some.injEq, Signal.err.injEq] at h; subst h; exact errNot_T3_internal (by decide)⟩
  · rename_i tok hct
    dsimp only
    have hraw : AttrsRawOK ⟨x.prevConsumed, ⟨l.lexemeStart, c.pos + 1⟩, tok⟩ := by
      unfold AttrsRawOK
      cases tok with
      | endTag n hsh => trivial
      | startTag n hsh ns as sc =>
        intro a ha
        obtain ⟨a1, a2, _, a4⟩ := ht.2.1 hv n hsh ns as sc hct a ha
        exact ⟨a1, a2, a4⟩
    split
    · rename_i e herr
      exact ⟨hgood _ rfl, fun e' h => by
        simp only [Option.some.injEq, Signal.err.injEq] at h; subst h; exact lexGetFeedback_e3 herr⟩
    · rename_i sf hsf
      split
      · rename_i e herr
        refine ⟨hgood _ rfl, fun e' h => ?_⟩
        simp only [Option.some.injEq, Signal.err.injEq] at h
        subst h
        split at herr
        · exact lexHandleFeedback_e3 herr
        · cases herr
      · rename_i cs hcs
        unfold lexEmitTagLexeme
        dsimp only
        have hr2 := lexStampTag_attrsRaw cs.1 cs.2 tok ⟨l.lexemeStart, c.pos + 1⟩ x.prevConsumed hraw
        have hcall := hs3.handleTag ⟨x.prevConsumed, ⟨l.lexemeStart, c.pos + 1⟩, (lexStampTag cs.1 cs.2 tok).2⟩ x.sink hr2
        split
        · rename_i e herr
          exact ⟨hgood _ rfl, fun e' h => by
            simp only [Option.some.injEq, Signal.err.injEq] at h; subst h; exact hcall _ herr⟩
        · exact ⟨hgood _ rfl, fun e' h => by cases h⟩
        · exact ⟨hgood _ rfl, fun e' h => by cases h⟩

theorem setTagName_start {t : TagOutline} {r n : Range} {h : Nat} {ns : Ns} {as : List AttrOutline} {sc : Bool}
    (he : setTagName t r = .startTag n h ns as sc) : ∃ n0, t = .startTag n0 h ns as sc := by
  cases t with
  | startTag n0 h0 ns0 as0 sc0 =>
    simp only [setTagName, TagOutline.startTag.injEq] at he
    obtain ⟨_, rfl, rfl, rfl, rfl⟩ := he
    exact ⟨n0, rfl⟩
  | endTag n0 h0 => simp [setTagName] at he

theorem updTagHash_start {t : TagOutline} {ch : UInt8} {n : Range} {h : Nat} {ns : Ns} {as : List AttrOutline} {sc : Bool}
    (he : updTagHash t ch = .startTag n h ns as sc) : ∃ h0, t = .startTag n h0 ns as sc := by
  cases t with
  | startTag n0 h0 ns0 as0 sc0 =>
    simp only [updTagHash, TagOutline.startTag.injEq] at he
    obtain ⟨rfl, _, rfl, rfl, rfl⟩ := he
    exact ⟨h0, rfl⟩
  | endTag n0 h0 => simp [updTagHash] at he

/-- a quiet result: same `lexeme_start`, registers described by `v'` -/
theorem rawQuiet {v' : RV} {pos : Nat} (c' : Common) (l' : LexRegs) (x : Ctx κ)
    (h : RawL v' l'.lexemeStart pos l') : RawPost v' pos ((⟨c', .lexer l', x⟩ : M κ), none) :=
  ⟨h, fun e he => by cases he⟩

/-- **soundness of `rawTok`** -/
theorem lexAct_raw (hs3 : SinkSafe3 env.ops inp) {hb f : Bool} {v v' : RV} (act : ActName) (c : Common)
    (l : LexRegs) (x : Ctx κ) (hm : MInvA W inp.length lo hb f ⟨c, .lexer l, x⟩)
    (ht : RawL v l.lexemeStart c.pos l) (hl : rawTok act f v = some v') :
    RawPost v' c.pos (lexAct env act inp c l x) := by
  obtain ⟨a1, a2, a3, a4, a5⟩ := hm
  simp only [RegsA] at a5
  dsimp only at a1 a2 a3 a4 a5
  have hpos : c.pos = c.nextPos - 1 := rfl
  obtain ⟨t1, t2, t3⟩ := ht
  cases act
  case emitText =>
    simp only [rawTok, Option.some.injEq] at hl; subst hl
    exact ⟨RawM.top _ _, lexEmitText_e3 hs3 _ _ _⟩
  case emitTextAndEof =>
    simp only [rawTok, Option.some.injEq] at hl; subst hl
    exact ⟨RawM.top _ _, andThen_e3 _ _ (lexEmitText_e3 hs3 _ _ _) (fun m => lexEmitEof_e3 hs3 m)⟩
  case emitCurrentToken =>
    simp only [rawTok, Option.some.injEq] at hl; subst hl
    exact ⟨RawM.top _ _, lexEmitNonTag_e3 hs3 _ _ _ _ _⟩
  case emitCurrentTokenAndEof =>
    simp only [rawTok, Option.some.injEq] at hl; subst hl
    exact ⟨RawM.top _ _, andThen_e3 _ _ (lexEmitNonTag_e3 hs3 _ _ _ _ _) (fun m => lexEmitEof_e3 hs3 m)⟩
  case emitRawWithoutToken =>
    simp only [rawTok, Option.some.injEq] at hl; subst hl
    exact ⟨RawM.top _ _, lexEmitNonTag_e3 hs3 _ _ _ _ _⟩
  case emitRawWithoutTokenAndEof =>
    simp only [rawTok, Option.some.injEq] at hl; subst hl
    exact ⟨RawM.top _ _, andThen_e3 _ _ (lexEmitNonTag_e3 hs3 _ _ _ _ _) (fun m => lexEmitEof_e3 hs3 m)⟩
  case emitTag =>
    simp only [rawTok] at hl
    split at hl
    · rename_i hv
      simp only [Option.some.injEq] at hl; subst hl
      exact lexEmitTag_raw hs3 c l x ⟨t1, t2, t3⟩ hv
    · cases hl
  case createStartTag =>
    simp only [rawTok, Option.some.injEq] at hl; subst hl
    simp only [lexAct]
    refine rawQuiet _ _ _ ⟨t1, fun _ n h ns as sc he a ha => ?_, t3⟩
    simp only [Option.some.injEq, TagOutline.startTag.injEq] at he
    obtain ⟨_, _, _, rfl, _⟩ := he
    cases ha
  case createEndTag =>
    simp only [rawTok, Option.some.injEq] at hl; subst hl
    simp only [lexAct]
    exact rawQuiet _ _ _ ⟨t1, fun _ n h ns as sc he => (by cases he), t3⟩
  case startTokenPart =>
    simp only [rawTok, Option.some.injEq] at hl; subst hl
    simp only [lexAct]
    exact rawQuiet _ _ _ ⟨t1, t2, fun hf => ⟨a5.2.2 hf, Nat.le_refl _⟩⟩
  case startAttr =>
    simp only [rawTok, Option.some.injEq] at hl; subst hl
    simp only [lexAct]
    split
    · refine rawQuiet _ _ _ ⟨fun h => (by cases h), t2, fun hf => ?_⟩
      simp only [Bool.and_eq_true] at hf
      exact ⟨a5.2.2 hf.2, Nat.le_refl _⟩
    · refine rawQuiet _ _ _ ⟨fun h => (by cases h), t2, fun hf => ?_⟩
      simp only [Bool.and_eq_true] at hf
      exact t3 hf.1
  case finishAttrName =>
    simp only [rawTok, Option.some.injEq] at hl; subst hl
    simp only [lexAct]
    split
    · rename_i a0 ha0
      refine rawQuiet _ _ _ ⟨fun hv a ha => ?_, t2, t3⟩
      simp only [Option.some.injEq] at ha
      subst ha
      obtain ⟨p1, p2⟩ := t3 hv
      simp only [tokenPartRange]
      refine ⟨p1, ?_, ?_, ?_⟩ <;> (dsimp only; omega)
    · rename_i hnone
      exact rawQuiet _ _ _ ⟨fun _ a ha => (by rw [hnone] at ha; cases ha), t2, t3⟩
  case finishAttrValue =>
    simp only [rawTok, Option.some.injEq] at hl; subst hl
    simp only [lexAct]
    split
    · rename_i a0 ha0
      refine rawQuiet _ _ _ ⟨fun hv a ha => ?_, t2, t3⟩
      simp only [Option.some.injEq] at ha
      subst ha
      obtain ⟨p1, p2, p3, p4⟩ := t1 hv a0 ha0
      simp only [tokenPartRange]
      refine ⟨p1, ?_, p3, ?_⟩ <;> (dsimp only; (repeat' split) <;> (simp only [Common.pos] at *; first | exact p3 | exact Nat.le_succ_of_le p3 | exact Nat.le_refl _ | exact Nat.le_succ _ | omega))
    · exact rawQuiet _ _ _ ⟨t1, t2, t3⟩
  case finishAttr =>
    simp only [rawTok, Option.some.injEq] at hl; subst hl
    simp only [lexAct]
    split
    · rename_i a0 ha0
      split
      · rename_i n h ns as sc hct
        refine rawQuiet _ _ _ ⟨fun _ a ha => (by cases ha), fun hv n' h' ns' as' sc' he a ha => ?_, t3⟩
        simp only [Bool.and_eq_true] at hv
        simp only [Option.some.injEq, TagOutline.startTag.injEq] at he
        obtain ⟨_, _, _, rfl, _⟩ := he
        rcases List.mem_append.mp ha with ha | ha
        · exact t2 hv.1 n h ns as sc hct a ha
        · simp only [List.mem_singleton] at ha
          subst ha
          exact t1 hv.2 a ha0
      · refine rawQuiet _ _ _ ⟨fun _ a ha => (by cases ha), fun hv => ?_, t3⟩
        simp only [Bool.and_eq_true] at hv
        exact t2 hv.1
    · rename_i hnone
      refine rawQuiet _ _ _ ⟨fun _ a ha => (by rw [hnone] at ha; cases ha), fun hv => ?_, t3⟩
      simp only [Bool.and_eq_true] at hv
      exact t2 hv.1
  case finishTagName =>
    simp only [rawTok, Option.some.injEq] at hl; subst hl
    simp only [lexAct]
    split
    · rename_i t0 hct
      refine rawQuiet _ _ _ ⟨t1, fun hv n h ns as sc he a ha => ?_, t3⟩
      simp only [Option.some.injEq] at he
      obtain ⟨n0, hn0⟩ := setTagName_start he
      exact t2 hv n0 h ns as sc (by rw [hct, hn0]) a ha
    · exact ⟨⟨t1, t2, t3⟩, fun e h => by
        simp only [Option.some.injEq, Signal.err.injEq] at h; subst h; exact errNot_T3_internal (by decide)⟩
  case updateTagNameHash =>
    simp only [rawTok, Option.some.injEq] at hl; subst hl
    simp only [lexAct]
    split
    · split
      · rename_i t0 hct
        refine rawQuiet _ _ _ ⟨t1, fun hv n h ns as sc he a ha => ?_, t3⟩
        simp only [Option.some.injEq] at he
        obtain ⟨h0, hh0⟩ := updTagHash_start he
        exact t2 hv n h0 ns as sc (by rw [hct, hh0]) a ha
      · exact ⟨⟨t1, t2, t3⟩, fun e h => by
          simp only [Option.some.injEq, Signal.err.injEq] at h; subst h; exact errNot_T3_panic (by decide)⟩
    · exact rawQuiet _ _ _ ⟨t1, t2, t3⟩
  case markAsSelfClosing =>
    simp only [rawTok, Option.some.injEq] at hl; subst hl
    simp only [lexAct]
    split
    · rename_i n h ns as sc hct
      refine rawQuiet _ _ _ ⟨t1, fun hv n' h' ns' as' sc' he a ha => ?_, t3⟩
      simp only [Option.some.injEq, TagOutline.startTag.injEq] at he
      obtain ⟨rfl, rfl, rfl, rfl, _⟩ := he
      exact t2 hv _ _ _ _ _ hct a ha
    · exact rawQuiet _ _ _ ⟨t1, t2, t3⟩
  all_goals
    simp only [rawTok, Option.some.injEq] at hl
    subst hl
    simp only [lexAct]
    (repeat' split) <;> exact rawQuiet _ _ _ ⟨t1, t2, t3⟩

/-! ### the tag scanner: its registers are not described, only its errors -/

theorem scanEmitHint_e3 (hs3 : SinkSafe3 env.ops inp) (c : Common) (s : ScanRegs) (x : Ctx κ) (p : Nat) (ie : Bool) :
    ∀ e, (scanEmitHint env inp c s x p ie).2 = some (.err e) → ErrNot T3 e := by
  intro e h
  unfold scanEmitHint at h
  split at h
  · simp only [Option.some.injEq, Signal.err.injEq] at h; subst h; exact errNot_T3_panic (by decide)
  · rename_i name _
    have hres : ∀ e, (if ie = true then env.ops.endTagHint name x.sink
          else env.ops.startTagHint name x.sim.currentNs x.sink).2 = .error e → ErrNot T3 e := by
      intro e he
      split at he
      · exact hs3.endTagHint _ _ _ he
      · exact hs3.startTagHint _ _ _ _ he
    dsimp only at h
    split at h
    · rename_i e' herr
      simp only [Option.some.injEq, Signal.err.injEq] at h; subst h
      exact hres _ herr
    · cases h
    · cases h

theorem scanAct_e3 (hs3 : SinkSafe3 env.ops inp) (a : ActName) (c : Common) (s : ScanRegs) (x : Ctx κ) :
    ∀ e, (scanAct env a inp c s x).2 = some (.err e) → ErrNot T3 e := by
  intro e h
  cases a <;> simp only [scanAct] at h
  case finishTagName =>
    unfold scanFinishTagName at h
    split at h
    · simp only [Option.some.injEq, Signal.err.injEq] at h; subst h; exact errNot_T3_internal (by decide)
    · dsimp only at h
      split at h
      · rename_i e' herr
        simp only [Option.some.injEq, Signal.err.injEq] at h; subst h
        split at herr
        · exact Sim.feedbackForEndTag_e3 herr
        · exact Sim.feedbackForStartTag_e3 herr
      · split at h
        · cases h
        · exact scanEmitHint_e3 hs3 _ _ _ _ _ e h
  all_goals (repeat' split at h) <;> cases h

theorem act_raw (hs3 : SinkSafe3 env.ops inp) {hb f f' : Bool} {v v' : RV} (act : ActName) (m : M κ)
    (hm : MInvA W inp.length lo hb f m) (ht : RawM v (m.c.nextPos - 1) m)
    (hstep : rawStep hb act (f, v) = some (f', v')) :
    RawPost v' (m.c.nextPos - 1) (Model.act env act inp m) := by
  unfold rawStep at hstep
  dsimp only at hstep
  split at hstep
  · rename_i f1 v1 hf hl
    simp only [Option.some.injEq, Prod.mk.injEq] at hstep
    obtain ⟨_, rfl⟩ := hstep
    cases m with
    | mk c r x =>
      cases r with
      | lexer l =>
        unfold Model.act
        exact lexAct_raw hs3 act c l x hm ht hl
      | scanner s =>
        have hk := (act_keep (env := env) (inp := inp) act (⟨c, .scanner s, x⟩ : M κ)).2
        refine ⟨?_, ?_⟩
        · unfold RawM
          cases hr : (Model.act env act inp ⟨c, .scanner s, x⟩).1.r with
          | lexer l' => rw [hr] at hk; cases hk
          | scanner s' => trivial
        · unfold Model.act
          exact scanAct_e3 hs3 act c s x
  · cases hstep

end
end LolHtml.Model
