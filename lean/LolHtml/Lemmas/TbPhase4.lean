import LolHtml.Lemmas.TbPhase3
/-!
A `select` start tag: its reprocess chain ends in the "in body" rule for `select`, which leaves the
frameset-ok flag off (`D`).
-/
namespace LolHtml.Spec.TreeBuilder
open LolHtml.Model (Ns)

variable {c : Cfg} {s : State}

/-- what a rule does with a `select` start tag -/
def SelPost (s : State) : Res → Prop
  | .done s' _ => s'.framesetOk = false ∧ BodyPhase s
  | .reprocess s' _ => rank s'.mode < rank s.mode
  | .impossible _ => True

theorem inBody_sel (hleg : c.legacySelect = false) (hscr : c.scripting = true) (hB : BInv s) (hph : BodyPhase s) (sc : Bool) (a : Attrs) :
    SelPost s (inBody c s (.start .select sc a)) := by
  have hsel : s.inScope c .select = true → s.framesetOk = false := by
    intro h
    have hany : s.tree.stack.any (·.isHtml .select) = true := scope_any _ _ _ h
    obtain ⟨e, he, hes⟩ := List.any_eq_true.mp hany
    cases hf : s.framesetOk
    · rfl
    · exact absurd (isHtml_name hes).2 (hB.sel hf e he)
  simp only [inBody]
  eval_rule [inBodyStart, hleg, hscr]
  split
  · exact ⟨hsel ‹_›, hph⟩
  · exact ⟨rfl, hph⟩

set_option maxHeartbeats 4000000 in
theorem stepMode_select (hleg : c.legacySelect = false) (hscr : c.scripting = true) (hG : GInv false s) (hPh : Phase s)
    (h1 : s.mode ≠ .text) (sc : Bool) (a : Attrs) : SelPost s (stepMode c s (.start .select sc a)) := by
  -- in a mode that is not one of the modes before the body, the body phase
  have hbody : s.mode ∉ preBody → s.mode ≠ .inTableText → BInv s ∧ BodyPhase s := by
    intro hm h2
    rcases hPh with hP | h
    · have := hP.pre; rw [effMode_eq h1 h2] at this; exact absurd this hm
    · exact h
  have hib : s.mode ∉ preBody → s.mode ≠ .inTableText → SelPost s (inBody c s (.start .select sc a)) := fun hm h2 =>
    inBody_sel hleg hscr (hbody hm h2).1 (hbody hm h2).2 sc a
  rcases hG with hI | hC
  · have hmf := hI.modes
    have hnc := hI.notCol
    unfold stepMode
    cases hmode : s.mode <;> simp only
    case initial => simp [initial, Res.again, SelPost, hmode, rank]
    case beforeHtml => simp [beforeHtml, Res.again, SelPost, hmode, rank]
    case beforeHead => simp [beforeHead, Res.again, SelPost, hmode, rank]
    case inHead =>
      eval_rule [inHead, hscr]
      simp [SelPost, hmode, rank]
    case inHeadNoscript =>
      eval_rule [inHeadNoscript]
      simp [SelPost, hmode, rank]
    case afterHead =>
      eval_rule [afterHead, headStartNames]
      simp [SelPost, hmode, rank]
    case inBody => exact hib (by simp [hmode, preBody]) (by simp [hmode])
    case text => exact absurd hmode h1
    case inTable =>
      have : inTable c s (.start .select sc a) = inBody c s (.start .select sc a) := by
        eval_rule [inTable, inTableAnythingElse]
      rw [this]; exact hib (by simp [hmode, preBody]) (by simp [hmode])
    case inTableText =>
      simp only [inTableText, Res.again, SelPost]
      rw [(flushPending_mode s).2]
      have := hmf.2.1 hmode
      simp only [List.mem_cons, List.mem_nil_iff, or_false] at this
      rcases this with e | e | e <;> simp [e, hmode, rank]
    case inCaption =>
      have : inCaption c s (.start .select sc a) = inBody c s (.start .select sc a) := by
        eval_rule [inCaption, tableSectionStartNames]
      rw [this]; exact hib (by simp [hmode, preBody]) (by simp [hmode])
    case inColumnGroup => exact (hnc hmode).elim
    case inTableBody =>
      have : inTableBody c s (.start .select sc a) = inBody c s (.start .select sc a) := by
        eval_rule [inTableBody, inTable, inTableAnythingElse]
      rw [this]; exact hib (by simp [hmode, preBody]) (by simp [hmode])
    case inRow =>
      have : inRow c s (.start .select sc a) = inBody c s (.start .select sc a) := by
        eval_rule [inRow, inTable, inTableAnythingElse]
      rw [this]; exact hib (by simp [hmode, preBody]) (by simp [hmode])
    case inCell =>
      have : inCell c s (.start .select sc a) = inBody c s (.start .select sc a) := by
        eval_rule [inCell, tableSectionStartNames]
      rw [this]; exact hib (by simp [hmode, preBody]) (by simp [hmode])
    case inSelect => simp [MF, hmode] at hmf
    case inSelectInTable => simp [MF, hmode] at hmf
    case inTemplate => simp [MF, hmode] at hmf
    case afterBody => simp [afterBody, Res.again, SelPost, hmode, rank]
    case inFrameset => exact absurd (hmf.2.2.2 rfl).1 (by simp [hmode, framesetModes])
    case afterFrameset => exact absurd (hmf.2.2.2 rfl).1 (by simp [hmode, framesetModes])
    case afterAfterBody => simp [afterAfterBody, Res.again, SelPost, hmode, rank]
    case afterAfterFrameset => exact absurd (hmf.2.2.2 rfl).1 (by simp [hmode, framesetModes])
  · have hcur := hC.currentIs
    simp only [stepMode, hC.mode]
    eval_rule [inColumnGroup, hcur]
    simp [SelPost, hC.mode, rank]

/-- after a `select` start tag: body phase, frameset-ok flag off -/
theorem loop_select (hleg : c.legacySelect = false) (hscr : c.scripting = true) (sc : Bool) (a : Attrs) (f : Bool) :
    ∀ (fuel : Nat) (s : State), GInv false s → NsOk c s → Phase s → s.mode ≠ .text → rank s.mode ≤ fuel →
      D (loop c (.start .select sc a) f fuel s false).st := by
  intro fuel
  induction fuel with
  | zero =>
    intro s _ _ _ _ hr
    have := rank_pos s.mode
    omega
  | succ fuel ih =>
    intro s hG hns hPh h1 hr
    have htok : TokP s (.start .select sc a) := by
      intro n sc' a' h
      cases h
      exact ⟨by decide, by decide, by decide, fun h => by cases h⟩
    have hP := stepMode_phase (c := c) hleg hscr hG hPh _ htok (fun h => absurd h h1)
    have hS := stepMode_select (c := c) hleg hscr hG hPh h1 sc a
    have hW := stepMode_sw (c := c) hG hns h1 (.start .select sc a)
    have hstep : stepOnce c s (.start .select sc a) false = stepMode c s (.start .select sc a) := by
      simp [stepOnce, useHtmlRules_of_inv hG _]
    simp only [loop, hstep]
    cases hres : stepMode c s (.start .select sc a) with
    | done s' sw =>
      rw [hres] at hP hS
      obtain ⟨hb1, hb2, _⟩ := hP.2.2.1 hS.2
      exact ⟨hb1, hb2, hS.1⟩
    | reprocess s' h =>
      rw [hres] at hP hS hW
      obtain ⟨⟨hG', hPh', _, _⟩, hh⟩ := hP
      subst hh
      exact ih s' hG' (hW.1 hns) hPh' hW.2.1 (by simp only [SelPost] at hS; omega)
    | impossible s' => rw [hres] at hP; exact hP.elim

end LolHtml.Spec.TreeBuilder
