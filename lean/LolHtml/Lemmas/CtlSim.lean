import LolHtml.Lemmas.ParseRelE
import LolHtml.Lemmas.ChunkResume
/-!
Two controllers that agree until the first one fails with an error of a class `G`.

`CtlSim c1 c2 D G`: on the callback-closed set `D` of states, every callback of `c1` either returns exactly
what `c2` returns (and stays in `D`), or fails with an error of the class `G`. Then the dispatcher
(`dispOps`, and the guarded `guardOps`) satisfies `OpsRelE`, hence `Parser::parse` over the two dispatchers,
started on the same parser whose controller state is in `D`, either returns the same result and parser
(controller state again in `D`), or the first one returns an error of the class; likewise `write` / `end`
of the transform stream and of the rewriter.

Use: `cleanCtl ctl` (panic- and internal-class errors of the callbacks replaced by the handler error) is
`CtlClean`, so the results of packages inv / scan that assume `CtlClean` can be transported to runs of
`ctl` in which no callback fails with a panic.
-/
set_option linter.unusedSimpArgs false
set_option linter.unusedVariables false

namespace LolHtml.Model.Chunk.R
open LolHtml LolHtml.Model LolHtml.Model.Chunk LolHtml.Thm

variable {γ : Type}

/-- `c1` is followed by `c2` on `D` until it fails with an error of the class `G` -/
structure CtlSim (c1 c2 : Controller γ) (D : γ → Prop) (G : Err → Prop) : Prop where
  flags : ∀ g, D g → c1.initialFlags g = c2.initialFlags g
  emit : ∀ g, D g → c1.shouldEmit g = c2.shouldEmit g
  startTag : ∀ g n ns, D g → (c1.startTag g n ns = c2.startTag g n ns ∧ D (c1.startTag g n ns).1) ∨
    ∃ e, G e ∧ (c1.startTag g n ns).2 = .err e
  auxInfo : ∀ g i, D g → (c1.auxInfo g i = c2.auxInfo g i ∧ D (c1.auxInfo g i).1) ∨
    ∃ e, G e ∧ (c1.auxInfo g i).2 = .error e
  endTag : ∀ g n, D g → c1.endTag g n = c2.endTag g n ∧ D (c1.endTag g n).1
  token : ∀ g t, D g → (c1.token g t = c2.token g t ∧ D (c1.token g t).1) ∨
    ∃ e, G e ∧ (c1.token g t).2.err = some e
  handleEnd : ∀ g, D g → (c1.handleEnd g = c2.handleEnd g ∧ D (c1.handleEnd g).1) ∨
    ∃ e, G e ∧ (c1.handleEnd g).2.2 = some e
  bailOut : c1.bailOut = c2.bailOut

/-- related results of a dispatcher step -/
def DStep (D : γ → Prop) (G : Err → Prop) {α : Type} (r1 r2 : DRes γ α) : Prop :=
  (r1 = r2 ∧ D r1.1.ctl) ∨ ∃ e, G e ∧ r1.2 = .error e

section
variable {c1 c2 : Controller γ} {D : γ → Prop} {G : Err → Prop}

theorem DStep.same {α : Type} (r : DRes γ α) (hd : D r.1.ctl) : DStep D G r r := Or.inl ⟨rfl, hd⟩

theorem DStep.bind {α β : Type} {r1 r2 : DRes γ α} {f1 f2 : Disp γ → α → DRes γ β} (h : DStep D G r1 r2)
    (hf : ∀ d a, D d.ctl → DStep D G (f1 d a) (f2 d a)) : DStep D G (DRes.bind r1 f1) (DRes.bind r2 f2) := by
  rcases h with ⟨he, hD⟩ | ⟨e, hG, he⟩
  · subst he
    unfold DRes.bind
    cases hr : r1.2 with
    | error e => exact Or.inl ⟨rfl, hD⟩
    | ok a => exact hf _ _ hD
  · right
    refine ⟨e, hG, ?_⟩
    unfold DRes.bind
    rw [he]

theorem ofExcept_emitChunkBefore_ctl (d : Disp γ) (inp : Bytes) (raw : Range) :
    (DRes.ofExcept d (d.emitChunkBefore inp raw)).1.ctl = d.ctl := by
  unfold Disp.emitChunkBefore
  cases checkedSlice inp ⟨d.rcs, raw.start⟩ with
  | none => rfl
  | some chunk =>
    simp only [DRes.ofExcept]
    split <;> rfl

variable (h : CtlSim c1 c2 D G)
include h

theorem tokenProduced_step (d : Disp γ) (t : Token) (hd : D d.ctl) :
    DStep D G (Disp.tokenProduced c1 d t) (Disp.tokenProduced c2 d t) := by
  rcases h.token d.ctl t hd with ⟨he, hD⟩ | ⟨e, hG, he⟩
  · left
    refine ⟨by unfold Disp.tokenProduced; rw [he], ?_⟩
    rw [(tokenProduced_desc (ctl := c1) d t).1]
    exact hD
  · right
    refine ⟨e, hG, ?_⟩
    unfold Disp.tokenProduced
    simp only [he]

theorem flushPendingText_step (d : Disp γ) (hd : D d.ctl) :
    DStep D G (d.flushPendingText c1) (d.flushPendingText c2) := by
  unfold Disp.flushPendingText
  split
  · exact tokenProduced_step h _ _ hd
  · exact DStep.same _ hd

theorem emitToken_step (d : Disp γ) (inp : Bytes) (raw : Range) (tok : Token) (hd : D d.ctl) :
    DStep D G (d.emitToken c1 inp raw tok) (d.emitToken c2 inp raw tok) := by
  unfold Disp.emitToken
  refine DStep.bind (DStep.same _ (by rw [ofExcept_emitChunkBefore_ctl]; exact hd)) fun d1 _ h1 => ?_
  refine DStep.bind (tokenProduced_step h d1 tok h1) fun d2 _ h2 => ?_
  refine DStep.same _ ?_
  rw [(flushEncodingChange_desc ({ d2 with rcs := raw.end })).1]
  exact h2

theorem produceTag_step (d : Disp γ) (inp : Bytes) (lx : TagLexeme) (hd : D d.ctl) :
    DStep D G (d.produceTag c1 inp lx) (d.produceTag c2 inp lx) := by
  unfold Disp.produceTag
  split
  · exact DStep.same _ hd
  · split
    · exact DStep.same _ hd
    · exact emitToken_step h _ _ _ _ hd

theorem produceNonTag_step (d : Disp γ) (inp : Bytes) (lx : NonTagLexeme) (hd : D d.ctl) :
    DStep D G (d.produceNonTag c1 inp lx) (d.produceNonTag c2 inp lx) := by
  unfold Disp.produceNonTag
  split
  · split
    · unfold Disp.produceText
      split
      · exact DStep.same _ hd
      · refine DStep.bind (DStep.same _ (by rw [ofExcept_emitChunkBefore_ctl]; exact hd)) fun d1 _ h1 => ?_
        refine DStep.bind (tokenProduced_step h _ _ h1) fun d2 _ h2 => ?_
        exact DStep.same _ h2
    · exact DStep.same _ hd
  · split
    · exact DStep.same _ hd
    · exact DStep.same _ hd
    · exact emitToken_step h _ _ _ _ hd

theorem handleNonTag_step (inp : Bytes) (lx : NonTagLexeme) (d : Disp γ) (hd : D d.ctl) :
    DStep D G (Disp.handleNonTag c1 inp lx d) (Disp.handleNonTag c2 inp lx d) := by
  unfold Disp.handleNonTag
  refine DStep.bind ?_ fun d1 _ h1 => produceNonTag_step h d1 inp lx h1
  split
  · exact DStep.same _ hd
  · exact flushPendingText_step h d hd

theorem answerAux_step (d : Disp γ) (info : AuxInfo) (hd : D d.ctl) :
    DStep D G (d.answerAux c1 info) (d.answerAux c2 info) := by
  rcases h.auxInfo d.ctl info hd with ⟨he, hD⟩ | ⟨e, hG, he⟩
  · left
    refine ⟨by unfold Disp.answerAux; rw [he], ?_⟩
    unfold Disp.answerAux
    dsimp only
    split <;> exact hD
  · right
    refine ⟨e, hG, ?_⟩
    unfold Disp.answerAux
    simp only [he]

theorem adjustFlagsForTag_step (d : Disp γ) (inp : Bytes) (lx : TagLexeme) (hd : D d.ctl) :
    DStep D G (d.adjustFlagsForTag c1 inp lx) (d.adjustFlagsForTag c2 inp lx) := by
  unfold Disp.adjustFlagsForTag
  split
  · split
    · exact answerAux_step h _ _ hd
    · exact DStep.same _ hd
  · split
    · split
      · exact DStep.same _ hd
      · rename_i ns as sc heq opt ln hln
        rcases h.startTag d.ctl ln ns hd with ⟨he, hD⟩ | ⟨e, hG, he⟩
        · rw [he] at hD ⊢
          dsimp only
          split
          · exact DStep.same _ hD
          · exact answerAux_step h _ _ hD
          · exact DStep.same _ hD
        · right
          refine ⟨e, hG, ?_⟩
          dsimp only
          rw [he]
    · split
      · exact DStep.same _ hd
      · rename_i name hh ln hln
        obtain ⟨he, hD⟩ := h.endTag d.ctl ln hd
        rw [he] at hD ⊢
        exact DStep.same _ hD

omit h in
theorem resumeEmission_ctl (c : Controller γ) (d : Disp γ) (lx : TagLexeme) : (d.resumeEmission c lx).ctl = d.ctl := by
  unfold Disp.resumeEmission
  split <;> rfl

theorem resumeEmission_eq (d : Disp γ) (lx : TagLexeme) (hd : D d.ctl) :
    d.resumeEmission c1 lx = d.resumeEmission c2 lx := by
  unfold Disp.resumeEmission Disp.shouldStopRemoving
  rw [h.emit _ hd]

theorem handleTag_step (inp : Bytes) (lx : TagLexeme) (d : Disp γ) (hd : D d.ctl) :
    DStep D G (Disp.handleTag c1 inp lx d) (Disp.handleTag c2 inp lx d) := by
  unfold Disp.handleTag
  refine DStep.bind (flushPendingText_step h d hd) fun d1 _ h1 => ?_
  refine DStep.bind ?_ fun d2 _ h2 => ?_
  · split
    · exact DStep.same _ h1
    · exact adjustFlagsForTag_step h _ _ _ h1
  · rw [resumeEmission_eq h d2 lx h2]
    refine DStep.bind (produceTag_step h _ _ _ (by rw [resumeEmission_ctl]; exact h2)) fun d3 _ h3 => ?_
    rw [h.emit _ h3]
    exact DStep.same _ h3

theorem startTagHint_step (n : LocalName) (ns : Ns) (d : Disp γ) (hd : D d.ctl) :
    DStep D G (Disp.startTagHint c1 n ns d) (Disp.startTagHint c2 n ns d) := by
  unfold Disp.startTagHint
  rcases h.startTag d.ctl n ns hd with ⟨he, hD⟩ | ⟨e, hG, he⟩
  · rw [he] at hD ⊢
    dsimp only
    split
    · unfold Disp.applyHintFlags
      exact DStep.same _ hD
    · exact DStep.same _ hD
    · exact DStep.same _ hD
  · right
    refine ⟨e, hG, ?_⟩
    simp only [he]

theorem endTagHint_step (n : LocalName) (d : Disp γ) (hd : D d.ctl) :
    DStep D G (Disp.endTagHint c1 n d) (Disp.endTagHint c2 n d) := by
  unfold Disp.endTagHint
  refine DStep.bind (flushPendingText_step h d hd) fun d1 _ h1 => ?_
  obtain ⟨he, hD⟩ := h.endTag d1.ctl n h1
  rw [he] at hD ⊢
  dsimp only
  unfold Disp.shouldStopRemoving
  dsimp only
  rw [h.emit _ hD]
  unfold Disp.applyHintFlags
  exact DStep.same _ hD

theorem pendE_eq (d : Disp γ) (hd : D d.ctl) : pendE c1 d = pendE c2 d := by
  unfold pendE; rw [h.emit _ hd]

/-- the relation on dispatchers: the same dispatcher, controller state in `D` -/
def DRel (D : γ → Prop) (a b : Disp γ) : Prop := a = b ∧ D a.ctl

omit h in
theorem DStep.toRel {α : Type} {r1 r2 : DRes γ α} (hs : DStep D G r1 r2) :
    (DRel D r1.1 r2.1 ∧ r1.2 = r2.2) ∨ ∃ eA, G eA ∧ r1.2 = .error eA := by
  rcases hs with ⟨he, hD⟩ | hab
  · subst he; exact Or.inl ⟨⟨rfl, hD⟩, rfl⟩
  · exact Or.inr hab

/-- the dispatcher of `c1` is followed by that of `c2` -/
theorem dispOps_relE (inp : Bytes) : RelE.OpsRelE (dispOps c1) (dispOps c2) inp (DRel D) G where
  handleTag := fun lx k₁ k₂ hk => by obtain ⟨rfl, hd⟩ := hk; exact (handleTag_step h inp lx k₁ hd).toRel
  handleNonTag := fun lx k₁ k₂ hk => by obtain ⟨rfl, hd⟩ := hk; exact (handleNonTag_step h inp lx k₁ hd).toRel
  startTagHint := fun n ns k₁ k₂ hk => by obtain ⟨rfl, hd⟩ := hk; exact (startTagHint_step h n ns k₁ hd).toRel
  endTagHint := fun n k₁ k₂ hk => by obtain ⟨rfl, hd⟩ := hk; exact (endTagHint_step h n k₁ hd).toRel

/-- the same for the guarded dispatchers -/
theorem guardOps_relE (inp : Bytes) : RelE.OpsRelE (guardOps c1) (guardOps c2) inp (DRel D) G where
  handleTag := fun lx k₁ k₂ hk => by
    obtain ⟨rfl, hd⟩ := hk
    have hb2 : bareResume c2 lx k₁ = bareResume c1 lx k₁ := by unfold bareResume; rw [pendE_eq h k₁ hd]
    simp only [guardOps]
    rw [hb2]
    split
    · exact Or.inl ⟨⟨rfl, hd⟩, rfl⟩
    · exact (handleTag_step h inp lx k₁ hd).toRel
  handleNonTag := fun lx k₁ k₂ hk => by obtain ⟨rfl, hd⟩ := hk; exact (handleNonTag_step h inp lx k₁ hd).toRel
  startTagHint := fun n ns k₁ k₂ hk => by obtain ⟨rfl, hd⟩ := hk; exact (startTagHint_step h n ns k₁ hd).toRel
  endTagHint := fun n k₁ k₂ hk => by obtain ⟨rfl, hd⟩ := hk; exact (endTagHint_step h n k₁ hd).toRel

end

/-! ### parser, stream, rewriter -/

section
variable {w : World γ} {c2 : Controller γ} {D : γ → Prop} {G : Err → Prop}

/-- the world with the second controller -/
def World.withCtl (w : World γ) (c2 : Controller γ) : World γ := ⟨w.tbl, w.tags, c2⟩

local notation "w2" => World.withCtl w c2

theorem PR_DRel {p₁ p₂ : Parser (Disp γ)} (hp : PR (DRel D) p₁ p₂) : p₁ = p₂ ∧ D p₁.x.sink.ctl := by
  obtain ⟨a, b, c, d, e, ⟨f1, hD⟩, f2, f3⟩ := hp
  obtain ⟨lc, lr, sc, sr, dr, ⟨sk, sm, pc⟩⟩ := p₁
  obtain ⟨lc', lr', sc', sr', dr', ⟨sk', sm', pc'⟩⟩ := p₂
  simp only at a b c d e f1 f2 f3 hD
  subst a b c d e f1 f2 f3
  exact ⟨rfl, hD⟩

variable (h : CtlSim w.ctl c2 D G) (ht : EmitsChecked w.tbl = true)
include h ht

/-- `Parser::parse` over the two dispatchers -/
theorem parse_sim (inp : Bytes) (last : Bool) (p : Parser (Disp γ)) (hd : D p.x.sink.ctl) :
    (Parser.parse w.env inp last p = Parser.parse (w2).env inp last p ∧
      D (Parser.parse w.env inp last p).1.x.sink.ctl) ∨
    ∃ e, G e ∧ (Parser.parse w.env inp last p).2 = .error (RelE.parseErr e) := by
  rcases RelE.parse_relE (tbl := w.tbl) (cfg := w.tags) (inp := inp) (dispOps_relE h inp) ht last p p
    ⟨rfl, rfl, rfl, rfl, rfl, ⟨rfl, hd⟩, rfl, rfl⟩ with ⟨h1, h2⟩ | hab
  · obtain ⟨e1, hD⟩ := PR_DRel h1
    exact Or.inl ⟨Prod.ext e1 h2, hD⟩
  · exact Or.inr hab

/-- `Parser::parse` over the two guarded dispatchers -/
theorem parseG_sim (inp : Bytes) (last : Bool) (p : Parser (Disp γ)) (hd : D p.x.sink.ctl) :
    (Parser.parse (guardEnv w) inp last p = Parser.parse (guardEnv (w2)) inp last p ∧
      D (Parser.parse (guardEnv w) inp last p).1.x.sink.ctl) ∨
    ∃ e, G e ∧ (Parser.parse (guardEnv w) inp last p).2 = .error (RelE.parseErr e) := by
  rcases RelE.parse_relE (tbl := w.tbl) (cfg := w.tags) (inp := inp) (guardOps_relE h inp) ht last p p
    ⟨rfl, rfl, rfl, rfl, rfl, ⟨rfl, hd⟩, rfl, rfl⟩ with ⟨h1, h2⟩ | hab
  · obtain ⟨e1, hD⟩ := PR_DRel h1
    exact Or.inl ⟨Prod.ext e1 h2, hD⟩
  · exact Or.inr hab

omit ht in
theorem bail_eq : Stream.bail w = Stream.bail (w2) := by
  funext s e sl
  unfold Stream.bail Disp.runBailOut
  show (if s.shouldBailOutFor e = true then _ else _) = (if s.shouldBailOutFor e = true then _ else _)
  rw [show (w2).ctl.bailOut = w.ctl.bailOut from h.bailOut.symm]

omit ht in
theorem chunkFor_eq : Stream.chunkFor w = Stream.chunkFor (w2) := by
  funext s data
  unfold Stream.chunkFor
  rw [bail_eq h]

omit ht in
theorem keepTail_eq : Stream.keepTail w = Stream.keepTail (w2) := by
  funext s data chunk consumed
  unfold Stream.keepTail
  rw [bail_eq h]

omit h ht in
theorem keepTail_ok_disp {s : Stream γ} {data chunk : Bytes} {consumed : Nat}
    (hk : (s.keepTail w data chunk consumed).2 = .ok ()) : (s.keepTail w data chunk consumed).1.disp = s.disp := by
  unfold Stream.keepTail at hk ⊢
  split
  · split
    · split
      · rfl
      · rename_i hh; simp only [hh] at hk; rfl
    · dsimp only
      split
      · rfl
      · rename_i h1 h2 h3
        simp only [h1, h2, if_true, Bool.false_eq_true, if_false] at hk
        simp only [h3] at hk
        cases hk
  · rfl

omit h ht in
theorem flushRemaining_ctl {d d' : Disp γ} {inp : Bytes} {k : Nat} (hf : d.flushRemaining inp k = .ok d') : d'.ctl = d.ctl := by
  unfold Disp.flushRemaining at hf
  split at hf
  · split at hf
    · cases hf
    · simp only [Except.ok.injEq] at hf
      subst hf
      split <;> rfl
  · simp only [Except.ok.injEq] at hf
    subst hf
    rfl

/-- `TransformStream::write` -/
theorem write_sim (s : Stream γ) (data : Bytes) (hd : D s.disp.ctl) :
    (s.write w data = s.write (w2) data ∧ ((s.write w data).2 = .ok () → D (s.write w data).1.disp.ctl)) ∨
    ∃ e, G e ∧ (s.write w data).2 = .error (RelE.parseErr e) := by
  unfold Stream.write
  rw [← chunkFor_eq h, ← keepTail_eq h, ← bail_eq h]
  cases hcf : s.chunkFor w data with
  | inl s' => exact Or.inl ⟨rfl, fun hh => by cases hh⟩
  | inr sc =>
    obtain ⟨s1, chunk⟩ := sc
    obtain ⟨c1, c2', c3, c4, c5⟩ := Stream.chunkFor_inr hcf
    dsimp only
    have hd1 : D s1.parser.x.sink.ctl := by rw [c2']; exact hd
    rcases parse_sim h ht chunk false s1.parser hd1 with ⟨he, hD⟩ | ⟨e, hGe, he⟩
    · rw [← he]
      refine Or.inl ⟨rfl, ?_⟩
      cases hpr : (s1.parser.parse w.env chunk false).2 with
      | error e => intro hh; cases hh
      | ok consumed =>
        dsimp only
        cases hfl : Disp.flushRemaining (Stream.disp { s1 with parser := (s1.parser.parse w.env chunk false).1 }) chunk consumed with
        | error e => intro hh; cases hh
        | ok d =>
          dsimp only
          intro hk
          rw [keepTail_ok_disp hk]
          show D d.ctl
          rw [flushRemaining_ctl hfl]
          exact hD
    · right
      refine ⟨e, hGe, ?_⟩
      rw [he]

/-- invariant of the public object: poisoned, or the controller state is in `D` -/
def RD (D : γ → Prop) (r : Rewriter γ) : Prop := r.poisoned = true ∨ D r.stream.disp.ctl

/-- `HtmlRewriter::write` -/
theorem rewriter_write_sim (r : Rewriter γ) (data : Bytes) (hr : RD D r) :
    (r.write w data = r.write (w2) data ∧ RD D (r.write w data).1) ∨
    (r.write w data).1.poisoned = true ∧ ∃ e, G e ∧ (r.write w data).2 = .err (RelE.parseErr e) := by
  unfold Rewriter.write
  by_cases hp : r.poisoned = true
  · rw [if_pos hp, if_pos hp]
    exact Or.inl ⟨rfl, Or.inl hp⟩
  · rw [if_neg hp, if_neg hp]
    have hd : D r.stream.disp.ctl := by rcases hr with hh | hh; exact absurd hh hp; exact hh
    rcases write_sim h ht r.stream data hd with ⟨he, hD⟩ | ⟨e, hGe, he⟩
    · rw [← he]
      refine Or.inl ⟨rfl, ?_⟩
      dsimp only
      cases hres : (r.stream.write w data).2 with
      | ok u => exact Or.inr (hD hres)
      | error e => exact Or.inl rfl
    · right
      dsimp only
      rw [he]
      exact ⟨rfl, e, hGe, rfl⟩

omit h ht in
/-- a poisoned rewriter stays poisoned -/
theorem writeAll_poisoned (cs : List Bytes) (r : Rewriter γ) (hp : r.poisoned = true) :
    (C01.writeAll w r cs).1.poisoned = true := by
  induction cs generalizing r with
  | nil => exact hp
  | cons c cs ih =>
    simp only [C01.writeAll]
    apply ih
    unfold Rewriter.write
    rw [if_pos hp]
    exact hp

/-- a sequence of writes -/
theorem writeAll_sim (cs : List Bytes) (r : Rewriter γ) (hr : RD D r) :
    (C01.writeAll w r cs = C01.writeAll (w2) r cs ∧ RD D (C01.writeAll w r cs).1) ∨
    (C01.writeAll w r cs).1.poisoned = true ∧ ∃ e, G e ∧ CallRes.err (RelE.parseErr e) ∈ (C01.writeAll w r cs).2 := by
  induction cs generalizing r with
  | nil => exact Or.inl ⟨rfl, hr⟩
  | cons c cs ih =>
    simp only [C01.writeAll]
    rcases rewriter_write_sim h ht r c hr with ⟨he, hD⟩ | ⟨hp, e, hGe, he⟩
    · rw [← he]
      rcases ih _ hD with ⟨he2, hD2⟩ | ⟨hp, e, hGe, he2⟩
      · rw [← he2]
        exact Or.inl ⟨rfl, hD2⟩
      · exact Or.inr ⟨hp, e, hGe, List.mem_cons_of_mem _ he2⟩
    · exact Or.inr ⟨writeAll_poisoned cs _ hp, e, hGe, by rw [← he]; exact List.mem_cons_self⟩

omit ht in
/-- a fresh rewriter is the same in both worlds -/
theorem new_eq (g : γ) (hg : D g) (cfg : Settings) : C01.Rewriter.new w g cfg = C01.Rewriter.new (w2) g cfg := by
  unfold C01.Rewriter.new Stream.new Disp.new
  show _ = ({ stream := _ } : Rewriter γ)
  simp only [World.withCtl]
  rw [h.flags g hg]
  rfl

end

end LolHtml.Model.Chunk.R
