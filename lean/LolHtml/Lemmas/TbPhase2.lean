import LolHtml.Lemmas.TbPhase1
/-!
The insertion modes before the `body` element exists: the stack keeps its shape until "after head" inserts
the `body` element, which starts the body phase.
-/
namespace LolHtml.Spec.TreeBuilder
open LolHtml.Model (Ns)

variable {c : Cfg} {s : State}

def PhasePost : Res → Prop
  | .done s' _ => Phase s'
  | .reprocess s' _ => Phase s'
  | .impossible _ => True

theorem pshape_empty {m o : Mode} {st : List El} (hm : m = .initial ∨ m = .beforeHtml) (h : pshape m o st = true) :
    st = [] := by
  rcases hm with rfl | rfl <;> (cases st <;> simp [pshape] at h ⊢)

theorem pshape_html {m o : Mode} {st : List El} (hm : m = .beforeHead ∨ m = .afterHead) (h : pshape m o st = true) :
    ∃ hh, st = [hh] ∧ hh.isHtml .html = true := by
  rcases hm with rfl | rfl <;>
    (rcases st with _ | ⟨a, _ | ⟨b, r⟩⟩ <;> simp [pshape] at h ⊢ <;> exact h)

theorem pshape_head {o : Mode} {st : List El} (h : pshape .inHead o st = true) :
    ∃ hd hh, st = [hd, hh] ∧ hd.isHtml .head = true ∧ hh.isHtml .html = true := by
  rcases st with _ | ⟨a, _ | ⟨b, _ | ⟨c, r⟩⟩⟩ <;> simp [pshape] at h
  exact ⟨a, b, rfl, h.1, h.2⟩

theorem pshape_text {o : Mode} {st : List El} (h : pshape .text o st = true) :
    (o = .inHead ∧ ∃ x hd hh, st = [x, hd, hh] ∧ hd.isHtml .head = true ∧ hh.isHtml .html = true) ∨
    (o = .afterHead ∧ ∃ x hh, st = [x, hh] ∧ hh.isHtml .html = true) := by
  cases o <;> simp only [pshape, Bool.false_eq_true] at h
  · left
    refine ⟨rfl, ?_⟩
    rcases st with _ | ⟨a, _ | ⟨b, _ | ⟨c, _ | ⟨d, r⟩⟩⟩⟩ <;> simp at h
    exact ⟨a, b, c, rfl, h.1.2, h.2⟩
  · right
    refine ⟨rfl, ?_⟩
    rcases st with _ | ⟨a, _ | ⟨b, _ | ⟨c, r⟩⟩⟩ <;> simp at h
    exact ⟨a, b, rfl, h.2⟩

theorem initial_pre (hP : PInv s) (hm : s.mode = .initial) (t : Token) : PhasePost (initial c s t) := by
  have hst : s.tree.stack = [] := pshape_empty (Or.inl hm) hP.shape
  have key : ∀ q, Phase ({ s with quirks := q, mode := .beforeHtml } : State) := fun q =>
    Or.inl ⟨hP.form, by show pshape .beforeHtml _ s.tree.stack = true; rw [hst]; rfl⟩
  cases t with
  | char cc => cases cc <;> first | exact Or.inl hP | exact key _
  | comment => exact Or.inl hP
  | doctype d => exact key _
  | eof => exact key _
  | «end» n => exact key _
  | start n sc a => exact key _

theorem beforeHtml_pre (hP : PInv s) (hm : s.mode = .beforeHtml) (t : Token) : PhasePost (beforeHtml c s t) := by
  have hst : s.tree.stack = [] := pshape_empty (Or.inr hm) hP.shape
  have key : ∀ a, Phase ({ s.insertHtml .html a with mode := .beforeHead } : State) := fun a =>
    Or.inl ⟨hP.form, by show pshape .beforeHead _ (_ :: s.tree.stack) = true; rw [hst]; rfl⟩
  unfold beforeHtml
  split
  · exact Or.inl hP
  · exact Or.inl hP
  · exact Or.inl hP
  · exact key _
  · split
    · exact key _
    · exact Or.inl hP
  · exact key _

theorem beforeHead_pre (hP : PInv s) (hm : s.mode = .beforeHead) (t : Token) : PhasePost (beforeHead c s t) := by
  obtain ⟨hh, hst, hhh⟩ := pshape_html (Or.inl hm) hP.shape
  have key : ∀ a, Phase ({ (s.insertHtml .head a) with headPtr := (s.insertHtml .head a).current, mode := .inHead } : State) :=
    fun a => Or.inl ⟨hP.form, by
      show pshape .inHead _ (_ :: s.tree.stack) = true
      rw [hst]; simp only [pshape, hhh, Bool.and_true]; rfl⟩
  unfold beforeHead
  split
  · exact Or.inl hP
  · exact Or.inl hP
  · exact Or.inl hP
  · exact Or.inl hP
  · exact key _
  · split
    · exact key _
    · exact Or.inl hP
  · exact key _

theorem text_pre (hP : PInv s) (hm : s.mode = .text) (t : Token) : PhasePost (text c s t) := by
  have hpop : Phase ({ s.pop with mode := s.origMode } : State) := by
    rcases pshape_text (hm ▸ hP.shape) with ⟨ho, x, hd, hh, hst, h1, h2⟩ | ⟨ho, x, hh, hst, h2⟩
    · refine Or.inl ⟨hP.form, ?_⟩
      show pshape s.origMode _ s.tree.stack.tail = true
      rw [hst, ho]; simp [pshape, h1, h2]
    · refine Or.inl ⟨hP.form, ?_⟩
      show pshape s.origMode _ s.tree.stack.tail = true
      rw [hst, ho]; simp [pshape, h2]
  cases t with
  | char cc => exact Or.inl hP
  | eof => exact hpop
  | «end» n => exact hpop
  | start n sc a => trivial
  | comment => trivial
  | doctype d => trivial

theorem rawText_nonanchor (n : Name) (hn : n.isIn anchorNames = false) (i : Nat) (a : Attrs) :
    (El.mk i .html n a).isAnchor = false := by
  simp [El.isAnchor, El.isHtmlIn, hn]

set_option maxHeartbeats 8000000 in
theorem inHead_pre (hscr : c.scripting = true) (hP : PInv s) (hm : s.mode = .inHead) (t : Token)
    (htok : TokOk false t) : PhasePost (inHead c s t) := by
  obtain ⟨hd, hh, hst, hhd, hhh⟩ := pshape_head (hm ▸ hP.shape)
  have hraw : ∀ n a sw, n.isIn anchorNames = false → n ≠ .select → PhasePost (rawText s n a sw) := by
    intro n a sw hn hsel
    refine Or.inl ⟨hP.form, ?_⟩
    show pshape .text s.mode (El.mk s.tree.nextId .html n a :: s.tree.stack) = true
    rw [hm, hst]
    simp [pshape, rawText_nonanchor n hn, hsel, hhd, hhh]
  have hpop : Phase ({ s.pop with mode := .afterHead } : State) := by
    refine Or.inl ⟨hP.form, ?_⟩
    show pshape .afterHead _ s.tree.stack.tail = true
    rw [hst]; exact hhh
  have hnt : s.hasOnStack .template = false := by
    obtain ⟨_, e1⟩ := isHtml_name hhd
    obtain ⟨_, e2⟩ := isHtml_name hhh
    simp [State.hasOnStack, Tree.hasOnStack, hst, El.isHtml, e1, e2]
  cases t with
  | char cc => cases cc <;> first | exact Or.inl hP | exact hpop
  | comment => exact Or.inl hP
  | doctype d => exact Or.inl hP
  | eof => exact hpop
  | «end» n =>
    cases n
    all_goals eval_rule [inHead, hnt]
    all_goals first
      | exact Or.inl hP
      | exact hpop
  | start n sc a =>
    obtain ⟨-, -, htpl, -⟩ := htok
    cases n <;> (try (exfalso; exact htpl rfl))
    all_goals eval_rule [inHead, hscr]
    all_goals first
      | exact Or.inl hP
      | exact Or.inl ⟨hP.form, hP.shape⟩
      | exact hpop
      | (refine hraw _ _ _ ?_ ?_ <;> decide)

set_option maxHeartbeats 8000000 in
theorem afterHead_pre (hscr : c.scripting = true) (hG : GInv false s) (hP : PInv s) (hm : s.mode = .afterHead)
    (t : Token) (htok : TokOk false t) : PhasePost (afterHead c s t) := by
  obtain ⟨hh, hst, hhh⟩ := pshape_html (Or.inr hm) hP.shape
  obtain ⟨hh1, hh2⟩ := isHtml_name hhh
  have hbody : ∀ s' : State, (∃ a, s'.tree = s.tree.insertHtml .body a) → s'.mode = .inBody → s'.formPtr = s.formPtr →
      Phase s' := by
    rintro s' ⟨a, htree⟩ hmode hform
    refine Or.inr (binv_bodyCreated (El.mk s.tree.nextId .html .body a) hh ?_ rfl hhh hmode (hform.trans hP.form))
    rw [htree]
    show _ :: s.tree.stack = _
    rw [hst]
  have hnt : s.hasOnStack .template = false := by
    simp [State.hasOnStack, Tree.hasOnStack, hst, El.isHtml, hh2]
  have hrawNone : ∀ n a sw, n.isIn anchorNames = false → n ≠ .select → PhasePost (rawText s n a sw) := by
    intro n a sw hn hsel
    refine Or.inl ⟨hP.form, ?_⟩
    show pshape .text s.mode (El.mk s.tree.nextId .html n a :: s.tree.stack) = true
    rw [hm, hst]
    simp [pshape, rawText_nonanchor n hn, hsel, hhh]
  have hae : Phase ({ s.insertHtml .body with mode := .inBody } : State) := hbody _ ⟨_, rfl⟩ rfl rfl
  cases t with
  | char cc => cases cc <;> first | exact Or.inl hP | exact hae
  | comment => exact Or.inl hP
  | doctype d => exact Or.inl hP
  | eof => exact hae
  | «end» n =>
    cases n
    all_goals eval_rule [afterHead, inHead, hnt]
    all_goals first
      | exact Or.inl hP
      | exact hae
  | start n sc a =>
    obtain ⟨-, -, htpl, hfs⟩ := htok
    by_cases hhs : n.isIn headStartNames = true
    · cases hp : s.headPtr with
      | none =>
        cases n <;> simp [headStartNames, Name.isIn] at hhs <;> (try (exfalso; exact htpl rfl))
        all_goals eval_rule [afterHead, hp, inHead, headStartNames]
        all_goals first
          | exact Or.inl ⟨hP.form, hP.shape⟩
          | (refine hrawNone _ _ _ ?_ ?_ <;> decide)
      | some p =>
        have hpo : p.ns = .html ∧ p.name = .head := by
          rcases hG with hI | hC
          · exact hI.head p hp
          · exact hC.head p hp
        have hne : (hh != p) = true := by
          simp only [bne_iff_ne, ne_eq]; intro e; rw [e, hpo.2] at hh2; cases hh2
        have hfil1 : [p, hh].filter (· != p) = [hh] := by simp [List.filter, hne]
        have hfil2 : ∀ x : El, x.name ≠ .head → [x, p, hh].filter (· != p) = [x, hh] := by
          intro x hx
          have : (x != p) = true := by
            simp only [bne_iff_ne, ne_eq]; intro e; rw [e] at hx; exact hx hpo.2
          simp [List.filter, hne, this]
        cases n <;> simp [headStartNames, Name.isIn] at hhs <;> (try (exfalso; exact htpl rfl))
        all_goals eval_rule [afterHead, hp, inHead, headStartNames, Res.mapState, rawText, hscr]
        all_goals first
          | (refine Or.inl ⟨hP.form, ?_⟩
             simp only [State.removeFromStack, State.insertAndPop, State.onTree, Tree.removeFromStack, Tree.insertAndPop,
               Tree.insertHtml, Tree.pushNew, Tree.pop, Tree.pushEl, List.tail_cons, hst, hfil1, hm]
             exact hhh)
          | (refine Or.inl ⟨hP.form, ?_⟩
             simp only [State.removeFromStack, State.insertHtml, State.onTree, Tree.removeFromStack, Tree.insertHtml,
               Tree.pushNew, Tree.pushEl, hst, hm]
             rw [hfil2 _ (fun h => by cases h)]
             simp [pshape, hhh, El.isAnchor, El.isHtmlIn, anchorNames, Name.isIn])
    · have hhs' : n.isIn headStartNames = false := by simpa using hhs
      cases n <;> (try (simp [headStartNames, Name.isIn] at hhs'; done))
      all_goals (try (exfalso; exact absurd (hfs rfl) (by decide)))
      all_goals eval_rule [afterHead, headStartNames]
      all_goals first
        | exact Or.inl hP
        | exact hae
        | exact hbody _ ⟨_, rfl⟩ rfl rfl

/-- the insertion modes before the `body` element exists -/
theorem stepMode_pre (hscr : c.scripting = true) (hG : GInv false s) (hP : PInv s) (t : Token) (htok : TokOk false t) :
    PhasePost (stepMode c s t) := by
  have hsh := hP.shape
  unfold stepMode
  cases hmode : s.mode <;> simp only <;> (try (simp [pshape, hmode] at hsh; done))
  case initial => exact initial_pre hP hmode t
  case beforeHtml => exact beforeHtml_pre hP hmode t
  case beforeHead => exact beforeHead_pre hP hmode t
  case inHead => exact inHead_pre hscr hP hmode t htok
  case afterHead => exact afterHead_pre hscr hG hP hmode t htok
  case text => exact text_pre hP hmode t

end LolHtml.Spec.TreeBuilder
