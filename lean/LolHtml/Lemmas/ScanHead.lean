import LolHtml.Lemmas.ScanLab
/-!
The tag head, semantically: while `tag_start` is set, the scanner's `is_in_end_tag`, `tag_name_hash`
and `tag_name_start` are functions of the head bytes, and the state is the shadow-preimage of the
state a lexer restarted at `<` would be in (`absHead`). At the hand-over (`directive .lex bm` from
`finish_tag_name`) this yields `HeadDone`: everything the restarted lexer needs to re-lex the same tag.
-/
set_option linter.unusedSimpArgs false
set_option linter.unusedVariables false

namespace LolHtml.Model

variable {κ : Type}

/-- start tag iff the byte after `<` is not `/` -/
def headKind (w : Bytes) : Bool := !(w[1]? == some 47)

/-- the name bytes of a head `<`[`/`]name -/
def headName (w : Bytes) : Bytes := if w[1]? == some 47 then w.drop 2 else w.drop 1

/-- the key (kind, name hash) of a head -/
def headKey (w : Bytes) : Bool × Nat := (headKind w, NameHash.ofBytes (headName w))

/-- one byte of the tag head on the lexer's side: the state after an arm that stays in the head -/
def absStep (t : Table) (s : StateId) (b : UInt8) : Option StateId :=
  match selArm t s b with
  | some ⟨_, .seq q⟩ =>
    if tsCalls q.calls == .keep then
      (match q.trans with | none => some s | some (.goto j) => some j | _ => none)
    else none
  | _ => none

def absHead (t : Table) : StateId → Bytes → Option StateId
  | s, [] => some s
  | s, b :: bs => (absStep t s b).bind fun s' => absHead t s' bs

theorem absHead_snoc (t : Table) (s : StateId) (w : Bytes) (b : UInt8) :
    absHead t s (w ++ [b]) = (absHead t s w).bind fun s' => absStep t s' b := by
  induction w generalizing s with
  | nil => simp [absHead]
  | cons x xs ih =>
    simp only [List.cons_append, absHead]
    cases absStep t s x with
    | none => rfl
    | some s' => simp [ih]

theorem ofBytes_snoc (n : Bytes) (b : UInt8) : NameHash.ofBytes (n ++ [b]) = NameHash.update (NameHash.ofBytes n) b := by
  simp [NameHash.ofBytes, List.foldl_append]

/-- scanner registers as functions of the head `w` (phase `name`) -/
structure ScanSem (p : Nat) (w : Bytes) (s : ScanRegs) : Prop where
  kind : s.isInEndTag = !headKind w
  hash : s.tagNameHash = NameHash.ofBytes (headName w)
  start : s.tagNameStart + (headName w).length = p + w.length

structure HExtra (t : Table) (S : SLabels) (m : M κ) (p : Nat) (ph : Phase) (w : Bytes) : Prop where
  path : ∃ s1', ltOf t (t.textState m.c.lastTextType) = some s1' ∧ absHead t s1' w.tail = some (S.at m.c.state)
  sem : ph = .name → ∀ s, m.r = .scanner s → ScanSem p w s

/-- between state functions -/
def HSem (t : Table) (L : Labels) (S : SLabels) (inp : Bytes) (m : M κ) : Prop :=
  ∀ p ph w, m.ts = some p → L.at m.c.state = some ph → shapeB ph w = true → p + w.length = m.c.nextPos →
    w <+: inp.drop p → HExtra t S m p ph w

/-- after the consume -/
def HSemMid (t : Table) (L : Labels) (S : SLabels) (inp : Bytes) (m : M κ) : Prop :=
  ∀ p ph w, m.ts = some p → L.at m.c.state = some ph → shapeB ph w = true → p + w.length + 1 = m.c.nextPos →
    w <+: inp.drop p → HExtra t S m p ph w

/-! ### shapes -/

theorem shape_lt {w : Bytes} (h : shapeB .lt w = true) : w = [60] := by simpa [shapeB] using h
theorem shape_slash {w : Bytes} (h : shapeB .slash w = true) : w = [60, 47] := by simpa [shapeB] using h

theorem prefix_unique {w w' l : Bytes} (h : w <+: l) (h' : w' <+: l) (hl : w.length = w'.length) : w = w' := by
  obtain ⟨r, hr⟩ := h
  obtain ⟨r', hr'⟩ := h'
  have := hr.trans hr'.symm
  exact (List.append_inj this hl).1

theorem nameOk_head_ne47 {n : Bytes} (h : nameOk n = true) : n[0]? ≠ some 47 := by
  cases n with
  | nil => simp [nameOk] at h
  | cons b bs =>
    simp only [nameOk, Bool.and_eq_true] at h
    intro hb
    simp at hb
    subst hb
    simp [isAsciiAlpha] at h

/-- decomposition of a head in phase `name` -/
theorem shape_name {w : Bytes} (h : shapeB .name w = true) :
    nameOk (headName w) = true ∧ w = (if headKind w then [60] else [60, 47]) ++ headName w := by
  simp only [shapeB, Bool.and_eq_true, Bool.or_eq_true, beq_iff_eq] at h
  obtain ⟨hh, hn⟩ := h
  cases w with
  | nil => simp at hh
  | cons x xs =>
    simp only [List.head?_cons, Option.some.injEq] at hh
    subst hh
    rcases hn with hn | ⟨h1, hn⟩
    · -- start tag
      simp only [List.drop_succ_cons, List.drop_zero] at hn
      have hne := nameOk_head_ne47 hn
      have hif : ¬ (xs[0]? = some 47) := hne
      simp [headKind, headName, hif, hn]
    · cases xs with
      | nil => simp at h1
      | cons y ys =>
        simp at h1
        subst h1
        simp only [List.drop_succ_cons, List.drop_zero] at hn
        simp [headKind, headName, hn]

theorem headName_snoc {w : Bytes} {b : UInt8} (h : 2 ≤ w.length) :
    headKind (w ++ [b]) = headKind w ∧ headName (w ++ [b]) = headName w ++ [b] := by
  have h1 : (w ++ [b])[1]? = w[1]? := List.getElem?_append_left (by omega)
  unfold headKind headName
  rw [h1]
  refine ⟨rfl, ?_⟩
  split
  · exact List.drop_append_of_le_length (by omega)
  · exact List.drop_append_of_le_length (by omega)

theorem shape_name_len {w : Bytes} (h : shapeB .name w = true) : 2 ≤ w.length := by
  obtain ⟨hn, hw⟩ := shape_name h
  have hne := nameOk_ne_nil hn
  have : 1 ≤ (headName w).length := by
    cases hnn : headName w with
    | nil => exact absurd hnn hne
    | cons a as => simp
  have hl := congrArg List.length hw
  rw [List.length_append] at hl
  split at hl <;> simp at hl <;> omega


/-! ### `finish_tag_name` handing over -/

/-- what a hand-over of the scanner looks like -/
structure FinishDir (cfg : TagCfg) (Pend : κ → Bool) (c : Common) (s : ScanRegs) (x : Ctx κ) (m' : M κ) (bm : Bookmark) : Prop where
  tagStart : s.tagStart = some bm.pos
  textType : bm.textType = c.lastTextType
  fb : ∃ S1 f, feedbackOf cfg x.sim (!s.isInEndTag, s.tagNameHash) = .ok (S1, f) ∧ m'.x.sim = S1 ∧
    (∀ k, bm.fd = .applyUnhandled (.requestLexeme k) → f = .requestLexeme k) ∧
    bm.lastStartTagNameHash = (if (!s.isInEndTag) && !f.isRL then s.tagNameHash else c.lastStartTagNameHash)
  pend : Pend x.sink = false → Pend m'.x.sink = true → s.isInEndTag = false
  regs : ∃ c' s', m'.r = .scanner s' ∧ m'.c = c' ∧ s'.tagStart = none ∧ s'.isInEndTag = false ∧ s'.chSeqStart = s.chSeqStart ∧
    c'.state = c.state ∧ c'.lastTextType = c.lastTextType

section
variable {env : Env κ} {inp : Bytes} {Pend : κ → Bool}

theorem scanEmitHint_dir (hlaw : PendLaw env.ops Pend) (c : Common) (s : ScanRegs) (x : Ctx κ) (ts : Nat) (ie : Bool)
    (d : Directive) (bm : Bookmark) (h : (scanEmitHint env inp c s x ts ie).2 = some (.directive d bm)) :
    d = .lex ∧ bm.pos = ts ∧ bm.textType = c.lastTextType ∧ bm.fd = scanTakeFeedbackDirective s ∧
    bm.lastStartTagNameHash = (if ie then c.lastStartTagNameHash else s.tagNameHash) ∧
    (Pend x.sink = false → Pend (scanEmitHint env inp c s x ts ie).1.x.sink = true → ie = false) ∧
    (scanEmitHint env inp c s x ts ie).1.x.sim = x.sim ∧
    (scanEmitHint env inp c s x ts ie).1.c.state = c.state ∧
    (scanEmitHint env inp c s x ts ie).1.c.lastTextType = c.lastTextType ∧
    (scanEmitHint env inp c s x ts ie).1.r = .scanner { s with pendingTextTypeChange := none } := by
  unfold scanEmitHint at h ⊢
  split at h
  · simp at h
  · rename_i name hname
    dsimp only at h ⊢
    cases ie with
    | true =>
      simp only [if_true] at h ⊢
      cases hr : (env.ops.endTagHint name x.sink).2 with
      | error e => simp [hr] at h
      | ok dd =>
        cases dd with
        | scan => simp [hr] at h
        | lex =>
          rw [hr] at h
          simp only [Option.some.injEq, Signal.directive.injEq] at h
          obtain ⟨h1, h2⟩ := h
          subst h1; subst h2
          refine ⟨rfl, rfl, rfl, rfl, rfl, fun hp hq => ?_, rfl, rfl, rfl, rfl⟩
          have := hlaw.end_ name x.sink hp
          rw [this] at hq; simp at hq
    | false =>
      simp only [Bool.false_eq_true, if_false] at h ⊢
      cases hr : (env.ops.startTagHint name x.sim.currentNs x.sink).2 with
      | error e => simp [hr] at h
      | ok dd =>
        cases dd with
        | scan => simp [hr] at h
        | lex =>
          rw [hr] at h
          simp only [Option.some.injEq, Signal.directive.injEq] at h
          obtain ⟨h1, h2⟩ := h
          subst h1; subst h2
          refine ⟨rfl, rfl, rfl, rfl, ?_, ?_, rfl, rfl, rfl, rfl⟩ <;> first | rfl | trivial | simp

theorem scanFinishTagName_dir (hlaw : PendLaw env.ops Pend) (c : Common) (s : ScanRegs) (x : Ctx κ)
    (d : Directive) (bm : Bookmark) (h : (scanFinishTagName env inp c s x).2 = some (.directive d bm)) :
    d = .lex ∧ FinishDir env.cfg Pend c s x (scanFinishTagName env inp c s x).1 bm := by
  unfold scanFinishTagName at h ⊢
  cases hts : s.tagStart with
  | none => simp [hts] at h
  | some ts =>
    simp only [hts] at h ⊢
    have hfb : (if s.isInEndTag = true then x.sim.feedbackForEndTag env.cfg s.tagNameHash
        else x.sim.feedbackForStartTag env.cfg s.tagNameHash) = feedbackOf env.cfg x.sim (!s.isInEndTag, s.tagNameHash) := by
      cases s.isInEndTag <;> simp [feedbackOf]
    rw [hfb] at h ⊢
    cases hf : feedbackOf env.cfg x.sim (!s.isInEndTag, s.tagNameHash) with
    | error e => simp [hf] at h
    | ok sf =>
      obtain ⟨S1, f⟩ := sf
      simp only [hf] at h ⊢
      have hint : ∀ (c0 : Common) (s0 : ScanRegs),
          c0.state = c.state → c0.lastTextType = c.lastTextType → c0.lastStartTagNameHash = c.lastStartTagNameHash →
          s0.tagNameHash = s.tagNameHash → s0.chSeqStart = s.chSeqStart → s0.tagStart = none → s0.isInEndTag = false →
          (∀ k, scanTakeFeedbackDirective s0 ≠ .applyUnhandled (.requestLexeme k)) → f.isRL = false →
          (scanEmitHint env inp c0 s0 { x with sim := S1 } ts s.isInEndTag).2 = some (.directive d bm) →
          d = .lex ∧ FinishDir env.cfg Pend c s x (scanEmitHint env inp c0 s0 { x with sim := S1 } ts s.isInEndTag).1 bm := by
        intro c0 s0 k1 k2 k3 k4 k5 k6 k7 k8 k9 hh
        obtain ⟨e1, e2, e3, e4, e5, e6, e7, e8, e9, e10⟩ := scanEmitHint_dir (inp := inp) hlaw _ _ _ _ _ d bm hh
        refine ⟨e1, by rw [e2]; exact hts, by rw [e3, k2], ⟨S1, f, hf, e7, fun k' hk => ?_, ?_⟩, fun hp hq => ?_, _, _, e10, rfl, k6, k7, k5, ?_, ?_⟩
        · rw [e4] at hk; exact absurd hk (k8 k')
        · rw [e5, k9, k4, k3]; cases s.isInEndTag <;> simp
        · exact e6 hp hq
        · rw [e8, k1]
        · rw [e9, k2]
      cases f with
      | requestLexeme k =>
        simp only [scanApplyFeedback, Option.some.injEq, Signal.directive.injEq] at h
        obtain ⟨h1, h2⟩ := h
        subst h1; subst h2
        simp only [scanApplyFeedback]
        refine ⟨by first | rfl | trivial, hts, rfl, ⟨S1, _, hf, rfl, fun k' hk => ?_, by simp [mkBookmark, Feedback.isRL]⟩,
          fun hp hq => by (simp only at hq; rw [hp] at hq; simp at hq), _, _, rfl, rfl, rfl, rfl, rfl, rfl, rfl⟩
        simp only [mkBookmark, FeedbackDirective.applyUnhandled.injEq] at hk
        exact hk
      | switchTextType t =>
        simp only [scanApplyFeedback] at h ⊢
        exact hint _ _ rfl rfl rfl rfl rfl rfl rfl (by intro k; simp [scanTakeFeedbackDirective]) rfl h
      | setAllowCdata b =>
        simp only [scanApplyFeedback] at h ⊢
        exact hint _ _ rfl rfl rfl rfl rfl rfl rfl
          (by intro k; simp only [scanTakeFeedbackDirective]; split <;> simp) rfl h
      | none =>
        simp only [scanApplyFeedback] at h ⊢
        exact hint _ _ rfl rfl rfl rfl rfl rfl rfl
          (by intro k; simp only [scanTakeFeedbackDirective]; split <;> simp) rfl h

/-- scanner actions other than `finish_tag_name` never signal -/
theorem scanAct_silent (a : ActName) (ha : a ≠ .finishTagName) (c : Common) (s : ScanRegs) (x : Ctx κ) :
    (scanAct env a inp c s x).2 = none := by
  cases a <;> simp only [scanAct] <;> first | rfl | exact absurd rfl ha | (split <;> rfl)

theorem runCalls_silent (cs : List Call) (hno : hasAct .finishTagName cs = false) (m : M κ) (h : m.isScanner = true) :
    (runCalls env inp cs m).2 = none := by
  induction cs generalizing m with
  | nil => rfl
  | cons cl rest ih =>
    simp only [hasAct, List.any_cons, Bool.or_eq_false_iff, beq_eq_false_iff_ne, ne_eq] at hno
    obtain ⟨c, s, x, rfl⟩ := scanner_destruct m h
    have h1 : (act env cl.act inp (⟨c, .scanner s, x⟩ : M κ)).2 = none := scanAct_silent _ hno.1 _ _ _
    have hf := (act_frame (env := env) (inp := inp) cl.act (⟨c, .scanner s, x⟩ : M κ) rfl).1
    simp only [runCalls, h1]
    exact ih (by simpa [hasAct] using hno.2) _ hf.scan


/-! ### canonical keep lists on a scanner machine -/

theorem actsOf_nil {cs : List Call} (h : actsOf cs = []) : cs = [] := by
  cases cs <;> simp [actsOf] at h ⊢

theorem actsOf_one {cs : List Call} {a : ActName} (h : actsOf cs = [a]) : ∃ c1, cs = [c1] ∧ c1.act = a := by
  cases cs with
  | nil => simp [actsOf] at h
  | cons c1 r =>
    cases r with
    | nil => simp [actsOf] at h; exact ⟨c1, rfl, h⟩
    | cons _ _ => simp [actsOf] at h

theorem actsOf_three {cs : List Call} {a1 a2 a3 : ActName} (h : actsOf cs = [a1, a2, a3]) :
    ∃ c1 c2 c3, cs = [c1, c2, c3] ∧ c1.act = a1 ∧ c2.act = a2 ∧ c3.act = a3 := by
  match cs, h with
  | [c1, c2, c3], h => simp [actsOf] at h; exact ⟨c1, c2, c3, rfl, h.1, h.2.1, h.2.2⟩
  | [], h => simp [actsOf] at h
  | [_], h => simp [actsOf] at h
  | [_, _], h => simp [actsOf] at h
  | _ :: _ :: _ :: _ :: _, h => simp [actsOf] at h

/-- the scanner registers after a canonical keep list -/
def keepRegs (acts : List ActName) (pos : Nat) (b : UInt8) (s : ScanRegs) : ScanRegs :=
  if acts = [.updateTagNameHash] then { s with tagNameHash := NameHash.update s.tagNameHash b }
  else if acts = [.createStartTag, .startTokenPart, .updateTagNameHash] then
    { s with tagNameStart := pos, tagNameHash := NameHash.update NameHash.new b }
  else if acts = [.createEndTag, .startTokenPart, .updateTagNameHash] then
    { s with tagNameStart := pos, tagNameHash := NameHash.update NameHash.new b, isInEndTag := true }
  else s

theorem runCalls_keep (ph : Phase) (cs : List Call) (hk : keepCallsOk ph cs = true) (c : Common) (s : ScanRegs)
    (x : Ctx κ) (b : UInt8) (hb : inp[c.pos]? = some b) :
    runCalls env inp cs (⟨c, .scanner s, x⟩ : M κ) = (⟨c, .scanner (keepRegs (actsOf cs) c.pos b s), x⟩, none) := by
  simp only [keepCallsOk, Bool.and_eq_true] at hk
  obtain ⟨_, hk⟩ := hk
  have h0 : actsOf cs = [] → runCalls env inp cs (⟨c, .scanner s, x⟩ : M κ) = (⟨c, .scanner (keepRegs (actsOf cs) c.pos b s), x⟩, none) := by
    intro h
    rw [h, actsOf_nil h]
    simp [runCalls, keepRegs]
  have h1 : actsOf cs = [.updateTagNameHash] → runCalls env inp cs (⟨c, .scanner s, x⟩ : M κ) = (⟨c, .scanner (keepRegs (actsOf cs) c.pos b s), x⟩, none) := by
    intro h
    obtain ⟨c1, rfl, e1⟩ := actsOf_one h
    rw [h]
    simp [runCalls, act, e1, scanAct, hb, keepRegs]
  have h3 : actsOf cs = [.createStartTag, .startTokenPart, .updateTagNameHash] →
      runCalls env inp cs (⟨c, .scanner s, x⟩ : M κ) = (⟨c, .scanner (keepRegs (actsOf cs) c.pos b s), x⟩, none) := by
    intro h
    obtain ⟨c1, c2, c3, rfl, e1, e2, e3⟩ := actsOf_three h
    rw [h]
    simp [runCalls, act, e1, e2, e3, scanAct, hb, keepRegs]
  have h4 : actsOf cs = [.createEndTag, .startTokenPart, .updateTagNameHash] →
      runCalls env inp cs (⟨c, .scanner s, x⟩ : M κ) = (⟨c, .scanner (keepRegs (actsOf cs) c.pos b s), x⟩, none) := by
    intro h
    obtain ⟨c1, c2, c3, rfl, e1, e2, e3⟩ := actsOf_three h
    rw [h]
    simp [runCalls, act, e1, e2, e3, scanAct, hb, keepRegs]
  cases ph <;> simp only [Bool.or_eq_true, beq_iff_eq] at hk
  · rcases hk with hk | hk
    · exact h0 hk
    · exact h3 hk
  · rcases hk with hk | hk
    · exact h0 hk
    · exact h4 hk
  · exact h1 hk


/-! ### the hand-over postcondition -/

/-- the lexer-side finishing arm: in state `sfin`, on byte `term`, a lexer whose current tag has key
`K` and whose `last_start_tag_name_hash` is `L0` runs an action list starting with `finish_tag_name` -/
def LexFin (t : Table) (sfin : StateId) (term : UInt8) (K : Bool × Nat) (L0 : Nat) : Prop :=
  ∃ A', selArm t sfin term = some A' ∧
    match A'.body with
    | .seq q => finishCalls q.calls = true
    | .ite c x y => c = .isAppropriateEndTag ∧ (K.1 = false → finishCalls (if L0 == K.2 then x else y).calls = true)

/-- everything the restarted lexer needs: the head `H` and its terminator are in the input at the
bookmark, the lexer-side path over `H` ends in `sfin` whose arm on the terminator finishes the tag
name; a pending aux-info request belongs to a start tag; an unhandled `RequestLexeme` was computed
for this very tag and the simulator state it left. -/
structure HeadDone (env : Env κ) (S : SLabels) (Pend : κ → Bool) (inp : Bytes) (m' : M κ) (bm : Bookmark) : Prop where
  ex : ∃ (H : Bytes) (term : UInt8) (s1' sfin : StateId),
    shapeB .name H = true ∧ (H ++ [term]) <+: inp.drop bm.pos ∧
    ltOf env.tbl (env.tbl.textState bm.textType) = some s1' ∧ absHead env.tbl s1' H.tail = some sfin ∧
    LexFin env.tbl sfin term (headKey H) bm.lastStartTagNameHash ∧
    (Pend m'.x.sink = true → headKind H = true) ∧
    (∀ k, bm.fd = .applyUnhandled (.requestLexeme k) →
      ∃ sim0, feedbackOf env.cfg sim0 (headKey H) = .ok (m'.x.sim, .requestLexeme k))
  regs : ∃ s', m'.r = .scanner s' ∧ s'.tagStart = none ∧ s'.chSeqStart = none ∧ s'.isInEndTag = false

def SemPost (env : Env κ) (L : Labels) (S : SLabels) (Pend : κ → Bool) (inp : Bytes) (last : Bool)
    (r : M κ × Option Signal) : Prop :=
  match r.2 with
  | none => HSem env.tbl L S inp r.1
  | some (.endOfInput n) => last = false → ∀ data, HSem env.tbl L S (inp.drop n ++ data) r.1
  | some (.directive _ bm) => HeadDone env S Pend inp r.1 bm
  | some (.err _) => True

theorem HSem_of_none {t : Table} {L : Labels} {S : SLabels} {inp : Bytes} {m : M κ} (h : m.ts = none) :
    HSem t L S inp m := by
  intro p ph w hp; rw [h] at hp; simp at hp

theorem break_not_dir {inp : Bytes} (m : M κ) (d : Directive) (bm : Bookmark) :
    (breakOnEndOfInput inp m).2 ≠ some (.directive d bm) := by
  unfold breakOnEndOfInput
  dsimp only
  generalize (if m.c.isLast = true then m else adjustForNextInput m) = m'
  split <;> simp

theorem break_ts_none {inp : Bytes} (m : M κ) (hs : m.isScanner = true) (h : m.ts = none) :
    (breakOnEndOfInput inp m).1.ts = none := by
  obtain ⟨c, s, x, rfl⟩ := scanner_destruct m hs
  simp only [M.ts] at h
  unfold breakOnEndOfInput
  dsimp only
  have hadj : adjustForNextInput (⟨c, .scanner s, x⟩ : M κ) = ⟨c, .scanner s, x⟩ := by
    simp [adjustForNextInput, h]
  rw [hadj]
  split <;> split <;> simp [M.ts, h]

section
variable {env : Env κ} {inp : Bytes} {Pend : κ → Bool} {L : Labels} {S : SLabels}

/-- a break keeps the semantic head facts (re-based) -/
theorem break_sem (c : Common) (s : ScanRegs) (x : Ctx κ) (hpos : 1 ≤ c.nextPos)
    (hmid : HeadMid L inp (⟨c, .scanner s, x⟩ : M κ))
    (hsem : HSemMid env.tbl L S inp (⟨c, .scanner s, x⟩ : M κ))
    (hcs : s.chSeqStart = none ∨ s.chSeqStart = some c.pos) :
    SemPost env L S Pend inp c.isLast (breakOnEndOfInput inp (⟨c, .scanner s, x⟩ : M κ)) := by
  cases hts : s.tagStart with
  | none =>
    have := break_ts_none (inp := inp) (⟨c, .scanner s, x⟩ : M κ) rfl (by simpa [M.ts] using hts)
    unfold SemPost
    split
    · exact HSem_of_none this
    · intro _ data; exact HSem_of_none this
    · rename_i d bm hd; exact absurd hd (break_not_dir _ d bm)
    · trivial
  | some p =>
    obtain ⟨ph, w, hlab, hshape, hlen, hpre⟩ := hmid p (by simp [M.ts, hts])
    simp only at hlab hlen
    have hp1 : c.pos + 1 = c.nextPos := by simp [Common.pos]; omega
    have hcons : consumedByteCount inp (⟨c, .scanner s, x⟩ : M κ) = p := by
      rcases hcs with hc | hc
      · simp [consumedByteCount, hts, hc]
      · simp [consumedByteCount, hts, hc]; omega
    rw [breakOnEndOfInput_scanner c s x _ hcons hpos (by omega)]
    simp only [SemPost]
    intro hl data
    have hadj : (if c.isLast then s else s.adjust)
        = { s with tagNameStart := alignNat s.tagNameStart p, tagStart := some 0 } := by
      simp [hl, ScanRegs.adjust, hts]
    rw [hadj]
    have hold := hsem p ph w (by simp [M.ts, hts]) hlab hshape hlen hpre
    intro p' ph' w' hp' hl' hs' hlen' hpre'
    simp only [M.ts, Option.some.injEq] at hp'
    subst hp'
    simp only at hl' hlen'
    rw [hlab] at hl'
    simp only [Option.some.injEq] at hl'
    subst hl'
    have hww : w' = w := by
      have h1 : w <+: inp.drop p ++ data := prefix_app data hpre
      simp only [List.drop_zero] at hpre'
      exact prefix_unique hpre' h1 (by omega)
    subst hww
    refine ⟨hold.path, fun hn s' hs'' => ?_⟩
    simp only [Regs.scanner.injEq] at hs''
    subst hs''
    obtain ⟨k1, k2, k3⟩ := hold.sem hn s rfl
    refine ⟨k1, k2, ?_⟩
    simp only
    have : p ≤ s.tagNameStart := by
      have hl2 : (headName w').length ≤ w'.length := by
        unfold headName; split <;> simp <;> omega
      omega
    simp only [alignNat, this, ge_iff_le, if_true]
    omega


/-! ### reading the checkers -/

theorem RelexOk_state {t : Table} {TT : TLabels} {i : StateId} {sd : StateDef} (h : RelexOk t L TT S = true)
    (hs : t.state? i = some sd) : relexStateOk t S L TT i sd = true := by
  have := allIdx_get (k := 0) h hs
  simpa using this

/-- `HeadOk` on a byte-selected arm of a `TagHead` state -/
theorem head_arm_facts {t : Table} {i : StateId} {sd : StateDef} {ph : Phase} {c : Common} {b : UInt8} {arm : Arm}
    (hok : stateOk t L i sd = true) (hl : L.at i = some ph) (hfind : findArm t c (some b) sd.arms = some arm) :
    (∀ a ∈ sd.arms, a.pat ≠ .closingQuote) ∧ sd.memchr = none ∧
    ∀ q ∈ arm.body.seqs, seqKeepOk L ph b q = true := by
  simp only [stateOk, Bool.and_eq_true] at hok
  rw [hl] at hok
  simp only [headStateOk, Bool.and_eq_true, List.all_eq_true] at hok
  obtain ⟨⟨hmem, hspecial⟩, hbytes⟩ := hok.2
  have hcq : ∀ a ∈ sd.arms, a.pat ≠ .closingQuote := by
    intro a ha hp'
    have := hspecial a ha
    simp [specialArmOk, hp'] at this
  have hbyte := hbytes b.toNat (by simpa using UInt8.toNat_lt_size b)
  simp only [byteOk, UInt8.ofNat_toNat] at hbyte
  rw [← findArm_c0 (c := c) b sd.arms hcq, hfind] at hbyte
  simp only [List.all_eq_true] at hbyte
  exact ⟨hcq, by simpa using hmem, hbyte⟩

/-- `RelexOk` on a byte-selected arm of a `TagHead` state -/
theorem relex_arm_facts {t : Table} {TT : TLabels} {i : StateId} {sd : StateDef} {ph : Phase} {c : Common} {b : UInt8}
    {arm : Arm} (hr : relexStateOk t S L TT i sd = true) (hl : L.at i = some ph)
    (hcq : ∀ a ∈ sd.arms, a.pat ≠ .closingQuote) (hfind : findArm t c (some b) sd.arms = some arm) :
    sd.enter = [] ∧ (∀ a ∈ sd.arms, a.pat.isSpecial' = true → ∀ q ∈ a.body.seqs, hasAct .finishTagName q.calls = false) ∧
    armPair S L ph arm (selArm t (S.at i) b) = true := by
  simp only [relexStateOk, hl, headPairOk, Bool.and_eq_true, List.isEmpty_iff] at hr
  obtain ⟨⟨he, hsp⟩, hr⟩ := hr
  refine ⟨he, ?_, ?_⟩
  · intro a ha hpa q hq
    simp only [List.all_eq_true, Bool.or_eq_true, Bool.not_eq_true'] at hsp
    rcases hsp a ha with h | h
    · rw [hpa] at h; simp at h
    · have := h q hq; simpa using this
  · cases hsd' : t.state? (S.at i) with
    | none => simp [hsd'] at hr
    | some sd' =>
      simp only [hsd', Bool.and_eq_true, List.all_eq_true] at hr
      have := hr.2 b.toNat (by simpa using UInt8.toNat_lt_size b)
      simp only [UInt8.ofNat_toNat] at this
      rw [← findArm_c0 (c := c) b sd.arms hcq, hfind] at this
      simp only [selArm, hsd']
      exact this


theorem tail_snoc {w : Bytes} {b : UInt8} (h : w ≠ []) : (w ++ [b]).tail = w.tail ++ [b] := by
  cases w with
  | nil => exact absurd rfl h
  | cons x xs => rfl

theorem shape_ne_nil {ph : Phase} {w : Bytes} (h : shapeB ph w = true) : w ≠ [] := by
  intro hw; subst hw; cases ph <;> simp [shapeB] at h

theorem hasAct_acts (a : ActName) (cs : List Call) : hasAct a cs = (actsOf cs).contains a := by
  induction cs with
  | nil => rfl
  | cons c r ih =>
    have hc : (c.act == a) = (a == c.act) := by
      cases h1 : (c.act == a) <;> cases h2 : (a == c.act) <;> first | rfl | (simp at h1 h2; simp_all)
    simp only [hasAct, actsOf] at ih
    simp only [hasAct, List.any_cons, actsOf, List.map_cons, List.contains_cons, ih, hc]

/-- **a byte that stays in the tag head** -/
theorem keep_sem {sd : StateDef} {ph : Phase} {c : Common} {s : ScanRegs} {x : Ctx κ} {b : UInt8} {q q' : ActSeq}
    {A' : Arm}
    (hl : L.at c.state = some ph) (hpos : 1 ≤ c.nextPos) (hb : inp[c.pos]? = some b)
    (hmid : HeadMid L inp (⟨c, .scanner s, x⟩ : M κ)) (hsem : HSemMid env.tbl L S inp (⟨c, .scanner s, x⟩ : M κ))
    (hk : tsCalls q.calls = .keep) (hkeep : seqKeepOk L ph b q = true)
    (hsel : selArm env.tbl (S.at c.state) b = some A') (hbody : A'.body = .seq q')
    (hpair : seqPair S L ph false q q' = true)
    (hend : hasAct .createStartTag q.calls = true → s.isInEndTag = false) :
    (runSeq env inp q (⟨c, .scanner s, x⟩ : M κ)).2.1 = none ∧
    HSem env.tbl L S inp (runSeq env inp q (⟨c, .scanner s, x⟩ : M κ)).1 := by
  simp only [seqPair, hk, Bool.and_eq_true, Bool.not_false, true_and, beq_iff_eq] at hpair
  obtain ⟨⟨hcalls, hkc⟩, htrans⟩ := hpair
  have hrc := runCalls_keep (env := env) (inp := inp) ph q.calls hkc c s x b hb
  have hp1 : c.pos + 1 = c.nextPos := by simp [Common.pos]; omega
  -- the lexer-side step
  have habs : ∀ tgt', (q'.trans = none → tgt' = S.at c.state) → (∀ j', q'.trans = some (.goto j') → tgt' = j') →
      (q'.trans = none ∨ ∃ j', q'.trans = some (.goto j')) → absStep env.tbl (S.at c.state) b = some tgt' := by
    intro tgt' h1 h2 h3
    obtain ⟨pat', body'⟩ := A'
    simp only at hbody
    subst hbody
    simp only [absStep, hsel, hcalls, hk, beq_self_eq_true, if_true]
    rcases h3 with h3 | ⟨j', h3⟩
    · rw [h3]; simp [h1 h3]
    · rw [h3]; simp [h2 j' h3]
  -- the new witness
  have hwit : ∀ (st' : StateId) (m' : M κ), m'.c.state = st' → m'.c.nextPos = c.nextPos → m'.c.lastTextType = c.lastTextType →
      m'.r = .scanner (keepRegs (actsOf q.calls) c.pos b s) →
      absStep env.tbl (S.at c.state) b = some (S.at st') →
      (∀ ph', L.at st' = some ph' → stepOk ph b ph' = true ∧
        ((ph' == .name) = (hasAct .createStartTag q.calls || hasAct .createEndTag q.calls || ph == .name))) →
      HSem env.tbl L S inp m' := by
    intro st' m' e1 e2 e3 e4 e5 e6 p' ph' w' hp' hl' hs' hlen' hpre'
    have hts : s.tagStart = some p' := by
      simp only [M.ts, e4] at hp'
      simpa [keepRegs] using (by
        unfold keepRegs at hp'
        split at hp'
        · exact hp'
        · split at hp'
          · exact hp'
          · split at hp' <;> exact hp')
    obtain ⟨ph0, w, hl0, hs0, hlen0, hpre0⟩ := hmid p' (by simp [M.ts, hts])
    simp only at hl0 hlen0
    rw [hl] at hl0
    simp only [Option.some.injEq] at hl0
    subst hl0
    have hold := hsem p' ph w (by simp [M.ts, hts]) hl hs0 hlen0 hpre0
    have hsn : (w ++ [b]) <+: inp.drop p' := by
      apply prefix_snoc hpre0
      rw [List.getElem?_drop]
      have : p' + w.length = c.pos := by omega
      rw [this]; exact hb
    have hww : w' = w ++ [b] := prefix_unique hpre' hsn (by simp; omega)
    subst hww
    rw [e1] at hl'
    obtain ⟨hstep, hname⟩ := e6 ph' hl'
    refine ⟨?_, fun hn s' hs'' => ?_⟩
    · obtain ⟨s1', k1, k2⟩ := hold.path
      refine ⟨s1', by rw [e3]; exact k1, ?_⟩
      rw [tail_snoc (shape_ne_nil hs0), absHead_snoc, k2, e1]
      exact e5
    · subst hn
      rw [e4] at hs''
      simp only [Regs.scanner.injEq] at hs''
      subst hs''
      simp only [beq_self_eq_true] at hname
      have hacts := hkc
      simp only [keepCallsOk, Bool.and_eq_true] at hacts
      cases ph with
      | name =>
        have ha : actsOf q.calls = [.updateTagNameHash] := by simpa using hacts.2
        obtain ⟨k1, k2, k3⟩ := hold.sem rfl s rfl
        obtain ⟨n1, n2⟩ := headName_snoc (w := w) (b := b) (shape_name_len hs0)
        refine ⟨by rw [n1]; simpa [keepRegs, ha] using k1, ?_, ?_⟩
        · rw [n2, ofBytes_snoc, ← k2]; simp [keepRegs, ha]
        · rw [n2]; simp only [keepRegs, ha, if_true, List.length_append, List.length_singleton]; omega
      | lt =>
        have hw := shape_lt hs0
        subst hw
        have hcr : hasAct .createStartTag q.calls = true ∨ hasAct .createEndTag q.calls = true := by
          simpa using hname.symm
        have ha : actsOf q.calls = [.createStartTag, .startTokenPart, .updateTagNameHash] := by
          have h2 := hacts.2
          simp only [Bool.or_eq_true, beq_iff_eq] at h2
          rcases h2 with h2 | h2
          · rw [hasAct_acts, hasAct_acts, h2] at hcr; simp at hcr
          · exact h2
        have halpha : isAsciiAlpha b = true := by simpa [stepOk] using hstep
        have hb47 : b ≠ 47 := by intro h; subst h; simp [isAsciiAlpha] at halpha
        have hie := hend (by rw [hasAct_acts, ha]; simp)
        refine ⟨?_, ?_, ?_⟩
        · simp [keepRegs, ha, headKind, hb47, hie]
        · simp [keepRegs, ha, headName, hb47, NameHash.ofBytes]
        · simp only [keepRegs, ha, headName]
          simp [hb47]
          simp only [List.length_singleton] at hlen0
          omega
      | slash =>
        have hw := shape_slash hs0
        subst hw
        have hcr : hasAct .createStartTag q.calls = true ∨ hasAct .createEndTag q.calls = true := by
          simpa using hname.symm
        have ha : actsOf q.calls = [.createEndTag, .startTokenPart, .updateTagNameHash] := by
          have h2 := hacts.2
          simp only [Bool.or_eq_true, beq_iff_eq] at h2
          rcases h2 with h2 | h2
          · rw [hasAct_acts, hasAct_acts, h2] at hcr; simp at hcr
          · exact h2
        refine ⟨?_, ?_, ?_⟩
        · simp [keepRegs, ha, headKind]
        · simp [keepRegs, ha, headName, NameHash.ofBytes]
        · simp only [keepRegs, ha, headName]
          simp
          simp only [List.length_cons, List.length_nil] at hlen0
          omega
  unfold seqKeepOk at hkeep
  simp only [hk] at hkeep
  unfold runSeq
  rw [hrc]
  dsimp only
  cases htr : q.trans with
  | none =>
    simp only [htr] at hkeep htrans ⊢
    cases htr' : q'.trans with
    | some t' => simp [htr'] at htrans
    | none =>
      refine ⟨by first | rfl | trivial, hwit c.state _ rfl rfl rfl rfl (habs _ (fun _ => rfl) (fun j' h => by simp [htr'] at h) (Or.inl htr')) ?_⟩
      intro ph' hl'
      rw [hl] at hl'
      simp only [Option.some.injEq] at hl'
      subst hl'
      refine ⟨hkeep, ?_⟩
      have hacts := hkc
      simp only [keepCallsOk, Bool.and_eq_true] at hacts
      -- staying in place: no tag is created unless we already are in the name
      cases ph <;> simp only [stepOk, Bool.false_eq_true] at hkeep
      simp [hasAct_acts, (by simpa using hacts.2 : actsOf q.calls = [.updateTagNameHash])]
  | some tr =>
    cases tr with
    | goto j =>
      simp only [htr] at hkeep htrans ⊢
      cases htr' : q'.trans with
      | none => simp [htr'] at htrans
      | some t' =>
        cases t' with
        | goto j' =>
          simp only [htr', Bool.and_eq_true, beq_iff_eq] at htrans
          obtain ⟨hS, hL⟩ := htrans
          simp only [applyTrans]
          refine ⟨by first | rfl | trivial, hwit j _ rfl rfl rfl rfl (habs _ (fun h => by simp [htr'] at h)
            (fun j'' h => by simp only [htr', Option.some.injEq, Trans.goto.injEq] at h; rw [← h, hS]) (Or.inr ⟨j', htr'⟩)) ?_⟩
          intro ph' hl'
          rw [hl'] at hkeep hL
          simp only at hkeep hL
          exact ⟨hkeep, by simpa using hL⟩
        | gotoDyn => simp [htr'] at htrans
        | reconsume _ => simp [htr'] at htrans
    | gotoDyn => simp [htr] at hkeep
    | reconsume _ => simp [htr] at hkeep


theorem finishCalls_cases {cs : List Call} (h : finishCalls cs = true) :
    cs = [⟨.finishTagName, true⟩] ∨ cs = [⟨.finishTagName, true⟩, ⟨.emitTag, true⟩] := by
  simpa [finishCalls] using h

/-- a directive out of a finishing list comes from `finish_tag_name` on the machine the list started with -/
theorem finish_runSeq_dir {q : ActSeq} (hf : finishCalls q.calls = true) (c : Common) (s : ScanRegs) (x : Ctx κ)
    (d : Directive) (bm : Bookmark) (h : (runSeq env inp q (⟨c, .scanner s, x⟩ : M κ)).2.1 = some (.directive d bm)) :
    (scanFinishTagName env inp c s x).2 = some (.directive d bm) ∧
    (runSeq env inp q (⟨c, .scanner s, x⟩ : M κ)).1 = (scanFinishTagName env inp c s x).1 := by
  have hemit : ∀ m : M κ, m.isScanner = true → (act env .emitTag inp m).2 = none := by
    intro m hm
    obtain ⟨c', s', x', rfl⟩ := scanner_destruct m hm
    rfl
  have htrans : ∀ (t : Trans) (m : M κ), (applyTrans env t m).2 ≠ some (.directive d bm) := by
    intro t m
    cases t <;> simp only [applyTrans]
    · simp
    · simp
    · split <;> simp
  have hsc := (scanAct_frame (env := env) (inp := inp) .finishTagName c s x).1.scan
  obtain ⟨rest, hc, hrest⟩ : ∃ rest, q.calls = ⟨.finishTagName, true⟩ :: rest ∧ hasAct .finishTagName rest = false := by
    rcases finishCalls_cases hf with h' | h'
    · exact ⟨_, h', rfl⟩
    · exact ⟨_, h', rfl⟩
  have hact : act env .finishTagName inp (⟨c, .scanner s, x⟩ : M κ) = scanFinishTagName env inp c s x := rfl
  unfold runSeq at h ⊢
  rw [hc, runCalls_cons_q _ _ _ rfl, hact] at h ⊢
  cases hs : (scanFinishTagName env inp c s x).2 with
  | some sig =>
    simp only [hs] at h ⊢
    exact ⟨by simpa using h, by first | rfl | trivial⟩
  | none =>
    simp only [hs] at h
    exfalso
    have hsil := runCalls_silent (env := env) (inp := inp) rest hrest (scanFinishTagName env inp c s x).1 hsc
    simp only [hsil] at h
    cases htr : q.trans with
    | none => simp [htr] at h
    | some t => simp only [htr] at h; exact htrans t _ h

/-- **the hand-over** -/
theorem finish_sem (hlaw : PendLaw env.ops Pend) {ph : Phase} {c : Common} {s : ScanRegs} {x : Ctx κ} {b : UInt8}
    {q : ActSeq} (hl : L.at c.state = some ph) (hname : ph = .name) (hpos : 1 ≤ c.nextPos) (hb : inp[c.pos]? = some b)
    (hmid : HeadMid L inp (⟨c, .scanner s, x⟩ : M κ)) (hsem : HSemMid env.tbl L S inp (⟨c, .scanner s, x⟩ : M κ))
    (hpend : Pend x.sink = false) (hcs : s.chSeqStart = none)
    (hf : finishCalls q.calls = true)
    (hfin : ∀ K L0, K = (!s.isInEndTag, s.tagNameHash) → (K.1 = false → L0 = c.lastStartTagNameHash) →
      LexFin env.tbl (S.at c.state) b K L0)
    (d : Directive) (bm : Bookmark)
    (h : (runSeq env inp q (⟨c, .scanner s, x⟩ : M κ)).2.1 = some (.directive d bm)) :
    HeadDone env S Pend inp (runSeq env inp q (⟨c, .scanner s, x⟩ : M κ)).1 bm := by
  obtain ⟨h1, h2⟩ := finish_runSeq_dir hf c s x d bm h
  rw [h2]
  obtain ⟨hd, ⟨f1, f2, ⟨S1, f, f3, f4, f5, f6⟩, f7, ⟨c', s', f8, f9, f10, f11, f12, f13, f14⟩⟩⟩ :=
    scanFinishTagName_dir (inp := inp) hlaw c s x d bm h1
  subst hname
  obtain ⟨ph0, w, hl0, hs0, hlen0, hpre0⟩ := hmid bm.pos (by simp [M.ts, f1])
  simp only at hl0 hlen0
  rw [hl] at hl0
  simp only [Option.some.injEq] at hl0
  subst hl0
  have hold := hsem bm.pos .name w (by simp [M.ts, f1]) hl hs0 hlen0 hpre0
  obtain ⟨k1, k2, k3⟩ := hold.sem rfl s rfl
  obtain ⟨s1', p1, p2⟩ := hold.path
  have hp1 : c.pos + 1 = c.nextPos := by simp [Common.pos]; omega
  have hsn : (w ++ [b]) <+: inp.drop bm.pos := by
    apply prefix_snoc hpre0
    rw [List.getElem?_drop]
    have : bm.pos + w.length = c.pos := by omega
    rw [this]; exact hb
  have hkey : headKey w = (!s.isInEndTag, s.tagNameHash) := by
    simp only [headKey, k2]
    rw [k1]; simp
  refine ⟨⟨w, b, s1', S.at c.state, hs0, hsn, by rw [f2]; exact p1, p2, ?_, ?_, ?_⟩, ⟨s', f8, f10, by rw [f12]; exact hcs, f11⟩⟩
  · apply hfin _ _ hkey
    intro hk
    rw [f6]
    have : (!s.isInEndTag) = false := by rw [hkey] at hk; exact hk
    simp [this]
  · intro hp
    have := f7 hpend hp
    simp only [headKind] at k1 ⊢
    rw [this] at k1
    simpa using k1.symm
  · intro k hk
    have := f5 k hk
    subst this
    exact ⟨x.sim, by rw [hkey, f4]; exact f3⟩

end
end
end LolHtml.Model
