import LolHtml.Lemmas.ScanLab
/-!
The tag head, semantically: while `tag_start` is set, the scanner's `is_in_end_tag`, `tag_name_hash`
and `tag_name_start` are functions of the head bytes, and the state is the shadow-preimage of the
state a lexer restarted at `<` would be in (`absHead`). At the hand-over (`directive .lex bm` from
`finish_tag_name`) this yields `HeadDone`: everything the restarted lexer needs to re-lex the same tag.
-/
set_option linter.unusedSimpArgs false
set_option linter.unusedVariables false

namespace LolHtml.Model

variable {κ : Type}

/-- start tag iff the byte after `<` is not `/` -/
def headKind (w : Bytes) : Bool := !(w[1]? == some 47)

/-- the name bytes of a head `<`[`/`]name -/
def headName (w : Bytes) : Bytes := if w[1]? == some 47 then w.drop 2 else w.drop 1

/-- the key (kind, name hash) of a head -/
def headKey (w : Bytes) : Bool × Nat := (headKind w, NameHash.ofBytes (headName w))

/-- one byte of the tag head on the lexer's side: the state after an arm that stays in the head -/
def headStep (t : Table) (s : StateId) (b : UInt8) : Option StateId :=
  match selArm t s b with
  | some ⟨_, .seq q⟩ =>
    if tsCalls q.calls == .keep then
      (match q.trans with | none => some s | some (.goto j) => some j | _ => none)
    else none
  | _ => none

def absHead (t : Table) : StateId → Bytes → Option StateId
  | s, [] => some s
  | s, b :: bs => (headStep t s b).bind fun s' => absHead t s' bs

theorem absHead_snoc (t : Table) (s : StateId) (w : Bytes) (b : UInt8) :
    absHead t s (w ++ [b]) = (absHead t s w).bind fun s' => headStep t s' b := by
  induction w generalizing s with
  | nil => simp [absHead]
  | cons x xs ih =>
    simp only [List.cons_append, absHead]
    cases headStep t s x with
    | none => rfl
    | some s' => simp [ih]

theorem ofBytes_snoc (n : Bytes) (b : UInt8) : NameHash.ofBytes (n ++ [b]) = NameHash.update (NameHash.ofBytes n) b := by
  simp [NameHash.ofBytes, List.foldl_append]

/-- a lexer-side state of the tag head: the shadow of some `TagHead` state -/
def lexSide (L : Labels) (S : SLabels) (s' : StateId) : Bool :=
  (List.range L.length).any fun s => (L.at s).isSome && S.at s == s'

/-- every state along the lexer-side path is the shadow of a `TagHead` state -/
def PathImg (t : Table) (L : Labels) (S : SLabels) (s1 : StateId) (u : Bytes) : Prop :=
  ∀ k, k ≤ u.length → ∃ s', absHead t s1 (u.take k) = some s' ∧ lexSide L S s' = true

theorem lexSide_of {L : Labels} {S : SLabels} {j : StateId} {ph : Phase} (h : L.at j = some ph) : lexSide L S (S.at j) = true := by
  simp only [lexSide, List.any_eq_true, List.mem_range, Bool.and_eq_true, beq_iff_eq]
  refine ⟨j, ?_, by rw [h]; rfl, rfl⟩
  simp only [Labels.at] at h
  rcases Nat.lt_or_ge j L.length with h' | h'
  · exact h'
  · rw [List.getElem?_eq_none h'] at h; simp at h

theorem PathImg_snoc {t : Table} {L : Labels} {S : SLabels} {s1 s' : StateId} {u : Bytes} {b : UInt8}
    (h : PathImg t L S s1 u) (hs : absHead t s1 (u ++ [b]) = some s') (hl : lexSide L S s' = true) :
    PathImg t L S s1 (u ++ [b]) := by
  intro k hk
  simp only [List.length_append, List.length_singleton] at hk
  rcases Nat.lt_or_ge k (u.length + 1) with h' | h'
  · have : (u ++ [b]).take k = u.take k := by
      rw [List.take_append_of_le_length (by omega)]
    rw [this]
    exact h k (by omega)
  · have hk' : k = u.length + 1 := by omega
    subst hk'
    have : (u ++ [b]).take (u.length + 1) = u ++ [b] := by
      apply List.take_of_length_le; simp
    rw [this]
    exact ⟨s', hs, hl⟩

/-- scanner registers as functions of the head `w` (phase `name`) -/
structure ScanSem (p : Nat) (w : Bytes) (s : ScanRegs) : Prop where
  kind : s.isInEndTag = !headKind w
  hash : s.tagNameHash = NameHash.ofBytes (headName w)
  start : s.tagNameStart + (headName w).length = p + w.length

structure HExtra (t : Table) (L : Labels) (S : SLabels) (m : M κ) (p : Nat) (ph : Phase) (w : Bytes) : Prop where
  path : ∃ s1', ltOf t (t.textState m.c.lastTextType) = some s1' ∧ absHead t s1' w.tail = some (S.at m.c.state) ∧
    PathImg t L S s1' w.tail
  sem : ph = .name → ∀ s, m.r = .scanner s → ScanSem p w s

/-- between state functions -/
def HSem (t : Table) (L : Labels) (S : SLabels) (inp : Bytes) (m : M κ) : Prop :=
  ∀ p ph w, m.ts = some p → L.at m.c.state = some ph → shapeB ph w = true → p + w.length = m.c.nextPos →
    w <+: inp.drop p → HExtra t L S m p ph w

/-- after the consume -/
def HSemMid (t : Table) (L : Labels) (S : SLabels) (inp : Bytes) (m : M κ) : Prop :=
  ∀ p ph w, m.ts = some p → L.at m.c.state = some ph → shapeB ph w = true → p + w.length + 1 = m.c.nextPos →
    w <+: inp.drop p → HExtra t L S m p ph w

/-! ### shapes -/

theorem shape_lt {w : Bytes} (h : shapeB .lt w = true) : w = [60] := by simpa [shapeB] using h
theorem shape_slash {w : Bytes} (h : shapeB .slash w = true) : w = [60, 47] := by simpa [shapeB] using h

theorem prefix_unique {w w' l : Bytes} (h : w <+: l) (h' : w' <+: l) (hl : w.length = w'.length) : w = w' := by
  obtain ⟨r, hr⟩ := h
  obtain ⟨r', hr'⟩ := h'
  have := hr.trans hr'.symm
  exact (List.append_inj this hl).1

theorem nameOk_head_ne47 {n : Bytes} (h : nameOk n = true) : n[0]? ≠ some 47 := by
  cases n with
  | nil => simp [nameOk] at h
  | cons b bs =>
    simp only [nameOk, Bool.and_eq_true] at h
    intro hb
    simp at hb
    subst hb
    simp [isAsciiAlpha] at h

/-- decomposition of a head in phase `name` -/
theorem shape_name {w : Bytes} (h : shapeB .name w = true) :
    nameOk (headName w) = true ∧ w = (if headKind w then [60] else [60, 47]) ++ headName w := by
  simp only [shapeB, Bool.and_eq_true, Bool.or_eq_true, beq_iff_eq] at h
  obtain ⟨hh, hn⟩ := h
  cases w with
  | nil => simp at hh
  | cons x xs =>
    simp only [List.head?_cons, Option.some.injEq] at hh
    subst hh
    rcases hn with hn | ⟨h1, hn⟩
    · -- start tag
      simp only [List.drop_succ_cons, List.drop_zero] at hn
      have hne := nameOk_head_ne47 hn
      have hif : ¬ (xs[0]? = some 47) := hne
      simp [headKind, headName, hif, hn]
    · cases xs with
      | nil => simp at h1
      | cons y ys =>
        simp at h1
        subst h1
        simp only [List.drop_succ_cons, List.drop_zero] at hn
        simp [headKind, headName, hn]

theorem headName_snoc {w : Bytes} {b : UInt8} (h : 2 ≤ w.length) :
    headKind (w ++ [b]) = headKind w ∧ headName (w ++ [b]) = headName w ++ [b] := by
  have h1 : (w ++ [b])[1]? = w[1]? := List.getElem?_append_left (by omega)
  unfold headKind headName
  rw [h1]
  refine ⟨rfl, ?_⟩
  split
  · exact List.drop_append_of_le_length (by omega)
  · exact List.drop_append_of_le_length (by omega)

theorem shape_name_len {w : Bytes} (h : shapeB .name w = true) : 2 ≤ w.length := by
  obtain ⟨hn, hw⟩ := shape_name h
  have hne := nameOk_ne_nil hn
  have : 1 ≤ (headName w).length := by
    cases hnn : headName w with
    | nil => exact absurd hnn hne
    | cons a as => simp
  have hl := congrArg List.length hw
  rw [List.length_append] at hl
  split at hl <;> simp at hl <;> omega


/-! ### `finish_tag_name` handing over -/

/-- what a hand-over of the scanner looks like -/
structure FinishDir (cfg : TagCfg) (Pend : κ → Bool) (K : Bool) (c : Common) (s : ScanRegs) (x : Ctx κ) (m' : M κ) (bm : Bookmark) : Prop where
  tagStart : s.tagStart = some bm.pos
  textType : bm.textType = c.lastTextType
  fb : ∃ S1 f, feedbackOf cfg x.sim (!s.isInEndTag, s.tagNameHash) = .ok (S1, f) ∧ m'.x.sim = S1 ∧
    (∀ k, bm.fd = .applyUnhandled (.requestLexeme k) → f = .requestLexeme k) ∧
    bm.lastStartTagNameHash = (if (!s.isInEndTag) && !f.isRL then s.tagNameHash else c.lastStartTagNameHash)
  pend : Pend x.sink = false → Pend m'.x.sink = true → s.isInEndTag = !K
  regs : ∃ c' s', m'.r = .scanner s' ∧ m'.c = c' ∧ s'.tagStart = none ∧ s'.isInEndTag = false ∧ s'.chSeqStart = s.chSeqStart ∧
    c'.state = c.state ∧ c'.lastTextType = c.lastTextType

section
variable {env : Env κ} {inp : Bytes} {Pend : κ → Bool} {K : Bool}

theorem scanEmitHint_dir (hlaw : PendLaw env.ops Pend K) (c : Common) (s : ScanRegs) (x : Ctx κ) (ts : Nat) (ie : Bool)
    (d : Directive) (bm : Bookmark) (h : (scanEmitHint env inp c s x ts ie).2 = some (.directive d bm)) :
    d = .lex ∧ bm.pos = ts ∧ bm.textType = c.lastTextType ∧ bm.fd = scanTakeFeedbackDirective s ∧
    bm.lastStartTagNameHash = (if ie then c.lastStartTagNameHash else s.tagNameHash) ∧
    (Pend x.sink = false → Pend (scanEmitHint env inp c s x ts ie).1.x.sink = true → ie = !K) ∧
    (scanEmitHint env inp c s x ts ie).1.x.sim = x.sim ∧
    (scanEmitHint env inp c s x ts ie).1.c.state = c.state ∧
    (scanEmitHint env inp c s x ts ie).1.c.lastTextType = c.lastTextType ∧
    (scanEmitHint env inp c s x ts ie).1.r = .scanner { s with pendingTextTypeChange := none } := by
  unfold scanEmitHint at h ⊢
  split at h
  · simp at h
  · rename_i name hname
    dsimp only at h ⊢
    cases ie with
    | true =>
      simp only [if_true] at h ⊢
      cases hr : (env.ops.endTagHint name x.sink).2 with
      | error e => simp [hr] at h
      | ok dd =>
        cases dd with
        | scan => simp [hr] at h
        | lex =>
          rw [hr] at h
          simp only [Option.some.injEq, Signal.directive.injEq] at h
          obtain ⟨h1, h2⟩ := h
          subst h1; subst h2
          refine ⟨rfl, rfl, rfl, rfl, rfl, fun hp hq => ?_, rfl, rfl, rfl, rfl⟩
          cases K with
          | false => rfl
          | true =>
            have := hlaw.otherE rfl name x.sink hp
            rw [this] at hq; simp at hq
    | false =>
      simp only [Bool.false_eq_true, if_false] at h ⊢
      cases hr : (env.ops.startTagHint name x.sim.currentNs x.sink).2 with
      | error e => simp [hr] at h
      | ok dd =>
        cases dd with
        | scan => simp [hr] at h
        | lex =>
          rw [hr] at h
          simp only [Option.some.injEq, Signal.directive.injEq] at h
          obtain ⟨h1, h2⟩ := h
          subst h1; subst h2
          refine ⟨rfl, rfl, rfl, rfl, ?_, ?_, rfl, rfl, rfl, rfl⟩
          · first | rfl | trivial | simp
          · intro hp hq
            cases K with
            | true => rfl
            | false =>
              have := hlaw.otherS rfl name x.sim.currentNs x.sink hp
              rw [this] at hq; simp at hq

theorem scanFinishTagName_dir (hlaw : PendLaw env.ops Pend K) (c : Common) (s : ScanRegs) (x : Ctx κ)
    (d : Directive) (bm : Bookmark) (h : (scanFinishTagName env inp c s x).2 = some (.directive d bm)) :
    d = .lex ∧ FinishDir env.cfg Pend K c s x (scanFinishTagName env inp c s x).1 bm := by
  unfold scanFinishTagName at h ⊢
  cases hts : s.tagStart with
  | none => simp [hts] at h
  | some ts =>
    simp only [hts] at h ⊢
    have hfb : (if s.isInEndTag = true then x.sim.feedbackForEndTag env.cfg s.tagNameHash
        else x.sim.feedbackForStartTag env.cfg s.tagNameHash) = feedbackOf env.cfg x.sim (!s.isInEndTag, s.tagNameHash) := by
      cases s.isInEndTag <;> simp [feedbackOf]
    rw [hfb] at h ⊢
    cases hf : feedbackOf env.cfg x.sim (!s.isInEndTag, s.tagNameHash) with
    | error e => simp [hf] at h
    | ok sf =>
      obtain ⟨S1, f⟩ := sf
      simp only [hf] at h ⊢
      have hint : ∀ (c0 : Common) (s0 : ScanRegs),
          c0.state = c.state → c0.lastTextType = c.lastTextType → c0.lastStartTagNameHash = c.lastStartTagNameHash →
          s0.tagNameHash = s.tagNameHash → s0.chSeqStart = s.chSeqStart → s0.tagStart = none → s0.isInEndTag = false →
          (∀ k, scanTakeFeedbackDirective s0 ≠ .applyUnhandled (.requestLexeme k)) → f.isRL = false →
          (scanEmitHint env inp c0 s0 { x with sim := S1 } ts s.isInEndTag).2 = some (.directive d bm) →
          d = .lex ∧ FinishDir env.cfg Pend K c s x (scanEmitHint env inp c0 s0 { x with sim := S1 } ts s.isInEndTag).1 bm := by
        intro c0 s0 k1 k2 k3 k4 k5 k6 k7 k8 k9 hh
        obtain ⟨e1, e2, e3, e4, e5, e6, e7, e8, e9, e10⟩ := scanEmitHint_dir (inp := inp) hlaw _ _ _ _ _ d bm hh
        refine ⟨e1, by rw [e2]; exact hts, by rw [e3, k2], ⟨S1, f, hf, e7, fun k' hk => ?_, ?_⟩, fun hp hq => ?_, _, _, e10, rfl, k6, k7, k5, ?_, ?_⟩
        · rw [e4] at hk; exact absurd hk (k8 k')
        · rw [e5, k9, k4, k3]; cases s.isInEndTag <;> simp
        · exact e6 hp hq
        · rw [e8, k1]
        · rw [e9, k2]
      cases f with
      | requestLexeme k =>
        simp only [scanApplyFeedback, Option.some.injEq, Signal.directive.injEq] at h
        obtain ⟨h1, h2⟩ := h
        subst h1; subst h2
        simp only [scanApplyFeedback]
        refine ⟨by first | rfl | trivial, hts, rfl, ⟨S1, _, hf, rfl, fun k' hk => ?_, by simp [mkBookmark, Feedback.isRL]⟩,
          fun hp hq => by (simp only at hq; rw [hp] at hq; simp at hq), _, _, rfl, rfl, rfl, rfl, rfl, rfl, rfl⟩
        simp only [mkBookmark, FeedbackDirective.applyUnhandled.injEq] at hk
        exact hk
      | switchTextType t =>
        simp only [scanApplyFeedback] at h ⊢
        exact hint _ _ rfl rfl rfl rfl rfl rfl rfl (by intro k; simp [scanTakeFeedbackDirective]) rfl h
      | setAllowCdata b =>
        simp only [scanApplyFeedback] at h ⊢
        exact hint _ _ rfl rfl rfl rfl rfl rfl rfl
          (by intro k; simp only [scanTakeFeedbackDirective]; split <;> simp) rfl h
      | none =>
        simp only [scanApplyFeedback] at h ⊢
        exact hint _ _ rfl rfl rfl rfl rfl rfl rfl
          (by intro k; simp only [scanTakeFeedbackDirective]; split <;> simp) rfl h

/-- scanner actions other than `finish_tag_name` never signal -/
theorem scanAct_silent (a : ActName) (ha : a ≠ .finishTagName) (c : Common) (s : ScanRegs) (x : Ctx κ) :
    (scanAct env a inp c s x).2 = none := by
  cases a <;> simp only [scanAct] <;> first | rfl | exact absurd rfl ha | (split <;> rfl)

theorem runCalls_silent (cs : List Call) (hno : hasAct .finishTagName cs = false) (m : M κ) (h : m.isScanner = true) :
    (runCalls env inp cs m).2 = none := by
  induction cs generalizing m with
  | nil => rfl
  | cons cl rest ih =>
    simp only [hasAct, List.any_cons, Bool.or_eq_false_iff, beq_eq_false_iff_ne, ne_eq] at hno
    obtain ⟨c, s, x, rfl⟩ := scanner_destruct m h
    have h1 : (act env cl.act inp (⟨c, .scanner s, x⟩ : M κ)).2 = none := scanAct_silent _ hno.1 _ _ _
    have hf := (act_frame (env := env) (inp := inp) cl.act (⟨c, .scanner s, x⟩ : M κ) rfl).1
    simp only [runCalls, h1]
    exact ih (by simpa [hasAct] using hno.2) _ hf.scan


/-! ### canonical keep lists on a scanner machine -/

theorem actsOf_nil {cs : List Call} (h : actsOf cs = []) : cs = [] := by
  cases cs <;> simp [actsOf] at h ⊢

theorem actsOf_one {cs : List Call} {a : ActName} (h : actsOf cs = [a]) : ∃ c1, cs = [c1] ∧ c1.act = a := by
  cases cs with
  | nil => simp [actsOf] at h
  | cons c1 r =>
    cases r with
    | nil => simp [actsOf] at h; exact ⟨c1, rfl, h⟩
    | cons _ _ => simp [actsOf] at h

theorem actsOf_three {cs : List Call} {a1 a2 a3 : ActName} (h : actsOf cs = [a1, a2, a3]) :
    ∃ c1 c2 c3, cs = [c1, c2, c3] ∧ c1.act = a1 ∧ c2.act = a2 ∧ c3.act = a3 := by
  match cs, h with
  | [c1, c2, c3], h => simp [actsOf] at h; exact ⟨c1, c2, c3, rfl, h.1, h.2.1, h.2.2⟩
  | [], h => simp [actsOf] at h
  | [_], h => simp [actsOf] at h
  | [_, _], h => simp [actsOf] at h
  | _ :: _ :: _ :: _ :: _, h => simp [actsOf] at h

/-- the scanner registers after a canonical keep list -/
def keepRegs (acts : List ActName) (pos : Nat) (b : UInt8) (s : ScanRegs) : ScanRegs :=
  if acts = [.updateTagNameHash] then { s with tagNameHash := NameHash.update s.tagNameHash b }
  else if acts = [.createStartTag, .startTokenPart, .updateTagNameHash] then
    { s with tagNameStart := pos, tagNameHash := NameHash.update NameHash.new b }
  else if acts = [.createEndTag, .startTokenPart, .updateTagNameHash] then
    { s with tagNameStart := pos, tagNameHash := NameHash.update NameHash.new b, isInEndTag := true }
  else s

theorem runCalls_keepS (ph : Phase) (cs : List Call) (hk : keepCallsOk ph cs = true) (c : Common) (s : ScanRegs)
    (x : Ctx κ) (b : UInt8) (hb : inp[c.pos]? = some b) :
    runCalls env inp cs (⟨c, .scanner s, x⟩ : M κ) = (⟨c, .scanner (keepRegs (actsOf cs) c.pos b s), x⟩, none) := by
  simp only [keepCallsOk, Bool.and_eq_true] at hk
  obtain ⟨_, hk⟩ := hk
  have h0 : actsOf cs = [] → runCalls env inp cs (⟨c, .scanner s, x⟩ : M κ) = (⟨c, .scanner (keepRegs (actsOf cs) c.pos b s), x⟩, none) := by
    intro h
    rw [h, actsOf_nil h]
    simp [runCalls, keepRegs]
  have h1 : actsOf cs = [.updateTagNameHash] → runCalls env inp cs (⟨c, .scanner s, x⟩ : M κ) = (⟨c, .scanner (keepRegs (actsOf cs) c.pos b s), x⟩, none) := by
    intro h
    obtain ⟨c1, rfl, e1⟩ := actsOf_one h
    rw [h]
    simp [runCalls, act, e1, scanAct, hb, keepRegs]
  have h3 : actsOf cs = [.createStartTag, .startTokenPart, .updateTagNameHash] →
      runCalls env inp cs (⟨c, .scanner s, x⟩ : M κ) = (⟨c, .scanner (keepRegs (actsOf cs) c.pos b s), x⟩, none) := by
    intro h
    obtain ⟨c1, c2, c3, rfl, e1, e2, e3⟩ := actsOf_three h
    rw [h]
    simp [runCalls, act, e1, e2, e3, scanAct, hb, keepRegs]
  have h4 : actsOf cs = [.createEndTag, .startTokenPart, .updateTagNameHash] →
      runCalls env inp cs (⟨c, .scanner s, x⟩ : M κ) = (⟨c, .scanner (keepRegs (actsOf cs) c.pos b s), x⟩, none) := by
    intro h
    obtain ⟨c1, c2, c3, rfl, e1, e2, e3⟩ := actsOf_three h
    rw [h]
    simp [runCalls, act, e1, e2, e3, scanAct, hb, keepRegs]
  cases ph <;> simp only [Bool.or_eq_true, beq_iff_eq] at hk
  · rcases hk with hk | hk
    · exact h0 hk
    · exact h3 hk
  · rcases hk with hk | hk
    · exact h0 hk
    · exact h4 hk
  · exact h1 hk


/-! ### the hand-over postcondition -/

/-- the lexer-side finishing arm: in state `sfin`, on byte `term`, a lexer whose current tag has key
`K` and whose `last_start_tag_name_hash` is `L0` runs an action list starting with `finish_tag_name` -/
def LexFin (t : Table) (sfin : StateId) (term : UInt8) (K : Bool × Nat) (L0 : Nat) : Prop :=
  ∃ A', selArm t sfin term = some A' ∧
    match A'.body with
    | .seq q => finishCalls q.calls = true
    | .ite c x y => c = .isAppropriateEndTag ∧ (K.1 = false → finishCalls (if L0 == K.2 then x else y).calls = true)

/-- everything the restarted lexer needs: the head `H` and its terminator are in the input at the
bookmark, the lexer-side path over `H` ends in `sfin` whose arm on the terminator finishes the tag
name; a pending aux-info request belongs to a start tag; an unhandled `RequestLexeme` was computed
for this very tag and the simulator state it left. -/
structure HeadDone (env : Env κ) (L : Labels) (S : SLabels) (Pend : κ → Bool) (K : Bool) (inp : Bytes) (m' : M κ) (bm : Bookmark) : Prop where
  ex : ∃ (H : Bytes) (term : UInt8) (s1' sfin : StateId),
    shapeB .name H = true ∧ (H ++ [term]) <+: inp.drop bm.pos ∧
    ltOf env.tbl (env.tbl.textState bm.textType) = some s1' ∧ absHead env.tbl s1' H.tail = some sfin ∧
    PathImg env.tbl L S s1' H.tail ∧
    LexFin env.tbl sfin term (headKey H) bm.lastStartTagNameHash ∧
    (Pend m'.x.sink = true → headKind H = K) ∧
    (∀ k, bm.fd = .applyUnhandled (.requestLexeme k) →
      ∃ sim0, feedbackOf env.cfg sim0 (headKey H) = .ok (m'.x.sim, .requestLexeme k))
  regs : ∃ s', m'.r = .scanner s' ∧ s'.tagStart = none ∧ s'.chSeqStart = none ∧ s'.isInEndTag = false

def SemPost (env : Env κ) (L : Labels) (S : SLabels) (Pend : κ → Bool) (K : Bool) (inp : Bytes) (last : Bool)
    (r : M κ × Option Signal) : Prop :=
  match r.2 with
  | none => HSem env.tbl L S inp r.1
  | some (.endOfInput n) => last = false → ∀ data, HSem env.tbl L S (inp.drop n ++ data) r.1
  | some (.directive d bm) => d = .lex ∧ HeadDone env L S Pend K inp r.1 bm
  | some (.err _) => True

theorem HSem_of_none {t : Table} {L : Labels} {S : SLabels} {inp : Bytes} {m : M κ} (h : m.ts = none) :
    HSem t L S inp m := by
  intro p ph w hp; rw [h] at hp; simp at hp

theorem break_not_dir {inp : Bytes} (m : M κ) (d : Directive) (bm : Bookmark) :
    (breakOnEndOfInput inp m).2 ≠ some (.directive d bm) := by
  unfold breakOnEndOfInput
  dsimp only
  generalize (if m.c.isLast = true then m else adjustForNextInput m) = m'
  split <;> simp

theorem break_ts_none {inp : Bytes} (m : M κ) (hs : m.isScanner = true) (h : m.ts = none) :
    (breakOnEndOfInput inp m).1.ts = none := by
  obtain ⟨c, s, x, rfl⟩ := scanner_destruct m hs
  simp only [M.ts] at h
  unfold breakOnEndOfInput
  dsimp only
  have hadj : adjustForNextInput (⟨c, .scanner s, x⟩ : M κ) = ⟨c, .scanner s, x⟩ := by
    simp [adjustForNextInput, h]
  rw [hadj]
  split <;> split <;> simp [M.ts, h]

section
variable {env : Env κ} {inp : Bytes} {Pend : κ → Bool} {K : Bool} {L : Labels} {S : SLabels}

/-- a break keeps the semantic head facts (re-based) -/
theorem break_sem (c : Common) (s : ScanRegs) (x : Ctx κ) (hpos : 1 ≤ c.nextPos)
    (hmid : HeadMid L inp (⟨c, .scanner s, x⟩ : M κ))
    (hsem : HSemMid env.tbl L S inp (⟨c, .scanner s, x⟩ : M κ))
    (hcs : s.chSeqStart = none ∨ s.chSeqStart = some c.pos) :
    SemPost env L S Pend K inp c.isLast (breakOnEndOfInput inp (⟨c, .scanner s, x⟩ : M κ)) := by
  cases hts : s.tagStart with
  | none =>
    have := break_ts_none (inp := inp) (⟨c, .scanner s, x⟩ : M κ) rfl (by simpa [M.ts] using hts)
    unfold SemPost
    split
    · exact HSem_of_none this
    · intro _ data; exact HSem_of_none this
    · rename_i d bm hd; exact absurd hd (break_not_dir _ d bm)
    · trivial
  | some p =>
    obtain ⟨ph, w, hlab, hshape, hlen, hpre⟩ := hmid p (by simp [M.ts, hts])
    simp only at hlab hlen
    have hp1 : c.pos + 1 = c.nextPos := by simp [Common.pos]; omega
    have hcons : consumedByteCount inp (⟨c, .scanner s, x⟩ : M κ) = p := by
      rcases hcs with hc | hc
      · simp [consumedByteCount, hts, hc]
      · simp [consumedByteCount, hts, hc]; omega
    rw [breakOnEndOfInput_scanner c s x _ hcons hpos (by omega)]
    simp only [SemPost]
    intro hl data
    have hadj : (if c.isLast then s else s.adjust)
        = { s with tagNameStart := alignNat s.tagNameStart p, tagStart := some 0 } := by
      simp [hl, ScanRegs.adjust, hts]
    rw [hadj]
    have hold := hsem p ph w (by simp [M.ts, hts]) hlab hshape hlen hpre
    intro p' ph' w' hp' hl' hs' hlen' hpre'
    simp only [M.ts, Option.some.injEq] at hp'
    subst hp'
    simp only at hl' hlen'
    rw [hlab] at hl'
    simp only [Option.some.injEq] at hl'
    subst hl'
    have hww : w' = w := by
      have h1 : w <+: inp.drop p ++ data := prefix_app data hpre
      simp only [List.drop_zero] at hpre'
      exact prefix_unique hpre' h1 (by omega)
    subst hww
    refine ⟨hold.path, fun hn s' hs'' => ?_⟩
    simp only [Regs.scanner.injEq] at hs''
    subst hs''
    obtain ⟨k1, k2, k3⟩ := hold.sem hn s rfl
    refine ⟨k1, k2, ?_⟩
    simp only
    have : p ≤ s.tagNameStart := by
      have hl2 : (headName w').length ≤ w'.length := by
        unfold headName; split <;> simp <;> omega
      omega
    simp only [alignNat, this, ge_iff_le, if_true]
    omega


/-! ### reading the checkers -/

theorem RelexOk_state {t : Table} {TT : TLabels} {i : StateId} {sd : StateDef} (h : RelexOk t L TT S = true)
    (hs : t.state? i = some sd) : relexStateOk t S L TT i sd = true := by
  simp only [RelexOk, Bool.and_eq_true] at h
  have := allIdx_get (k := 0) h.2 hs
  simpa using this

theorem RelexOk_len {t : Table} {TT : TLabels} (h : RelexOk t L TT S = true) : L.length ≤ t.states.length := by
  simp only [RelexOk, Bool.and_eq_true, decide_eq_true_eq] at h
  exact h.1

/-- `HeadOk` on a byte-selected arm of a `TagHead` state -/
theorem head_arm_facts {t : Table} {i : StateId} {sd : StateDef} {ph : Phase} {c : Common} {b : UInt8} {arm : Arm}
    (hok : stateOk t L i sd = true) (hl : L.at i = some ph) (hfind : findArm t c (some b) sd.arms = some arm) :
    (∀ a ∈ sd.arms, a.pat ≠ .closingQuote) ∧ sd.memchr = none ∧
    ∀ q ∈ arm.body.seqs, seqKeepOk L ph b q = true := by
  simp only [stateOk, Bool.and_eq_true] at hok
  rw [hl] at hok
  simp only [headStateOk, Bool.and_eq_true, List.all_eq_true] at hok
  obtain ⟨⟨hmem, hspecial⟩, hbytes⟩ := hok.2
  have hcq : ∀ a ∈ sd.arms, a.pat ≠ .closingQuote := by
    intro a ha hp'
    have := hspecial a ha
    simp [specialArmOk, hp'] at this
  have hbyte := hbytes b.toNat (by simpa using UInt8.toNat_lt_size b)
  simp only [byteOk, UInt8.ofNat_toNat] at hbyte
  rw [← findArm_c0 (c := c) b sd.arms hcq, hfind] at hbyte
  simp only [List.all_eq_true] at hbyte
  exact ⟨hcq, by simpa using hmem, hbyte⟩

/-- `RelexOk` on a byte-selected arm of a `TagHead` state -/
theorem relex_arm_facts {t : Table} {TT : TLabels} {i : StateId} {sd : StateDef} {ph : Phase} {c : Common} {b : UInt8}
    {arm : Arm} (hr : relexStateOk t S L TT i sd = true) (hl : L.at i = some ph)
    (hcq : ∀ a ∈ sd.arms, a.pat ≠ .closingQuote) (hfind : findArm t c (some b) sd.arms = some arm) :
    sd.enter = [] ∧ (∀ a ∈ sd.arms, a.pat.isSpecial' = true → ∀ q ∈ a.body.seqs, ∀ cl ∈ q.calls, quietAct cl.act = true) ∧
    armPair S L ph arm (selArm t (S.at i) b) = true := by
  simp only [relexStateOk, hl, headPairOk, Bool.and_eq_true, List.isEmpty_iff] at hr
  obtain ⟨⟨he, hsp⟩, hr⟩ := hr
  refine ⟨he, ?_, ?_⟩
  · intro a ha hpa q hq cl hcl
    simp only [List.all_eq_true, Bool.or_eq_true, Bool.not_eq_true'] at hsp
    rcases hsp a ha with h | h
    · rw [hpa] at h; simp at h
    · exact h q hq cl hcl
  · cases hsd' : t.state? (S.at i) with
    | none => simp [hsd'] at hr
    | some sd' =>
      simp only [hsd', Bool.and_eq_true, List.all_eq_true] at hr
      have := hr.2 b.toNat (by simpa using UInt8.toNat_lt_size b)
      simp only [UInt8.ofNat_toNat] at this
      rw [← findArm_c0 (c := c) b sd.arms hcq, hfind] at this
      simp only [selArm, hsd']
      exact this


theorem tail_snoc {w : Bytes} {b : UInt8} (h : w ≠ []) : (w ++ [b]).tail = w.tail ++ [b] := by
  cases w with
  | nil => exact absurd rfl h
  | cons x xs => rfl

theorem shape_ne_nil {ph : Phase} {w : Bytes} (h : shapeB ph w = true) : w ≠ [] := by
  intro hw; subst hw; cases ph <;> simp [shapeB] at h

theorem hasAct_acts (a : ActName) (cs : List Call) : hasAct a cs = (actsOf cs).contains a := by
  induction cs with
  | nil => rfl
  | cons c r ih =>
    have hc : (c.act == a) = (a == c.act) := by
      cases h1 : (c.act == a) <;> cases h2 : (a == c.act) <;> first | rfl | (simp at h1 h2; simp_all)
    simp only [hasAct, actsOf] at ih
    simp only [hasAct, List.any_cons, actsOf, List.map_cons, List.contains_cons, ih, hc]

/-- **a byte that stays in the tag head** -/
theorem keep_sem {ph : Phase} {c : Common} {s : ScanRegs} {x : Ctx κ} {b : UInt8} {q q' : ActSeq}
    {A' : Arm}
    (hl : L.at c.state = some ph) (hpos : 1 ≤ c.nextPos) (hb : inp[c.pos]? = some b)
    (hmid : HeadMid L inp (⟨c, .scanner s, x⟩ : M κ)) (hsem : HSemMid env.tbl L S inp (⟨c, .scanner s, x⟩ : M κ))
    (hk : tsCalls q.calls = .keep) (hkeep : seqKeepOk L ph b q = true)
    (hsel : selArm env.tbl (S.at c.state) b = some A') (hbody : A'.body = .seq q')
    (hpair : seqPair S L ph false q q' = true)
    (hend : hasAct .createStartTag q.calls = true → s.isInEndTag = false) :
    (runSeq env inp q (⟨c, .scanner s, x⟩ : M κ)).2.1 = none ∧
    HSem env.tbl L S inp (runSeq env inp q (⟨c, .scanner s, x⟩ : M κ)).1 := by
  simp only [seqPair, hk, Bool.and_eq_true, Bool.not_false, true_and, beq_iff_eq] at hpair
  obtain ⟨⟨hcalls, hkc⟩, htrans⟩ := hpair
  have hrc := runCalls_keepS (env := env) (inp := inp) ph q.calls hkc c s x b hb
  have hp1 : c.pos + 1 = c.nextPos := by simp [Common.pos]; omega
  -- the lexer-side step
  have habs : ∀ tgt', (q'.trans = none → tgt' = S.at c.state) → (∀ j', q'.trans = some (.goto j') → tgt' = j') →
      (q'.trans = none ∨ ∃ j', q'.trans = some (.goto j')) → headStep env.tbl (S.at c.state) b = some tgt' := by
    intro tgt' h1 h2 h3
    obtain ⟨pat', body'⟩ := A'
    simp only at hbody
    subst hbody
    simp only [headStep, hsel, hcalls, hk, beq_self_eq_true, if_true]
    rcases h3 with h3 | ⟨j', h3⟩
    · rw [h3]; simp [h1 h3]
    · rw [h3]; simp [h2 j' h3]
  -- the new witness
  have hwit : ∀ (st' : StateId) (m' : M κ), m'.c.state = st' → m'.c.nextPos = c.nextPos → m'.c.lastTextType = c.lastTextType →
      m'.r = .scanner (keepRegs (actsOf q.calls) c.pos b s) →
      headStep env.tbl (S.at c.state) b = some (S.at st') →
      (∀ ph', L.at st' = some ph' → stepOk ph b ph' = true ∧
        ((ph' == .name) = (hasAct .createStartTag q.calls || hasAct .createEndTag q.calls || ph == .name))) →
      HSem env.tbl L S inp m' := by
    intro st' m' e1 e2 e3 e4 e5 e6 p' ph' w' hp' hl' hs' hlen' hpre'
    have hts : s.tagStart = some p' := by
      simp only [M.ts, e4] at hp'
      simpa [keepRegs] using (by
        unfold keepRegs at hp'
        split at hp'
        · exact hp'
        · split at hp'
          · exact hp'
          · split at hp' <;> exact hp')
    obtain ⟨ph0, w, hl0, hs0, hlen0, hpre0⟩ := hmid p' (by simp [M.ts, hts])
    simp only at hl0 hlen0
    rw [hl] at hl0
    simp only [Option.some.injEq] at hl0
    subst hl0
    have hold := hsem p' ph w (by simp [M.ts, hts]) hl hs0 hlen0 hpre0
    have hsn : (w ++ [b]) <+: inp.drop p' := by
      apply prefix_snoc hpre0
      rw [List.getElem?_drop]
      have : p' + w.length = c.pos := by omega
      rw [this]; exact hb
    have hww : w' = w ++ [b] := prefix_unique hpre' hsn (by simp; omega)
    subst hww
    rw [e1] at hl'
    obtain ⟨hstep, hname⟩ := e6 ph' hl'
    refine ⟨?_, fun hn s' hs'' => ?_⟩
    · obtain ⟨s1', k1, k2, k3⟩ := hold.path
      have hnew : absHead env.tbl s1' (w ++ [b]).tail = some (S.at m'.c.state) := by
        rw [tail_snoc (shape_ne_nil hs0), absHead_snoc, k2, e1]
        exact e5
      refine ⟨s1', by rw [e3]; exact k1, hnew, ?_⟩
      rw [tail_snoc (shape_ne_nil hs0)] at hnew ⊢
      exact PathImg_snoc k3 hnew (by rw [e1]; exact lexSide_of hl')
    · subst hn
      rw [e4] at hs''
      simp only [Regs.scanner.injEq] at hs''
      subst hs''
      simp only [beq_self_eq_true] at hname
      have hacts := hkc
      simp only [keepCallsOk, Bool.and_eq_true] at hacts
      cases ph with
      | name =>
        have ha : actsOf q.calls = [.updateTagNameHash] := by simpa using hacts.2
        obtain ⟨k1, k2, k3⟩ := hold.sem rfl s rfl
        obtain ⟨n1, n2⟩ := headName_snoc (w := w) (b := b) (shape_name_len hs0)
        refine ⟨by rw [n1]; simpa [keepRegs, ha] using k1, ?_, ?_⟩
        · rw [n2, ofBytes_snoc, ← k2]; simp [keepRegs, ha]
        · rw [n2]; simp only [keepRegs, ha, if_true, List.length_append, List.length_singleton]; omega
      | lt =>
        have hw := shape_lt hs0
        subst hw
        have hcr : hasAct .createStartTag q.calls = true ∨ hasAct .createEndTag q.calls = true := by
          simpa using hname.symm
        have ha : actsOf q.calls = [.createStartTag, .startTokenPart, .updateTagNameHash] := by
          have h2 := hacts.2
          simp only [Bool.or_eq_true, beq_iff_eq] at h2
          rcases h2 with h2 | h2
          · rw [hasAct_acts, hasAct_acts, h2] at hcr; simp at hcr
          · exact h2
        have halpha : isAsciiAlpha b = true := by simpa [stepOk] using hstep
        have hb47 : b ≠ 47 := by intro h; subst h; simp [isAsciiAlpha] at halpha
        have hie := hend (by rw [hasAct_acts, ha]; simp)
        refine ⟨?_, ?_, ?_⟩
        · simp [keepRegs, ha, headKind, hb47, hie]
        · simp [keepRegs, ha, headName, hb47, NameHash.ofBytes]
        · simp only [keepRegs, ha, headName]
          simp [hb47]
          simp only [List.length_singleton] at hlen0
          omega
      | slash =>
        have hw := shape_slash hs0
        subst hw
        have hcr : hasAct .createStartTag q.calls = true ∨ hasAct .createEndTag q.calls = true := by
          simpa using hname.symm
        have ha : actsOf q.calls = [.createEndTag, .startTokenPart, .updateTagNameHash] := by
          have h2 := hacts.2
          simp only [Bool.or_eq_true, beq_iff_eq] at h2
          rcases h2 with h2 | h2
          · rw [hasAct_acts, hasAct_acts, h2] at hcr; simp at hcr
          · exact h2
        refine ⟨?_, ?_, ?_⟩
        · simp [keepRegs, ha, headKind]
        · simp [keepRegs, ha, headName, NameHash.ofBytes]
        · simp only [keepRegs, ha, headName]
          simp
          simp only [List.length_cons, List.length_nil] at hlen0
          omega
  unfold seqKeepOk at hkeep
  simp only [hk] at hkeep
  unfold runSeq
  rw [hrc]
  dsimp only
  cases htr : q.trans with
  | none =>
    simp only [htr] at hkeep htrans ⊢
    cases htr' : q'.trans with
    | some t' => simp [htr'] at htrans
    | none =>
      refine ⟨by first | rfl | trivial, hwit c.state _ rfl rfl rfl rfl (habs _ (fun _ => rfl) (fun j' h => by simp [htr'] at h) (Or.inl htr')) ?_⟩
      intro ph' hl'
      rw [hl] at hl'
      simp only [Option.some.injEq] at hl'
      subst hl'
      refine ⟨hkeep, ?_⟩
      have hacts := hkc
      simp only [keepCallsOk, Bool.and_eq_true] at hacts
      -- staying in place: no tag is created unless we already are in the name
      cases ph <;> simp only [stepOk, Bool.false_eq_true] at hkeep
      simp [hasAct_acts, (by simpa using hacts.2 : actsOf q.calls = [.updateTagNameHash])]
  | some tr =>
    cases tr with
    | goto j =>
      simp only [htr] at hkeep htrans ⊢
      cases htr' : q'.trans with
      | none => simp [htr'] at htrans
      | some t' =>
        cases t' with
        | goto j' =>
          simp only [htr', Bool.and_eq_true, beq_iff_eq] at htrans
          obtain ⟨hS, hL⟩ := htrans
          simp only [applyTrans]
          refine ⟨by first | rfl | trivial, hwit j _ rfl rfl rfl rfl (habs _ (fun h => by simp [htr'] at h)
            (fun j'' h => by simp only [htr', Option.some.injEq, Trans.goto.injEq] at h; rw [← h, hS]) (Or.inr ⟨j', htr'⟩)) ?_⟩
          intro ph' hl'
          rw [hl'] at hkeep hL
          simp only at hkeep hL
          exact ⟨hkeep, by simpa using hL⟩
        | gotoDyn => simp [htr'] at htrans
        | reconsume _ => simp [htr'] at htrans
    | gotoDyn => simp [htr] at hkeep
    | reconsume _ => simp [htr] at hkeep


theorem finishCalls_cases {cs : List Call} (h : finishCalls cs = true) :
    cs = [⟨.finishTagName, true⟩] ∨ cs = [⟨.finishTagName, true⟩, ⟨.emitTag, true⟩] := by
  simpa [finishCalls] using h

/-- a directive out of a finishing list comes from `finish_tag_name` on the machine the list started with -/
theorem finish_runSeq_dir {q : ActSeq} (hf : finishCalls q.calls = true) (c : Common) (s : ScanRegs) (x : Ctx κ)
    (d : Directive) (bm : Bookmark) (h : (runSeq env inp q (⟨c, .scanner s, x⟩ : M κ)).2.1 = some (.directive d bm)) :
    (scanFinishTagName env inp c s x).2 = some (.directive d bm) ∧
    (runSeq env inp q (⟨c, .scanner s, x⟩ : M κ)).1 = (scanFinishTagName env inp c s x).1 := by
  have hemit : ∀ m : M κ, m.isScanner = true → (act env .emitTag inp m).2 = none := by
    intro m hm
    obtain ⟨c', s', x', rfl⟩ := scanner_destruct m hm
    rfl
  have htrans : ∀ (t : Trans) (m : M κ), (applyTrans env t m).2 ≠ some (.directive d bm) := by
    intro t m
    cases t <;> simp only [applyTrans]
    · simp
    · simp
    · split <;> simp
  have hsc := (scanAct_frame (env := env) (inp := inp) .finishTagName c s x).1.scan
  obtain ⟨rest, hc, hrest⟩ : ∃ rest, q.calls = ⟨.finishTagName, true⟩ :: rest ∧ hasAct .finishTagName rest = false := by
    rcases finishCalls_cases hf with h' | h'
    · exact ⟨_, h', rfl⟩
    · exact ⟨_, h', rfl⟩
  have hact : act env .finishTagName inp (⟨c, .scanner s, x⟩ : M κ) = scanFinishTagName env inp c s x := rfl
  unfold runSeq at h ⊢
  rw [hc, runCalls_cons_q _ _ _ rfl, hact] at h ⊢
  cases hs : (scanFinishTagName env inp c s x).2 with
  | some sig =>
    simp only [hs] at h ⊢
    exact ⟨by simpa using h, by first | rfl | trivial⟩
  | none =>
    simp only [hs] at h
    exfalso
    have hsil := runCalls_silent (env := env) (inp := inp) rest hrest (scanFinishTagName env inp c s x).1 hsc
    simp only [hsil] at h
    cases htr : q.trans with
    | none => simp [htr] at h
    | some t => simp only [htr] at h; exact htrans t _ h

/-- **the hand-over** -/
theorem finish_sem (hlaw : PendLaw env.ops Pend K) {ph : Phase} {c : Common} {s : ScanRegs} {x : Ctx κ} {b : UInt8}
    {q : ActSeq} (hl : L.at c.state = some ph) (hname : ph = .name) (hpos : 1 ≤ c.nextPos) (hb : inp[c.pos]? = some b)
    (hmid : HeadMid L inp (⟨c, .scanner s, x⟩ : M κ)) (hsem : HSemMid env.tbl L S inp (⟨c, .scanner s, x⟩ : M κ))
    (hpend : Pend x.sink = false) (hcs : s.chSeqStart = none)
    (hf : finishCalls q.calls = true)
    (hfin : ∀ K L0, K = (!s.isInEndTag, s.tagNameHash) → (K.1 = false → L0 = c.lastStartTagNameHash) →
      LexFin env.tbl (S.at c.state) b K L0)
    (d : Directive) (bm : Bookmark)
    (h : (runSeq env inp q (⟨c, .scanner s, x⟩ : M κ)).2.1 = some (.directive d bm)) :
    d = .lex ∧ HeadDone env L S Pend K inp (runSeq env inp q (⟨c, .scanner s, x⟩ : M κ)).1 bm := by
  obtain ⟨h1, h2⟩ := finish_runSeq_dir hf c s x d bm h
  rw [h2]
  refine ⟨(scanFinishTagName_dir (inp := inp) hlaw c s x d bm h1).1, ?_⟩
  obtain ⟨hd, ⟨f1, f2, ⟨S1, f, f3, f4, f5, f6⟩, f7, ⟨c', s', f8, f9, f10, f11, f12, f13, f14⟩⟩⟩ :=
    scanFinishTagName_dir (inp := inp) hlaw c s x d bm h1
  subst hname
  obtain ⟨ph0, w, hl0, hs0, hlen0, hpre0⟩ := hmid bm.pos (by simp [M.ts, f1])
  simp only at hl0 hlen0
  rw [hl] at hl0
  simp only [Option.some.injEq] at hl0
  subst hl0
  have hold := hsem bm.pos .name w (by simp [M.ts, f1]) hl hs0 hlen0 hpre0
  obtain ⟨k1, k2, k3⟩ := hold.sem rfl s rfl
  obtain ⟨s1', p1, p2, p3⟩ := hold.path
  have hp1 : c.pos + 1 = c.nextPos := by simp [Common.pos]; omega
  have hsn : (w ++ [b]) <+: inp.drop bm.pos := by
    apply prefix_snoc hpre0
    rw [List.getElem?_drop]
    have : bm.pos + w.length = c.pos := by omega
    rw [this]; exact hb
  have hkey : headKey w = (!s.isInEndTag, s.tagNameHash) := by
    simp only [headKey, k2]
    rw [k1]; simp
  refine ⟨⟨w, b, s1', S.at c.state, hs0, hsn, by rw [f2]; exact p1, p2, p3, ?_, ?_, ?_⟩, ⟨s', f8, f10, by rw [f12]; exact hcs, f11⟩⟩
  · apply hfin _ _ hkey
    intro hk
    rw [f6]
    have : (!s.isInEndTag) = false := by rw [hkey] at hk; exact hk
    simp [this]
  · intro hp
    have := f7 hpend hp
    simp only [headKind] at k1 ⊢
    rw [this] at k1
    simpa using k1.symm
  · intro k hk
    have := f5 k hk
    subst this
    exact ⟨x.sim, by rw [hkey, f4]; exact f3⟩


theorem runSeq_sig_silent {q : ActSeq} (hno : hasAct .finishTagName q.calls = false) (m : M κ) (hm : m.isScanner = true) :
    (runSeq env inp q m).2.1 = none ∨ ∃ e, (runSeq env inp q m).2.1 = some (.err e) := by
  have hs := runCalls_silent (env := env) (inp := inp) q.calls hno m hm
  unfold runSeq
  simp only [hs]
  cases q.trans with
  | none => exact Or.inl rfl
  | some t =>
    cases t <;> simp only [applyTrans]
    · exact Or.inl (by first | rfl | trivial)
    · exact Or.inl (by first | rfl | trivial)
    · split
      · exact Or.inr ⟨_, rfl⟩
      · exact Or.inl (by first | rfl | trivial)

theorem SemPost_of_err {last : Bool} {r : M κ × Option Signal} {e : Err} (h : r.2 = some (.err e)) :
    SemPost env L S Pend K inp last r := by
  unfold SemPost; rw [h]; trivial

variable {TT : TLabels} {P : PLabels}

/-- `mark_tag_start` outside the tag head -/
theorem mark_sem (hlaw : PendLaw env.ops Pend K) {sd : StateDef} {c : Common} {s : ScanRegs} {x : Ctx κ} {arm : Arm} {q : ActSeq}
    (hok : stateOk env.tbl L c.state sd = true) (hl : L.at c.state = none)
    (hrel : relexStateOk env.tbl S L TT c.state sd = true) (harm : arm ∈ sd.arms) (hq : q ∈ arm.body.seqs)
    (hpos : 1 ≤ c.nextPos)
    (hlab : LabMid Pend (TT.at c.state) (P.at c.state) (⟨c, .scanner s, x⟩ : M κ))
    (hseqP : seqOkP env.tbl P c.state q = true)
    (hk : tsCalls q.calls = .mark)
    (hnone : (runSeq env inp q (⟨c, .scanner s, x⟩ : M κ)).2.1 = none) :
    HSem env.tbl L S inp (runSeq env inp q (⟨c, .scanner s, x⟩ : M κ)).1 := by
  -- the two checkers on this list
  simp only [relexStateOk, hl, markStateOk, Bool.and_eq_true, List.all_eq_true] at hrel
  have hm := (hrel.2 arm harm q hq).2
  simp only [hk, bne_self_eq_false, Bool.false_or] at hm
  simp only [stateOk, hl, Bool.and_eq_true, plainStateOk, List.all_eq_true] at hok
  have hm2 := hok.2 arm harm q hq
  simp only [markSeqOk, hk, bne_self_eq_false, Bool.false_or, Bool.and_eq_true] at hm2
  obtain ⟨s1, s2, s3, s4, s5⟩ := runSeq_spec (env := env) (inp := inp) q (⟨c, .scanner s, x⟩ : M κ) rfl
  obtain ⟨hts, _, _, hgoto⟩ := s5 hnone
  -- decode the match of `markStateOk`
  cases hb : arm.body with
  | ite _ _ _ => simp [hb] at hm
  | seq q0 =>
    cases htr : q.trans with
    | none => simp [hb, htr] at hm
    | some tr =>
      cases tr with
      | gotoDyn => simp [hb, htr] at hm
      | reconsume _ => simp [hb, htr] at hm
      | goto j =>
        cases htt : TT.at c.state with
        | none => simp [hb, htr, htt] at hm
        | some tt =>
          simp only [hb, htr, htt, Bool.and_eq_true, beq_iff_eq] at hm
          obtain ⟨hlt, httc⟩ := hm
          simp only [htr, beq_iff_eq] at hm2
          obtain ⟨hstate, hnp⟩ := hgoto j htr
          -- the text type after the list
          have hlt' : (runSeq env inp q (⟨c, .scanner s, x⟩ : M κ)).1.c.lastTextType = tt := by
            simp only [seqOkP, Bool.and_eq_true] at hseqP
            obtain ⟨hcq, hpp⟩ := hseqP
            cases hph : phCalls q.calls (P.at c.state) with
            | none => simp [hph] at hpp
            | some ab' =>
              unfold runSeq at hnone ⊢
              cases hrs : (runCalls env inp q.calls (⟨c, .scanner s, x⟩ : M κ)).2 with
              | some sig => simp [hrs] at hnone
              | none =>
                have := runCalls_lab (inp := inp) hlaw q.calls _ _ _ hph hcq _ hlab hrs
                simp only [hrs, htr, applyTrans]
                exact this.tt tt (by rw [htt]; exact httc)
          intro p' ph' w' hp' hl' hs' hlen' hpre'
          rw [hstate] at hl'
          rw [hm2.2] at hl'
          simp only [Option.some.injEq] at hl'
          subst hl'
          have hw := shape_lt hs'
          subst hw
          refine ⟨⟨S.at j, by rw [hlt']; exact hlt, by rw [hstate]; rfl, ?_⟩, fun hn => by cases hn⟩
          intro k hk
          simp only [List.tail_cons, List.length_nil, Nat.le_zero_eq] at hk
          subst hk
          exact ⟨S.at j, rfl, lexSide_of hm2.2⟩

/-- **an arm selected by a byte** -/
theorem normal_sem (hlaw : PendLaw env.ops Pend K) {sd : StateDef} {m : M κ} {arm : Arm} {b : UInt8}
    (h : Disp0 env.tbl L inp sd (some b) m) (hcs : m.cs = none)
    (hlab : LabMid Pend (TT.at m.c.state) (P.at m.c.state) m) (hsem : HSemMid env.tbl L S inp m)
    (hrel : relexStateOk env.tbl S L TT m.c.state sd = true)
    (hbodyP : bodyOkP env.tbl P m.c.state arm.body = true)
    (hfind : findArm env.tbl m.c (some b) sd.arms = some arm) :
    SemPost env L S Pend K inp m.c.isLast ((runBody env inp arm.body m).1, (runBody env inp arm.body m).2.1) := by
  obtain ⟨harm, hmatch⟩ := findArm_sel hfind
  obtain ⟨c, s, x, rfl⟩ := scanner_destruct m h.scan
  have hb : inp[c.pos]? = some b := h.chSome b rfl
  have hscs : s.chSeqStart = none := by simpa [M.cs] using hcs
  -- what to do with a list that does not finish the tag name and does not keep the head
  have hplain : ∀ q, q ∈ arm.body.seqs → hasAct .finishTagName q.calls = false →
      (tsCalls q.calls).apply c.pos s.tagStart = none →
      SemPost env L S Pend K inp c.isLast ((runSeq env inp q (⟨c, .scanner s, x⟩ : M κ)).1,
        (runSeq env inp q (⟨c, .scanner s, x⟩ : M κ)).2.1) := by
    intro q hq hno hts
    rcases runSeq_sig_silent (env := env) (inp := inp) hno (⟨c, .scanner s, x⟩ : M κ) rfl with hn | ⟨e, he⟩
    · simp only [SemPost, hn]
      obtain ⟨_, _, _, _, s5⟩ := runSeq_spec (env := env) (inp := inp) q (⟨c, .scanner s, x⟩ : M κ) rfl
      exact HSem_of_none (by rw [(s5 hn).1]; exact hts)
    · exact SemPost_of_err he
  cases hl : L.at c.state with
  | none =>
    -- outside the tag head: `tag_start` is not set
    have hts0 : s.tagStart = none := by
      cases hm : s.tagStart with
      | none => rfl
      | some p' =>
        obtain ⟨ph, _, hl', _⟩ := h.head p' (by simp [M.ts, hm])
        simp only at hl'; rw [hl] at hl'; simp at hl'
    obtain ⟨q, hq, hrun⟩ := runBody_seq (env := env) (inp := inp) arm.body (⟨c, .scanner s, x⟩ : M κ) rfl
    rw [hrun]
    have hrel' := hrel
    simp only [relexStateOk, hl, markStateOk, Bool.and_eq_true, List.all_eq_true] at hrel'
    have hno : hasAct .finishTagName q.calls = false := by simpa using (hrel'.2 arm harm q hq).1
    cases hk : tsCalls q.calls with
    | keep => exact hplain q hq hno (by rw [hk, hts0]; rfl)
    | clear => exact hplain q hq hno (by rw [hk]; rfl)
    | mark =>
      rcases runSeq_sig_silent (env := env) (inp := inp) hno (⟨c, .scanner s, x⟩ : M κ) rfl with hn | ⟨e, he⟩
      · simp only [SemPost, hn]
        exact mark_sem hlaw h.ok hl hrel harm hq h.pos hlab (bodyOkP_seq hbodyP hq) hk hn
      · exact SemPost_of_err he
  | some ph =>
    obtain ⟨hcq, hmem, hkeepall⟩ := head_arm_facts (c := c) h.ok hl hfind
    obtain ⟨_, _, hpair⟩ := relex_arm_facts (c := c) hrel hl hcq hfind
    -- `create_start_tag` only where `is_in_end_tag` is clear
    have hendq : ∀ q, q ∈ arm.body.seqs → hasAct .createStartTag q.calls = true →
        keepCallsOk ph q.calls = true → s.isInEndTag = false := by
      intro q hq hcr hkc
      have hsq := bodyOkP_seq hbodyP hq
      simp only [seqOkP, Bool.and_eq_true] at hsq
      have hacts : actsOf q.calls = [.createStartTag, .startTokenPart, .updateTagNameHash] := by
        simp only [keepCallsOk, Bool.and_eq_true] at hkc
        rw [hasAct_acts] at hcr
        cases ph <;> simp only [Bool.or_eq_true, beq_iff_eq] at hkc
        · rcases hkc.2 with h' | h'
          · rw [h'] at hcr; simp at hcr
          · exact h'
        · rcases hkc.2 with h' | h'
          · rw [h'] at hcr; simp at hcr
          · rw [h'] at hcr; simp at hcr
        · rw [hkc.2] at hcr; simp at hcr
      obtain ⟨c1, c2, c3, hcs3, e1, e2, e3⟩ := actsOf_three hacts
      have hP : P.at c.state = .outClean := by
        have := hsq.2
        rw [hcs3] at this
        simp only [phCalls, e1] at this
        cases hP : P.at c.state <;> simp [hP, phAct] at this ⊢
      have := hlab.endc (Or.inl hP)
      simpa [M.iet] using this
    -- the three kinds of list
    have hcase : ∀ q, q ∈ arm.body.seqs →
        (∀ A' q', selArm env.tbl (S.at c.state) b = some A' → A'.body = .seq q' → seqPair S L ph false q q' = true →
          tsCalls q.calls = .keep →
          SemPost env L S Pend K inp c.isLast ((runSeq env inp q (⟨c, .scanner s, x⟩ : M κ)).1,
            (runSeq env inp q (⟨c, .scanner s, x⟩ : M κ)).2.1)) := by
      intro q hq A' q' hsel hbody hsp hk
      have hkc : keepCallsOk ph q.calls = true := by
        simp only [seqPair, hk, Bool.and_eq_true] at hsp
        exact hsp.1.2
      obtain ⟨k1, k2⟩ := keep_sem (inp := inp) hl h.pos hb h.head hsem hk (hkeepall q hq) hsel hbody hsp
        (fun hcr => hendq q hq hcr hkc)
      simp only [SemPost, k1]
      exact k2
    have hfinish : ∀ q, q ∈ arm.body.seqs → hasAct .finishTagName q.calls = true → tsCalls q.calls = .clear →
        finishCalls q.calls = true → ph = .name →
        (∀ K L0, K = (!s.isInEndTag, s.tagNameHash) → (K.1 = false → L0 = c.lastStartTagNameHash) →
          LexFin env.tbl (S.at c.state) b K L0) →
        SemPost env L S Pend K inp c.isLast ((runSeq env inp q (⟨c, .scanner s, x⟩ : M κ)).1,
          (runSeq env inp q (⟨c, .scanner s, x⟩ : M κ)).2.1) := by
      intro q hq hfi hk hfc hname hfin
      cases hsig : (runSeq env inp q (⟨c, .scanner s, x⟩ : M κ)).2.1 with
      | none =>
        simp only [SemPost, hsig]
        obtain ⟨_, _, _, _, s5⟩ := runSeq_spec (env := env) (inp := inp) q (⟨c, .scanner s, x⟩ : M κ) rfl
        exact HSem_of_none (by rw [(s5 hsig).1, hk]; rfl)
      | some sig =>
        cases sig with
        | err e => exact SemPost_of_err rfl
        | endOfInput n =>
          obtain ⟨_, _, _, s4, _⟩ := runSeq_spec (env := env) (inp := inp) q (⟨c, .scanner s, x⟩ : M κ) rfl
          rw [hsig] at s4; simp [Signal.isEnd] at s4
        | directive d bm =>
          simp only [SemPost, hsig]
          exact finish_sem hlaw hl hname h.pos hb h.head hsem hlab.pend hscs hfc hfin d bm hsig
    -- now by the shape of the body
    unfold armPair at hpair
    cases hbody : arm.body with
    | seq q =>
      simp only [runBody]
      have hq : q ∈ arm.body.seqs := by simp [hbody, Body.seqs]
      have hkq := hkeepall q hq
      cases hk : tsCalls q.calls with
      | mark => simp [seqKeepOk, hk] at hkq
      | keep =>
        simp only [hbody, Body.seqs, List.all_cons, List.all_nil, Bool.and_true, hk] at hpair
        simp only [show (TSK.keep == TSK.clear) = false from rfl, Bool.false_and, Bool.false_eq_true, if_false] at hpair
        cases hA : selArm env.tbl (S.at c.state) b with
        | none => simp [hA] at hpair
        | some A' =>
          simp only [hA] at hpair
          cases hB : A'.body with
          | ite _ _ _ => simp [hB] at hpair
          | seq q' =>
            simp only [hB] at hpair
            exact hcase q hq A' q' hA hB hpair hk
      | clear =>
        by_cases hfi : hasAct .finishTagName q.calls = true
        · simp only [hbody, Body.seqs, List.all_cons, List.all_nil, Bool.and_true, hk, hfi] at hpair
          simp only [Bool.not_true, Bool.and_false, Bool.false_eq_true, if_false] at hpair
          cases hA : selArm env.tbl (S.at c.state) b with
          | none => simp [hA] at hpair
          | some A' =>
            simp only [hA] at hpair
            cases hB : A'.body with
            | ite _ _ _ => simp [hB] at hpair
            | seq q' =>
              simp only [hB, seqPair, hk, hfi, if_true, Bool.and_eq_true, beq_iff_eq] at hpair
              obtain ⟨⟨⟨hname, hfc⟩, hcalls⟩, _⟩ := hpair
              exact hfinish q hq hfi hk hfc hname (fun K L0 _ _ => ⟨A', hA, by rw [hB]; simp only; rw [hcalls]; exact hfc⟩)
        · have hno : hasAct .finishTagName q.calls = false := by simpa using hfi
          exact hplain q hq hno (by rw [hk]; rfl)
    | ite cnd xq yq =>
      have hx : xq ∈ arm.body.seqs := by simp [hbody, Body.seqs]
      have hy : yq ∈ arm.body.seqs := by simp [hbody, Body.seqs]
      -- no list of a conditional arm keeps the head
      have hnokeep : ∀ q, q ∈ arm.body.seqs → tsCalls q.calls ≠ .keep := by
        intro q hq hk
        have hall : (arm.body.seqs.all fun q => tsCalls q.calls == .clear && !hasAct .finishTagName q.calls) = false := by
          apply Bool.eq_false_iff.mpr
          intro hh
          simp only [List.all_eq_true, Bool.and_eq_true, beq_iff_eq] at hh
          have := (hh q hq).1
          rw [hk] at this; cases this
        simp only [hall, Bool.false_eq_true, if_false] at hpair
        cases hA : selArm env.tbl (S.at c.state) b with
        | none => simp [hA] at hpair
        | some A' =>
          simp only [hA, hbody] at hpair
          cases hB : A'.body with
          | seq _ => simp [hB] at hpair
          | ite c' x' y' =>
            simp only [hB, Bool.and_eq_true] at hpair
            simp only [hbody, Body.seqs, List.mem_cons, List.mem_singleton, List.not_mem_nil, or_false] at hq
            rcases hq with rfl | rfl
            · have := hpair.1.2; simp [seqPair, hk] at this
            · have := hpair.2; simp [seqPair, hk] at this
      -- the branch taken
      obtain ⟨bv, hbv⟩ := cond_scanner cnd (⟨c, .scanner s, x⟩ : M κ) rfl
      have hrun : runBody env inp (.ite cnd xq yq) (⟨c, .scanner s, x⟩ : M κ) =
          runSeq env inp (if bv then xq else yq) (⟨c, .scanner s, x⟩ : M κ) := by
        cases bv <;> simp [runBody, hbv]
      rw [hrun]
      have hqsel : (if bv then xq else yq) ∈ arm.body.seqs := by cases bv <;> simp [hx, hy]
      have hkq := hkeepall _ hqsel
      cases hk : tsCalls (if bv then xq else yq).calls with
      | mark => simp [seqKeepOk, hk] at hkq
      | keep => exact absurd hk (hnokeep _ hqsel)
      | clear =>
        by_cases hfi : hasAct .finishTagName (if bv then xq else yq).calls = true
        · have hall : (arm.body.seqs.all fun q => tsCalls q.calls == .clear && !hasAct .finishTagName q.calls) = false := by
            apply Bool.eq_false_iff.mpr
            intro hh
            simp only [List.all_eq_true, Bool.and_eq_true, beq_iff_eq, Bool.not_eq_true'] at hh
            have := (hh _ hqsel).2
            rw [hfi] at this; cases this
          simp only [hall, Bool.false_eq_true, if_false] at hpair
          cases hA : selArm env.tbl (S.at c.state) b with
          | none => simp [hA] at hpair
          | some A' =>
            simp only [hA, hbody] at hpair
            cases hB : A'.body with
            | seq _ => simp [hB] at hpair
            | ite c' x' y' =>
              simp only [hB, Bool.and_eq_true, beq_iff_eq] at hpair
              obtain ⟨⟨⟨hc1, hc2⟩, hpx⟩, hpy⟩ := hpair
              -- the pair of the branch taken
              have hsel : seqPair S L ph true (if bv then xq else yq) (if bv then x' else y') = true := by
                cases bv <;> simp [hpx, hpy]
              simp only [seqPair, hk, hfi, if_true, Bool.and_eq_true, beq_iff_eq] at hsel
              obtain ⟨⟨⟨hname, hfc⟩, hcalls⟩, _⟩ := hsel
              -- the scanner's condition
              have hbv' : bv = (s.tagNameHash == c.lastStartTagNameHash) := by
                subst hc1
                simp only [cond, Option.some.injEq] at hbv
                exact hbv.symm
              refine hfinish _ hqsel hfi hk hfc hname (fun K L0 hK hL0 => ⟨A', hA, ?_⟩)
              rw [hB]
              refine ⟨hc2, fun hK1 => ?_⟩
              have hL := hL0 hK1
              have hsame : (L0 == K.2) = bv := by
                rw [hbv', hL, hK]
                simp only
                cases h1 : (c.lastStartTagNameHash == s.tagNameHash) <;> cases h2 : (s.tagNameHash == c.lastStartTagNameHash) <;>
                  first | rfl | (simp at h1 h2; simp_all)
              rw [hsame]
              have : (if bv = true then x' else y').calls = (if bv = true then xq else yq).calls := hcalls
              rw [this]; exact hfc
        · have hno : hasAct .finishTagName (if bv then xq else yq).calls = false := by simpa using hfi
          exact hplain _ hqsel hno (by rw [hk]; rfl)


/-! ### what the head facts depend on -/

/-- the registers the head facts depend on -/
def semKey (m : M κ) : StateId × Nat × TextType × Option Nat × Bool × Nat × Nat :=
  (m.c.state, m.c.nextPos, m.c.lastTextType, m.ts,
   match m.r with
   | .scanner s => (s.isInEndTag, s.tagNameHash, s.tagNameStart)
   | .lexer _ => (false, 0, 0))

theorem HeadMid_congr {m m' : M κ} (h : HeadMid L inp m) (hk : semKey m' = semKey m) : HeadMid L inp m' := by
  simp only [semKey, Prod.mk.injEq] at hk
  obtain ⟨k1, k2, k3, k4, k5⟩ := hk
  intro p hp
  rw [k4] at hp
  obtain ⟨ph, w, a1, a2, a3, a4⟩ := h p hp
  exact ⟨ph, w, by rw [k1]; exact a1, a2, by rw [k2]; exact a3, a4⟩

theorem HSemMid_congr {m m' : M κ} (hs : m.isScanner = true) (hs' : m'.isScanner = true)
    (h : HSemMid env.tbl L S inp m) (hk : semKey m' = semKey m) : HSemMid env.tbl L S inp m' := by
  obtain ⟨c, s, x, rfl⟩ := scanner_destruct m hs
  obtain ⟨c', s', x', rfl⟩ := scanner_destruct m' hs'
  simp only [semKey, Prod.mk.injEq, M.ts] at hk
  obtain ⟨k1, k2, k3, k4, k5, k6, k7⟩ := hk
  intro p ph w hp hl hsh hlen hpre
  simp only [M.ts] at hp
  simp only at hl hlen
  have := h p ph w (by simp only [M.ts]; rw [← k4]; exact hp) (by simp only; rw [← k1]; exact hl) hsh
    (by simp only; rw [← k2]; exact hlen) hpre
  obtain ⟨⟨s1', p1, p2, p3⟩, hsem⟩ := this
  refine ⟨⟨s1', by simp only at p1 ⊢; rw [k3]; exact p1, by simp only at p2 ⊢; rw [k1]; exact p2, p3⟩, fun hn s0 hs0 => ?_⟩
  simp only [Regs.scanner.injEq] at hs0
  subst hs0
  obtain ⟨a1, a2, a3⟩ := hsem hn s rfl
  exact ⟨by rw [k5]; exact a1, by rw [k6]; exact a2, by rw [k7]; exact a3⟩

/-- quiet actions keep everything the head facts depend on, except possibly `tag_start` -/
theorem scanAct_quiet (a : ActName) (ha : quietAct a = true) (c : Common) (s : ScanRegs) (x : Ctx κ) :
    ∃ s', scanAct env a inp c s x = (⟨{ c with closingQuote := (scanAct env a inp c s x).1.c.closingQuote }, .scanner s', x⟩, none) ∧
      s'.isInEndTag = s.isInEndTag ∧ s'.tagNameHash = s.tagNameHash ∧ s'.tagNameStart = s.tagNameStart := by
  cases a <;> simp only [quietAct, Bool.false_eq_true] at ha <;> simp only [scanAct] <;> exact ⟨_, rfl, rfl, rfl, rfl⟩

theorem runCalls_quiet (cs : List Call) (hq : ∀ cl ∈ cs, quietAct cl.act = true) (m : M κ) (hm : m.isScanner = true) :
    (runCalls env inp cs m).2 = none ∧
    (semKey (runCalls env inp cs m).1).1 = (semKey m).1 ∧ (semKey (runCalls env inp cs m).1).2.1 = (semKey m).2.1 ∧
    (semKey (runCalls env inp cs m).1).2.2.1 = (semKey m).2.2.1 ∧
    (semKey (runCalls env inp cs m).1).2.2.2.2 = (semKey m).2.2.2.2 ∧
    (runCalls env inp cs m).1.x = m.x := by
  induction cs generalizing m with
  | nil => exact ⟨rfl, rfl, rfl, rfl, rfl, rfl⟩
  | cons cl rest ih =>
    obtain ⟨c, s, x, rfl⟩ := scanner_destruct m hm
    obtain ⟨s', h1, h2, h3, h4⟩ := scanAct_quiet (env := env) (inp := inp) cl.act (hq cl (by simp)) c s x
    have hact : act env cl.act inp (⟨c, .scanner s, x⟩ : M κ) = scanAct env cl.act inp c s x := rfl
    simp only [runCalls, hact]
    rw [h1]
    dsimp only
    obtain ⟨i1, i2, i3, i4, i5, i6⟩ := ih (fun cl' h' => hq cl' (by simp [h']))
      (⟨{ c with closingQuote := (scanAct env cl.act inp c s x).1.c.closingQuote }, .scanner s', x⟩ : M κ) rfl
    refine ⟨i1, ?_, ?_, ?_, ?_, i6⟩
    · rw [i2]; rfl
    · rw [i3]; rfl
    · rw [i4]; rfl
    · rw [i5]; simp [semKey, h2, h3, h4]


/-! ### arms not selected by a byte, breaks -/

theorem break_sem_none (m : M κ) (hs : m.isScanner = true) (h : m.ts = none) :
    SemPost env L S Pend K inp m.c.isLast (breakOnEndOfInput inp m) := by
  have := break_ts_none (inp := inp) m hs h
  unfold SemPost
  split
  · exact HSem_of_none this
  · intro _ data; exact HSem_of_none this
  · rename_i d bm hd; exact absurd hd (break_not_dir _ d bm)
  · trivial

theorem quiet_no_finish {cs : List Call} (hq : ∀ cl ∈ cs, quietAct cl.act = true) : hasAct .finishTagName cs = false := by
  simp only [hasAct, List.any_eq_false, beq_iff_eq]
  intro cl hcl h
  have := hq cl hcl
  rw [h] at this
  simp [quietAct] at this

/-- a list without `finish_tag_name` after which `tag_start` is clear -/
theorem silent_none_sem {q : ActSeq} (hno : hasAct .finishTagName q.calls = false) (m : M κ) (hm : m.isScanner = true)
    (hts : (tsCalls q.calls).apply m.c.pos m.ts = none) :
    SemPost env L S Pend K inp m.c.isLast ((runSeq env inp q m).1, (runSeq env inp q m).2.1) ∧
    SemPost env L S Pend K inp m.c.isLast (finishArm inp (runSeq env inp q m)) := by
  obtain ⟨s1, _, s3, _, s5⟩ := runSeq_spec (env := env) (inp := inp) q m hm
  rcases runSeq_sig_silent (env := env) (inp := inp) hno m hm with hn | ⟨e, he⟩
  · have htn : (runSeq env inp q m).1.ts = none := by rw [(s5 hn).1]; exact hts
    refine ⟨by simp only [SemPost, hn]; exact HSem_of_none htn, ?_⟩
    unfold finishArm
    rw [hn]
    cases (runSeq env inp q m).2.2 with
    | transitioned => simp only [SemPost]; exact HSem_of_none htn
    | fell =>
      dsimp only
      rw [← s3]
      exact break_sem_none _ s1 htn
  · refine ⟨SemPost_of_err he, ?_⟩
    unfold finishArm
    rw [he]
    exact SemPost_of_err rfl

theorem isSpecial_eq (p : Pat) : p.isSpecial' = p.isSpecial := by cases p <;> rfl

/-- which lists of an arm not selected by a byte can occur, and what they do to `tag_start` -/
theorem special_list {sd : StateDef} {ch : Option UInt8} {m : M κ} {arm : Arm} {q : ActSeq}
    (h : Disp0 env.tbl L inp sd ch m) (hrel : relexStateOk env.tbl S L TT m.c.state sd = true)
    (harm : arm ∈ sd.arms) (hq : q ∈ arm.body.seqs) (hsp : arm.pat.isSpecial = true) :
    hasAct .finishTagName q.calls = false ∧
    ((tsCalls q.calls).apply m.c.pos m.ts = none ∨
     (tsCalls q.calls = .keep ∧ q.trans = none ∧ (∀ cl ∈ q.calls, quietAct cl.act = true) ∧ (arm.pat = .eoc ∨ arm.pat = .eof))) := by
  have hkind := special_arm_ts h.ok harm hq hsp
  cases hl : L.at m.c.state with
  | none =>
    have hts0 : m.ts = none := by
      cases hm : m.ts with
      | none => rfl
      | some p' =>
        obtain ⟨ph, _, hl', _⟩ := h.head p' hm
        rw [hl] at hl'; simp at hl'
    have hrel' := hrel
    simp only [relexStateOk, hl, markStateOk, Bool.and_eq_true, List.all_eq_true] at hrel'
    refine ⟨by simpa using (hrel'.2 arm harm q hq).1, Or.inl ?_⟩
    rcases hkind with hk | ⟨hk, _⟩
    · rw [hk]; rfl
    · rw [hk, hts0]; rfl
  | some ph =>
    -- a `TagHead` state: the list is quiet
    have hcq : ∀ a ∈ sd.arms, a.pat ≠ .closingQuote := by
      have hok := h.ok
      simp only [stateOk, Bool.and_eq_true] at hok
      rw [hl] at hok
      simp only [headStateOk, Bool.and_eq_true, List.all_eq_true] at hok
      intro a ha hp'
      have := hok.2.1.2 a ha
      simp [specialArmOk, hp'] at this
    have hquiet : ∀ cl ∈ q.calls, quietAct cl.act = true := by
      have hrel' := hrel
      simp only [relexStateOk, hl, headPairOk, Bool.and_eq_true, List.all_eq_true, Bool.or_eq_true, Bool.not_eq_true'] at hrel'
      rcases hrel'.1.2 arm harm with h' | h'
      · rw [isSpecial_eq, hsp] at h'; simp at h'
      · exact h' q hq
    refine ⟨quiet_no_finish hquiet, ?_⟩
    rcases hkind with hk | ⟨hk, hlab⟩
    · left; rw [hk]; rfl
    · obtain ⟨hpat, htr⟩ := hlab (by rw [hl]; simp)
      exact Or.inr ⟨hk, htr, hquiet, hpat⟩

/-- `eoc` / `eof` arms -/
theorem special_sem {sd : StateDef} {m : M κ} {arm : Arm}
    (h : Disp0 env.tbl L inp sd none m) (hcs : m.cs = none) (hsem : HSemMid env.tbl L S inp m)
    (hrel : relexStateOk env.tbl S L TT m.c.state sd = true)
    (harm : arm ∈ sd.arms) (hpat : arm.pat = .eoc ∨ arm.pat = .eof) :
    SemPost env L S Pend K inp m.c.isLast (finishArm inp (runBody env inp arm.body m)) := by
  have hsp : arm.pat.isSpecial = true := by rcases hpat with h' | h' <;> simp [h', Pat.isSpecial]
  obtain ⟨q, hq, hrun⟩ := runBody_seq (env := env) (inp := inp) arm.body m h.scan
  rw [hrun]
  obtain ⟨hno, hcases⟩ := special_list h hrel harm hq hsp
  rcases hcases with hts | ⟨hk, htr, hquiet, _⟩
  · exact (silent_none_sem hno m h.scan hts).2
  · -- the head is kept and the arm falls through to the break
    obtain ⟨r1, r2, r3, r4, r5, r6⟩ := runCalls_quiet (env := env) (inp := inp) q.calls hquiet m h.scan
    have hfr := (runCalls_frame (env := env) (inp := inp) q.calls m h.scan)
    have hrs : runSeq env inp q m = ((runCalls env inp q.calls m).1, none, .fell) := by
      unfold runSeq; simp only [r1, htr]
    rw [hrs]
    unfold finishArm
    dsimp only
    have hkey : semKey (runCalls env inp q.calls m).1 = semKey m := by
      have hts := hfr.2 r1
      rw [hk] at hts
      simp only [TSK.apply] at hts
      have : (semKey (runCalls env inp q.calls m).1).2.2.2.1 = (semKey m).2.2.2.1 := hts
      exact Prod.ext r2 (Prod.ext r3 (Prod.ext r4 (Prod.ext this r5)))
    obtain ⟨c2, s2, x2, hm2⟩ := scanner_destruct _ hfr.1.scan
    have hlast : c2.isLast = m.c.isLast := by have := hfr.1.isLast; rw [hm2] at this; exact this
    rw [hm2, ← hlast]
    rw [hm2] at hkey
    apply break_sem c2 s2 x2
    · have : (semKey (⟨c2, .scanner s2, x2⟩ : M κ)).2.1 = (semKey m).2.1 := by rw [hkey]
      simp only [semKey] at this
      rw [this]; exact h.pos
    · exact HeadMid_congr h.head hkey
    · exact HSemMid_congr h.scan rfl hsem hkey
    · left
      have := hfr.1.cs
      rw [hm2, hcs] at this
      simpa [M.cs] using this


theorem seqMark_semKey (m : M κ) (hs : m.isScanner = true) :
    (semKey (enterSeq m) = semKey m ∧ (enterSeq m).isScanner = true ∧ (enterSeq m).x = m.x ∧ (enterSeq m).c = m.c ∧
      (enterSeq m).cs = some m.c.pos) ∧
    (semKey (leaveSeq m) = semKey m ∧ (leaveSeq m).isScanner = true ∧ (leaveSeq m).x = m.x ∧ (leaveSeq m).c = m.c) := by
  obtain ⟨c, s, x, rfl⟩ := scanner_destruct m hs
  refine ⟨⟨?_, ?_, ?_, ?_, ?_⟩, ⟨?_, ?_, ?_, ?_⟩⟩ <;> rfl

theorem runSeqArms_sem {sd : StateDef} {ch : Option UInt8} (arms : List Arm) (hsub : ∀ a ∈ arms, a ∈ sd.arms)
    (m : M κ) (h : Disp0 env.tbl L inp sd ch m) (hsem : HSemMid env.tbl L S inp m)
    (hrel : relexStateOk env.tbl S L TT m.c.state sd = true) :
    match runSeqArms env inp ch arms m with
    | .inl r => SemPost env L S Pend K inp m.c.isLast r
    | .inr m' => semKey m' = semKey m ∧ m'.x = m.x ∧ m'.isScanner = true := by
  induction arms generalizing m with
  | nil => show semKey m = semKey m ∧ m.x = m.x ∧ m.isScanner = true; exact ⟨rfl, rfl, h.scan⟩
  | cons arm rest ih =>
    have hrest : ∀ a ∈ rest, a ∈ sd.arms := fun a ha => hsub a (by simp [ha])
    have harm : arm ∈ sd.arms := hsub arm (by simp)
    obtain ⟨⟨e1, e2, e3, e4, e5⟩, _⟩ := seqMark_semKey m h.scan
    obtain ⟨_, ⟨l1, l2, l3, l4⟩⟩ := seqMark_semKey (enterSeq m) e2
    have hc2 : (leaveSeq (enterSeq m)).c = m.c := by rw [l4, e4]
    have hD : Disp0 env.tbl L inp sd ch (leaveSeq (enterSeq m)) :=
      ⟨l2, by rw [hc2]; exact h.hsd, by rw [hc2]; exact h.ok, by rw [hc2]; exact h.pos,
       by rw [show (leaveSeq (enterSeq m)).c.pos = m.c.pos by rw [hc2]]; exact h.chNone,
       by rw [show (leaveSeq (enterSeq m)).c.pos = m.c.pos by rw [hc2]]; exact h.chSome, h.mem,
       HeadMid_congr h.head (by rw [l1, e1])⟩
    have hskip := ih hrest (leaveSeq (enterSeq m)) hD (HSemMid_congr h.scan l2 hsem (by rw [l1, e1]))
      (by rw [hc2]; exact hrel)
    have hskip' : match runSeqArms env inp ch rest (leaveSeq (enterSeq m)) with
        | .inl r => SemPost env L S Pend K inp m.c.isLast r
        | .inr m' => semKey m' = semKey m ∧ m'.x = m.x ∧ m'.isScanner = true := by
      split at hskip
      · rw [← show (leaveSeq (enterSeq m)).c.isLast = m.c.isLast by rw [hc2]]; exact hskip
      · exact ⟨by rw [hskip.1, l1, e1], by rw [hskip.2.1, l3, e3], hskip.2.2⟩
    by_cases hseq : ∃ bytes ic, arm.pat = .chSeq bytes ic
    · obtain ⟨bytes, ic, hpat⟩ := hseq
      have hsp : arm.pat.isSpecial = true := by simp [hpat, Pat.isSpecial]
      cases bytes with
      | nil => rw [runSeqArms_cons_nil ch arm rest m ic hpat]; exact hskip'
      | cons e0 es =>
        rw [runSeqArms_cons_cons ch arm rest m ic e0 es hpat]
        cases firstMatch inp (enterSeq m) ch e0 es ic with
        | needMore =>
          dsimp only
          obtain ⟨c2, s2, x2, hm2⟩ := scanner_destruct _ e2
          have hcc : c2 = m.c := by have := e4; rw [hm2] at this; exact this
          rw [hm2, ← show c2.isLast = m.c.isLast by rw [hcc]]
          apply break_sem c2 s2 x2 (by rw [hcc]; exact h.pos)
          · rw [← hm2]; exact HeadMid_congr h.head e1
          · rw [← hm2]; exact HSemMid_congr h.scan e2 hsem e1
          · right
            have := e5
            rw [hm2] at this
            simp only [M.cs] at this
            rw [this, hcc]
        | mismatch => exact hskip'
        | matched =>
          dsimp only
          -- the body runs on the machine with the cursor advanced; its lists never finish a tag name and clear `tag_start`
          have hm2s : (leaveSeq ({ enterSeq m with c := { (enterSeq m).c with nextPos := (enterSeq m).c.nextPos + es.length } } : M κ)).isScanner = true := by
            apply (seqMark_semKey _ _).2.2.1
            simp only [M.isScanner] at e2 ⊢; exact e2
          have hm2ts : (leaveSeq ({ enterSeq m with c := { (enterSeq m).c with nextPos := (enterSeq m).c.nextPos + es.length } } : M κ)).ts = m.ts := by
            have h1 := (seqMark_semKey ({ enterSeq m with c := { (enterSeq m).c with nextPos := (enterSeq m).c.nextPos + es.length } } : M κ)
              (by simp only [M.isScanner] at e2 ⊢; exact e2)).2.1
            have h2 : (semKey (leaveSeq ({ enterSeq m with c := { (enterSeq m).c with nextPos := (enterSeq m).c.nextPos + es.length } } : M κ))).2.2.2.1
                = (semKey m).2.2.2.1 := by
              rw [h1]
              have : (semKey (enterSeq m)).2.2.2.1 = (semKey m).2.2.2.1 := by rw [e1]
              simpa [semKey, M.ts] using this
            exact h2
          have hm2last : (leaveSeq ({ enterSeq m with c := { (enterSeq m).c with nextPos := (enterSeq m).c.nextPos + es.length } } : M κ)).c.isLast = m.c.isLast := by
            rw [(seqMark_semKey _ (by simp only [M.isScanner] at e2 ⊢; exact e2)).2.2.2.2]
            simp only; rw [e4]
          obtain ⟨q, hq, hrun⟩ := runBody_seq (env := env) (inp := inp) arm.body _ hm2s
          rw [hrun]
          obtain ⟨hno, hcases⟩ := special_list h hrel harm hq hsp
          have hts : (tsCalls q.calls).apply
              (leaveSeq ({ enterSeq m with c := { (enterSeq m).c with nextPos := (enterSeq m).c.nextPos + es.length } } : M κ)).c.pos
              (leaveSeq ({ enterSeq m with c := { (enterSeq m).c with nextPos := (enterSeq m).c.nextPos + es.length } } : M κ)).ts = none := by
            rw [hm2ts]
            rcases hcases with hh | ⟨_, _, _, hp⟩
            · cases hk : tsCalls q.calls with
              | keep => rw [hk] at hh; simpa [TSK.apply] using hh
              | clear => rfl
              | mark => rw [hk] at hh; simp [TSK.apply] at hh
            · rw [hpat] at hp; simp at hp
          rw [← hm2last]
          exact (silent_none_sem hno _ hm2s hts).1
    · have hnp : ∀ b ic, arm.pat ≠ .chSeq b ic := fun b ic hp => hseq ⟨b, ic, hp⟩
      rw [runSeqArms_cons_other ch arm rest m hnp]
      exact ih hrest m h hsem hrel

theorem dispatch_sem (hlaw : PendLaw env.ops Pend K) {sd : StateDef} {ch : Option UInt8} (m : M κ)
    (h : Disp0 env.tbl L inp sd ch m) (hstale : m.cs ≠ none → hasSeq sd.arms = true)
    (hlab : LabMid Pend (TT.at m.c.state) (P.at m.c.state) m) (hsem : HSemMid env.tbl L S inp m)
    (hrel : relexStateOk env.tbl S L TT m.c.state sd = true)
    (hP : ∀ a ∈ sd.arms, bodyOkP env.tbl P m.c.state a.body = true) :
    SemPost env L S Pend K inp m.c.isLast (dispatch env inp ch sd.arms m) := by
  rw [dispatch_eq]
  have h1 := runSeqArms_sem (Pend := Pend) (K := K) sd.arms (fun a ha => ha) m h hsem hrel
  have h2 := scan_runSeqArms_post (env := env) sd.arms (fun a ha => ha) m h
  cases hs : runSeqArms env inp ch sd.arms m with
  | inl r => rw [hs] at h1; exact h1
  | inr m' =>
    rw [hs] at h1 h2
    obtain ⟨k1, k2, k3⟩ := h1
    obtain ⟨a1, a2, a3, a4⟩ := h2
    dsimp only
    have hcs : m'.cs = none := by
      rw [a4]
      split
      · rfl
      · rename_i hh
        cases hm : m.cs with
        | none => rfl
        | some q => exact absurd (hstale (by rw [hm]; simp)) hh
    have hD : Disp0 env.tbl L inp sd ch m' :=
      ⟨a2, by rw [a1]; exact h.hsd, by rw [a1]; exact h.ok, by rw [a1]; exact h.pos,
       by rw [show m'.c.pos = m.c.pos by rw [a1]]; exact h.chNone,
       by rw [show m'.c.pos = m.c.pos by rw [a1]]; exact h.chSome, h.mem, HeadMid_congr h.head k1⟩
    have hsem' := HSemMid_congr h.scan a2 hsem k1
    have hiet : m'.iet = m.iet := by
      obtain ⟨c1, s1, x1, rfl⟩ := scanner_destruct m h.scan
      obtain ⟨c2, s2, x2, rfl⟩ := scanner_destruct m' a2
      have : (semKey (⟨c2, .scanner s2, x2⟩ : M κ)).2.2.2.2.1 = (semKey (⟨c1, .scanner s1, x1⟩ : M κ)).2.2.2.2.1 := by rw [k1]
      simpa [semKey, M.iet] using this
    have hlab' : LabMid Pend (TT.at m'.c.state) (P.at m'.c.state) m' := by
      rw [a1]; exact hlab.move (by rw [a2, h.scan]) (by rw [a1]) hiet k2
    have hlast : m'.c.isLast = m.c.isLast := by rw [a1]
    rw [← hlast]
    unfold afterSeq
    cases hf : findArm env.tbl m'.c ch sd.arms with
    | none => exact SemPost_of_err rfl
    | some arm =>
      obtain ⟨harm, hmatch⟩ := findArm_sel hf
      dsimp only
      split
      · rename_i hpat
        have hchn : ch = none := by
          cases ch with
          | none => rfl
          | some b => rw [hpat] at hmatch; simp [patMatches] at hmatch
        subst hchn
        exact special_sem hD hcs hsem' (by rw [a1]; exact hrel) harm (Or.inl hpat)
      · rename_i hpat
        have hchn : ch = none := by
          cases ch with
          | none => rfl
          | some b => rw [hpat] at hmatch; simp [patMatches] at hmatch
        subst hchn
        split
        · exact special_sem hD hcs hsem' (by rw [a1]; exact hrel) harm (Or.inr hpat)
        · obtain ⟨c2, s2, x2, hm2⟩ := scanner_destruct _ a2
          subst hm2
          exact break_sem c2 s2 x2 hD.pos hD.head hsem' (Or.inl (by simpa [M.cs] using hcs))
      · rename_i hne1 hne2
        cases ch with
        | none =>
          rcases patMatches_none_pat hmatch with h1 | h1
          · exact absurd h1 hne1
          · exact absurd h1 hne2
        | some b =>
          exact normal_sem hlaw hD hcs hlab' hsem' (by rw [a1]; exact hrel) (by rw [a1]; exact hP arm harm) hf


/-! ### one state-function call -/

theorem preStep_facts (hlaw : PendLaw env.ops Pend K) {sd : StateDef} (m : M κ) (hs : m.isScanner = true)
    (henter : tsCalls sd.enter = .keep)
    (hlab : LabMid Pend (TT.at m.c.state) (P.at m.c.state) m)
    (hq : callsOk sd.enter = true) (habs : phCalls sd.enter (P.at m.c.state) = some (P.at m.c.state))
    (hT : ttFlows (ttCalls sd.enter (TT.at m.c.state)) (TT.at m.c.state) = true) :
    Signal.isEnd (preStep env inp sd m).2 = false ∧
    (∀ d bm, (preStep env inp sd m).2 = some (.directive d bm) → hasAct .finishTagName sd.enter = true) ∧
    ((preStep env inp sd m).2 = none →
      (preStep env inp sd m).1.isScanner = true ∧ (preStep env inp sd m).1.c.state = m.c.state ∧
      (preStep env inp sd m).1.c.nextPos = m.c.nextPos ∧ (preStep env inp sd m).1.c.isLast = m.c.isLast ∧
      (preStep env inp sd m).1.ts = m.ts ∧ (preStep env inp sd m).1.cs = m.cs ∧
      LabMid Pend (TT.at m.c.state) (P.at m.c.state) (preStep env inp sd m).1 ∧
      (sd.enter = [] → (preStep env inp sd m).1 = m)) := by
  unfold preStep
  by_cases hcond : (!sd.enter.isEmpty && !m.c.entered) = true
  · rw [if_pos hcond]
    have h1 : LabMid Pend (TT.at m.c.state) (P.at m.c.state) ({ m with c := { m.c with nextPos := m.c.nextPos + 1 } } : M κ) :=
      hlab.move rfl rfl rfl rfl
    obtain ⟨hf, ht⟩ := runCalls_frame (env := env) (inp := inp) sd.enter
      ({ m with c := { m.c with nextPos := m.c.nextPos + 1 } } : M κ) hs
    have hsg := runCalls_sig (env := env) (inp := inp) sd.enter
      ({ m with c := { m.c with nextPos := m.c.nextPos + 1 } } : M κ) hs
    dsimp only
    cases hrs : (runCalls env inp sd.enter { m with c := { m.c with nextPos := m.c.nextPos + 1 } }).2 with
    | some sig =>
      rw [hrs] at hsg
      refine ⟨hsg, fun d bm hd => ?_, fun hn => by simp at hn⟩
      cases hno : hasAct .finishTagName sd.enter with
      | true => rfl
      | false =>
        have := runCalls_silent (env := env) (inp := inp) sd.enter hno
          ({ m with c := { m.c with nextPos := m.c.nextPos + 1 } } : M κ) hs
        rw [hrs] at this; simp at this
    | none =>
      refine ⟨rfl, fun d bm hd => by simp at hd, fun _ => ⟨hf.scan, hf.state, ?_, hf.isLast, ?_, hf.cs, ?_, ?_⟩⟩
      · have := hf.nextPos; simp only at this ⊢; omega
      · have := ht hrs
        rw [henter] at this
        exact this
      · have hmid := runCalls_lab (inp := inp) hlaw sd.enter _ _ _ habs hq _ h1 hrs
        have : LabMid Pend (TT.at m.c.state) (P.at m.c.state) (runCalls env inp sd.enter { m with c := { m.c with nextPos := m.c.nextPos + 1 } }).1 :=
          ⟨hmid.scan, tt_flows hT hmid.tt, hmid.endc, hmid.pend⟩
        exact this.move rfl rfl rfl rfl
      · intro he
        exfalso
        simp [he] at hcond
  · rw [if_neg hcond]
    exact ⟨rfl, fun d bm hd => by simp at hd, fun _ => ⟨hs, rfl, rfl, rfl, rfl, rfl, hlab, fun _ => rfl⟩⟩

/-- **One state-function call of a scanner machine keeps the semantic head facts; a hand-over
carries `HeadDone`.** -/
theorem stateFn_sem (hlaw : PendLaw env.ops Pend K) (hhead : HeadOk env.tbl L = true)
    (hrelex : RelexOk env.tbl L TT S = true) (htt : TextTypeOk env.tbl TT = true) (hph : PhaseOk env.tbl P = true)
    (m : M κ) (h : HInv env.tbl L inp m) (hlab : LabInv TT P Pend m) (hsem : HSem env.tbl L S inp m) :
    SemPost env L S Pend K inp m.c.isLast (stateFn env inp m) := by
  rw [stateFn_preConsume]
  cases hsd : env.tbl.state? m.c.state with
  | none => exact SemPost_of_err rfl
  | some sd =>
    have hst := HeadOk_state hhead hsd
    have hrel := RelexOk_state hrelex hsd
    have hP := PhaseOk_state hph hsd
    have hT := TextTypeOk_state htt hsd
    simp only [stateOkP, Bool.and_eq_true, beq_iff_eq, List.all_eq_true] at hP
    simp only [ttStateOk, Bool.and_eq_true, List.all_eq_true] at hT
    obtain ⟨⟨⟨_, hq⟩, habs⟩, harms⟩ := hP
    have henter : tsCalls sd.enter = .keep := by
      simp only [stateOk, Bool.and_eq_true, beq_iff_eq] at hst; exact hst.1
    obtain ⟨p0, pdir, pfacts⟩ := preStep_facts (inp := inp) hlaw (sd := sd) m h.scan henter hlab hq habs hT.1
    dsimp only
    -- enter actions never finish a tag name
    have hnofin : hasAct .finishTagName sd.enter = false := by
      cases hl : L.at m.c.state with
      | none =>
        have hrel' := hrel
        simp only [relexStateOk, hl, markStateOk, Bool.and_eq_true] at hrel'
        simpa using hrel'.1
      | some ph =>
        have hrel' := hrel
        simp only [relexStateOk, hl, headPairOk, Bool.and_eq_true, List.isEmpty_iff] at hrel'
        rw [hrel'.1.1]; rfl
    cases hps : (preStep env inp sd m).2 with
    | some sig =>
      dsimp only
      cases sig with
      | err e => exact SemPost_of_err rfl
      | endOfInput n => rw [hps] at p0; simp [Signal.isEnd] at p0
      | directive d bm => have := pdir d bm hps; rw [hnofin] at this; cases this
    | none =>
      obtain ⟨p1, p2, p3, p4, p5, p6, p7, p8⟩ := pfacts hps
      dsimp only
      obtain ⟨c, s, x, hm⟩ := scanner_destruct _ p1
      rw [hm] at p2 p3 p4 p5 p6 p7 p8 ⊢
      simp only at p2 p3 p4
      have hsd' : env.tbl.state? c.state = some sd := by rw [p2]; exact hsd
      have hstale : ∀ np, M.cs (⟨{ c with nextPos := np }, .scanner s, x⟩ : M κ) ≠ none → hasSeq sd.arms = true := by
        intro np hne
        have : m.cs ≠ none := by rw [← p6]; exact hne
        obtain ⟨sd', h1, h2⟩ := h.stale this
        rw [hsd] at h1
        simp only [Option.some.injEq] at h1
        subst h1; exact h2
      have hts : ∀ np, M.ts (⟨{ c with nextPos := np }, .scanner s, x⟩ : M κ) = m.ts := fun np => p5
      have hlabk : ∀ np, LabMid Pend (TT.at c.state) (P.at c.state) (⟨{ c with nextPos := np }, .scanner s, x⟩ : M κ) := by
        intro np
        rw [p2]
        exact p7.move rfl rfl rfl rfl
      have hrelc : relexStateOk env.tbl S L TT c.state sd = true := by rw [p2]; exact hrel
      have hPc : ∀ a ∈ sd.arms, bodyOkP env.tbl P c.state a.body = true := by rw [p2]; exact harms
      -- in a `TagHead` state the enter list is empty, so the machine is still `m`
      have hsame : ∀ ph, L.at m.c.state = some ph → (⟨c, .scanner s, x⟩ : M κ) = m := by
        intro ph hl
        have hrel' := hrel
        simp only [relexStateOk, hl, headPairOk, Bool.and_eq_true, List.isEmpty_iff] at hrel'
        exact p8 hrel'.1.1
      have hsemk : ∀ k, HSemMid env.tbl L S inp (⟨{ c with nextPos := c.nextPos + 1 + k }, .scanner s, x⟩ : M κ) → True := fun _ _ => trivial
      have hmidsem : HSemMid env.tbl L S inp (⟨{ c with nextPos := c.nextPos + 1 }, .scanner s, x⟩ : M κ) := by
        intro p' ph w hp' hl hsh hlen hpre
        rw [hts] at hp'
        simp only at hl hlen
        rw [p2] at hl
        have hmm := hsame ph hl
        have := hsem p' ph w hp' hl hsh (by rw [← p3]; omega) hpre
        obtain ⟨⟨s1', q1, q2, q2'⟩, q3⟩ := this
        refine ⟨⟨s1', by rw [← hmm] at q1; exact q1, by rw [← hmm] at q2; exact q2, q2'⟩, fun hn s0 hs0 => ?_⟩
        rw [← hmm] at q3
        exact q3 hn s0 hs0
      rw [← p4]
      unfold consumeStep
      split
      · -- memchr state: never inside TagHead
        rename_i needle hneedle
        have hnohead : m.ts = none := by
          cases hmts : m.ts with
          | none => rfl
          | some p =>
            obtain ⟨ph, _, hl, _⟩ := h.head p hmts
            simp only [stateOk, Bool.and_eq_true] at hst
            rw [hl] at hst
            simp [headStateOk, hneedle] at hst
        have hvac : ∀ np, HSemMid env.tbl L S inp (⟨{ c with nextPos := np }, .scanner s, x⟩ : M κ) := by
          intro np p' ph w hp'
          rw [hts, hnohead] at hp'; simp at hp'
        dsimp only
        split
        · rename_i p hfind
          refine dispatch_sem hlaw (⟨{ c with nextPos := c.nextPos + 1 + p }, .scanner s, x⟩ : M κ) ?_
            (hstale _) (hlabk _) (hvac _) hrelc hPc
          refine ⟨rfl, hsd', by rw [p2]; exact hst, by simp only; omega, fun hc => by simp at hc, ?_, ?_, ?_⟩
          · intro b hb
            simp only [Option.some.injEq] at hb
            subst hb
            have := findByte_spec hfind
            rw [List.getElem?_drop] at this
            simpa [Common.pos] using this
          · intro nd hnd
            rw [hneedle] at hnd
            simp only [Option.some.injEq] at hnd
            left; rw [hnd]
          · intro p' hp'
            rw [hts, hnohead] at hp'; simp at hp'
        · refine dispatch_sem hlaw (⟨{ c with nextPos := c.nextPos + 1 + (inp.drop c.nextPos).length }, .scanner s, x⟩ : M κ) ?_
            (hstale _) (hlabk _) (hvac _) hrelc hPc
          refine ⟨rfl, hsd', by rw [p2]; exact hst, by simp only; omega, ?_, fun b hb => by simp at hb, fun _ _ => Or.inr rfl, ?_⟩
          · intro _
            simp only [Common.pos, List.length_drop]
            omega
          · intro p' hp'
            rw [hts, hnohead] at hp'; simp at hp'
      · rename_i hnomem
        refine dispatch_sem hlaw (⟨{ c with nextPos := c.nextPos + 1 }, .scanner s, x⟩ : M κ) ?_
          (hstale _) (hlabk _) hmidsem hrelc hPc
        refine ⟨rfl, hsd', by rw [p2]; exact hst, by simp only; omega, ?_, ?_, ?_, ?_⟩
        · intro hc
          simp only [Common.pos, Nat.add_sub_cancel]
          rcases Nat.lt_or_ge c.nextPos inp.length with h' | h'
          · rw [List.getElem?_eq_getElem h'] at hc; simp at hc
          · exact h'
        · intro b hb
          simpa [Common.pos] using hb
        · intro nd hnd
          rw [hnomem] at hnd; simp at hnd
        · intro p' hp'
          rw [hts] at hp'
          obtain ⟨ph, w, hl, hs, hlen, hpre⟩ := h.head p' hp'
          exact ⟨ph, w, by rw [p2]; exact hl, hs, by simp only; omega, hpre⟩


/-! ### the parsing loop of a scanner machine -/

/-- all invariants of a scanner machine between state functions -/
structure ScanAll (env : Env κ) (L : Labels) (TT : TLabels) (P : PLabels) (S : SLabels) (Pend : κ → Bool)
    (inp : Bytes) (m : M κ) : Prop where
  head : HInv env.tbl L inp m
  lab : LabInv TT P Pend m
  sem : HSem env.tbl L S inp m

/-- the tables satisfy all side-conditions of the scanner ⇄ lexer hand-over -/
structure RelexSide (t : Table) (L : Labels) (TT : TLabels) (P : PLabels) (S : SLabels) : Prop where
  head : HeadOk t L = true
  relex : RelexOk t L TT S = true
  tt : TextTypeOk t TT = true
  phase : PhaseOk t P = true

theorem runLoop_scanAll (hlaw : PendLaw env.ops Pend K) (hside : RelexSide env.tbl L TT P S) (n : Nat) (m : M κ)
    (h : ScanAll env L TT P S Pend inp m) :
    match (runLoop env inp n m).2 with
    | .endOfInput k => HeldOk env.tbl inp k ∧ (runLoop env inp n m).1.isScanner = true ∧
        (m.c.isLast = false → ∀ data, ScanAll env L TT P S Pend (inp.drop k ++ data) (runLoop env inp n m).1)
    | .directive d bm => d = .lex ∧ HeadDone env L S Pend K inp (runLoop env inp n m).1 bm
    | .err _ => True := by
  induction n generalizing m with
  | zero => simp [runLoop]
  | succ n ih =>
    have h1 := scan_stateFn_post (env := env) (inp := inp) rfl hside.head m h.head
    have h2 := stateFn_lab (inp := inp) hlaw hside.tt hside.phase m h.lab
    have h3 := stateFn_sem (inp := inp) hlaw hside.head hside.relex hside.tt hside.phase m h.head h.lab h.sem
    simp only [runLoop]
    cases hs : (stateFn env inp m).2 with
    | none =>
      dsimp only
      simp only [ScanStepPost, LabPost, SemPost, hs] at h1 h2 h3
      have := ih (stateFn env inp m).1 ⟨h1.1, h2, h3⟩
      rw [h1.2] at this
      exact this
    | some sig =>
      dsimp only
      cases sig with
      | err e => trivial
      | endOfInput k =>
        simp only [ScanStepPost, LabPost, SemPost, hs] at h1 h2 h3
        exact ⟨h1.1, h1.2.2.2, fun hl data => ⟨h1.2.1 hl data, h2, h3 hl data⟩⟩
      | directive d bm =>
        simp only [SemPost, hs] at h3
        exact h3

end
end
end LolHtml.Model
