import LolHtml.Lemmas.ParseRelE
/-!
`Lemmas/ParseRelE.lean` once more, with an abort alternative that keeps BOTH runs: every sink operation, started in
`R`-related states on the same lexeme, either ends in `R`-related states with the same result, or BOTH operations fail
with the same error and end in `Q`-related states (`OpsRelQ`; nothing is required of `Q` but that: in particular the
invariant part of `R` may be lost at a failure). Then `Parser::parse` over the two sinks, started on `R`-related parsers,
ends in `R`-related parsers with the same result, or in `Q`-related parsers with the same error result (`parse_relQ`).

Use (`R a b := a = b ∧ J a`, `Q a b := a = b`): two sinks that AGREE on every state with the invariant `J` — failures
included — and re-establish `J` after a success only: `Parser::parse` over the one IS `Parser::parse` over the other
(`parse_eq_of_agree`). This is the lifting that `RelE.parse_relE` (its alternative keeps only the error value of the first
run) and `Cong.parse_cong` (`Stop` speaks about the first machine only) do not give.
The proofs are those of `Lemmas/ParseRelE.lean`, both sides rewritten in the abort branches.
-/
set_option linter.unusedSimpArgs false
set_option linter.unusedVariables false
namespace LolHtml.Model.RelQ
open LolHtml LolHtml.Model
open LolHtml.Model.RelE (parseErr)

variable {κ₁ κ₂ : Type}

structure OpsRelQ (ops₁ : SinkOps κ₁) (ops₂ : SinkOps κ₂) (inp : Bytes) (R : κ₁ → κ₂ → Prop) (Q : κ₁ → κ₂ → Prop) : Prop where
  handleTag : ∀ lx k₁ k₂, R k₁ k₂ →
    (R (ops₁.handleTag inp lx k₁).1 (ops₂.handleTag inp lx k₂).1 ∧ (ops₁.handleTag inp lx k₁).2 = (ops₂.handleTag inp lx k₂).2) ∨
    ∃ eA, (ops₁.handleTag inp lx k₁).2 = .error eA ∧ (ops₂.handleTag inp lx k₂).2 = .error eA ∧
      Q (ops₁.handleTag inp lx k₁).1 (ops₂.handleTag inp lx k₂).1
  handleNonTag : ∀ lx k₁ k₂, R k₁ k₂ →
    (R (ops₁.handleNonTag inp lx k₁).1 (ops₂.handleNonTag inp lx k₂).1 ∧ (ops₁.handleNonTag inp lx k₁).2 = (ops₂.handleNonTag inp lx k₂).2) ∨
    ∃ eA, (ops₁.handleNonTag inp lx k₁).2 = .error eA ∧ (ops₂.handleNonTag inp lx k₂).2 = .error eA ∧
      Q (ops₁.handleNonTag inp lx k₁).1 (ops₂.handleNonTag inp lx k₂).1
  startTagHint : ∀ n ns k₁ k₂, R k₁ k₂ →
    (R (ops₁.startTagHint n ns k₁).1 (ops₂.startTagHint n ns k₂).1 ∧ (ops₁.startTagHint n ns k₁).2 = (ops₂.startTagHint n ns k₂).2) ∨
    ∃ eA, (ops₁.startTagHint n ns k₁).2 = .error eA ∧ (ops₂.startTagHint n ns k₂).2 = .error eA ∧
      Q (ops₁.startTagHint n ns k₁).1 (ops₂.startTagHint n ns k₂).1
  endTagHint : ∀ n k₁ k₂, R k₁ k₂ →
    (R (ops₁.endTagHint n k₁).1 (ops₂.endTagHint n k₂).1 ∧ (ops₁.endTagHint n k₁).2 = (ops₂.endTagHint n k₂).2) ∨
    ∃ eA, (ops₁.endTagHint n k₁).2 = .error eA ∧ (ops₂.endTagHint n k₂).2 = .error eA ∧
      Q (ops₁.endTagHint n k₁).1 (ops₂.endTagHint n k₂).1

/-- related step results, or the first run aborted (`sinkAct`: an abort can only come out of a
sink-calling action) -/
def ResRel (R : κ₁ → κ₂ → Prop) (Q : κ₁ → κ₂ → Prop) (r₁ : M κ₁ × Option Signal) (r₂ : M κ₂ × Option Signal) : Prop :=
  (MR R r₁.1 r₂.1 ∧ r₁.2 = r₂.2) ∨ ∃ eA, r₁.2 = some (.err eA) ∧ r₂.2 = some (.err eA) ∧ MR Q r₁.1 r₂.1

section
variable {tbl : Table} {cfg : TagCfg} {ops₁ : SinkOps κ₁} {ops₂ : SinkOps κ₂} {inp : Bytes}
  {R : κ₁ → κ₂ → Prop} {Q : κ₁ → κ₂ → Prop}

set_option quotPrecheck false in
local notation "env₁" => (Env.mk tbl cfg ops₁ : Env κ₁)
set_option quotPrecheck false in
local notation "env₂" => (Env.mk tbl cfg ops₂ : Env κ₂)

theorem ResRel.same {c : Common} {r : Regs} {x₁ : Ctx κ₁} {x₂ : Ctx κ₂} {s : Option Signal} (h : XR R x₁ x₂) :
    ResRel R Q (⟨c, r, x₁⟩, s) (⟨c, r, x₂⟩, s) := Or.inl ⟨⟨rfl, rfl, h⟩, rfl⟩

theorem rel_lexEmitNonTag (h : OpsRelQ ops₁ ops₂ inp R Q) (c : Common) (l : LexRegs) (x₁ : Ctx κ₁) (x₂ : Ctx κ₂)
    (o : Option NonTagOutline) (e : Nat) (hx : XR R x₁ x₂) :
    ResRel R Q (lexEmitNonTag env₁ inp c l x₁ o e) (lexEmitNonTag env₂ inp c l x₂ o e) := by
  obtain ⟨hs, hsim, hpc⟩ := hx
  unfold lexEmitNonTag
  dsimp only
  rw [hpc]
  rcases h.handleNonTag ⟨x₂.prevConsumed, ⟨l.lexemeStart, e⟩, o⟩ x₁.sink x₂.sink hs with ⟨hr, hres⟩ | habort
  · rw [hres]
    left
    cases (ops₂.handleNonTag inp ⟨x₂.prevConsumed, ⟨l.lexemeStart, e⟩, o⟩ x₂.sink).2 <;>
      exact ⟨⟨rfl, rfl, hr, by first | rfl | exact hsim, by first | rfl | exact hpc⟩, rfl⟩
  · obtain ⟨eA, hab1, hab2, hq⟩ := habort
    right
    rw [hab1, hab2]
    exact ⟨eA, rfl, rfl, ⟨rfl, rfl, hq, by first | rfl | exact hsim, by first | rfl | exact hpc⟩⟩

theorem rel_lexEmitText (h : OpsRelQ ops₁ ops₂ inp R Q) (c : Common) (l : LexRegs) (x₁ : Ctx κ₁) (x₂ : Ctx κ₂)
    (hx : XR R x₁ x₂) : ResRel R Q (lexEmitText env₁ inp c l x₁) (lexEmitText env₂ inp c l x₂) := by
  unfold lexEmitText
  split
  · exact rel_lexEmitNonTag h _ _ _ _ _ _ hx
  · exact ResRel.same hx

theorem rel_lexEmitEof (h : OpsRelQ ops₁ ops₂ inp R Q) (m₁ : M κ₁) (m₂ : M κ₂) (hm : MR R m₁ m₂) :
    ResRel R Q (lexEmitEof env₁ inp m₁) (lexEmitEof env₂ inp m₂) := by
  obtain ⟨hc, hr, hx⟩ := hm
  obtain ⟨c₁, r₁, x₁⟩ := m₁
  obtain ⟨c₂, r₂, x₂⟩ := m₂
  simp only at hc hr hx
  subst hc hr
  unfold lexEmitEof
  cases r₁ with
  | lexer l => exact rel_lexEmitNonTag h _ _ _ _ _ _ hx
  | scanner s => exact ResRel.same hx

theorem rel_andThen {r₁ : M κ₁ × Option Signal} {r₂ : M κ₂ × Option Signal}
    {g₁ : M κ₁ → M κ₁ × Option Signal} {g₂ : M κ₂ → M κ₂ × Option Signal}
    (hr : ResRel R Q r₁ r₂) (hg : ∀ m₁ m₂, MR R m₁ m₂ → ResRel R Q (g₁ m₁) (g₂ m₂)) :
    ResRel R Q (andThen r₁ g₁) (andThen r₂ g₂) := by
  unfold andThen
  rcases hr with ⟨hm, hs⟩ | habort
  · rw [hs]
    cases r₂.2 with
    | some s => exact Or.inl ⟨hm, rfl⟩
    | none => exact hg _ _ hm
  · obtain ⟨eA, hab1, hab2, hq⟩ := habort
    rw [hab1, hab2]
    exact Or.inr ⟨eA, rfl, rfl, hq⟩

theorem rel_lexEmitTagLexeme (h : OpsRelQ ops₁ ops₂ inp R Q) (c : Common) (l : LexRegs) (x₁ : Ctx κ₁) (x₂ : Ctx κ₂)
    (sim : Sim) (t : TagOutline) (e : Nat) (hx : XR R x₁ x₂) :
    ResRel R Q (lexEmitTagLexeme env₁ inp c l x₁ sim t e) (lexEmitTagLexeme env₂ inp c l x₂ sim t e) := by
  obtain ⟨hs, hsim, hpc⟩ := hx
  unfold lexEmitTagLexeme
  dsimp only
  rw [hpc]
  rcases h.handleTag ⟨x₂.prevConsumed, ⟨l.lexemeStart, e⟩, t⟩ x₁.sink x₂.sink hs with ⟨hr, hres⟩ | habort
  · rw [hres]
    left
    cases (ops₂.handleTag inp ⟨x₂.prevConsumed, ⟨l.lexemeStart, e⟩, t⟩ x₂.sink).2 with
    | error e' => exact ⟨⟨rfl, rfl, hr, rfl, by first | rfl | exact hpc⟩, rfl⟩
    | ok d => cases d <;> exact ⟨⟨rfl, rfl, hr, rfl, by first | rfl | exact hpc⟩, rfl⟩
  · obtain ⟨eA, hab1, hab2, hq⟩ := habort
    right
    rw [hab1, hab2]
    exact ⟨eA, rfl, rfl, ⟨rfl, rfl, hq, rfl, by first | rfl | exact hpc⟩⟩

theorem rel_lexEmitTag (h : OpsRelQ ops₁ ops₂ inp R Q) (c : Common) (l : LexRegs) (x₁ : Ctx κ₁) (x₂ : Ctx κ₂)
    (hx : XR R x₁ x₂) : ResRel R Q (lexEmitTag env₁ inp c l x₁) (lexEmitTag env₂ inp c l x₂) := by
  have hsim := hx.2.1
  unfold lexEmitTag
  cases l.curTag with
  | none => exact ResRel.same hx
  | some token =>
    dsimp only
    rw [hsim]
    cases lexGetFeedback cfg x₂.sim l.fd token with
    | error e => exact ResRel.same hx
    | ok sf =>
      dsimp only
      split
      · exact ResRel.same ⟨hx.1, rfl, hx.2.2⟩
      · exact rel_lexEmitTagLexeme h _ _ _ _ _ _ _ hx

theorem rel_lexAct (h : OpsRelQ ops₁ ops₂ inp R Q) (a : ActName) (c : Common) (l : LexRegs) (x₁ : Ctx κ₁) (x₂ : Ctx κ₂)
    (hx : XR R x₁ x₂) : ResRel R Q (lexAct env₁ a inp c l x₁) (lexAct env₂ a inp c l x₂) := by
  by_cases ha : a.callsSink = false
  · obtain ⟨h1, h2, h3⟩ := lexAct_nosink (tbl := tbl) (cfg := cfg) (ops₁ := ops₁) (ops₂ := ops₂) (inp := inp) a ha c l x₁ x₂
    have e1 := lexAct_x (env := env₁) (inp := inp) a ha c l x₁
    have e2 := lexAct_x (env := env₂) (inp := inp) a ha c l x₂
    exact Or.inl ⟨⟨h1, h2, by rw [e1, e2]; exact hx⟩, h3⟩
  · cases a <;> simp only [ActName.callsSink, not_true_eq_false, not_false_eq_true] at ha <;> simp only [lexAct]
    case emitText => exact rel_lexEmitText h _ _ _ _ hx
    case emitTextAndEof => exact rel_andThen (rel_lexEmitText h _ _ _ _ hx) (fun m₁ m₂ hm => rel_lexEmitEof h m₁ m₂ hm)
    case emitCurrentToken => exact rel_lexEmitNonTag h _ _ _ _ _ _ hx
    case emitCurrentTokenAndEof =>
      exact rel_andThen (rel_lexEmitNonTag h _ _ _ _ _ _ hx) (fun m₁ m₂ hm => rel_lexEmitEof h m₁ m₂ hm)
    case emitRawWithoutToken => exact rel_lexEmitNonTag h _ _ _ _ _ _ hx
    case emitRawWithoutTokenAndEof =>
      exact rel_andThen (rel_lexEmitNonTag h _ _ _ _ _ _ hx) (fun m₁ m₂ hm => rel_lexEmitEof h m₁ m₂ hm)
    case emitTag => exact rel_lexEmitTag h _ _ _ _ hx
    case finishTagName => cases l.curTag <;> exact ResRel.same hx

theorem rel_scanEmitHint (h : OpsRelQ ops₁ ops₂ inp R Q) (c : Common) (s : ScanRegs) (x₁ : Ctx κ₁) (x₂ : Ctx κ₂)
    (ts : Nat) (ie : Bool) (hx : XR R x₁ x₂) :
    ResRel R Q (scanEmitHint env₁ inp c s x₁ ts ie) (scanEmitHint env₂ inp c s x₂ ts ie) := by
  obtain ⟨hs, hsim, hpc⟩ := hx
  unfold scanEmitHint
  cases LocalName.new inp ⟨s.tagNameStart, c.pos⟩ s.tagNameHash with
  | none => exact ResRel.same ⟨hs, hsim, hpc⟩
  | some name =>
    dsimp only
    cases ie with
    | true =>
      simp only [if_true]
      rcases h.endTagHint name x₁.sink x₂.sink hs with ⟨hr, hres⟩ | habort
      · rw [hres]
        left
        cases (ops₂.endTagHint name x₂.sink).2 with
        | error e' => exact ⟨⟨rfl, rfl, hr, by first | rfl | exact hsim, by first | rfl | exact hpc⟩, rfl⟩
        | ok d => cases d <;> exact ⟨⟨rfl, rfl, hr, by first | rfl | exact hsim, by first | rfl | exact hpc⟩, rfl⟩
      · obtain ⟨eA, hab1, hab2, hq⟩ := habort
        right; rw [hab1, hab2]
        exact ⟨eA, rfl, rfl, ⟨rfl, rfl, hq, by first | rfl | exact hsim, by first | rfl | exact hpc⟩⟩
    | false =>
      simp only [Bool.false_eq_true, if_false]
      rw [hsim]
      rcases h.startTagHint name x₂.sim.currentNs x₁.sink x₂.sink hs with ⟨hr, hres⟩ | habort
      · rw [hres]
        left
        cases (ops₂.startTagHint name x₂.sim.currentNs x₂.sink).2 with
        | error e' => exact ⟨⟨rfl, rfl, hr, by first | rfl | exact hsim, by first | rfl | exact hpc⟩, rfl⟩
        | ok d => cases d <;> exact ⟨⟨rfl, rfl, hr, by first | rfl | exact hsim, by first | rfl | exact hpc⟩, rfl⟩
      · obtain ⟨eA, hab1, hab2, hq⟩ := habort
        right; rw [hab1, hab2]
        exact ⟨eA, rfl, rfl, ⟨rfl, rfl, hq, by first | rfl | exact hsim, by first | rfl | exact hpc⟩⟩

theorem rel_scanFinishTagName (h : OpsRelQ ops₁ ops₂ inp R Q) (c : Common) (s : ScanRegs) (x₁ : Ctx κ₁) (x₂ : Ctx κ₂)
    (hx : XR R x₁ x₂) : ResRel R Q (scanFinishTagName env₁ inp c s x₁) (scanFinishTagName env₂ inp c s x₂) := by
  obtain ⟨hs, hsim, hpc⟩ := hx
  unfold scanFinishTagName
  cases s.tagStart with
  | none => exact ResRel.same ⟨hs, hsim, hpc⟩
  | some tagStart =>
    dsimp only
    rw [hsim]
    generalize (if s.isInEndTag = true then x₂.sim.feedbackForEndTag cfg s.tagNameHash
      else x₂.sim.feedbackForStartTag cfg s.tagNameHash) = fb
    cases fb with
    | error e => exact ResRel.same ⟨hs, hsim, hpc⟩
    | ok sf =>
      dsimp only
      cases (scanApplyFeedback c { s with tagStart := none } sf.2).2.2 with
      | some f => exact ResRel.same ⟨hs, rfl, hpc⟩
      | none => exact rel_scanEmitHint h _ _ _ _ _ _ ⟨hs, rfl, hpc⟩

theorem rel_scanAct (h : OpsRelQ ops₁ ops₂ inp R Q) (a : ActName) (c : Common) (s : ScanRegs) (x₁ : Ctx κ₁) (x₂ : Ctx κ₂)
    (hx : XR R x₁ x₂) : ResRel R Q (scanAct env₁ a inp c s x₁) (scanAct env₂ a inp c s x₂) := by
  by_cases ha : a.callsSink = false
  · obtain ⟨h1, h2, h3⟩ := scanAct_nosink (tbl := tbl) (cfg := cfg) (ops₁ := ops₁) (ops₂ := ops₂) (inp := inp) a ha c s x₁ x₂
    have e1 := scanAct_x (env := env₁) (inp := inp) a ha c s x₁
    have e2 := scanAct_x (env := env₂) (inp := inp) a ha c s x₂
    exact Or.inl ⟨⟨h1, h2, by rw [e1, e2]; exact hx⟩, h3⟩
  · cases a <;> simp only [ActName.callsSink, not_true_eq_false, not_false_eq_true] at ha <;> simp only [scanAct]
    case finishTagName => exact rel_scanFinishTagName h _ _ _ _ hx
    all_goals exact ResRel.same hx

theorem rel_act (h : OpsRelQ ops₁ ops₂ inp R Q) (a : ActName) (m₁ : M κ₁) (m₂ : M κ₂) (hm : MR R m₁ m₂) :
    ResRel R Q (act env₁ a inp m₁) (act env₂ a inp m₂) := by
  obtain ⟨hc, hr, hx⟩ := hm
  obtain ⟨c₁, r₁, x₁⟩ := m₁
  obtain ⟨c₂, r₂, x₂⟩ := m₂
  simp only at hc hr hx
  subst hc hr
  unfold act
  cases r₁ with
  | lexer l => exact rel_lexAct h a _ l _ _ hx
  | scanner s => exact rel_scanAct h a _ s _ _ hx

theorem rel_runCalls (h : OpsRelQ ops₁ ops₂ inp R Q) (cs : List Call) (hc : cs.all Call.checked = true)
    (m₁ : M κ₁) (m₂ : M κ₂) (hm : MR R m₁ m₂) :
    ResRel R Q (runCalls env₁ inp cs m₁) (runCalls env₂ inp cs m₂) := by
  induction cs generalizing m₁ m₂ with
  | nil => exact Or.inl ⟨hm, rfl⟩
  | cons cl cs ih =>
    simp only [List.all_cons, Bool.and_eq_true] at hc
    simp only [runCalls]
    by_cases hns : cl.act.callsSink = false
    · obtain ⟨hm', hs⟩ := rel_act_nosink (tbl := tbl) (cfg := cfg) (ops₁ := ops₁) (ops₂ := ops₂) (inp := inp) cl.act hns m₁ m₂ hm
      rw [hs]
      cases (act env₂ cl.act inp m₂).2 with
      | none => exact ih hc.2 _ _ hm'
      | some s =>
        dsimp only
        split
        · exact Or.inl ⟨hm', rfl⟩
        · exact ih hc.2 _ _ hm'
    · have hq : cl.q = true := by
        have := hc.1
        simp only [Call.checked, Bool.or_eq_true, Bool.not_eq_true'] at this
        rcases this with h' | h'
        · exact absurd h' hns
        · exact h'
      rcases rel_act h cl.act m₁ m₂ hm with ⟨hm', hs⟩ | habort
      · rw [hs]
        cases (act env₂ cl.act inp m₂).2 with
        | none => exact ih hc.2 _ _ hm'
        | some s =>
          dsimp only
          rw [if_pos hq, if_pos hq]
          exact Or.inl ⟨hm', rfl⟩
      · obtain ⟨eA, hab1, hab2, hq'⟩ := habort
        rw [hab1, hab2]
        dsimp only
        rw [if_pos hq, if_pos hq]
        exact Or.inr ⟨eA, rfl, rfl, hq'⟩

/-- results of an action list with its `SeqEnd` flag -/
def ResRel3 (R : κ₁ → κ₂ → Prop) (Q : κ₁ → κ₂ → Prop) (r₁ : M κ₁ × Option Signal × SeqEnd) (r₂ : M κ₂ × Option Signal × SeqEnd) : Prop :=
  (MR R r₁.1 r₂.1 ∧ r₁.2 = r₂.2) ∨ ∃ eA, r₁.2.1 = some (.err eA) ∧ r₂.2.1 = some (.err eA) ∧ MR Q r₁.1 r₂.1

theorem rel_runSeq (h : OpsRelQ ops₁ ops₂ inp R Q) (s : ActSeq) (hc : s.calls.all Call.checked = true)
    (m₁ : M κ₁) (m₂ : M κ₂) (hm : MR R m₁ m₂) :
    ResRel3 R Q (runSeq env₁ inp s m₁) (runSeq env₂ inp s m₂) := by
  unfold runSeq
  dsimp only
  rcases rel_runCalls h s.calls hc m₁ m₂ hm with ⟨hm', hs⟩ | habort
  · rw [hs]
    cases (runCalls env₂ inp s.calls m₂).2 with
    | some sig => exact Or.inl ⟨hm', rfl⟩
    | none =>
      dsimp only
      cases s.trans with
      | none => exact Or.inl ⟨hm', rfl⟩
      | some t =>
        obtain ⟨a, b⟩ := hm'.applyTrans (tbl := tbl) (cfg := cfg) (ops₁ := ops₁) (ops₂ := ops₂) t
        exact Or.inl ⟨a, by simp only; rw [b]⟩
  · obtain ⟨eA, hab1, hab2, hq⟩ := habort
    rw [hab1, hab2]
    exact Or.inr ⟨eA, rfl, rfl, hq⟩

theorem rel_runBody (h : OpsRelQ ops₁ ops₂ inp R Q) (b : Body)
    (hc : (b.seqs.flatMap (·.calls)).all Call.checked = true) (m₁ : M κ₁) (m₂ : M κ₂) (hm : MR R m₁ m₂) :
    ResRel3 R Q (runBody env₁ inp b m₁) (runBody env₂ inp b m₂) := by
  cases b with
  | seq s =>
    simp only [Body.seqs, List.flatMap_cons, List.flatMap_nil, List.append_nil] at hc
    exact rel_runSeq h s hc m₁ m₂ hm
  | ite c t e =>
    simp only [Body.seqs, List.flatMap_cons, List.flatMap_nil, List.append_nil, List.all_append, Bool.and_eq_true] at hc
    simp only [runBody]
    rw [rel_cond c hm]
    cases cond c m₂ with
    | none => exact Or.inl ⟨hm, rfl⟩
    | some b =>
      cases b
      · exact rel_runSeq h _ hc.2 m₁ m₂ hm
      · exact rel_runSeq h _ hc.1 m₁ m₂ hm

/-- outcome of the sequence arms -/
def SumRel (R : κ₁ → κ₂ → Prop) (Q : κ₁ → κ₂ → Prop) :
    (M κ₁ × Option Signal) ⊕ M κ₁ → (M κ₂ × Option Signal) ⊕ M κ₂ → Prop
  | .inl r₁, .inl r₂ => ResRel R Q r₁ r₂
  | .inr m₁, .inr m₂ => MR R m₁ m₂
  | .inl _, .inr _ => False
  | .inr _, .inl _ => False

theorem rel_runSeqArms (h : OpsRelQ ops₁ ops₂ inp R Q) (ch : Option UInt8) (arms : List Arm) (hc : ArmsChecked arms)
    (m₁ : M κ₁) (m₂ : M κ₂) (hm : MR R m₁ m₂) :
    SumRel R Q (runSeqArms env₁ inp ch arms m₁) (runSeqArms env₂ inp ch arms m₂) := by
  induction arms generalizing m₁ m₂ with
  | nil => exact hm
  | cons arm rest ih =>
    have hrest : ArmsChecked rest := fun a ha => hc a (List.mem_cons_of_mem _ ha)
    cases hp : arm.pat with
    | chSeq bytes ic =>
      cases bytes with
      | nil =>
        simp only [runSeqArms, hp]
        exact ih hrest _ _ hm.enterSeq.leaveSeq
      | cons e0 es =>
        rw [runSeqArms_chSeq env₁ inp ch arm rest m₁ e0 es ic hp, runSeqArms_chSeq env₂ inp ch arm rest m₂ e0 es ic hp]
        have hE := hm.enterSeq
        rw [hE.1]
        cases seqFirst inp ch e0 es ic (enterSeq m₂).c with
        | needMore =>
          obtain ⟨a, b⟩ := hE.breakEoi (inp := inp)
          exact Or.inl ⟨a, b⟩
        | mismatch => exact ih hrest _ _ hE.leaveSeq
        | matched =>
          have hm' := (hE.setC (fun c => { c with nextPos := c.nextPos + es.length })).leaveSeq
          rw [hE.1] at hm'
          rcases rel_runBody (tbl := tbl) (cfg := cfg) h arm.body (hc arm List.mem_cons_self) _ _ hm' with ⟨a, b⟩ | habort
          · exact Or.inl ⟨a, by rw [b]⟩
          · exact Or.inr habort
    | _ => simp only [runSeqArms, hp]; exact ih hrest _ _ hm

theorem rel_dispatch (h : OpsRelQ ops₁ ops₂ inp R Q) (ch : Option UInt8) (arms : List Arm) (hc : ArmsChecked arms)
    (m₁ : M κ₁) (m₂ : M κ₂) (hm : MR R m₁ m₂) :
    ResRel R Q (dispatch env₁ inp ch arms m₁) (dispatch env₂ inp ch arms m₂) := by
  unfold dispatch
  have h1 := rel_runSeqArms (tbl := tbl) (cfg := cfg) h ch arms hc m₁ m₂ hm
  cases hs1 : runSeqArms env₁ inp ch arms m₁ with
  | inl r₁ =>
    cases hs2 : runSeqArms env₂ inp ch arms m₂ with
    | inl r₂ => rw [hs1, hs2] at h1; exact h1
    | inr m₂' => rw [hs1, hs2] at h1; exact absurd h1 id
  | inr m₁' =>
    cases hs2 : runSeqArms env₂ inp ch arms m₂ with
    | inl r₂ => rw [hs1, hs2] at h1; exact absurd h1 id
    | inr m₂' =>
      rw [hs1, hs2] at h1
      simp only [SumRel] at h1
      simp only
      rw [h1.1]
      cases harm : findArm tbl m₂'.c ch arms with
      | none => exact Or.inl ⟨h1, rfl⟩
      | some arm =>
        simp only
        have hbody := rel_runBody (tbl := tbl) (cfg := cfg) h arm.body (hc arm (findArm_mem harm)) m₁' m₂' h1
        have brk : ResRel R Q
            (match (runBody env₁ inp arm.body m₁').2.1, (runBody env₁ inp arm.body m₁').2.2 with
              | some sig, _ => ((runBody env₁ inp arm.body m₁').1, some sig)
              | none, .transitioned => ((runBody env₁ inp arm.body m₁').1, none)
              | none, .fell => breakOnEndOfInput inp (runBody env₁ inp arm.body m₁').1)
            (match (runBody env₂ inp arm.body m₂').2.1, (runBody env₂ inp arm.body m₂').2.2 with
              | some sig, _ => ((runBody env₂ inp arm.body m₂').1, some sig)
              | none, .transitioned => ((runBody env₂ inp arm.body m₂').1, none)
              | none, .fell => breakOnEndOfInput inp (runBody env₂ inp arm.body m₂').1) := by
          rcases hbody with ⟨a, b⟩ | habort
          · rw [b]
            cases (runBody env₂ inp arm.body m₂').2.1 with
            | some sig => exact Or.inl ⟨a, rfl⟩
            | none =>
              cases (runBody env₂ inp arm.body m₂').2.2 with
              | transitioned => exact Or.inl ⟨a, rfl⟩
              | fell =>
                obtain ⟨a', b'⟩ := a.breakEoi (inp := inp)
                exact Or.inl ⟨a', b'⟩
          · obtain ⟨eA, hab1, hab2, hq⟩ := habort
            rw [hab1, hab2]; exact Or.inr ⟨eA, rfl, rfl, hq⟩
        cases arm.pat with
        | eoc => exact brk
        | eof =>
          simp only
          split
          · exact brk
          · obtain ⟨a', b'⟩ := h1.breakEoi (inp := inp)
            exact Or.inl ⟨a', b'⟩
        | _ =>
          simp only
          rcases hbody with ⟨a, b⟩ | habort
          · exact Or.inl ⟨a, by rw [b]⟩
          · exact Or.inr habort

theorem rel_sfPre (h : OpsRelQ ops₁ ops₂ inp R Q) (sd : StateDef) (he : sd.enter.all Call.checked = true)
    (m₁ : M κ₁) (m₂ : M κ₂) (hm : MR R m₁ m₂) : ResRel R Q (sfPre env₁ inp sd m₁) (sfPre env₂ inp sd m₂) := by
  unfold sfPre
  rw [hm.1]
  split
  · rcases rel_runCalls (tbl := tbl) (cfg := cfg) h sd.enter he _ _ (hm.setC (fun c => { c with nextPos := c.nextPos + 1 })) with ⟨a, b⟩ | habort
    · rw [hm.1] at a b
      rw [b]
      cases (runCalls env₂ inp sd.enter { m₂ with c := { m₂.c with nextPos := m₂.c.nextPos + 1 } }).2 with
      | some sig => exact Or.inl ⟨a, rfl⟩
      | none => exact Or.inl ⟨a.setC (fun c => { c with nextPos := c.nextPos - 1, entered := true }), rfl⟩
    · obtain ⟨eA, hab1, hab2, hq⟩ := habort
      rw [hm.1] at hab1 hq
      rw [hab1, hab2]; exact Or.inr ⟨eA, rfl, rfl, hq⟩
  · exact Or.inl ⟨hm, rfl⟩

theorem rel_sfMain (h : OpsRelQ ops₁ ops₂ inp R Q) (sd : StateDef) (ha : ArmsChecked sd.arms)
    (m₁ : M κ₁) (m₂ : M κ₂) (hm : MR R m₁ m₂) : ResRel R Q (sfMain env₁ inp sd m₁) (sfMain env₂ inp sd m₂) := by
  have key : ∀ f : Common → Common, MR R { m₁ with c := f m₂.c } { m₂ with c := f m₂.c } := by
    intro f
    have := hm.setC f
    rw [hm.1] at this
    exact this
  unfold sfMain
  rw [hm.1]
  cases sd.memchr with
  | some needle =>
    simp only
    cases findByte needle (inp.drop m₂.c.nextPos) with
    | some p => exact rel_dispatch h _ _ ha _ _ (key (fun c => { c with nextPos := c.nextPos + 1 + p }))
    | none =>
      exact rel_dispatch h _ _ ha _ _ (key (fun c => { c with nextPos := c.nextPos + 1 + (inp.drop m₂.c.nextPos).length }))
  | none =>
    simp only
    exact rel_dispatch h _ _ ha _ _ (key (fun c => { c with nextPos := c.nextPos + 1 }))

theorem rel_stateFn (h : OpsRelQ ops₁ ops₂ inp R Q) (ht : EmitsChecked tbl = true) (m₁ : M κ₁) (m₂ : M κ₂)
    (hm : MR R m₁ m₂) : ResRel R Q (stateFn env₁ inp m₁) (stateFn env₂ inp m₂) := by
  rw [stateFn_decomp, stateFn_decomp]
  simp only
  rw [hm.1]
  cases hsd : tbl.state? m₂.c.state with
  | none => exact Or.inl ⟨hm, rfl⟩
  | some sd =>
    obtain ⟨he, ha⟩ := state_checked ht hsd
    simp only
    rcases rel_sfPre (tbl := tbl) (cfg := cfg) h sd he m₁ m₂ hm with ⟨a, b⟩ | habort
    · rw [b]
      cases (sfPre env₂ inp sd m₂).2 with
      | some sig => exact Or.inl ⟨a, rfl⟩
      | none => exact rel_sfMain h sd ha _ _ a
    · obtain ⟨eA, hab1, hab2, hq⟩ := habort
      rw [hab1, hab2]; exact Or.inr ⟨eA, rfl, rfl, hq⟩

theorem rel_runLoop (h : OpsRelQ ops₁ ops₂ inp R Q) (ht : EmitsChecked tbl = true) (n : Nat) (m₁ : M κ₁) (m₂ : M κ₂)
    (hm : MR R m₁ m₂) :
    (MR R (runLoop env₁ inp n m₁).1 (runLoop env₂ inp n m₂).1 ∧ (runLoop env₁ inp n m₁).2 = (runLoop env₂ inp n m₂).2) ∨
    ∃ eA, (runLoop env₁ inp n m₁).2 = .err eA ∧ (runLoop env₂ inp n m₂).2 = .err eA ∧
      MR Q (runLoop env₁ inp n m₁).1 (runLoop env₂ inp n m₂).1 := by
  induction n generalizing m₁ m₂ with
  | zero => exact Or.inl ⟨hm, rfl⟩
  | succ n ih =>
    simp only [runLoop]
    rcases rel_stateFn h ht m₁ m₂ hm with ⟨a, b⟩ | habort
    · rw [b]
      cases (stateFn env₂ inp m₂).2 with
      | some sig => exact Or.inl ⟨a, rfl⟩
      | none => exact ih _ _ a
    · obtain ⟨eA, hab1, hab2, hq⟩ := habort
      rw [hab1, hab2]; exact Or.inr ⟨eA, rfl, rfl, hq⟩

theorem store_Q {p₁ : Parser κ₁} {p₂ : Parser κ₂} (hp : PR R p₁ p₂) {m₁ : M κ₁} {m₂ : M κ₂} (hm : MR Q m₁ m₂) :
    PR Q (p₁.store m₁) (p₂.store m₂) := by
  obtain ⟨a, b, c, d, e, f⟩ := hp
  obtain ⟨hc, hr, hx⟩ := hm
  unfold Parser.store
  rw [hr]
  cases m₂.r with
  | lexer l => exact ⟨hc, rfl, c, d, e, hx⟩
  | scanner s => exact ⟨a, b, hc, rfl, e, hx⟩

/-- **Parametricity of `Parser::parse` in the sink, both runs kept at an abort.** -/
theorem parseLoop_relQ (h : OpsRelQ ops₁ ops₂ inp R Q) (ht : EmitsChecked tbl = true)
    (last : Bool) (n : Nat) (p₁ : Parser κ₁) (p₂ : Parser κ₂) (hp : PR R p₁ p₂) :
    (PR R (Parser.parseLoop env₁ inp last n p₁).1 (Parser.parseLoop env₂ inp last n p₂).1 ∧
      (Parser.parseLoop env₁ inp last n p₁).2 = (Parser.parseLoop env₂ inp last n p₂).2) ∨
    ∃ eA, (Parser.parseLoop env₁ inp last n p₁).2 = .error (parseErr eA) ∧
      (Parser.parseLoop env₂ inp last n p₂).2 = .error (parseErr eA) ∧
      PR Q (Parser.parseLoop env₁ inp last n p₁).1 (Parser.parseLoop env₂ inp last n p₂).1 := by
  induction n generalizing p₁ p₂ with
  | zero => exact Or.inl ⟨hp, rfl⟩
  | succ n ih =>
    simp only [Parser.parseLoop]
    rcases rel_runLoop h ht (defaultFuel inp) _ _ (hp.machine last) with ⟨a, b⟩ | habort
    · rw [b]
      have hst := hp.store a
      cases (runLoop env₂ inp (defaultFuel inp) (p₂.machine last)).2 with
      | endOfInput consumed =>
        simp only
        obtain ⟨s1, s2, s3, s4, s5, s6, s7, s8⟩ := hst
        refine Or.inl ⟨⟨s1, s2, s3, s4, s5, s6, s7, ?_⟩, ?_⟩
        · simp only; rw [s8]
        · first | rfl | trivial
      | directive d bm => exact ih _ _ (hst.loadBookmark d bm)
      | err e => cases e <;> exact Or.inl ⟨hst, rfl⟩
    · obtain ⟨eA, hab1, hab2, hq⟩ := habort
      rw [hab1, hab2]
      cases eA with
      | ambiguity t => exact Or.inr ⟨.ambiguity t, rfl, rfl, store_Q hp hq⟩
      | handler => exact Or.inr ⟨.handler, rfl, rfl, store_Q hp hq⟩
      | mem => exact Or.inr ⟨.mem, rfl, rfl, store_Q hp hq⟩
      | internal st => exact Or.inr ⟨.internal st, rfl, rfl, store_Q hp hq⟩
      | panic st => exact Or.inr ⟨.panic st, rfl, rfl, store_Q hp hq⟩

theorem parse_relQ (h : OpsRelQ ops₁ ops₂ inp R Q) (ht : EmitsChecked tbl = true)
    (last : Bool) (p₁ : Parser κ₁) (p₂ : Parser κ₂) (hp : PR R p₁ p₂) :
    (PR R (Parser.parse env₁ inp last p₁).1 (Parser.parse env₂ inp last p₂).1 ∧
      (Parser.parse env₁ inp last p₁).2 = (Parser.parse env₂ inp last p₂).2) ∨
    ∃ eA, (Parser.parse env₁ inp last p₁).2 = .error (parseErr eA) ∧
      (Parser.parse env₂ inp last p₂).2 = .error (parseErr eA) ∧
      PR Q (Parser.parse env₁ inp last p₁).1 (Parser.parse env₂ inp last p₂).1 :=
  parseLoop_relQ h ht last _ p₁ p₂ hp

end
end LolHtml.Model.RelQ

/-! ### two sinks that agree on the states with an invariant -/

namespace LolHtml.Model.RelQ
open LolHtml LolHtml.Model

variable {κ : Type}

/-- `ops₁` and `ops₂` do the same on every state with `J` — failures included — and `J` holds again after a success
(nothing is required after a failure) -/
structure OpsAgree (ops₁ ops₂ : SinkOps κ) (inp : Bytes) (J : κ → Prop) : Prop where
  handleTag : ∀ lx k, J k → ops₁.handleTag inp lx k = ops₂.handleTag inp lx k ∧
    ∀ a, (ops₁.handleTag inp lx k).2 = .ok a → J (ops₁.handleTag inp lx k).1
  handleNonTag : ∀ lx k, J k → ops₁.handleNonTag inp lx k = ops₂.handleNonTag inp lx k ∧
    ∀ a, (ops₁.handleNonTag inp lx k).2 = .ok a → J (ops₁.handleNonTag inp lx k).1
  startTagHint : ∀ n ns k, J k → ops₁.startTagHint n ns k = ops₂.startTagHint n ns k ∧
    ∀ a, (ops₁.startTagHint n ns k).2 = .ok a → J (ops₁.startTagHint n ns k).1
  endTagHint : ∀ n k, J k → ops₁.endTagHint n k = ops₂.endTagHint n k ∧
    ∀ a, (ops₁.endTagHint n k).2 = .ok a → J (ops₁.endTagHint n k).1

theorem relQ_of_eq {α : Type} {J : κ → Prop} {r₁ r₂ : κ × Except Err α} (he : r₁ = r₂) (hJ : ∀ a, r₁.2 = .ok a → J r₁.1) :
    ((fun a b => a = b ∧ J a) r₁.1 r₂.1 ∧ r₁.2 = r₂.2) ∨
    ∃ eA, r₁.2 = .error eA ∧ r₂.2 = .error eA ∧ (fun a b : κ => a = b) r₁.1 r₂.1 := by
  subst he
  cases hr : r₁.2 with
  | ok a => exact Or.inl ⟨⟨rfl, hJ a hr⟩, rfl⟩
  | error e => exact Or.inr ⟨e, rfl, rfl, rfl⟩

theorem OpsAgree.toQ {ops₁ ops₂ : SinkOps κ} {inp : Bytes} {J : κ → Prop} (h : OpsAgree ops₁ ops₂ inp J) :
    OpsRelQ ops₁ ops₂ inp (fun a b => a = b ∧ J a) (fun a b => a = b) where
  handleTag := fun lx k₁ k₂ hk => by
    obtain ⟨rfl, hj⟩ := hk
    exact relQ_of_eq (h.handleTag lx k₁ hj).1 (h.handleTag lx k₁ hj).2
  handleNonTag := fun lx k₁ k₂ hk => by
    obtain ⟨rfl, hj⟩ := hk
    exact relQ_of_eq (h.handleNonTag lx k₁ hj).1 (h.handleNonTag lx k₁ hj).2
  startTagHint := fun n ns k₁ k₂ hk => by
    obtain ⟨rfl, hj⟩ := hk
    exact relQ_of_eq (h.startTagHint n ns k₁ hj).1 (h.startTagHint n ns k₁ hj).2
  endTagHint := fun n k₁ k₂ hk => by
    obtain ⟨rfl, hj⟩ := hk
    exact relQ_of_eq (h.endTagHint n k₁ hj).1 (h.endTagHint n k₁ hj).2

theorem PR_eq {p₁ p₂ : Parser κ} (hp : PR (fun a b : κ => a = b) p₁ p₂) : p₁ = p₂ := by
  obtain ⟨a, b, c, d, e, f1, f2, f3⟩ := hp
  obtain ⟨lc, lr, sc, sr, dr, ⟨sk, sm, pc⟩⟩ := p₁
  obtain ⟨lc', lr', sc', sr', dr', ⟨sk', sm', pc'⟩⟩ := p₂
  simp only at a b c d e f1 f2 f3
  subst a b c d e f1 f2 f3
  rfl

/-- **`Parser::parse` over two sinks that agree on the states with the invariant IS the same parse** — same final parser
(sink included), same result, failing parses included; after a successful parse the invariant holds again. -/
theorem parse_eq_of_agree {tbl : Table} {cfg : TagCfg} {ops₁ ops₂ : SinkOps κ} {inp : Bytes} {J : κ → Prop}
    (h : OpsAgree ops₁ ops₂ inp J) (ht : EmitsChecked tbl = true) (last : Bool) (p : Parser κ) (hJ : J p.x.sink) :
    Parser.parse ⟨tbl, cfg, ops₁⟩ inp last p = Parser.parse ⟨tbl, cfg, ops₂⟩ inp last p ∧
    ∀ n, (Parser.parse ⟨tbl, cfg, ops₁⟩ inp last p).2 = .ok n → J (Parser.parse ⟨tbl, cfg, ops₁⟩ inp last p).1.x.sink := by
  rcases parse_relQ (tbl := tbl) (cfg := cfg) h.toQ ht last p p ⟨rfl, rfl, rfl, rfl, rfl, ⟨rfl, hJ⟩, rfl, rfl⟩ with
    ⟨hp, hres⟩ | ⟨e, h1, h2, hp⟩
  · obtain ⟨a, b, c, d, e, ⟨f1, fj⟩, f2, f3⟩ := hp
    exact ⟨Prod.ext (PR_eq ⟨a, b, c, d, e, f1, f2, f3⟩) hres, fun _ _ => fj⟩
  · refine ⟨Prod.ext (PR_eq hp) (by rw [h1, h2]), fun n hn => ?_⟩
    rw [h1] at hn; cases hn

end LolHtml.Model.RelQ
