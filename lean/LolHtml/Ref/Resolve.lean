import LolHtml.Model.Syntax
/-!
# Per-byte resolution of a tokenizer table (for comparing two tables by behaviour)

`resolve t s q l c` is what one invocation of the state function of state `s` does in table `t`
(`Model.stateFn` → `Model.dispatch`, lean/LolHtml/Model/SM.lean) when the consumed byte is `c`
(`none` = the input is exhausted), the closing-quote register holds `"` (`q = true`) or `'`, and the
chunk is the last one (`l`):

* the look-ahead sequence arms that are tried first (`runSeqArms`): those whose first byte matches `c`,
  in source order, each with its resolved body; `needMore` when the input is exhausted on a non-last
  chunk and the state has a sequence arm (the state function breaks before looking at any arm);
* the first ordinary arm whose pattern matches (`findArm`), with how `dispatch` runs it
  (`run`; `runBreak` for `eoc` / `eof` on the last chunk — break if the body does not transition;
  `eof` on a non-last chunk breaks without running the body, i.e. `runBreak` of the empty body);
* for a `memchr(b)` state a byte other than `b` is never dispatched: the state function skips it,
  which is the behaviour of an arm `_ => ()` — `run` of the empty body.

Transition targets are resolved to state **names**, so tables listing their states in different
orders compare equal; `#[inline]` does not exist at this level; the order of arms only matters through
"first match wins".
-/
namespace LolHtml.Ref
open LolHtml.Model

/-- transition with the target by name -/
inductive RTrans
  | stay
  | goto (name : String)
  | dyn
  | reconsume (name : String)
  | badTarget (s : StateId)
  deriving DecidableEq, Repr, Inhabited

structure RSeq where
  calls : List Call
  trans : RTrans
  deriving DecidableEq, Repr, Inhabited

inductive RBody
  | seq (s : RSeq)
  | ite (c : Cond) (t e : RSeq)
  deriving DecidableEq, Repr, Inhabited

/-- how `dispatch` treats the selected arm -/
inductive RKind
  | run        -- run the body; the loop continues
  | runBreak   -- run the body; if it does not transition: `break_on_end_of_input`
  | noArm      -- non-exhaustive match (panic)
  | noState    -- unknown state
  deriving DecidableEq, Repr, Inhabited

/-- a look-ahead arm: bytes (folded to upper case bit pattern when case-insensitive), flag, body -/
structure RSeqArm where
  bytes : List UInt8
  ignoreCase : Bool
  body : RBody
  deriving DecidableEq, Repr, Inhabited

structure ResolvedArm where
  /-- the input is exhausted, more may come, and a sequence arm wants to look ahead -/
  needMore : Bool
  seqArms : List RSeqArm
  kind : RKind
  body : RBody
  enter : List Call
  deriving DecidableEq, Repr, Inhabited

/-- field-wise Boolean equality (much cheaper for the kernel than the derived `DecidableEq`) -/
def ResolvedArm.eqb (x y : ResolvedArm) : Bool :=
  x.needMore == y.needMore && x.kind == y.kind && x.enter == y.enter && x.body == y.body
  && x.seqArms == y.seqArms

def emptyBody : RBody := .seq ⟨[], .stay⟩

def nameOf (t : Table) (s : StateId) : Option String := (t.states[s]?).map (·.name)

def resolveTrans (t : Table) : Option Trans → RTrans
  | none => .stay
  | some .gotoDyn => .dyn
  | some (.goto s) => match nameOf t s with | some n => .goto n | none => .badTarget s
  | some (.reconsume s) => match nameOf t s with | some n => .reconsume n | none => .badTarget s

def resolveSeq (t : Table) (s : ActSeq) : RSeq := ⟨s.calls, resolveTrans t s.trans⟩

def resolveBody (t : Table) : Body → RBody
  | .seq s => .seq (resolveSeq t s)
  | .ite c a b => .ite c (resolveSeq t a) (resolveSeq t b)

/-- `Model.seqCmp` -/
def seqCmp (ch exp : UInt8) (ignoreCase : Bool) : Bool :=
  ch == exp || (ignoreCase && ch == (exp ^^^ 0x20))

/-- canonical spelling of a case-insensitive sequence: bit 5 cleared (`seqCmp` accepts `e` and `e ^^^ 0x20`) -/
def foldSeq (ic : Bool) (bytes : List UInt8) : List UInt8 :=
  if ic then bytes.map (· &&& 0xDF) else bytes

/-- the sequence arms whose first byte is `c` -/
def seqArmsFor (t : Table) (c : UInt8) : List Arm → List RSeqArm
  | [] => []
  | a :: rest =>
    match a.pat with
    | .chSeq (e0 :: es) ic =>
      if seqCmp c e0 ic then ⟨foldSeq ic (e0 :: es), ic, resolveBody t a.body⟩ :: seqArmsFor t c rest
      else seqArmsFor t c rest
    | _ => seqArmsFor t c rest

def hasSeqArm : List Arm → Bool
  | [] => false
  | a :: rest => (match a.pat with | .chSeq (_ :: _) _ => true | _ => false) || hasSeqArm rest

/-- `Model.patMatches` for a consumed byte `x`, with the closing quote as a parameter
(`eoc` / `eof` / sequence patterns never match a byte) -/
def matchesByte (t : Table) (quote : UInt8) (x : UInt8) : Pat → Bool
  | .byte b => x == b
  | .alpha => t.alpha.any (fun r => r.1 ≤ x && x ≤ r.2)
  | .whitespace => t.whitespace.contains x
  | .closingQuote => x == quote
  | .any => true
  | .eoc | .eof | .chSeq .. => false

/-- `Model.findArm` for a consumed byte -/
def findByteArm (t : Table) (quote : UInt8) (x : UInt8) : List Arm → Option Arm
  | [] => none
  | a :: rest => if matchesByte t quote x a.pat then some a else findByteArm t quote x rest

/-- `Model.patMatches` when the input is exhausted (`ch = none`) -/
def matchesEnd (isLast : Bool) : Pat → Bool
  | .eoc => !isLast
  | .eof => true
  | _ => false

/-- `Model.findArm` when the input is exhausted -/
def findEndArm (isLast : Bool) : List Arm → Option Arm
  | [] => none
  | a :: rest => if matchesEnd isLast a.pat then some a else findEndArm isLast rest

def quoteOf (q : Bool) : UInt8 := if q then 34 else 39

/-- state `sd` on the consumed byte `x` -/
def resolveSome (t : Table) (sd : StateDef) (quote : UInt8) (x : UInt8) : ResolvedArm :=
  let skip : Bool := match sd.memchr with
    | some needle => x != needle
    | none => false
  if skip then ⟨false, [], .run, emptyBody, sd.enter⟩ else
  match findByteArm t quote x sd.arms with
  | none => ⟨false, seqArmsFor t x sd.arms, .noArm, emptyBody, sd.enter⟩
  | some arm => ⟨false, seqArmsFor t x sd.arms, .run, resolveBody t arm.body, sd.enter⟩

/-- state `sd` when the input is exhausted -/
def resolveNone (t : Table) (sd : StateDef) (l : Bool) : ResolvedArm :=
  if !l && hasSeqArm sd.arms then ⟨true, [], .runBreak, emptyBody, sd.enter⟩ else
  match findEndArm l sd.arms with
  | none => ⟨false, [], .noArm, emptyBody, sd.enter⟩
  | some arm =>
    match arm.pat with
    | .eof => ⟨false, [], .runBreak, if l then resolveBody t arm.body else emptyBody, sd.enter⟩
    | _ => ⟨false, [], .runBreak, resolveBody t arm.body, sd.enter⟩

def resolveDef (t : Table) (sd : StateDef) (q l : Bool) : Option UInt8 → ResolvedArm
  | some x => resolveSome t sd (quoteOf q) x
  | none => resolveNone t sd l

/-- The resolved behaviour of state `s` of table `t` on input class `c`. -/
def resolve (t : Table) (s : StateId) (q l : Bool) (c : Option UInt8) : ResolvedArm :=
  match t.states[s]? with
  | none => ⟨false, [], .noState, emptyBody, []⟩
  | some sd => resolveDef t sd q l c

def findState (name : String) : List StateDef → Option StateDef
  | [] => none
  | sd :: rest => if sd.name == name then some sd else findState name rest

/-- the same, the state given by name -/
def resolveByName (t : Table) (name : String) (q l : Bool) (c : Option UInt8) : ResolvedArm :=
  match findState name t.states with
  | none => ⟨false, [], .noState, emptyBody, []⟩
  | some sd => resolveDef t sd q l c

/-- name of the text state selected by `--> dyn next_text_parsing_state` for each text type,
in the order data, plaintext, rcdata, rawtext, script data, cdata section -/
def textStateNames (t : Table) : List (Option String) :=
  [t.dataState, t.plaintextState, t.rcdataState, t.rawtextState, t.scriptDataState, t.cdataSectionState].map (nameOf t)

/-! ### Whole-table comparison -/

def allInputs : List (Option UInt8) := none :: (List.range 256).map fun n => some (UInt8.ofNat n)

def bools : List Bool := [true, false]

def allBytes : List UInt8 := (List.range 256).map UInt8.ofNat

/-- two state definitions resolve alike on every input class. Checked: every byte with closing quote
`"`; the bytes `"` and `'` also with closing quote `'` (no other byte can match `closing_quote`);
exhausted input on a last and on a non-last chunk. `defAgrees_sound` (Lemmas/RefResolve.lean)
shows that this covers all `(q, l, c)`. -/
def defAgrees (g r : Table) (sg sr : StateDef) : Bool :=
  (allBytes.all fun x => (resolveSome g sg 34 x).eqb (resolveSome r sr 34 x))
  && ([34, 39].all fun x => (resolveSome g sg 39 x).eqb (resolveSome r sr 39 x))
  && (bools.all fun l => (resolveNone g sg l).eqb (resolveNone r sr l))

/-- the state called `name` exists in both tables and resolves alike (the state is looked up once) -/
def stateAgrees (g r : Table) (name : String) : Bool :=
  match findState name g.states, findState name r.states with
  | some sg, some sr => defAgrees g r sg sr
  | _, _ => false

def namesOf (t : Table) : List String := t.states.map (·.name)

/-- every state of `g` has a like-named state in `r` that resolves alike on every input class, `r` has
no further state names, and `dyn` selects like-named states -/
def tablesAgree (g r : Table) : Bool :=
  (namesOf g).all (stateAgrees g r) && (namesOf r).all (fun n => (namesOf g).contains n)
  && textStateNames g == textStateNames r

/-- `tablesAgree` restricted to the states `start, …, start + len - 1` of `g` (to split the kernel
computation into steps of a few seconds) -/
def statesAgreeFrom (g r : Table) (start len : Nat) : Bool :=
  (((namesOf g).drop start).take len).all (stateAgrees g r)

/-- Bool checker witness: the names of the states of `g` (with their index) that have no like-named
agreeing state in `r`. -/
def tablesAgreeWitness (g r : Table) : List (Nat × String) :=
  ((List.range g.states.length).zip (namesOf g)).filter fun p => !stateAgrees g r p.2

/-! ### Diagnostics -/

def hex2 (b : UInt8) : String :=
  let d (n : Nat) : Char := if n < 10 then Char.ofNat (48 + n) else Char.ofNat (87 + n)
  String.ofList [d (b.toNat / 16), d (b.toNat % 16)]

def showInput : Option UInt8 → String
  | none => "end-of-input"
  | some b =>
    if 33 ≤ b.toNat && b.toNat ≤ 126 then s!"byte 0x{hex2 b} '{Char.ofNat b.toNat}'" else s!"byte 0x{hex2 b}"

def showFlags (q l : Bool) : String :=
  s!"closing_quote={if q then "\"" else "'"} {if l then "last-chunk" else "more-input"}"

/-- maximal runs of consecutive numbers in an ascending list -/
def runs : List Nat → List (Nat × Nat)
  | [] => []
  | n :: rest =>
    match runs rest with
    | (a, b) :: more => if a == n + 1 then (n, b) :: more else (n, n) :: (a, b) :: more
    | [] => [(n, n)]

def showRun (r : Nat × Nat) : String :=
  if r.1 == r.2 then showInput (some (UInt8.ofNat r.1))
  else s!"bytes 0x{hex2 (UInt8.ofNat r.1)}-0x{hex2 (UInt8.ofNat r.2)}"

def badFlags (g r : Table) (name : String) (c : Option UInt8) : List (Bool × Bool) :=
  bools.flatMap fun q => bools.flatMap fun l =>
    if resolveByName g name q l c == resolveByName r name q l c then [] else [(q, l)]

/-- the differing inputs of one state, as text: an input differing under all four register settings
is listed without them, and consecutive such bytes are listed as a range -/
def stateDiff (g r : Table) (name : String) : List String :=
  let partial_ (c : Option UInt8) : List String :=
    let bad := badFlags g r name c
    if bad.length == 4 then [] else bad.map fun (q, l) => s!"{showInput c} [{showFlags q l}]"
  let full := (List.range 256).filter fun n => (badFlags g r name (some (UInt8.ofNat n))).length == 4
  (if (badFlags g r name none).length == 4 then ["end-of-input"] else [])
  ++ (runs full).map showRun ++ allInputs.flatMap partial_

def dedup (xs : List String) : List String :=
  xs.foldl (fun acc x => if acc.contains x then acc else acc ++ [x]) []

/-- `(state, input class)` pairs on which the two tables differ (empty iff `tablesAgree`, apart
from the `dyn` text-state check which is reported as state `"<dyn>"`). -/
def tableDiffWitness (g r : Table) : List (String × String) :=
  (dedup (namesOf g ++ namesOf r)).flatMap (fun n => (stateDiff g r n).map fun d => (n, d))
  ++ (if textStateNames g == textStateNames r then [] else [("<dyn>", "text state names differ")])

/-- long form of one difference, for reports -/
def explain (g r : Table) (name : String) (q l : Bool) (c : Option UInt8) : String :=
  s!"{name} on {showInput c} [{showFlags q l}]:\n  code: {repr (resolveByName g name q l c)}\n  ref : {repr (resolveByName r name q l c)}"

end LolHtml.Ref
