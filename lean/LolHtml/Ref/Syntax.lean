import LolHtml.Model.Syntax
/-!
# Reference tokenizer table — WHATWG HTML §13.2.5 written in lol-html's DSL vocabulary

Hand-written from the standard (living standard, "Tokenization", states 13.2.5.1 – 13.2.5.71), *not*
from the Rust sources. One `StateDef` per lol-html state, carrying the same state name so that
`C03_table_matches_reference` (lean/LolHtml/Thm/C03_Ref.lean) can compare the table generated from
`/repo/src/parser/state_machine/syntax/**` with this one **by state name, per input byte**.
The states are listed in the order of the standard, which is not the order of the Rust sources.

## How the standard's wording is rendered (uniform rules)

* R-text. Character tokens are not produced one by one. Text is "everything between two lexemes":
  `emit_text?` flushes the bytes from the end of the previous lexeme up to (excluding) the current
  byte as one text lexeme. It is called (a) on the `<` (or `]` in CDATA) that may start a non-text
  construct, (b) on every arm that decides that a construct tentatively opened by such a byte is text
  after all ("emit a U+003C character token … reconsume in the X state"), (c) at the end of a chunk
  in the six states a text run can start in (`eoc`), (d) at end of input in every state in which
  the standard emits only character tokens before the end-of-file token (`emit_text_and_eof?`).
  Where text lexemes are cut is not observable in the WHATWG token stream.
* R-mark. `mark_tag_start` on the `<` after which a tag can follow (tag scanner: the bytes from here
  on must be kept until the tag is recognised); `unmark_tag_start` on every arm that decides that
  no tag follows (`<!`, `<?`, `</>`, `</` + non-letter, `<` + non-letter, inappropriate end tag).
* R-part. A token field that is a substring of the input is a range: `start_token_part` at its first
  byte (as an *enter* action when the first byte is the next one to be consumed),
  `finish_tag_name?` / `finish_attr_name` / `finish_attr_value` / `finish_doctype_*` /
  `mark_comment_text_end` at the byte following its last byte. "Append the current input character
  to …" is therefore no action, except for the tag name, where `update_tag_name_hash` folds the
  character into the name hash.
* R-eof. "This is an eof-in-tag parse error. Emit an end-of-file token": the bytes of the unfinished
  tag produce no token: `emit_raw_without_token_and_eof?`. Unfinished comment / DOCTYPE: the
  standard emits the token: `emit_current_token_and_eof?`. The pattern `eof` only fires on the last
  chunk; elsewhere it means "wait for more input".
* R-q. An action whose Rust signature returns `ActionResult` (all `emit_*`, `finish_tag_name`) is
  always invoked with `?` (`fallible`).

## Deviations of lol-html's *design* from the standard's state list (each is reproduced here)

* D1 No character-reference states (13.2.5.72–80) and no U+0000 → U+FFFD replacement: lol-html hands out
  raw bytes; `&` and NUL are ordinary bytes in data, RCDATA and attribute values. Token *boundaries*
  do not depend on character references (a reference never contains `<`, `>`, quotes or whitespace
  that would be interpreted: the return state is resumed after it).
* D2 No input-stream preprocessing: CR is not normalised to LF; instead CR is a member of the
  `whitespace` class. Equivalent for tokenisation because a CR always becomes (part of) an LF.
* D3 "After attribute value (quoted) state" (13.2.5.39) is folded into "before attribute name"
  (13.2.5.32): on every input the two states behave alike (whitespace: ignore / go to before attribute name;
  `/`: self-closing start tag; `>`: emit; EOF: eof-in-tag; anything else: reconsume in before
  attribute name = start an attribute); only a parse error differs.
* D4 Look-ahead sequences instead of one state per character: `--` (markup declaration open, which
  already is a look-ahead in the standard; script data escape start + escape start dash
  13.2.5.18/19; script data escaped + escaped dash 13.2.5.20/21; script data double escaped + double
  escaped dash 13.2.5.27/28), `DOCTYPE`, `[CDATA[`, `PUBLIC`, `SYSTEM` (look-aheads in the standard
  too), `]>` in the CDATA-section bracket state (13.2.5.70/71: `]]>`, where a further `]` re-enters
  the bracket state through "reconsume in CDATA section"). A lone `-` / `]` that is not followed by
  the rest of the sequence is ordinary text in the state it was seen in, which is what the
  one-character states of the standard do with it.
* D5 Script data double escape start / end (13.2.5.26 / 13.2.5.31) compare a *temporary buffer* with
  "script" when a delimiter (whitespace, `/`, `>`) arrives. lol-html matches the look-ahead sequence
  `SCRIPT` (ASCII case-insensitive) right after `<` (resp. `</`, in the extra state
  `script_data_double_escaped_end_tag_name_state`) and then checks the delimiter in one state
  (`…double_escaped_start_state`, `…double_escaped_end_state`); letters that are not followed by a
  delimiter, or a name other than `script`, are text of the state we came from in both formulations.
* D6 One state for the DOCTYPE public (system) identifier instead of a double- and a single-quoted
  one; the expected closing quote is a register (`set_closing_quote_to_double/single`, pattern
  `closing_quote`).
* D7 "Switch to the data state. Emit the current tag token": the tree construction stage may switch
  the tokenizer (RCDATA / RAWTEXT / script data / PLAINTEXT, CDATA allowed) while processing the
  tag (§13.2.6). lol-html gets this from the tree-builder simulator inside `emit_tag?`, so **every**
  arm that emits a tag continues with `--> dyn next_text_parsing_state`, never with the data state.
* D8 "Reconsume in the tag name state" after creating a tag token on a letter is rendered as
  `start_token_part, update_tag_name_hash --> tag name` (the letter is not special there).
* D9 memchr fast paths (`data`, `rcdata`, `rawtext`, `script_data`, `cdata_section`, quoted
  attribute values, bogus comment, bogus DOCTYPE) are written here as plain states with `_ => ()`;
  `resolve` treats a byte other than the needle of a memchr state as "consumed, no action, stay".

## Idiosyncrasies of the Rust table that are reproduced although the rules above would not produce them

Marked `-- I<n>:` at the arms. Each is behaviourally equivalent to the arm the rules give; replacing
them by the rule-generated arms makes `tableDiffWitness` list exactly these arms (checked once, see
docs/pkg-ref.md), i.e. they are the complete set of places where the code is not "standard + rules":

* I1 `tag_open` on `?`: `-->` bogus comment instead of `reconsume in` (the byte is not `>`).
* I2 `script_data_(double_)escaped_dash_dash` on `>`: `emit_text?; reconsume in script_data` instead of
  `--> script_data` (`>` is plain text there; one more text-lexeme cut).
* I3 `script_data_double_escaped` on `<`: `emit_text?` although no tag can follow (and the dash-dash
  sibling state does not do it); one more text-lexeme cut.
* I4 `create_comment` for `<!--` is an enter action of `comment_start` instead of an action of the `--` arm.
* I5 redundant `mark_comment_text_end` in `comment` (`_`), all arms of `comment_less_than_sign`, and the
  non-`-` arms of `comment_less_than_sign_bang`: every path to an emission re-marks the end.
* I6 `doctype` on `>`: the `>` arm of `before_doctype_name` inlined instead of `reconsume in`.
* I7 "reconsume in bogus DOCTYPE" rendered as `-->` (the byte is never `>` on these arms).
* I8 redundant `shift_comment_text_end_by` on the `_` arms of `comment_end` / `comment_end_bang` (the
  comment state re-marks the end before any emission).
-/
namespace LolHtml.Ref.Syntax
open LolHtml.Model

/-- R-q: the actions returning `ActionResult` (state_machine/mod.rs, trait `StateMachineActions`). -/
def fallible : ActName → Bool
  | .emitTextAndEof | .emitText | .emitCurrentToken | .emitTag | .emitCurrentTokenAndEof
  | .emitRawWithoutToken | .emitRawWithoutTokenAndEof | .finishTagName => true
  | _ => false

def calls (as : List ActName) : List Call := as.map fun a => ⟨a, fallible a⟩
/-- actions, stay in the state -/
def stay (as : List ActName) : Body := .seq ⟨calls as, none⟩
/-- actions, switch to state `s` -/
def to (as : List ActName) (s : StateId) : Body := .seq ⟨calls as, some (.goto s)⟩
/-- actions, reconsume in state `s` -/
def re (as : List ActName) (s : StateId) : Body := .seq ⟨calls as, some (.reconsume s)⟩
/-- actions, continue in the text state chosen by the tree-builder feedback (D7) -/
def dyn (as : List ActName) : Body := .seq ⟨calls as, some .gotoDyn⟩
def Body.first : Body → ActSeq
  | .seq s => s
  | .ite _ t _ => t
/-- `if cond ( t ) else ( e )` -/
def ifThen (c : Cond) (t e : Body) : Body := .ite c (Body.first t) (Body.first e)

/-! State numbers: position in `states` below (order of the standard). -/
namespace S
abbrev data : StateId := 0
abbrev rcdata : StateId := 1
abbrev rawtext : StateId := 2
abbrev scriptData : StateId := 3
abbrev plaintext : StateId := 4
abbrev tagOpen : StateId := 5
abbrev endTagOpen : StateId := 6
abbrev tagName : StateId := 7
abbrev rcdataLt : StateId := 8
abbrev rcdataEndTagOpen : StateId := 9
abbrev rcdataEndTagName : StateId := 10
abbrev rawtextLt : StateId := 11
abbrev rawtextEndTagOpen : StateId := 12
abbrev rawtextEndTagName : StateId := 13
abbrev scriptLt : StateId := 14
abbrev scriptEndTagOpen : StateId := 15
abbrev scriptEndTagName : StateId := 16
abbrev scriptEscapeStart : StateId := 17
abbrev scriptEscaped : StateId := 18
abbrev scriptEscapedDashDash : StateId := 19
abbrev scriptEscapedLt : StateId := 20
abbrev scriptEscapedEndTagOpen : StateId := 21
abbrev scriptEscapedEndTagName : StateId := 22
abbrev scriptDoubleEscapeStart : StateId := 23
abbrev scriptDoubleEscaped : StateId := 24
abbrev scriptDoubleEscapedDashDash : StateId := 25
abbrev scriptDoubleEscapedLt : StateId := 26
abbrev scriptDoubleEscapedEndTagName : StateId := 27
abbrev scriptDoubleEscapeEnd : StateId := 28
abbrev beforeAttrName : StateId := 29
abbrev attrName : StateId := 30
abbrev afterAttrName : StateId := 31
abbrev beforeAttrValue : StateId := 32
abbrev attrValueDq : StateId := 33
abbrev attrValueSq : StateId := 34
abbrev attrValueUnq : StateId := 35
abbrev selfClosing : StateId := 36
abbrev bogusComment : StateId := 37
abbrev markupDeclOpen : StateId := 38
abbrev commentStart : StateId := 39
abbrev commentStartDash : StateId := 40
abbrev comment : StateId := 41
abbrev commentLt : StateId := 42
abbrev commentLtBang : StateId := 43
abbrev commentLtBangDash : StateId := 44
abbrev commentLtBangDashDash : StateId := 45
abbrev commentEndDash : StateId := 46
abbrev commentEnd : StateId := 47
abbrev commentEndBang : StateId := 48
abbrev doctype : StateId := 49
abbrev beforeDoctypeName : StateId := 50
abbrev doctypeName : StateId := 51
abbrev afterDoctypeName : StateId := 52
abbrev afterDoctypePublicKw : StateId := 53
abbrev beforeDoctypePublicId : StateId := 54
abbrev doctypePublicId : StateId := 55
abbrev afterDoctypePublicId : StateId := 56
abbrev betweenDoctypeIds : StateId := 57
abbrev afterDoctypeSystemKw : StateId := 58
abbrev beforeDoctypeSystemId : StateId := 59
abbrev doctypeSystemId : StateId := 60
abbrev afterDoctypeSystemId : StateId := 61
abbrev bogusDoctype : StateId := 62
abbrev cdataSection : StateId := 63
abbrev cdataSectionBracket : StateId := 64
end S

/-! Byte names. -/
abbrev cBang : UInt8 := 33      -- !
abbrev cDq : UInt8 := 34        -- "
abbrev cSq : UInt8 := 39        -- '
abbrev cDash : UInt8 := 45      -- -
abbrev cSlash : UInt8 := 47     -- /
abbrev cLt : UInt8 := 60        -- <
abbrev cEq : UInt8 := 61        -- =
abbrev cGt : UInt8 := 62        -- >
abbrev cQm : UInt8 := 63        -- ?
abbrev cRb : UInt8 := 93        -- ]
def sDashDash : List UInt8 := [45, 45]
def sScript : List UInt8 := [83, 67, 82, 73, 80, 84]
def sDoctype : List UInt8 := [68, 79, 67, 84, 89, 80, 69]
def sCdata : List UInt8 := [91, 67, 68, 65, 84, 65, 91]
def sPublic : List UInt8 := [80, 85, 66, 76, 73, 67]
def sSystem : List UInt8 := [83, 89, 83, 84, 69, 77]
def sRbGt : List UInt8 := [93, 62]

/-- A text state of the standard (13.2.5.1–4): `<` opens a tentative construct; every other character is
a character token (D1: including `&` and NUL). -/
def textState (name : String) (lt : StateId) : StateDef :=
  { name := name, enter := [], memchr := none
    arms := [
      ⟨.byte cLt, to [.emitText, .markTagStart] lt⟩,           -- R-text (a), R-mark
      ⟨.eoc, stay [.emitText]⟩,                                -- R-text (c)
      ⟨.eof, stay [.emitTextAndEof]⟩,                          -- "Emit an end-of-file token"
      ⟨.any, stay []⟩ ] }

/-- 13.2.5.1 Data state -/
def data := textState "data_state" S.tagOpen
/-- 13.2.5.2 RCDATA state -/
def rcdata := textState "rcdata_state" S.rcdataLt
/-- 13.2.5.3 RAWTEXT state -/
def rawtext := textState "rawtext_state" S.rawtextLt
/-- 13.2.5.4 Script data state -/
def scriptData := textState "script_data_state" S.scriptLt

/-- 13.2.5.5 PLAINTEXT state: nothing but character tokens until EOF. -/
def plaintext : StateDef :=
  { name := "plaintext_state", enter := [], memchr := none
    arms := [
      ⟨.eoc, stay [.emitText]⟩,
      ⟨.eof, stay [.emitTextAndEof]⟩,
      ⟨.any, stay []⟩ ] }

/-- 13.2.5.6 Tag open state -/
def tagOpen : StateDef :=
  { name := "tag_open_state", enter := [], memchr := none
    arms := [
      -- "!": switch to the markup declaration open state
      ⟨.byte cBang, to [.unmarkTagStart] S.markupDeclOpen⟩,
      -- "/": switch to the end tag open state
      ⟨.byte cSlash, to [] S.endTagOpen⟩,
      -- ASCII alpha: create a new start tag token, name empty; reconsume in the tag name state (D8)
      ⟨.alpha, to [.createStartTag, .startTokenPart, .updateTagNameHash] S.tagName⟩,
      -- "?": create a comment token whose data is the empty string; reconsume in the bogus comment state.
      -- I1: `goto` instead of `reconsume`: "?" is not ">" so the bogus comment state just appends it.
      ⟨.byte cQm, to [.unmarkTagStart, .createComment, .startTokenPart] S.bogusComment⟩,
      -- EOF: emit "<" and an end-of-file token
      ⟨.eof, stay [.emitTextAndEof]⟩,
      -- anything else: emit "<"; reconsume in the data state
      ⟨.any, re [.unmarkTagStart, .emitText] S.data⟩ ] }

/-- 13.2.5.7 End tag open state -/
def endTagOpen : StateDef :=
  { name := "end_tag_open_state", enter := [], memchr := none
    arms := [
      -- ASCII alpha: create a new end tag token; reconsume in the tag name state (D8)
      ⟨.alpha, to [.createEndTag, .startTokenPart, .updateTagNameHash] S.tagName⟩,
      -- ">": missing-end-tag-name; switch to the data state (no token: the three bytes are raw)
      ⟨.byte cGt, to [.unmarkTagStart, .emitRawWithoutToken] S.data⟩,
      -- EOF: emit "<", "/" and an end-of-file token
      ⟨.eof, stay [.emitTextAndEof]⟩,
      -- anything else: create a comment token (empty); reconsume in the bogus comment state
      ⟨.any, re [.unmarkTagStart, .createComment, .startTokenPart] S.bogusComment⟩ ] }

/-- 13.2.5.8 Tag name state -/
def tagName : StateDef :=
  { name := "tag_name_state", enter := [], memchr := none
    arms := [
      ⟨.whitespace, to [.finishTagName] S.beforeAttrName⟩,
      ⟨.byte cSlash, to [.finishTagName] S.selfClosing⟩,
      -- ">": switch to the data state (D7); emit the current tag token
      ⟨.byte cGt, dyn [.finishTagName, .emitTag]⟩,
      -- EOF: eof-in-tag; emit an end-of-file token (R-eof)
      ⟨.eof, stay [.emitRawWithoutTokenAndEof]⟩,
      -- upper-case letter / NUL / anything else: append to the tag name
      ⟨.any, stay [.updateTagNameHash]⟩ ] }

/-- "emit `<` (`</`, `</` + temporary buffer) as character tokens; reconsume in the X state" -/
def backToText (s : StateId) : Body := re [.unmarkTagStart, .emitText] s

/-- 13.2.5.9 / .12 RCDATA / RAWTEXT less-than sign state -/
def rawLt (name : String) (endTagOpen text : StateId) : StateDef :=
  { name := name, enter := [], memchr := none
    arms := [
      -- "/": set the temporary buffer to the empty string; switch to the … end tag open state
      ⟨.byte cSlash, to [] endTagOpen⟩,
      ⟨.eof, stay [.emitTextAndEof]⟩,
      -- anything else: emit "<"; reconsume in the … state
      ⟨.any, backToText text⟩ ] }

/-- 13.2.5.10 / .13 / .16 / .24 … end tag open state -/
def rawEndTagOpen (name : String) (endTagName text : StateId) : StateDef :=
  { name := name, enter := [], memchr := none
    arms := [
      -- ASCII alpha: create a new end tag token; reconsume in the … end tag name state (D8)
      ⟨.alpha, to [.createEndTag, .startTokenPart, .updateTagNameHash] endTagName⟩,
      ⟨.eof, stay [.emitTextAndEof]⟩,
      -- anything else: emit "</"; reconsume in the … state
      ⟨.any, backToText text⟩ ] }

/-- 13.2.5.11 / .14 / .17 / .25 … end tag name state -/
def rawEndTagName (name : String) (text : StateId) : StateDef :=
  { name := name, enter := [], memchr := none
    arms := [
      -- whitespace: if appropriate end tag token → before attribute name; otherwise "anything else"
      ⟨.whitespace, ifThen .isAppropriateEndTag (to [.finishTagName] S.beforeAttrName) (backToText text)⟩,
      -- "/": if appropriate → self-closing start tag state
      ⟨.byte cSlash, ifThen .isAppropriateEndTag (to [.finishTagName] S.selfClosing) (backToText text)⟩,
      -- ">": if appropriate → data state (D7), emit the current tag token
      ⟨.byte cGt, ifThen .isAppropriateEndTag (dyn [.finishTagName, .emitTag]) (backToText text)⟩,
      -- ASCII alpha: append to the tag name (and the temporary buffer)
      ⟨.alpha, stay [.updateTagNameHash]⟩,
      ⟨.eof, stay [.emitTextAndEof]⟩,
      -- anything else: emit "</" + temporary buffer; reconsume in the … state
      ⟨.any, backToText text⟩ ] }

def rcdataLt := rawLt "rcdata_less_than_sign_state" S.rcdataEndTagOpen S.rcdata
def rcdataEndTagOpen := rawEndTagOpen "rcdata_end_tag_open_state" S.rcdataEndTagName S.rcdata
def rcdataEndTagName := rawEndTagName "rcdata_end_tag_name_state" S.rcdata
def rawtextLt := rawLt "rawtext_less_than_sign_state" S.rawtextEndTagOpen S.rawtext
def rawtextEndTagOpen := rawEndTagOpen "rawtext_end_tag_open_state" S.rawtextEndTagName S.rawtext
def rawtextEndTagName := rawEndTagName "rawtext_end_tag_name_state" S.rawtext

/-- 13.2.5.15 Script data less-than sign state -/
def scriptLt : StateDef :=
  { name := "script_data_less_than_sign_state", enter := [], memchr := none
    arms := [
      ⟨.byte cSlash, to [] S.scriptEndTagOpen⟩,
      -- "!": switch to the script data escape start state; emit "<" and "!"
      ⟨.byte cBang, to [.unmarkTagStart] S.scriptEscapeStart⟩,
      ⟨.eof, stay [.emitTextAndEof]⟩,
      ⟨.any, backToText S.scriptData⟩ ] }

def scriptEndTagOpen := rawEndTagOpen "script_data_end_tag_open_state" S.scriptEndTagName S.scriptData
def scriptEndTagName := rawEndTagName "script_data_end_tag_name_state" S.scriptData

/-- 13.2.5.18 + .19 Script data escape start (dash) state (D4) -/
def scriptEscapeStart : StateDef :=
  { name := "script_data_escape_start_state", enter := [], memchr := none
    arms := [
      -- "-" "-": → script data escaped dash dash state
      ⟨.chSeq sDashDash false, to [] S.scriptEscapedDashDash⟩,
      ⟨.eof, stay [.emitTextAndEof]⟩,
      -- anything else: reconsume in the script data state (R-text (b); the tag start was unmarked at "!")
      ⟨.any, re [.emitText] S.scriptData⟩ ] }

/-- 13.2.5.20 + .21 Script data escaped (dash) state (D4) -/
def scriptEscaped : StateDef :=
  { name := "script_data_escaped_state", enter := [], memchr := none
    arms := [
      ⟨.chSeq sDashDash false, to [] S.scriptEscapedDashDash⟩,
      ⟨.byte cLt, to [.emitText, .markTagStart] S.scriptEscapedLt⟩,
      ⟨.eof, stay [.emitTextAndEof]⟩,
      ⟨.any, stay []⟩ ] }

/-- 13.2.5.22 Script data escaped dash dash state -/
def scriptEscapedDashDash : StateDef :=
  { name := "script_data_escaped_dash_dash_state", enter := [], memchr := none
    arms := [
      ⟨.byte cDash, stay []⟩,
      ⟨.byte cLt, to [.emitText, .markTagStart] S.scriptEscapedLt⟩,
      -- ">": switch to the script data state; emit ">".
      -- I2: rendered as `emit_text?; reconsume in script data` (">" is plain text there).
      ⟨.byte cGt, re [.emitText] S.scriptData⟩,
      ⟨.eof, stay [.emitTextAndEof]⟩,
      -- anything else: switch to the script data escaped state
      ⟨.any, to [] S.scriptEscaped⟩ ] }

/-- 13.2.5.23 Script data escaped less-than sign state (D5) -/
def scriptEscapedLt : StateDef :=
  { name := "script_data_escaped_less_than_sign_state", enter := [], memchr := none
    arms := [
      -- ASCII alpha … → script data double escape start state: only `script` + delimiter matters
      ⟨.chSeq sScript true, to [.unmarkTagStart] S.scriptDoubleEscapeStart⟩,
      ⟨.byte cSlash, to [] S.scriptEscapedEndTagOpen⟩,
      ⟨.eof, stay [.emitTextAndEof]⟩,
      ⟨.any, backToText S.scriptEscaped⟩ ] }

def scriptEscapedEndTagOpen :=
  rawEndTagOpen "script_data_escaped_end_tag_open_state" S.scriptEscapedEndTagName S.scriptEscaped
def scriptEscapedEndTagName :=
  rawEndTagName "script_data_escaped_end_tag_name_state" S.scriptEscaped

/-- the delimiter check of 13.2.5.26 / .31 after `script` has been matched (D5) -/
def scriptDelimiter (name : String) (yes no : StateId) : StateDef :=
  { name := name, enter := [], memchr := none
    arms := [
      ⟨.whitespace, to [] yes⟩,
      ⟨.byte cSlash, to [] yes⟩,
      ⟨.byte cGt, to [] yes⟩,
      ⟨.eof, stay [.emitTextAndEof]⟩,
      ⟨.any, re [] no⟩ ] }

/-- 13.2.5.26 Script data double escape start state -/
def scriptDoubleEscapeStart :=
  scriptDelimiter "script_data_double_escaped_start_state" S.scriptDoubleEscaped S.scriptEscaped

/-- 13.2.5.27 + .28 Script data double escaped (dash) state (D4). No tag can start here. -/
def scriptDoubleEscaped : StateDef :=
  { name := "script_data_double_escaped_state", enter := [], memchr := none
    arms := [
      ⟨.chSeq sDashDash false, to [] S.scriptDoubleEscapedDashDash⟩,
      -- I3: `emit_text?` although no tag can follow (flushes the text before "<"; harmless)
      ⟨.byte cLt, to [.emitText] S.scriptDoubleEscapedLt⟩,
      ⟨.eof, stay [.emitTextAndEof]⟩,
      ⟨.any, stay []⟩ ] }

/-- 13.2.5.29 Script data double escaped dash dash state -/
def scriptDoubleEscapedDashDash : StateDef :=
  { name := "script_data_double_escaped_dash_dash_state", enter := [], memchr := none
    arms := [
      ⟨.byte cDash, stay []⟩,
      ⟨.byte cLt, to [] S.scriptDoubleEscapedLt⟩,
      -- I2 again
      ⟨.byte cGt, re [.emitText] S.scriptData⟩,
      ⟨.eof, stay [.emitTextAndEof]⟩,
      ⟨.any, to [] S.scriptDoubleEscaped⟩ ] }

/-- 13.2.5.30 Script data double escaped less-than sign state -/
def scriptDoubleEscapedLt : StateDef :=
  { name := "script_data_double_escaped_less_than_sign_state", enter := [], memchr := none
    arms := [
      ⟨.byte cSlash, to [] S.scriptDoubleEscapedEndTagName⟩,
      ⟨.eof, stay [.emitTextAndEof]⟩,
      ⟨.any, re [] S.scriptDoubleEscaped⟩ ] }

/-- 13.2.5.31 Script data double escape end state, first half: the name (D5) -/
def scriptDoubleEscapedEndTagName : StateDef :=
  { name := "script_data_double_escaped_end_tag_name_state", enter := [], memchr := none
    arms := [
      ⟨.chSeq sScript true, to [] S.scriptDoubleEscapeEnd⟩,
      ⟨.eof, stay [.emitTextAndEof]⟩,
      ⟨.any, re [] S.scriptDoubleEscaped⟩ ] }

/-- 13.2.5.31 second half: the delimiter -/
def scriptDoubleEscapeEnd :=
  scriptDelimiter "script_data_double_escaped_end_state" S.scriptEscaped S.scriptDoubleEscaped

/-- 13.2.5.32 Before attribute name state (also serves as 13.2.5.39, D3) -/
def beforeAttrName : StateDef :=
  { name := "before_attribute_name_state", enter := [], memchr := none
    arms := [
      ⟨.whitespace, stay []⟩,
      -- "/", ">", EOF: reconsume in the after attribute name state (no attribute is open)
      ⟨.byte cSlash, to [] S.selfClosing⟩,
      ⟨.byte cGt, dyn [.emitTag]⟩,
      ⟨.eof, stay [.emitRawWithoutTokenAndEof]⟩,
      -- "=": start a new attribute whose name is "="; anything else: start a new attribute, reconsume
      ⟨.any, to [.startAttr] S.attrName⟩ ] }

/-- 13.2.5.33 Attribute name state -/
def attrName : StateDef :=
  { name := "attribute_name_state", enter := [], memchr := none
    arms := [
      -- whitespace, "/", ">", EOF: reconsume in the after attribute name state
      ⟨.whitespace, to [.finishAttrName] S.afterAttrName⟩,
      ⟨.byte cSlash, to [.finishAttrName, .finishAttr] S.selfClosing⟩,
      ⟨.byte cGt, dyn [.finishAttrName, .finishAttr, .emitTag]⟩,
      ⟨.byte cEq, to [.finishAttrName] S.beforeAttrValue⟩,
      ⟨.eof, stay [.emitRawWithoutTokenAndEof]⟩,
      ⟨.any, stay []⟩ ] }

/-- 13.2.5.34 After attribute name state -/
def afterAttrName : StateDef :=
  { name := "after_attribute_name_state", enter := [], memchr := none
    arms := [
      ⟨.whitespace, stay []⟩,
      ⟨.byte cSlash, to [.finishAttr] S.selfClosing⟩,
      ⟨.byte cEq, to [] S.beforeAttrValue⟩,
      ⟨.byte cGt, dyn [.finishAttr, .emitTag]⟩,
      ⟨.eof, stay [.emitRawWithoutTokenAndEof]⟩,
      -- anything else: start a new attribute; reconsume in the attribute name state
      ⟨.any, to [.finishAttr, .startAttr] S.attrName⟩ ] }

/-- 13.2.5.35 Before attribute value state -/
def beforeAttrValue : StateDef :=
  { name := "before_attribute_value_state", enter := [], memchr := none
    arms := [
      ⟨.whitespace, stay []⟩,
      ⟨.byte cDq, to [.setClosingQuoteToDouble] S.attrValueDq⟩,
      ⟨.byte cSq, to [.setClosingQuoteToSingle] S.attrValueSq⟩,
      -- ">": missing-attribute-value; switch to the data state (D7!); emit the current tag token
      ⟨.byte cGt, dyn [.finishAttr, .emitTag]⟩,
      ⟨.eof, stay [.emitRawWithoutTokenAndEof]⟩,
      -- anything else: reconsume in the attribute value (unquoted) state
      ⟨.any, re [] S.attrValueUnq⟩ ] }

/-- 13.2.5.36 / .37 Attribute value (double- / single-quoted) state; the closing quote leads to
"after attribute value (quoted)" = before attribute name (D3) -/
def attrValueQuoted (name : String) (quote : UInt8) : StateDef :=
  { name := name, enter := calls [.startTokenPart], memchr := none
    arms := [
      ⟨.byte quote, to [.finishAttrValue, .finishAttr] S.beforeAttrName⟩,
      ⟨.eof, stay [.emitRawWithoutTokenAndEof]⟩,
      ⟨.any, stay []⟩ ] }
def attrValueDq := attrValueQuoted "attribute_value_double_quoted_state" cDq
def attrValueSq := attrValueQuoted "attribute_value_single_quoted_state" cSq

/-- 13.2.5.38 Attribute value (unquoted) state -/
def attrValueUnq : StateDef :=
  { name := "attribute_value_unquoted_state", enter := calls [.startTokenPart], memchr := none
    arms := [
      ⟨.whitespace, to [.finishAttrValue, .finishAttr] S.beforeAttrName⟩,
      ⟨.byte cGt, dyn [.finishAttrValue, .finishAttr, .emitTag]⟩,
      ⟨.eof, stay [.emitRawWithoutTokenAndEof]⟩,
      ⟨.any, stay []⟩ ] }

/-- 13.2.5.40 Self-closing start tag state -/
def selfClosing : StateDef :=
  { name := "self_closing_start_tag_state", enter := [], memchr := none
    arms := [
      ⟨.byte cGt, dyn [.markAsSelfClosing, .emitTag]⟩,
      ⟨.eof, stay [.emitRawWithoutTokenAndEof]⟩,
      -- anything else: unexpected-solidus-in-tag; reconsume in the before attribute name state
      ⟨.any, re [] S.beforeAttrName⟩ ] }

/-- 13.2.5.41 Bogus comment state -/
def bogusComment : StateDef :=
  { name := "bogus_comment_state", enter := [], memchr := none
    arms := [
      ⟨.byte cGt, to [.markCommentTextEnd, .emitCurrentToken] S.data⟩,
      ⟨.eof, stay [.markCommentTextEnd, .emitCurrentTokenAndEof]⟩,
      ⟨.any, stay []⟩ ] }

/-- 13.2.5.42 Markup declaration open state. The enter action marks where the data of a bogus
comment starts. -/
def markupDeclOpen : StateDef :=
  { name := "markup_declaration_open_state", enter := calls [.startTokenPart], memchr := none
    arms := [
      -- "--": create a comment token (I4: done by the enter actions of comment start) → comment start
      ⟨.chSeq sDashDash false, to [] S.commentStart⟩,
      ⟨.chSeq sDoctype true, to [] S.doctype⟩,
      -- "[CDATA[": if the adjusted current node is not in the HTML namespace → CDATA section state;
      -- otherwise create a comment token whose data is "[CDATA["; switch to the bogus comment state
      ⟨.chSeq sCdata false,
        ifThen .cdataAllowed (to [.emitRawWithoutToken, .enterCdata] S.cdataSection)
                             (to [.createComment] S.bogusComment)⟩,
      -- anything else (incl. EOF): create a comment token; switch to bogus comment without consuming
      ⟨.eof, re [.createComment] S.bogusComment⟩,
      ⟨.any, re [.createComment] S.bogusComment⟩ ] }

/-- 13.2.5.43 Comment start state -/
def commentStart : StateDef :=
  { name := "comment_start_state", enter := calls [.createComment, .startTokenPart], memchr := none
    arms := [
      ⟨.byte cDash, to [.markCommentTextEnd] S.commentStartDash⟩,
      -- ">": abrupt-closing-of-empty-comment; switch to data; emit the comment token
      ⟨.byte cGt, to [.markCommentTextEnd, .emitCurrentToken] S.data⟩,
      ⟨.eof, re [] S.comment⟩,
      ⟨.any, re [] S.comment⟩ ] }

/-- 13.2.5.44 Comment start dash state -/
def commentStartDash : StateDef :=
  { name := "comment_start_dash_state", enter := [], memchr := none
    arms := [
      ⟨.byte cDash, to [] S.commentEnd⟩,
      ⟨.byte cGt, to [.emitCurrentToken] S.data⟩,
      ⟨.eof, stay [.emitCurrentTokenAndEof]⟩,
      -- anything else: append "-" to the data; reconsume in the comment state
      ⟨.any, re [] S.comment⟩ ] }

/-- 13.2.5.45 Comment state -/
def comment : StateDef :=
  { name := "comment_state", enter := [], memchr := none
    arms := [
      ⟨.byte cDash, to [.markCommentTextEnd] S.commentEndDash⟩,
      ⟨.byte cLt, to [] S.commentLt⟩,
      ⟨.eof, stay [.markCommentTextEnd, .emitCurrentTokenAndEof]⟩,
      -- I5: redundant `mark_comment_text_end` (every way out of the comment re-marks the end)
      ⟨.any, stay [.markCommentTextEnd]⟩ ] }

/-- 13.2.5.46 Comment less-than sign state.  I5: all arms re-mark the end. -/
def commentLt : StateDef :=
  { name := "comment_less_than_sign_state", enter := [], memchr := none
    arms := [
      ⟨.byte cBang, to [.markCommentTextEnd] S.commentLtBang⟩,
      ⟨.byte cLt, stay [.markCommentTextEnd]⟩,
      ⟨.eof, re [.markCommentTextEnd] S.comment⟩,
      ⟨.any, re [.markCommentTextEnd] S.comment⟩ ] }

/-- 13.2.5.47 Comment less-than sign bang state -/
def commentLtBang : StateDef :=
  { name := "comment_less_than_sign_bang_state", enter := [], memchr := none
    arms := [
      -- the data so far ends before this "-" if the comment ends here (needed by 13.2.5.48 → comment end dash)
      ⟨.byte cDash, to [.markCommentTextEnd] S.commentLtBangDash⟩,
      ⟨.eof, re [.markCommentTextEnd] S.comment⟩,   -- I5
      ⟨.any, re [.markCommentTextEnd] S.comment⟩ ] } -- I5

/-- 13.2.5.48 Comment less-than sign bang dash state -/
def commentLtBangDash : StateDef :=
  { name := "comment_less_than_sign_bang_dash_state", enter := [], memchr := none
    arms := [
      ⟨.byte cDash, to [] S.commentLtBangDashDash⟩,
      -- anything else: reconsume in the comment end dash state
      ⟨.eof, re [] S.commentEndDash⟩,
      ⟨.any, re [] S.commentEndDash⟩ ] }

/-- 13.2.5.49 Comment less-than sign bang dash dash state -/
def commentLtBangDashDash : StateDef :=
  { name := "comment_less_than_sign_bang_dash_dash_state", enter := [], memchr := none
    arms := [
      -- ">" / EOF: reconsume in the comment end state; anything else: nested-comment error, same
      ⟨.eof, re [] S.commentEnd⟩,
      ⟨.any, re [] S.commentEnd⟩ ] }

/-- 13.2.5.50 Comment end dash state -/
def commentEndDash : StateDef :=
  { name := "comment_end_dash_state", enter := [], memchr := none
    arms := [
      ⟨.byte cDash, to [] S.commentEnd⟩,
      ⟨.eof, stay [.emitCurrentTokenAndEof]⟩,
      -- anything else: append "-"; reconsume in the comment state
      ⟨.any, re [] S.comment⟩ ] }

/-- 13.2.5.51 Comment end state -/
def commentEnd : StateDef :=
  { name := "comment_end_state", enter := [], memchr := none
    arms := [
      ⟨.byte cGt, to [.emitCurrentToken] S.data⟩,
      ⟨.byte cBang, to [] S.commentEndBang⟩,
      -- "-": append "-" to the data
      ⟨.byte cDash, stay [.shiftCommentTextEndBy 1]⟩,
      ⟨.eof, stay [.emitCurrentTokenAndEof]⟩,
      -- anything else: append "--"; reconsume in the comment state (I8)
      ⟨.any, re [.shiftCommentTextEndBy 2] S.comment⟩ ] }

/-- 13.2.5.52 Comment end bang state -/
def commentEndBang : StateDef :=
  { name := "comment_end_bang_state", enter := [], memchr := none
    arms := [
      -- "-": append "--!"; switch to the comment end dash state
      ⟨.byte cDash, to [.shiftCommentTextEndBy 3] S.commentEndDash⟩,
      -- ">": incorrectly-closed-comment; switch to data; emit
      ⟨.byte cGt, to [.emitCurrentToken] S.data⟩,
      ⟨.eof, stay [.emitCurrentTokenAndEof]⟩,
      -- anything else: append "--!"; reconsume in the comment state (I8)
      ⟨.any, re [.shiftCommentTextEndBy 3] S.comment⟩ ] }

/-- "create a DOCTYPE token, set its force-quirks flag, emit it" -/
def quirkyDoctypeGt : Body := to [.createDoctype, .setForceQuirks, .emitCurrentToken] S.data
def quirkyDoctypeEof : Body := stay [.createDoctype, .setForceQuirks, .emitCurrentTokenAndEof]

/-- 13.2.5.53 DOCTYPE state -/
def doctype : StateDef :=
  { name := "doctype_state", enter := [], memchr := none
    arms := [
      ⟨.whitespace, to [] S.beforeDoctypeName⟩,
      -- ">": reconsume in the before DOCTYPE name state.  I6: that state's ">" arm is inlined.
      ⟨.byte cGt, quirkyDoctypeGt⟩,
      ⟨.eof, quirkyDoctypeEof⟩,
      -- anything else: missing-whitespace-before-doctype-name; reconsume in before DOCTYPE name
      ⟨.any, re [] S.beforeDoctypeName⟩ ] }

/-- 13.2.5.54 Before DOCTYPE name state -/
def beforeDoctypeName : StateDef :=
  { name := "before_doctype_name_state", enter := [], memchr := none
    arms := [
      ⟨.whitespace, stay []⟩,
      ⟨.byte cGt, quirkyDoctypeGt⟩,
      ⟨.eof, quirkyDoctypeEof⟩,
      -- anything else: create a DOCTYPE token, name = current character → DOCTYPE name state
      ⟨.any, to [.createDoctype, .startTokenPart] S.doctypeName⟩ ] }

/-- 13.2.5.55 DOCTYPE name state -/
def doctypeName : StateDef :=
  { name := "doctype_name_state", enter := [], memchr := none
    arms := [
      ⟨.whitespace, to [.finishDoctypeName] S.afterDoctypeName⟩,
      ⟨.byte cGt, to [.finishDoctypeName, .emitCurrentToken] S.data⟩,
      ⟨.eof, stay [.finishDoctypeName, .setForceQuirks, .emitCurrentTokenAndEof]⟩,
      ⟨.any, stay []⟩ ] }

/-- "set force-quirks; reconsume in the bogus DOCTYPE state".
I7: `goto` instead of `reconsume` — the byte is never ">" here and bogus DOCTYPE ignores it. -/
def toBogusDoctypeQuirks : Body := to [.setForceQuirks] S.bogusDoctype

def doctypeGt : Body := to [.emitCurrentToken] S.data
def doctypeGtQuirks : Body := to [.setForceQuirks, .emitCurrentToken] S.data
def doctypeEofQuirks : Body := stay [.setForceQuirks, .emitCurrentTokenAndEof]

/-- 13.2.5.56 After DOCTYPE name state -/
def afterDoctypeName : StateDef :=
  { name := "after_doctype_name_state", enter := [], memchr := none
    arms := [
      ⟨.whitespace, stay []⟩,
      ⟨.byte cGt, doctypeGt⟩,
      ⟨.eof, doctypeEofQuirks⟩,
      ⟨.chSeq sPublic true, to [] S.afterDoctypePublicKw⟩,
      ⟨.chSeq sSystem true, to [] S.afterDoctypeSystemKw⟩,
      ⟨.any, toBogusDoctypeQuirks⟩ ] }

/-- 13.2.5.57 / .63 After DOCTYPE public / system keyword state; 13.2.5.58 / .64 Before DOCTYPE
public / system identifier state (`wsTarget = none`: whitespace is ignored) -/
def doctypeBeforeId (name : String) (wsTarget : Option StateId) (idState : StateId) : StateDef :=
  { name := name, enter := [], memchr := none
    arms := [
      ⟨.whitespace, match wsTarget with | some s => to [] s | none => stay []⟩,
      -- quote: set the identifier to the empty string; switch to the identifier state (D6)
      ⟨.byte cDq, to [.setClosingQuoteToDouble] idState⟩,
      ⟨.byte cSq, to [.setClosingQuoteToSingle] idState⟩,
      -- ">": missing-doctype-…-identifier; force-quirks; switch to data; emit
      ⟨.byte cGt, doctypeGtQuirks⟩,
      ⟨.eof, doctypeEofQuirks⟩,
      -- anything else: missing-quote-before-…; force-quirks; reconsume in bogus DOCTYPE
      ⟨.any, toBogusDoctypeQuirks⟩ ] }

def afterDoctypePublicKw :=
  doctypeBeforeId "after_doctype_public_keyword_state" (some S.beforeDoctypePublicId) S.doctypePublicId
def beforeDoctypePublicId :=
  doctypeBeforeId "before_doctype_public_identifier_state" none S.doctypePublicId
def afterDoctypeSystemKw :=
  doctypeBeforeId "after_doctype_system_keyword_state" (some S.beforeDoctypeSystemId) S.doctypeSystemId
def beforeDoctypeSystemId :=
  doctypeBeforeId "before_doctype_system_identifier_state" none S.doctypeSystemId

/-- 13.2.5.59+60 / .65+66 DOCTYPE public / system identifier (quoted) state (D6) -/
def doctypeId (name : String) (finish : ActName) (after : StateId) : StateDef :=
  { name := name, enter := calls [.startTokenPart], memchr := none
    arms := [
      ⟨.closingQuote, to [finish] after⟩,
      -- ">": abrupt-doctype-…-identifier; force-quirks; switch to data; emit
      ⟨.byte cGt, to [finish, .setForceQuirks, .emitCurrentToken] S.data⟩,
      ⟨.eof, stay [finish, .setForceQuirks, .emitCurrentTokenAndEof]⟩,
      ⟨.any, stay []⟩ ] }
def doctypePublicId :=
  doctypeId "doctype_public_identifier_state" .finishDoctypePublicId S.afterDoctypePublicId
def doctypeSystemId :=
  doctypeId "doctype_system_identifier_state" .finishDoctypeSystemId S.afterDoctypeSystemId

/-- 13.2.5.61 After DOCTYPE public identifier state; 13.2.5.62 Between DOCTYPE public and system
identifiers state (`wsTarget = none`) -/
def doctypeAfterPublicId (name : String) (wsTarget : Option StateId) : StateDef :=
  { name := name, enter := [], memchr := none
    arms := [
      ⟨.whitespace, match wsTarget with | some s => to [] s | none => stay []⟩,
      ⟨.byte cGt, doctypeGt⟩,
      ⟨.byte cDq, to [.setClosingQuoteToDouble] S.doctypeSystemId⟩,
      ⟨.byte cSq, to [.setClosingQuoteToSingle] S.doctypeSystemId⟩,
      ⟨.eof, doctypeEofQuirks⟩,
      ⟨.any, toBogusDoctypeQuirks⟩ ] }
def afterDoctypePublicId :=
  doctypeAfterPublicId "after_doctype_public_identifier_state" (some S.betweenDoctypeIds)
def betweenDoctypeIds :=
  doctypeAfterPublicId "between_doctype_public_and_system_identifiers_state" none

/-- 13.2.5.67 After DOCTYPE system identifier state -/
def afterDoctypeSystemId : StateDef :=
  { name := "after_doctype_system_identifier_state", enter := [], memchr := none
    arms := [
      ⟨.whitespace, stay []⟩,
      ⟨.byte cGt, doctypeGt⟩,
      ⟨.eof, doctypeEofQuirks⟩,
      -- anything else: unexpected-character-after-doctype-system-identifier; reconsume in bogus DOCTYPE
      -- (this does NOT set force-quirks).  I7.
      ⟨.any, to [] S.bogusDoctype⟩ ] }

/-- 13.2.5.68 Bogus DOCTYPE state -/
def bogusDoctype : StateDef :=
  { name := "bogus_doctype_state", enter := [], memchr := none
    arms := [
      ⟨.byte cGt, doctypeGt⟩,
      ⟨.eof, stay [.emitCurrentTokenAndEof]⟩,
      ⟨.any, stay []⟩ ] }

/-- 13.2.5.69 CDATA section state -/
def cdataSection : StateDef :=
  { name := "cdata_section_state", enter := [], memchr := none
    arms := [
      ⟨.byte cRb, to [.emitText] S.cdataSectionBracket⟩,     -- R-text (a)
      ⟨.eoc, stay [.emitText]⟩,
      ⟨.eof, stay [.emitTextAndEof]⟩,
      ⟨.any, stay []⟩ ] }

/-- 13.2.5.70 + .71 CDATA section bracket / end state (D4) -/
def cdataSectionBracket : StateDef :=
  { name := "cdata_section_bracket_state", enter := [], memchr := none
    arms := [
      -- "]" ">": switch to the data state (the three bytes `]]>` are raw, no token)
      ⟨.chSeq sRbGt false, to [.emitRawWithoutToken, .leaveCdata] S.data⟩,
      ⟨.eof, stay [.emitTextAndEof]⟩,
      -- anything else: emit "]"; reconsume in the CDATA section state
      ⟨.any, re [.emitText] S.cdataSection⟩ ] }

def states : List StateDef := [
  data, rcdata, rawtext, scriptData, plaintext, tagOpen, endTagOpen, tagName,
  rcdataLt, rcdataEndTagOpen, rcdataEndTagName, rawtextLt, rawtextEndTagOpen, rawtextEndTagName,
  scriptLt, scriptEndTagOpen, scriptEndTagName, scriptEscapeStart, scriptEscaped, scriptEscapedDashDash,
  scriptEscapedLt, scriptEscapedEndTagOpen, scriptEscapedEndTagName, scriptDoubleEscapeStart,
  scriptDoubleEscaped, scriptDoubleEscapedDashDash, scriptDoubleEscapedLt, scriptDoubleEscapedEndTagName,
  scriptDoubleEscapeEnd, beforeAttrName, attrName, afterAttrName, beforeAttrValue, attrValueDq, attrValueSq,
  attrValueUnq, selfClosing, bogusComment, markupDeclOpen, commentStart, commentStartDash, comment,
  commentLt, commentLtBang, commentLtBangDash, commentLtBangDashDash, commentEndDash, commentEnd,
  commentEndBang, doctype, beforeDoctypeName, doctypeName, afterDoctypeName, afterDoctypePublicKw,
  beforeDoctypePublicId, doctypePublicId, afterDoctypePublicId, betweenDoctypeIds, afterDoctypeSystemKw,
  beforeDoctypeSystemId, doctypeSystemId, afterDoctypeSystemId, bogusDoctype, cdataSection,
  cdataSectionBracket ]

/-- The reference table. Whitespace: TAB, LF, FF, SPACE of the standard plus CR (D2). ASCII alpha. -/
def table : Table :=
  { states := states
    whitespace := [9, 10, 12, 13, 32]
    alpha := [(65, 90), (97, 122)]
    dataState := S.data
    plaintextState := S.plaintext
    rcdataState := S.rcdata
    rawtextState := S.rawtext
    scriptDataState := S.scriptData
    cdataSectionState := S.cdataSection }

end LolHtml.Ref.Syntax
