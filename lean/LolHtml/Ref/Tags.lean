import LolHtml.Model.NameHash
import LolHtml.Model.TagCfg
/-!
# Reference tag tables (hand-written, reviewed against WHATWG HTML, 2024 living standard)

Names are written as character lists and hashed with the *model* hash (`NameHash.ofBytes`), so that
`C03_tags_match_reference` (`Gen.Tags.tags = Ref.Tags.tags ∧ Gen.Tags.cfg = Ref.Tags.cfg`) checks
both that the code's lists contain the expected names and that every declared `u64` constant of
`declare_tags!` is the hash of its name.

Review notes (spec list vs. code list; the reference records what the code does, deviations listed):

* **RCDATA** (§13.2.6.4.7 "textarea", §13.2.6.4.4 "title"): textarea, title — equal.
* **RAWTEXT**: style, xmp, iframe, noembed, noframes, and noscript *if the scripting flag is
  enabled* — equal; the code hard-wires "scripting enabled" (browser behaviour). With scripting
  disabled a conforming parser parses the content of `<noscript>` as markup.
* **script** → script data; **plaintext** → PLAINTEXT — equal.
* **Foreign-content breakout start tags** (§13.2.6.5): b, big, blockquote, body, br, center, code,
  dd, div, dl, dt, em, embed, h1–h6, head, hr, i, img, li, listing, menu, meta, nobr, ol, p, pre,
  ruby, s, small, span, strong, strike, sub, sup, table, tt, u, ul, var — 44 names, the code's
  `causes_foreign_content_exit` has exactly these 44, in the same order. `font` (only with a
  `color`/`face`/`size` attribute) is handled by a `RequestLexeme` callback (`cfg.font`), as in the
  spec. Breakout end tags `</br>`, `</p>`: `nsLeaveEnd` — equal. No missing and no extra entry.
  *Behavioural* difference (not a list difference): the spec pops *all* foreign elements up to the
  nearest integration point / HTML element, the simulator pops one namespace level; the two differ
  when an `svg`/`math` start tag occurs directly inside foreign content (see docs/pkg-simthm.md).
* **MathML text integration points**: mi, mo, mn, ms, mtext — equal (order in the code: mi mo mn ms mtext).
* **SVG HTML integration points**: foreignObject, desc, title — equal (the code compares the
  lower-cased name, i.e. `foreignobject`, which is what the tokenizer produces). The third kind of
  HTML integration point, MathML `annotation-xml` with `encoding` = `text/html` |
  `application/xhtml+xml` (ASCII case-insensitive), is handled by name in callbacks because the name
  contains `-` and is not hashable.
* **Void elements** (§13.1.2): area, base, br, col, embed, hr, img, input, link, meta, source, track,
  wbr. The code's list additionally has basefont, bgsound, keygen, param — these are the extra
  names of the *serialisation* list (§13.3 "serializes as void") and are all popped immediately by
  the tree builder, so treating them as void is right for a streaming rewriter. **Missing** with
  respect to that list: `frame` (popped immediately in "in frameset"; has no `Tag::Frame`), so
  `<frameset><frame><frame>` is seen by the selector stack as nested. Reported as a note (C04/C05).
* **Guard**: text-mode-switching tags = RCDATA ∪ {plaintext, script} ∪ RAWTEXT (checked below as
  a list identity); "in select" is left by start tags select, textarea, input, keygen (§13.2.6.4.16).
-/
namespace LolHtml.Ref.Tags
open LolHtml LolHtml.Model

/-- name as bytes -/
def nm (cs : List Char) : Bytes := cs.map (fun c => c.toNat.toUInt8)
/-- hash of a name (model hash) -/
def H (cs : List Char) : Nat := NameHash.ofBytes (nm cs)
def row (cs : List Char) : Bytes × Nat := (nm cs, H cs)

/-- The 80 names of `declare_tags!` (src/html/tag.rs), in source order. -/
def tags : List (Bytes × Nat) := [
  row ['a'], row ['a','r','e','a'], row ['b'], row ['b','a','s','e'],
  row ['b','a','s','e','f','o','n','t'], row ['b','g','s','o','u','n','d'], row ['b','i','g'],
  row ['b','l','o','c','k','q','u','o','t','e'], row ['b','o','d','y'], row ['b','r'],
  row ['c','e','n','t','e','r'], row ['c','o','d','e'], row ['c','o','l'], row ['d','d'],
  row ['d','e','s','c'], row ['d','i','v'], row ['d','l'], row ['d','t'], row ['e','m'],
  row ['e','m','b','e','d'], row ['f','o','n','t'],
  row ['f','o','r','e','i','g','n','o','b','j','e','c','t'], row ['f','r','a','m','e','s','e','t'],
  row ['h','1'], row ['h','2'], row ['h','3'], row ['h','4'], row ['h','5'], row ['h','6'],
  row ['h','e','a','d'], row ['h','r'], row ['i'], row ['i','f','r','a','m','e'],
  row ['i','m','g'], row ['i','n','p','u','t'], row ['k','e','y','g','e','n'], row ['l','i'],
  row ['l','i','n','k'], row ['l','i','s','t','i','n','g'], row ['m','a','t','h'],
  row ['m','e','n','u'], row ['m','e','t','a'], row ['m','i'], row ['m','n'], row ['m','o'],
  row ['m','s'], row ['m','t','e','x','t'], row ['n','o','b','r'],
  row ['n','o','e','m','b','e','d'], row ['n','o','f','r','a','m','e','s'],
  row ['n','o','s','c','r','i','p','t'], row ['o','l'], row ['p'], row ['p','a','r','a','m'],
  row ['p','l','a','i','n','t','e','x','t'], row ['p','r','e'], row ['r','u','b','y'], row ['s'],
  row ['s','c','r','i','p','t'], row ['s','e','l','e','c','t'], row ['s','m','a','l','l'],
  row ['s','o','u','r','c','e'], row ['s','p','a','n'], row ['s','t','r','i','k','e'],
  row ['s','t','r','o','n','g'], row ['s','t','y','l','e'], row ['s','u','b'], row ['s','u','p'],
  row ['s','v','g'], row ['t','a','b','l','e'], row ['t','e','m','p','l','a','t','e'],
  row ['t','e','x','t','a','r','e','a'], row ['t','i','t','l','e'], row ['t','r','a','c','k'],
  row ['t','t'], row ['u'], row ['u','l'], row ['v','a','r'], row ['x','m','p'], row ['w','b','r']
]

def rcdata : List Nat := [H ['t','e','x','t','a','r','e','a'], H ['t','i','t','l','e']]
def rawtext : List Nat := [H ['s','t','y','l','e'], H ['i','f','r','a','m','e'], H ['x','m','p'], H ['n','o','e','m','b','e','d'], H ['n','o','f','r','a','m','e','s'], H ['n','o','s','c','r','i','p','t']]
def plaintext : Nat := H ['p','l','a','i','n','t','e','x','t']
def script : Nat := H ['s','c','r','i','p','t']

def cfg : TagCfg :=
  { rcdata := rcdata
    plaintext := plaintext
    script := script
    rawtext := rawtext
    foreignExit := [H ['b'], H ['b','i','g'], H ['b','l','o','c','k','q','u','o','t','e'], H ['b','o','d','y'], H ['b','r'], H ['c','e','n','t','e','r'], H ['c','o','d','e'], H ['d','d'], H ['d','i','v'], H ['d','l'], H ['d','t'], H ['e','m'], H ['e','m','b','e','d'], H ['h','1'], H ['h','2'], H ['h','3'], H ['h','4'], H ['h','5'], H ['h','6'], H ['h','e','a','d'], H ['h','r'], H ['i'], H ['i','m','g'], H ['l','i'], H ['l','i','s','t','i','n','g'], H ['m','e','n','u'], H ['m','e','t','a'], H ['n','o','b','r'], H ['o','l'], H ['p'], H ['p','r','e'], H ['r','u','b','y'], H ['s'], H ['s','m','a','l','l'], H ['s','p','a','n'], H ['s','t','r','o','n','g'], H ['s','t','r','i','k','e'], H ['s','u','b'], H ['s','u','p'], H ['t','a','b','l','e'], H ['t','t'], H ['u'], H ['u','l'], H ['v','a','r']]
    mathmlTextIP := [H ['m','i'], H ['m','o'], H ['m','n'], H ['m','s'], H ['m','t','e','x','t']]
    svgHtmlIP := [H ['d','e','s','c'], H ['t','i','t','l','e'], H ['f','o','r','e','i','g','n','o','b','j','e','c','t']]
    svg := H ['s','v','g']
    math := H ['m','a','t','h']
    nsLeaveEnd := [H ['p'], H ['b','r']]
    font := H ['f','o','n','t']
    guardTextSwitch := rcdata ++ [plaintext, script] ++ rawtext
    gSelect := H ['s','e','l','e','c','t']
    gFrameset := H ['f','r','a','m','e','s','e','t']
    gSelectExit := [H ['s','e','l','e','c','t'], H ['t','e','x','t','a','r','e','a'], H ['i','n','p','u','t'], H ['k','e','y','g','e','n']]
    gTemplate := H ['t','e','m','p','l','a','t','e']
    gScript := script
    gNoframes := H ['n','o','f','r','a','m','e','s']
    nonVoidFast := [H ['d','i','v'], H ['a'], H ['s','p','a','n'], H ['l','i']]
    void := [H ['a','r','e','a'], H ['b','a','s','e'], H ['b','a','s','e','f','o','n','t'], H ['b','g','s','o','u','n','d'], H ['b','r'], H ['c','o','l'], H ['e','m','b','e','d'], H ['h','r'], H ['i','m','g'], H ['i','n','p','u','t'], H ['k','e','y','g','e','n'], H ['l','i','n','k'], H ['m','e','t','a'], H ['p','a','r','a','m'], H ['s','o','u','r','c','e'], H ['t','r','a','c','k'], H ['w','b','r']]
  }

end LolHtml.Ref.Tags
