import LolHtml.Lane.All

open LolHtml

partial def loop (h : IO.FS.Stream) (out : IO.FS.Stream) (f : String → String) : IO Unit := do
  let line ← h.getLine
  if line.isEmpty then return ()
  let l := (line.dropEndWhile (fun c => c == '\n' || c == '\r')).toString
  out.putStrLn (f l)
  loop h out f

def main (args : List String) : IO UInt32 := do
  match args with
  | [lane] =>
    match Lane.find lane with
    | some f =>
      let out ← IO.getStdout
      loop (← IO.getStdin) out f
      out.flush
      return 0
    | none => IO.eprintln s!"unknown lane {lane}"; return 2
  | _ => IO.eprintln "usage: driver <lane>"; return 2
