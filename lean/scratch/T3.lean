import LolHtml.Lemmas.TagStates
namespace LolHtml.Model.TagStates
open LolHtml LolHtml.Model
variable {κ : Type}

theorem state_of_ok {t : Table} (h : TagStatesOk t = true) {s : Nat} {k : Key} (hm : (s, k) ∈ expected t) :
    ∃ sd, t.state? s = some sd ∧ sd.enter = k.1 ∧ sd.memchr = k.2.1 ∧ sd.arms = k.2.2 := by
  unfold TagStatesOk at h
  simp only [Bool.and_eq_true, List.all_eq_true] at h
  have := h.1.1.1 _ hm
  simp only [beq_iff_eq] at this
  cases hs : t.state? s with
  | none => simp [hs] at this
  | some sd =>
    simp only [hs, Option.map_some, Option.some.injEq] at this
    refine ⟨sd, rfl, ?_, ?_, ?_⟩ <;> simp [← this, keyOf]

theorem ws_of_ok {t : Table} (h : TagStatesOk t = true) : t.whitespace = [32, 10, 13, 9, 12] := by
  unfold TagStatesOk at h; simp only [Bool.and_eq_true, beq_iff_eq] at h; exact h.1.1.2
theorem alpha_of_ok {t : Table} (h : TagStatesOk t = true) : t.alpha = [(97, 122), (65, 90)] := by
  unfold TagStatesOk at h; simp only [Bool.and_eq_true, beq_iff_eq] at h; exact h.1.2
theorem data_of_ok {t : Table} (h : TagStatesOk t = true) : t.dataState = 2 := by
  unfold TagStatesOk at h; simp only [Bool.and_eq_true, beq_iff_eq] at h; exact h.2

/-- byte classes in the shape `simp` leaves them -/
def IsWs (b : UInt8) : Prop := b = 32 ∨ b = 10 ∨ b = 13 ∨ b = 9 ∨ b = 12
def NotWs (b : UInt8) : Prop := ¬b = 32 ∧ ¬b = 10 ∧ ¬b = 13 ∧ ¬b = 9 ∧ ¬b = 12

theorem isWs_true {b : UInt8} (h : Spec.Attrs.isWs b = true) : IsWs b := by
  simp only [Spec.Attrs.isWs, Bool.or_eq_true, beq_iff_eq] at h
  unfold IsWs
  rcases h with (((h | h) | h) | h) | h <;> simp [h]
theorem isWs_false {b : UInt8} (h : Spec.Attrs.isWs b = false) : NotWs b := by
  simp only [Spec.Attrs.isWs, Bool.or_eq_false_iff, beq_eq_false_iff_ne, ne_eq] at h
  obtain ⟨⟨⟨⟨a, b'⟩, c⟩, d⟩, e⟩ := h
  exact ⟨e, b', d, a, c⟩

/-- the final step of a tag: `emit_tag?` then the transition -/
def finish (env : Env κ) (tr : Trans) (r : M κ × Option Signal) : M κ × Option Signal :=
  match r.2 with
  | some s => (r.1, some s)
  | none => applyTrans env tr r.1

section
variable {env : Env κ} (hok : TagStatesOk env.tbl = true) {inp : Bytes} {b : UInt8}
  {p : Nat} {il en ca : Bool} {lsh : Nat} {cq : UInt8} {ltt : TextType}
  {ls tps : Nat} {cnt : Option NonTagOutline} {cattr : Option AttrOutline} {fd : FeedbackDirective}
  {x : Ctx κ}

set_option hygiene false in
macro "step_prelude" s:num k:term : tactic => `(tactic| (
  obtain ⟨sd, hs, he, hm, ha⟩ := state_of_ok hok (s := $s) (k := $k) (by simp [expected])
  have hw := ws_of_ok hok
  have hal := alpha_of_ok hok
  unfold stateFn
  simp only [hs, he, hm, ha, exp2, exp28, exp31, exp32, exp33, exp34, exp35, exp36, expQuoted, exp39, eofArm,
    List.isEmpty_nil, List.isEmpty_cons, Bool.not_true, Bool.not_false, Bool.false_and, Bool.true_and, Bool.false_eq_true, if_false]))

macro "step_eval" : tactic => `(tactic| (
  simp [dispatch, runSeqArms, findArm, patMatches, runBody, runSeq, runCalls, act, lexAct, applyTrans, Common.pos,
    tokenPartRange, *]))


macro "final_close" : tactic => `(tactic| (
  simp only [setTagName, finish]
  generalize lexEmitTag _ _ _ _ _ = r
  rcases r with ⟨m, _ | s⟩ <;> simp [applyTrans]))

include hok

/-! ### data state, tag open -/

/-- data state at a `<` with no pending text: on to the tag open state, nothing emitted -/
theorem step2_lt {l : LexRegs} (hb : inp[p]? = some 60) (hl : l.lexemeStart = p) :
    stateFn env inp ⟨⟨p, il, 2, en, ca, lsh, cq, ltt⟩, .lexer l, x⟩
      = (⟨⟨p + 1, il, 28, false, ca, lsh, cq, ltt⟩, .lexer l, x⟩, none) := by
  have hd : inp.drop p = 60 :: inp.drop (p + 1) := by
    have hlt : p < inp.length := by
      rcases Nat.lt_or_ge p inp.length with h | h
      · exact h
      · rw [List.getElem?_eq_none h] at hb; simp at hb
    rw [List.getElem?_eq_getElem hlt] at hb
    rw [List.drop_eq_getElem_cons hlt]; simp at hb; rw [hb]
  step_prelude 2 exp2
  simp [hd, findByte, dispatch, runSeqArms, findArm, patMatches, runBody, runSeq, runCalls, act, lexAct, applyTrans,
    Common.pos, lexEmitText, hl]

theorem step28_alpha (hb : inp[p]? = some b) (h1 : isAsciiAlpha b = true) :
    stateFn env inp ⟨⟨p, il, 28, en, ca, lsh, cq, ltt⟩, .lexer ⟨ls, tps, ct, cnt, cattr, fd⟩, x⟩
      = (⟨⟨p + 1, il, 31, false, ca, lsh, cq, ltt⟩,
          .lexer ⟨ls, p, some (.startTag .default (NameHash.update NameHash.new b) .html [] false), cnt, cattr, fd⟩, x⟩, none) := by
  simp only [isAsciiAlpha, Bool.or_eq_true, Bool.and_eq_true, decide_eq_true_eq] at h1
  step_prelude 28 exp28
  step_eval
  simp [updTagHash]

/-! ### tag name -/

theorem step31_ws {nm : Range} {h : Nat} {ns : Ns} {as : List AttrOutline} {sc : Bool}
    (hb : inp[p]? = some b) (h1 : IsWs b) :
    stateFn env inp ⟨⟨p, il, 31, en, ca, lsh, cq, ltt⟩, .lexer ⟨ls, tps, some (.startTag nm h ns as sc), cnt, cattr, fd⟩, x⟩
      = (⟨⟨p + 1, il, 33, false, ca, lsh, cq, ltt⟩, .lexer ⟨ls, tps, some (.startTag ⟨tps, p⟩ h ns as sc), cnt, cattr, fd⟩, x⟩, none) := by
  unfold IsWs at h1
  step_prelude 31 exp31
  step_eval
  simp [setTagName]

theorem step31_slash {nm : Range} {h : Nat} {ns : Ns} {as : List AttrOutline} {sc : Bool}
    (hb : inp[p]? = some 47) :
    stateFn env inp ⟨⟨p, il, 31, en, ca, lsh, cq, ltt⟩, .lexer ⟨ls, tps, some (.startTag nm h ns as sc), cnt, cattr, fd⟩, x⟩
      = (⟨⟨p + 1, il, 32, false, ca, lsh, cq, ltt⟩, .lexer ⟨ls, tps, some (.startTag ⟨tps, p⟩ h ns as sc), cnt, cattr, fd⟩, x⟩, none) := by
  step_prelude 31 exp31
  step_eval
  simp [setTagName]

theorem step31_gt {nm : Range} {h : Nat} {ns : Ns} {as : List AttrOutline} {sc : Bool}
    (hb : inp[p]? = some 62) :
    stateFn env inp ⟨⟨p, il, 31, en, ca, lsh, cq, ltt⟩, .lexer ⟨ls, tps, some (.startTag nm h ns as sc), cnt, cattr, fd⟩, x⟩
      = finish env .gotoDyn (lexEmitTag env inp ⟨p + 1, il, 31, en, ca, lsh, cq, ltt⟩
          ⟨ls, tps, some (.startTag ⟨tps, p⟩ h ns as sc), cnt, cattr, fd⟩ x) := by
  step_prelude 31 exp31
  step_eval
  final_close

theorem step31_other {nm : Range} {h : Nat} {ns : Ns} {as : List AttrOutline} {sc : Bool}
    (hb : inp[p]? = some b) (h1 : NotWs b) (h2 : ¬b = 62) (h3 : ¬b = 47) :
    stateFn env inp ⟨⟨p, il, 31, en, ca, lsh, cq, ltt⟩, .lexer ⟨ls, tps, some (.startTag nm h ns as sc), cnt, cattr, fd⟩, x⟩
      = (⟨⟨p + 1, il, 31, en, ca, lsh, cq, ltt⟩, .lexer ⟨ls, tps, some (.startTag nm (NameHash.update h b) ns as sc), cnt, cattr, fd⟩, x⟩, none) := by
  unfold NotWs at h1
  step_prelude 31 exp31
  step_eval
  simp [updTagHash]

/-! ### self-closing start tag -/

theorem step32_gt {nm : Range} {h : Nat} {ns : Ns} {as : List AttrOutline} {sc : Bool}
    (hb : inp[p]? = some 62) :
    stateFn env inp ⟨⟨p, il, 32, en, ca, lsh, cq, ltt⟩, .lexer ⟨ls, tps, some (.startTag nm h ns as sc), cnt, cattr, fd⟩, x⟩
      = finish env .gotoDyn (lexEmitTag env inp ⟨p + 1, il, 32, en, ca, lsh, cq, ltt⟩
          ⟨ls, tps, some (.startTag nm h ns as true), cnt, cattr, fd⟩ x) := by
  step_prelude 32 exp32
  step_eval
  final_close

theorem step32_other {l : LexRegs} (hb : inp[p]? = some b) (h2 : ¬b = 62) :
    stateFn env inp ⟨⟨p, il, 32, en, ca, lsh, cq, ltt⟩, .lexer l, x⟩
      = (⟨⟨p, il, 33, false, ca, lsh, cq, ltt⟩, .lexer l, x⟩, none) := by
  step_prelude 32 exp32
  step_eval

/-! ### before attribute name -/

theorem step33_ws {l : LexRegs} (hb : inp[p]? = some b) (h1 : IsWs b) :
    stateFn env inp ⟨⟨p, il, 33, en, ca, lsh, cq, ltt⟩, .lexer l, x⟩
      = (⟨⟨p + 1, il, 33, en, ca, lsh, cq, ltt⟩, .lexer l, x⟩, none) := by
  unfold IsWs at h1
  step_prelude 33 exp33
  step_eval

theorem step33_slash {l : LexRegs} (hb : inp[p]? = some 47) :
    stateFn env inp ⟨⟨p, il, 33, en, ca, lsh, cq, ltt⟩, .lexer l, x⟩
      = (⟨⟨p + 1, il, 32, false, ca, lsh, cq, ltt⟩, .lexer l, x⟩, none) := by
  step_prelude 33 exp33
  step_eval

theorem step33_gt {l : LexRegs} (hb : inp[p]? = some 62) :
    stateFn env inp ⟨⟨p, il, 33, en, ca, lsh, cq, ltt⟩, .lexer l, x⟩
      = finish env .gotoDyn (lexEmitTag env inp ⟨p + 1, il, 33, en, ca, lsh, cq, ltt⟩ l x) := by
  step_prelude 33 exp33
  step_eval
  final_close

theorem step33_other {nm : Range} {h : Nat} {ns : Ns} {as : List AttrOutline} {sc : Bool}
    (hb : inp[p]? = some b) (h1 : NotWs b) (h2 : ¬b = 62) (h3 : ¬b = 47) :
    stateFn env inp ⟨⟨p, il, 33, en, ca, lsh, cq, ltt⟩, .lexer ⟨ls, tps, some (.startTag nm h ns as sc), cnt, cattr, fd⟩, x⟩
      = (⟨⟨p + 1, il, 34, false, ca, lsh, cq, ltt⟩, .lexer ⟨ls, p, some (.startTag nm h ns as sc), cnt, some .default, fd⟩, x⟩, none) := by
  unfold NotWs at h1
  step_prelude 33 exp33
  step_eval

/-! ### attribute name -/

theorem step34_ws {ct : Option TagOutline} {a : AttrOutline} (hb : inp[p]? = some b) (h1 : IsWs b) :
    stateFn env inp ⟨⟨p, il, 34, en, ca, lsh, cq, ltt⟩, .lexer ⟨ls, tps, ct, cnt, some a, fd⟩, x⟩
      = (⟨⟨p + 1, il, 35, false, ca, lsh, cq, ltt⟩, .lexer ⟨ls, tps, ct, cnt, some (Spec.Attrs.valueless ⟨tps, p⟩), fd⟩, x⟩, none) := by
  unfold IsWs at h1
  step_prelude 34 exp34
  step_eval
  simp [Spec.Attrs.valueless]

theorem step34_eq {ct : Option TagOutline} {a : AttrOutline} (hb : inp[p]? = some 61) :
    stateFn env inp ⟨⟨p, il, 34, en, ca, lsh, cq, ltt⟩, .lexer ⟨ls, tps, ct, cnt, some a, fd⟩, x⟩
      = (⟨⟨p + 1, il, 36, false, ca, lsh, cq, ltt⟩, .lexer ⟨ls, tps, ct, cnt, some (Spec.Attrs.valueless ⟨tps, p⟩), fd⟩, x⟩, none) := by
  step_prelude 34 exp34
  step_eval
  simp [Spec.Attrs.valueless]

theorem step34_slash {nm : Range} {h : Nat} {ns : Ns} {as : List AttrOutline} {sc : Bool} {a : AttrOutline}
    (hb : inp[p]? = some 47) :
    stateFn env inp ⟨⟨p, il, 34, en, ca, lsh, cq, ltt⟩, .lexer ⟨ls, tps, some (.startTag nm h ns as sc), cnt, some a, fd⟩, x⟩
      = (⟨⟨p + 1, il, 32, false, ca, lsh, cq, ltt⟩,
          .lexer ⟨ls, tps, some (.startTag nm h ns (as ++ [Spec.Attrs.valueless ⟨tps, p⟩]) sc), cnt, none, fd⟩, x⟩, none) := by
  step_prelude 34 exp34
  step_eval
  simp [Spec.Attrs.valueless]

theorem step34_gt {nm : Range} {h : Nat} {ns : Ns} {as : List AttrOutline} {sc : Bool} {a : AttrOutline}
    (hb : inp[p]? = some 62) :
    stateFn env inp ⟨⟨p, il, 34, en, ca, lsh, cq, ltt⟩, .lexer ⟨ls, tps, some (.startTag nm h ns as sc), cnt, some a, fd⟩, x⟩
      = finish env .gotoDyn (lexEmitTag env inp ⟨p + 1, il, 34, en, ca, lsh, cq, ltt⟩
          ⟨ls, tps, some (.startTag nm h ns (as ++ [Spec.Attrs.valueless ⟨tps, p⟩]) sc), cnt, none, fd⟩ x) := by
  step_prelude 34 exp34
  step_eval
  simp only [Spec.Attrs.valueless]
  final_close

theorem step34_other {l : LexRegs} (hb : inp[p]? = some b) (h1 : NotWs b) (h2 : ¬b = 61) (h3 : ¬b = 47) (h4 : ¬b = 62) :
    stateFn env inp ⟨⟨p, il, 34, en, ca, lsh, cq, ltt⟩, .lexer l, x⟩
      = (⟨⟨p + 1, il, 34, en, ca, lsh, cq, ltt⟩, .lexer l, x⟩, none) := by
  unfold NotWs at h1
  step_prelude 34 exp34
  step_eval

/-! ### after attribute name -/

theorem step35_ws {l : LexRegs} (hb : inp[p]? = some b) (h1 : IsWs b) :
    stateFn env inp ⟨⟨p, il, 35, en, ca, lsh, cq, ltt⟩, .lexer l, x⟩
      = (⟨⟨p + 1, il, 35, en, ca, lsh, cq, ltt⟩, .lexer l, x⟩, none) := by
  unfold IsWs at h1
  step_prelude 35 exp35
  step_eval

theorem step35_slash {nm : Range} {h : Nat} {ns : Ns} {as : List AttrOutline} {sc : Bool} {a : AttrOutline}
    (hb : inp[p]? = some 47) :
    stateFn env inp ⟨⟨p, il, 35, en, ca, lsh, cq, ltt⟩, .lexer ⟨ls, tps, some (.startTag nm h ns as sc), cnt, some a, fd⟩, x⟩
      = (⟨⟨p + 1, il, 32, false, ca, lsh, cq, ltt⟩,
          .lexer ⟨ls, tps, some (.startTag nm h ns (as ++ [a]) sc), cnt, none, fd⟩, x⟩, none) := by
  step_prelude 35 exp35
  step_eval

theorem step35_eq {l : LexRegs} (hb : inp[p]? = some 61) :
    stateFn env inp ⟨⟨p, il, 35, en, ca, lsh, cq, ltt⟩, .lexer l, x⟩
      = (⟨⟨p + 1, il, 36, false, ca, lsh, cq, ltt⟩, .lexer l, x⟩, none) := by
  step_prelude 35 exp35
  step_eval

theorem step35_gt {nm : Range} {h : Nat} {ns : Ns} {as : List AttrOutline} {sc : Bool} {a : AttrOutline}
    (hb : inp[p]? = some 62) :
    stateFn env inp ⟨⟨p, il, 35, en, ca, lsh, cq, ltt⟩, .lexer ⟨ls, tps, some (.startTag nm h ns as sc), cnt, some a, fd⟩, x⟩
      = finish env .gotoDyn (lexEmitTag env inp ⟨p + 1, il, 35, en, ca, lsh, cq, ltt⟩
          ⟨ls, tps, some (.startTag nm h ns (as ++ [a]) sc), cnt, none, fd⟩ x) := by
  step_prelude 35 exp35
  step_eval
  final_close

theorem step35_other {nm : Range} {h : Nat} {ns : Ns} {as : List AttrOutline} {sc : Bool} {a : AttrOutline}
    (hb : inp[p]? = some b) (h1 : NotWs b) (h2 : ¬b = 47) (h3 : ¬b = 61) (h4 : ¬b = 62) :
    stateFn env inp ⟨⟨p, il, 35, en, ca, lsh, cq, ltt⟩, .lexer ⟨ls, tps, some (.startTag nm h ns as sc), cnt, some a, fd⟩, x⟩
      = (⟨⟨p + 1, il, 34, false, ca, lsh, cq, ltt⟩,
          .lexer ⟨ls, p, some (.startTag nm h ns (as ++ [a]) sc), cnt, some .default, fd⟩, x⟩, none) := by
  unfold NotWs at h1
  step_prelude 35 exp35
  step_eval

/-! ### before attribute value -/

theorem step36_ws {l : LexRegs} (hb : inp[p]? = some b) (h1 : IsWs b) :
    stateFn env inp ⟨⟨p, il, 36, en, ca, lsh, cq, ltt⟩, .lexer l, x⟩
      = (⟨⟨p + 1, il, 36, en, ca, lsh, cq, ltt⟩, .lexer l, x⟩, none) := by
  unfold IsWs at h1
  step_prelude 36 (exp36 (trans36 env.tbl))
  step_eval

theorem step36_dq {l : LexRegs} (hb : inp[p]? = some 34) :
    stateFn env inp ⟨⟨p, il, 36, en, ca, lsh, cq, ltt⟩, .lexer l, x⟩
      = (⟨⟨p + 1, il, 38, false, ca, lsh, 34, ltt⟩, .lexer l, x⟩, none) := by
  step_prelude 36 (exp36 (trans36 env.tbl))
  step_eval

theorem step36_sq {l : LexRegs} (hb : inp[p]? = some 39) :
    stateFn env inp ⟨⟨p, il, 36, en, ca, lsh, cq, ltt⟩, .lexer l, x⟩
      = (⟨⟨p + 1, il, 37, false, ca, lsh, 39, ltt⟩, .lexer l, x⟩, none) := by
  step_prelude 36 (exp36 (trans36 env.tbl))
  step_eval

theorem step36_gt {nm : Range} {h : Nat} {ns : Ns} {as : List AttrOutline} {sc : Bool} {a : AttrOutline}
    (hb : inp[p]? = some 62) :
    stateFn env inp ⟨⟨p, il, 36, en, ca, lsh, cq, ltt⟩, .lexer ⟨ls, tps, some (.startTag nm h ns as sc), cnt, some a, fd⟩, x⟩
      = finish env (trans36 env.tbl) (lexEmitTag env inp ⟨p + 1, il, 36, en, ca, lsh, cq, ltt⟩
          ⟨ls, tps, some (.startTag nm h ns (as ++ [a]) sc), cnt, none, fd⟩ x) := by
  step_prelude 36 (exp36 (trans36 env.tbl))
  simp [dispatch, runSeqArms, findArm, patMatches, runBody, runSeq, runCalls, act, lexAct, Common.pos,
    tokenPartRange, hw, hb]
  simp only [finish]
  generalize lexEmitTag _ _ _ _ _ = r
  rcases r with ⟨m, _ | s⟩ <;> simp

theorem step36_other {l : LexRegs} (hb : inp[p]? = some b) (h1 : NotWs b) (h2 : ¬b = 34) (h3 : ¬b = 39) (h4 : ¬b = 62) :
    stateFn env inp ⟨⟨p, il, 36, en, ca, lsh, cq, ltt⟩, .lexer l, x⟩
      = (⟨⟨p, il, 39, false, ca, lsh, cq, ltt⟩, .lexer l, x⟩, none) := by
  unfold NotWs at h1
  step_prelude 36 (exp36 (trans36 env.tbl))
  step_eval

/-! ### attribute value (unquoted) -/

/-- first invocation (enter action `start_token_part`) on a byte that continues the value -/
theorem step39_first {ct : Option TagOutline} (hb : inp[p]? = some b) (h1 : NotWs b) (h4 : ¬b = 62) :
    stateFn env inp ⟨⟨p, il, 39, false, ca, lsh, cq, ltt⟩, .lexer ⟨ls, tps, ct, cnt, cattr, fd⟩, x⟩
      = (⟨⟨p + 1, il, 39, true, ca, lsh, cq, ltt⟩, .lexer ⟨ls, p, ct, cnt, cattr, fd⟩, x⟩, none) := by
  unfold NotWs at h1
  step_prelude 39 exp39
  step_eval

theorem step39_other {l : LexRegs} (hb : inp[p]? = some b) (h1 : NotWs b) (h4 : ¬b = 62) :
    stateFn env inp ⟨⟨p, il, 39, true, ca, lsh, cq, ltt⟩, .lexer l, x⟩
      = (⟨⟨p + 1, il, 39, true, ca, lsh, cq, ltt⟩, .lexer l, x⟩, none) := by
  unfold NotWs at h1
  step_prelude 39 exp39
  step_eval

theorem step39_ws {nm : Range} {h : Nat} {ns : Ns} {as : List AttrOutline} {sc : Bool} {a : AttrOutline}
    (hb : inp[p]? = some b) (h1 : IsWs b) (hq : cq = 34 ∨ cq = 39) :
    stateFn env inp ⟨⟨p, il, 39, true, ca, lsh, cq, ltt⟩, .lexer ⟨ls, tps, some (.startTag nm h ns as sc), cnt, some a, fd⟩, x⟩
      = (⟨⟨p + 1, il, 33, false, ca, lsh, cq, ltt⟩,
          .lexer ⟨ls, tps, some (.startTag nm h ns (as ++ [⟨a.name, ⟨tps, p⟩, ⟨a.raw.start, p⟩⟩]) sc), cnt, none, fd⟩, x⟩, none) := by
  have hne : (b == cq) = false := by
    unfold IsWs at h1
    rcases h1 with rfl | rfl | rfl | rfl | rfl <;> rcases hq with rfl | rfl <;> decide
  unfold IsWs at h1
  step_prelude 39 exp39
  step_eval

theorem step39_gt {nm : Range} {h : Nat} {ns : Ns} {as : List AttrOutline} {sc : Bool} {a : AttrOutline}
    (hb : inp[p]? = some 62) (hq : cq = 34 ∨ cq = 39) :
    stateFn env inp ⟨⟨p, il, 39, true, ca, lsh, cq, ltt⟩, .lexer ⟨ls, tps, some (.startTag nm h ns as sc), cnt, some a, fd⟩, x⟩
      = finish env .gotoDyn (lexEmitTag env inp ⟨p + 1, il, 39, true, ca, lsh, cq, ltt⟩
          ⟨ls, tps, some (.startTag nm h ns (as ++ [⟨a.name, ⟨tps, p⟩, ⟨a.raw.start, p⟩⟩]) sc), cnt, none, fd⟩ x) := by
  have hne : ((62 : UInt8) == cq) = false := by rcases hq with rfl | rfl <;> decide
  step_prelude 39 exp39
  step_eval
  final_close

/-! ### attribute value (quoted): one invocation, `memchr` to the closing quote -/

omit hok in
theorem findByte_getElem {q : UInt8} {l : List UInt8} {k : Nat} (h : findByte q l = some k) : l[k]? = some q := by
  induction l generalizing k with
  | nil => simp [findByte] at h
  | cons c cs ih =>
    simp only [findByte] at h
    split at h
    · rename_i hc
      simp only [Option.some.injEq] at h
      subst h
      simp only [beq_iff_eq] at hc
      simp [hc]
    · cases hf : findByte q cs with
      | none => simp [hf] at h
      | some j =>
        simp only [hf, Option.map_some, Option.some.injEq] at h
        subst h
        simpa using ih hf

theorem step38_found {nm : Range} {h : Nat} {ns : Ns} {as : List AttrOutline} {sc : Bool} {a : AttrOutline} {k : Nat}
    (hf : findByte 34 (inp.drop p) = some k) :
    stateFn env inp ⟨⟨p, il, 38, false, ca, lsh, 34, ltt⟩, .lexer ⟨ls, tps, some (.startTag nm h ns as sc), cnt, some a, fd⟩, x⟩
      = (⟨⟨p + k + 1, il, 33, false, ca, lsh, 34, ltt⟩,
          .lexer ⟨ls, p, some (.startTag nm h ns (as ++ [⟨a.name, ⟨p, p + k⟩, ⟨a.raw.start, p + k + 1⟩⟩]) sc), cnt, none, fd⟩, x⟩, none) := by
  have hq : inp[p + k]? = some 34 := by
    have := findByte_getElem hf
    simpa using this
  step_prelude 38 (expQuoted 34)
  simp [dispatch, runSeqArms, findArm, patMatches, runBody, runSeq, runCalls, act, lexAct, applyTrans, Common.pos,
    tokenPartRange, hf, Nat.add_right_comm p 1 k, hq]

theorem step37_found {nm : Range} {h : Nat} {ns : Ns} {as : List AttrOutline} {sc : Bool} {a : AttrOutline} {k : Nat}
    (hf : findByte 39 (inp.drop p) = some k) :
    stateFn env inp ⟨⟨p, il, 37, false, ca, lsh, 39, ltt⟩, .lexer ⟨ls, tps, some (.startTag nm h ns as sc), cnt, some a, fd⟩, x⟩
      = (⟨⟨p + k + 1, il, 33, false, ca, lsh, 39, ltt⟩,
          .lexer ⟨ls, p, some (.startTag nm h ns (as ++ [⟨a.name, ⟨p, p + k⟩, ⟨a.raw.start, p + k + 1⟩⟩]) sc), cnt, none, fd⟩, x⟩, none) := by
  have hq : inp[p + k]? = some 39 := by
    have := findByte_getElem hf
    simpa using this
  step_prelude 37 (expQuoted 39)
  simp [dispatch, runSeqArms, findArm, patMatches, runBody, runSeq, runCalls, act, lexAct, applyTrans, Common.pos,
    tokenPartRange, hf, Nat.add_right_comm p 1 k, hq]

end
end LolHtml.Model.TagStates
