import LolHtml.Lemmas.TagStates
namespace LolHtml.Model.TagStates
open LolHtml LolHtml.Model
variable {κ : Type}

theorem state_of_ok {t : Table} (h : TagStatesOk t = true) {s : Nat} {k : Key} (hm : (s, k) ∈ expected t) :
    ∃ sd, t.state? s = some sd ∧ sd.enter = k.1 ∧ sd.memchr = k.2.1 ∧ sd.arms = k.2.2 := by
  unfold TagStatesOk at h
  simp only [Bool.and_eq_true, List.all_eq_true] at h
  have := h.1.1.1 _ hm
  simp only [beq_iff_eq] at this
  cases hs : t.state? s with
  | none => simp [hs] at this
  | some sd =>
    simp only [hs, Option.map_some, Option.some.injEq] at this
    refine ⟨sd, rfl, ?_, ?_, ?_⟩ <;> simp [← this, keyOf]

theorem step34_other {env : Env κ} (hok : TagStatesOk env.tbl = true) {inp : Bytes} {b : UInt8}
    {p : Nat} {il en ca : Bool} {lsh : Nat} {cq : UInt8} {ltt : TextType}
    {l : LexRegs} {x : Ctx κ}
    (hb : inp[p]? = some b) (h1 : Spec.Attrs.isWs b = false) (h2 : b ≠ 61) (h3 : b ≠ 47) (h4 : b ≠ 62) :
    stateFn env inp ⟨⟨p, il, 34, en, ca, lsh, cq, ltt⟩, .lexer l, x⟩
      = (⟨⟨p + 1, il, 34, en, ca, lsh, cq, ltt⟩, .lexer l, x⟩, none) := by
  obtain ⟨sd, hs, he, hm, ha⟩ := state_of_ok hok (s := 34) (k := exp34) (by simp [expected])
  have hw : env.tbl.whitespace = [32, 10, 13, 9, 12] := by
    unfold TagStatesOk at hok; simp only [Bool.and_eq_true, beq_iff_eq] at hok; exact hok.1.1.2
  simp only [Spec.Attrs.isWs, Bool.or_eq_false_iff, beq_eq_false_iff_ne, ne_eq] at h1
  unfold stateFn
  simp only [hs, he, hm, ha, exp34, eofArm, hb, List.isEmpty_nil, Bool.not_true, Bool.false_and, Bool.false_eq_true, if_false]
  simp [dispatch, runSeqArms, findArm, patMatches, hw, h1, h2, h3, h4, runBody, runSeq, runCalls]
