import LolHtml.Thm.C16_Attrs
open LolHtml.Thm.C16
#print axioms C16_outline
#print axioms C16_outline_recorded
#print axioms C16_outline_gen
#print axioms tagStates_gen
