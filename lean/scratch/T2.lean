import LolHtml.Lemmas.TagStates
namespace LolHtml.Model.TagStates
open LolHtml LolHtml.Model
variable {κ : Type}

theorem state_of_ok {t : Table} (h : TagStatesOk t = true) {s : Nat} {k : Key} (hm : (s, k) ∈ expected t) :
    ∃ sd, t.state? s = some sd ∧ sd.enter = k.1 ∧ sd.memchr = k.2.1 ∧ sd.arms = k.2.2 := by
  unfold TagStatesOk at h
  simp only [Bool.and_eq_true, List.all_eq_true] at h
  have := h.1.1.1 _ hm
  simp only [beq_iff_eq] at this
  cases hs : t.state? s with
  | none => simp [hs] at this
  | some sd =>
    simp only [hs, Option.map_some, Option.some.injEq] at this
    refine ⟨sd, rfl, ?_, ?_, ?_⟩ <;> simp [← this, keyOf]

theorem ws_of_ok {t : Table} (h : TagStatesOk t = true) : t.whitespace = [32, 10, 13, 9, 12] := by
  unfold TagStatesOk at h; simp only [Bool.and_eq_true, beq_iff_eq] at h; exact h.1.1.2
theorem alpha_of_ok {t : Table} (h : TagStatesOk t = true) : t.alpha = [(97, 122), (65, 90)] := by
  unfold TagStatesOk at h; simp only [Bool.and_eq_true, beq_iff_eq] at h; exact h.1.2
theorem data_of_ok {t : Table} (h : TagStatesOk t = true) : t.dataState = 2 := by
  unfold TagStatesOk at h; simp only [Bool.and_eq_true, beq_iff_eq] at h; exact h.2

/-- byte classes in the shape `simp` leaves them -/
def IsWs (b : UInt8) : Prop := b = 32 ∨ b = 10 ∨ b = 13 ∨ b = 9 ∨ b = 12
def NotWs (b : UInt8) : Prop := ¬b = 32 ∧ ¬b = 10 ∧ ¬b = 13 ∧ ¬b = 9 ∧ ¬b = 12

theorem isWs_true {b : UInt8} (h : Spec.Attrs.isWs b = true) : IsWs b := by
  simp only [Spec.Attrs.isWs, Bool.or_eq_true, beq_iff_eq] at h
  unfold IsWs
  rcases h with (((h | h) | h) | h) | h <;> simp [h]
theorem isWs_false {b : UInt8} (h : Spec.Attrs.isWs b = false) : NotWs b := by
  simp only [Spec.Attrs.isWs, Bool.or_eq_false_iff, beq_eq_false_iff_ne, ne_eq] at h
  obtain ⟨⟨⟨⟨a, b'⟩, c⟩, d⟩, e⟩ := h
  exact ⟨e, b', d, a, c⟩

/-- the final step of a tag: `emit_tag?` then the transition -/
def finish (env : Env κ) (tr : Trans) (r : M κ × Option Signal) : M κ × Option Signal :=
  match r.2 with
  | some s => (r.1, some s)
  | none => applyTrans env tr r.1

section
variable {env : Env κ} (hok : TagStatesOk env.tbl = true) {inp : Bytes} {b : UInt8}
  {p : Nat} {il en ca : Bool} {lsh : Nat} {cq : UInt8} {ltt : TextType}
  {ls tps : Nat} {cnt : Option NonTagOutline} {cattr : Option AttrOutline} {fd : FeedbackDirective}
  {x : Ctx κ}

set_option hygiene false in
macro "step_prelude" s:num k:term : tactic => `(tactic| (
  obtain ⟨sd, hs, he, hm, ha⟩ := state_of_ok hok (s := $s) (k := $k) (by simp [expected])
  have hw := ws_of_ok hok
  have hal := alpha_of_ok hok
  unfold stateFn
  simp only [hs, he, hm, ha, exp2, exp28, exp31, exp32, exp33, exp34, exp35, exp36, expQuoted, exp39, eofArm,
    List.isEmpty_nil, List.isEmpty_cons, Bool.not_true, Bool.not_false, Bool.false_and, Bool.true_and, Bool.false_eq_true, if_false]))

macro "step_eval" : tactic => `(tactic| (
  simp [dispatch, runSeqArms, findArm, patMatches, runBody, runSeq, runCalls, act, lexAct, applyTrans, Common.pos,
    tokenPartRange, *]))

include hok

theorem step31_ws {nm : Range} {h : Nat} {ns : Ns} {as : List AttrOutline} {sc : Bool}
    (hb : inp[p]? = some b) (h1 : IsWs b) :
    stateFn env inp ⟨⟨p, il, 31, en, ca, lsh, cq, ltt⟩, .lexer ⟨ls, tps, some (.startTag nm h ns as sc), cnt, cattr, fd⟩, x⟩
      = (⟨⟨p + 1, il, 33, false, ca, lsh, cq, ltt⟩, .lexer ⟨ls, tps, some (.startTag ⟨tps, p⟩ h ns as sc), cnt, cattr, fd⟩, x⟩, none) := by
  unfold IsWs at h1
  step_prelude 31 exp31
  step_eval
  simp [setTagName]

theorem step31_gt {nm : Range} {h : Nat} {ns : Ns} {as : List AttrOutline} {sc : Bool}
    (hb : inp[p]? = some b) (h1 : b = 62) :
    stateFn env inp ⟨⟨p, il, 31, en, ca, lsh, cq, ltt⟩, .lexer ⟨ls, tps, some (.startTag nm h ns as sc), cnt, cattr, fd⟩, x⟩
      = finish env .gotoDyn (lexEmitTag env inp ⟨p + 1, il, 31, en, ca, lsh, cq, ltt⟩ ⟨ls, tps, some (.startTag ⟨tps, p⟩ h ns as sc), cnt, cattr, fd⟩ x) := by
  subst h1
  step_prelude 31 exp31
  step_eval
  trace_state
  sorry
end
end LolHtml.Model.TagStates
