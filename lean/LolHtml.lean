import LolHtml.Basic
