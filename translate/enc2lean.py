"""enc2lean: extract the encoding data lol-html relies on from the pinned `encoding_rs` crate into Lean.

`translate(repo) -> {"Encodings.lean": <lean source>}`.

Deliberately dumb: it reads `Cargo.lock` of the repo for the pinned `encoding_rs` version, opens that
version's *source text* in the local cargo registry (`~/.cargo/registry/src/*/encoding_rs-<ver>/src/`, or
`$CARGO_HOME`), matches fixed literal shapes and prints numerals / names. It does not interpret Rust.
Any shape it does not recognise raises `TranslateError` (the check pipeline reports a broken obligation).

Extracted
  encoding_rs  src/data.rs   `pub static SINGLE_BYTE_DATA: SingleByteData = SingleByteData { <field>: [u16; 128] ... }`
               src/lib.rs    every `pub static <X>_INIT: Encoding = Encoding { name: "..", variant: VariantEncoding::<V>(..) }`
                             (which table a single-byte encoding uses; the kind of every other encoding),
                             `LABELS_SORTED` / `ENCODINGS_IN_LABEL_SORT` (label -> encoding),
                             the body of `is_ascii_compatible` (the refused encodings)
               src/x_user_defined.rs   the offset of the decoder (`u16::from(b) + 0xF700`) and the encoder's range
  lol-html     src/lib.rs    `ASCII_COMPATIBLE_ENCODINGS`, `NON_ASCII_COMPATIBLE_ENCODINGS` (test_utils)
               src/rewriter/mod.rs   `AsciiCompatibleEncoding::new` is `encoding.is_ascii_compatible().then_some(..)`
"""
import glob
import os
import re


class TranslateError(Exception):
    pass


def _read(path):
    try:
        with open(path, encoding="utf-8") as f:
            return f.read()
    except OSError as e:
        raise TranslateError(f"cannot read {path}: {e}")


def _strip_line_comments(src):
    # the files we read have no `//` inside string literals on the lines we look at
    return re.sub(r"//[^\n]*", "", src)


def pinned_version(repo):
    lock = _read(os.path.join(repo, "Cargo.lock"))
    m = re.findall(r'\[\[package\]\]\s*name = "encoding_rs"\s*version = "([0-9][^"]*)"', lock)
    if len(m) != 1:
        raise TranslateError(f"Cargo.lock: expected exactly one encoding_rs package, found {len(m)}")
    return m[0]


def crate_src(version):
    homes = [os.environ.get("CARGO_HOME"), os.path.expanduser("~/.cargo")]
    cands = []
    for h in homes:
        if h:
            cands += glob.glob(os.path.join(h, "registry", "src", "*", f"encoding_rs-{version}", "src"))
    cands = sorted(set(cands))
    if not cands:
        raise TranslateError(f"source of encoding_rs-{version} not found in the cargo registry")
    return cands[0]


def single_byte_tables(data_rs):
    m = re.search(r"pub struct SingleByteData \{(.*?)\n\}", data_rs, re.S)
    if not m:
        raise TranslateError("data.rs: struct SingleByteData not found")
    fields = re.findall(r"pub ([a-z0-9_]+): \[u16; 128\],", m.group(1))
    rest = re.sub(r"pub [a-z0-9_]+: \[u16; 128\],", "", m.group(1)).strip()
    if rest or not fields:
        raise TranslateError(f"data.rs: unexpected SingleByteData field shape: {rest[:60]!r}")
    m = re.search(r"pub static SINGLE_BYTE_DATA: SingleByteData = SingleByteData \{(.*?)\n\};", data_rs, re.S)
    if not m:
        raise TranslateError("data.rs: static SINGLE_BYTE_DATA not found")
    body = m.group(1)
    tables = {}
    for name, arr in re.findall(r"\b([a-z0-9_]+): \[(.*?)\],(?:\n|$)", body, re.S):
        toks = [t.strip() for t in arr.split(",") if t.strip()]
        vals = []
        for t in toks:
            if not re.fullmatch(r"0x[0-9A-Fa-f]{4}", t):
                raise TranslateError(f"data.rs: table {name}: unexpected entry {t!r}")
            vals.append(int(t, 16))
        if len(vals) != 128:
            raise TranslateError(f"data.rs: table {name} has {len(vals)} entries")
        if name in tables:
            raise TranslateError(f"data.rs: table {name} twice")
        tables[name] = vals
    if sorted(tables) != sorted(fields):
        raise TranslateError("data.rs: SINGLE_BYTE_DATA initialiser does not match the struct fields")
    return fields, tables


KINDS = {"SingleByte", "UserDefined", "Utf8", "Utf16Be", "Utf16Le", "Big5", "EucJp", "EucKr", "Gbk", "Gb18030",
         "ShiftJis", "Iso2022Jp", "Replacement"}


def encodings(lib_rs):
    """[(CONST, name, kind, table_field or None)] in source order"""
    res = []
    for const, name, variant in re.findall(
        r'pub static ([A-Z0-9_]+)_INIT: Encoding = Encoding \{\s*name: "([^"]+)",\s*variant: VariantEncoding::([^\n]+?),\s*\};',
        lib_rs,
    ):
        m = re.fullmatch(r"([A-Za-z0-9]+)(?:\((.*)\))?", variant.strip())
        if not m or m.group(1) not in KINDS:
            raise TranslateError(f"lib.rs: unknown variant {variant!r} of {const}")
        kind, args = m.group(1), m.group(2)
        field = None
        if kind == "SingleByte":
            a = re.fullmatch(r"&data::SINGLE_BYTE_DATA\.([a-z0-9_]+), 0x[0-9A-Fa-f]+, \d+, \d+", args or "")
            if not a:
                raise TranslateError(f"lib.rs: unexpected SingleByte arguments of {const}: {args!r}")
            field = a.group(1)
        elif args is not None:
            raise TranslateError(f"lib.rs: unexpected arguments of {const}: {args!r}")
        if not re.search(r"pub static %s: &'static Encoding = &%s_INIT;" % (const, const), lib_rs):
            raise TranslateError(f"lib.rs: no `pub static {const}` for {const}_INIT")
        res.append((const, name, kind, field))
    if not res:
        raise TranslateError("lib.rs: no encodings found")
    return res


def labels(lib_rs, by_const):
    m1 = re.search(r"static LABELS_SORTED: \[&'static str; (\d+)\] = \[(.*?)\n\];", lib_rs, re.S)
    m2 = re.search(r"static ENCODINGS_IN_LABEL_SORT: \[&'static Encoding; (\d+)\] = \[(.*?)\n\];", lib_rs, re.S)
    if not m1 or not m2:
        raise TranslateError("lib.rs: LABELS_SORTED / ENCODINGS_IN_LABEL_SORT not found")
    ls = re.findall(r'"([^"\\]*)"', m1.group(2))
    es = re.findall(r"&([A-Z0-9_]+)_INIT", m2.group(2))
    if len(ls) != int(m1.group(1)) or len(es) != int(m2.group(1)) or len(ls) != len(es):
        raise TranslateError("lib.rs: label tables have inconsistent lengths")
    out = []
    for l, e in zip(ls, es):
        if e not in by_const:
            raise TranslateError(f"lib.rs: label {l!r} maps to unknown {e}")
        if not re.fullmatch(r"[a-z0-9_:.\-]+", l):
            raise TranslateError(f"lib.rs: unexpected label {l!r}")
        out.append((l, by_const[e][1]))
    return out


def refused(lib_rs, by_const):
    m = re.search(r"pub fn is_ascii_compatible\(&'static self\) -> bool \{\s*!\((.*?)\)\s*\}", lib_rs, re.S)
    if not m:
        raise TranslateError("lib.rs: is_ascii_compatible has an unknown shape")
    parts = [p.strip() for p in m.group(1).split("||")]
    out = []
    for p in parts:
        a = re.fullmatch(r"self == ([A-Z0-9_]+)", p)
        if not a or a.group(1) not in by_const:
            raise TranslateError(f"lib.rs: is_ascii_compatible: unexpected disjunct {p!r}")
        out.append(by_const[a.group(1)][1])
    return out


def user_defined(src):
    s = _strip_line_comments(src)
    d = re.findall(r"destination_handle\.write_upper_bmp\(u16::from\(b\) \+ (0x[0-9A-Fa-f]+)\);", s)
    e = re.findall(
        r"if c <= '\\u\{7F\}' \{.*?\}\s*if c < '\\u\{([0-9A-Fa-f]+)\}' \|\| c > '\\u\{([0-9A-Fa-f]+)\}' \{.*?Unmappable.*?\}\s*"
        r"destination_handle\.write_one\(\(u32::from\(c\) - (0x[0-9A-Fa-f]+)\) as u8\);",
        s, re.S)
    if len(d) != 1 or len(e) != 1:
        raise TranslateError("x_user_defined.rs: decoder / encoder rule has an unknown shape")
    off = int(d[0], 16)
    lo, hi, off2 = int(e[0][0], 16), int(e[0][1], 16), int(e[0][2], 16)
    if not re.search(r"if b < 0x80 \{\s*destination_handle\.write_ascii\(b\);", s):
        raise TranslateError("x_user_defined.rs: ASCII rule has an unknown shape")
    if off2 != off or lo != off + 0x80 or hi != off + 0xFF:
        raise TranslateError("x_user_defined.rs: encoder range does not mirror the decoder offset")
    return off


def lol_lists(repo, by_const):
    src = _strip_line_comments(_read(os.path.join(repo, "src", "lib.rs")))
    out = []
    for ident in ("ASCII_COMPATIBLE_ENCODINGS", "NON_ASCII_COMPATIBLE_ENCODINGS"):
        m = re.search(r"pub static %s: \[&Encoding; (\d+)\] =\s*\[(.*?)\];" % ident, src, re.S)
        if not m:
            raise TranslateError(f"src/lib.rs: {ident} not found")
        ids = [t.strip() for t in m.group(2).split(",") if t.strip()]
        if len(ids) != int(m.group(1)):
            raise TranslateError(f"src/lib.rs: {ident} length mismatch")
        for i in ids:
            if i not in by_const:
                raise TranslateError(f"src/lib.rs: {ident}: unknown encoding {i}")
        out.append([by_const[i][1] for i in ids])
    rw = _strip_line_comments(_read(os.path.join(repo, "src", "rewriter", "mod.rs")))
    if not re.search(
        r"pub fn new\(encoding: &'static Encoding\) -> Option<Self> \{\s*encoding\.is_ascii_compatible\(\)\.then_some\(Self\(encoding\)\)\s*\}",
        rw,
    ):
        raise TranslateError("src/rewriter/mod.rs: AsciiCompatibleEncoding::new has an unknown shape")
    return out


def _ident(field):
    return "t_" + field


def _nat_list(vals, indent="   "):
    rows = [", ".join(str(v) for v in vals[i:i + 16]) for i in range(0, len(vals), 16)]
    return "[" + (",\n" + indent).join(rows) + "]"


def _str_list(xs):
    return "[" + ", ".join('"%s"' % x for x in xs) + "]"


def translate(repo):
    ver = pinned_version(repo)
    src = crate_src(ver)
    fields, tables = single_byte_tables(_read(os.path.join(src, "data.rs")))
    lib_rs = _read(os.path.join(src, "lib.rs"))
    encs = encodings(lib_rs)
    by_const = {c: (c, n, k, f) for (c, n, k, f) in encs}
    if len(by_const) != len(encs) or len({n for (_, n, _, _) in encs}) != len(encs):
        raise TranslateError("lib.rs: duplicate encoding")
    for (_, n, k, f) in encs:
        if k == "SingleByte" and f not in tables:
            raise TranslateError(f"lib.rs: {n} refers to unknown table {f}")
    lbls = labels(lib_rs, by_const)
    ref = refused(lib_rs, by_const)
    off = user_defined(_read(os.path.join(src, "x_user_defined.rs")))
    compat, noncompat = lol_lists(repo, by_const)
    names = [n for (_, n, _, _) in encs]
    if sorted(compat + noncompat) != sorted(names):
        raise TranslateError("lol-html's (NON_)ASCII_COMPATIBLE_ENCODINGS do not partition encoding_rs' encodings")
    if sorted(noncompat) != sorted(ref):
        raise TranslateError("lol-html's NON_ASCII_COMPATIBLE_ENCODINGS differ from what is_ascii_compatible refuses")

    o = []
    o.append("/-")
    o.append(f"GENERATED by translate/enc2lean.py from encoding_rs-{ver} (data.rs, lib.rs, x_user_defined.rs) and")
    o.append("lol-html src/lib.rs, src/rewriter/mod.rs. Do not edit.")
    o.append("-/")
    o.append("namespace LolHtml.Gen.Encodings")
    o.append("")
    o.append(f'def encodingRsVersion : String := "{ver}"')
    o.append("")
    o.append("/-! upper-half tables (bytes 0x80..0xFF) of the single-byte encodings, 0 = unmapped -/")
    for f in fields:
        o.append("")
        o.append(f"def {_ident(f)} : List Nat :=")
        o.append("  " + _nat_list(tables[f]))
    sb = [(n, f) for (_, n, k, f) in encs if k == "SingleByte"]
    o.append("")
    o.append("/-- every `VariantEncoding::SingleByte` encoding with its table -/")
    o.append("def singleByteTables : List (String × List Nat) :=")
    o.append("  [" + ",\n   ".join('("%s", %s)' % (n, _ident(f)) for (n, f) in sb) + "]")
    o.append("")
    o.append("/-- the distinct tables (no strings: this is what `decide` evaluates) -/")
    o.append("def tableList : List (List Nat) :=")
    o.append("  [" + ", ".join(_ident(f) for f in fields) + "]")
    o.append("")
    o.append("/-- x-user-defined: byte `b ≥ 0x80` ↦ `xUserDefinedOffset + b` and back -/")
    o.append(f"def xUserDefinedOffset : Nat := {off}")
    o.append("def t_x_user_defined : List Nat := (List.range 128).map (fun i => xUserDefinedOffset + 128 + i)")
    o.append("")
    o.append("/-- every encoding of encoding_rs with the kind of its decoder/encoder -/")
    o.append("def encodingKinds : List (String × String) :=")
    o.append("  [" + ",\n   ".join('("%s", "%s")' % (n, k) for (_, n, k, _) in encs) + "]")
    o.append("")
    o.append("/-- lol-html `test_utils::ASCII_COMPATIBLE_ENCODINGS` / `NON_ASCII_COMPATIBLE_ENCODINGS` -/")
    o.append("def asciiCompatible : List String :=\n  " + _str_list(compat))
    o.append("def nonAsciiCompatible : List String :=\n  " + _str_list(noncompat))
    o.append("")
    o.append("/-- the encodings `Encoding::is_ascii_compatible` refuses (= `AsciiCompatibleEncoding::new` → None) -/")
    o.append("def refused : List String :=\n  " + _str_list(ref))
    o.append("")
    o.append("/-- `Encoding::for_label`: label ↦ encoding name -/")
    o.append("def labels : List (String × String) :=")
    o.append("  [" + ",\n   ".join('("%s", "%s")' % (l, n) for (l, n) in lbls) + "]")
    o.append("")
    o.append("end LolHtml.Gen.Encodings")
    o.append("")
    return {"Encodings.lean": "\n".join(o)}


if __name__ == "__main__":
    import sys
    out = translate(sys.argv[1] if len(sys.argv) > 1 else "/repo")
    for k, v in out.items():
        print(k, len(v))
