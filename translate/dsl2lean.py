"""Translate lol-html's tokenizer DSL into Lean data (LolHtml.Gen.Syntax).

Reads  src/parser/state_machine/syntax/**/*.rs        (define_state_group! bodies)
       src/parser/state_machine/mod.rs                (which groups are instantiated; text-state getter)
       src/parser/state_machine/syntax_dsl/arm_pattern/{mod,ch_sequence}.rs  (classes, sequence literals)
Deliberately dumb: tokenise, match shapes, print. Raises TranslateError on anything unrecognised.
"""
import os
import re


class TranslateError(Exception):
    pass


ACTIONS = {
    "emit_text_and_eof": "emitTextAndEof",
    "emit_text": "emitText",
    "emit_current_token": "emitCurrentToken",
    "emit_tag": "emitTag",
    "emit_current_token_and_eof": "emitCurrentTokenAndEof",
    "emit_raw_without_token": "emitRawWithoutToken",
    "emit_raw_without_token_and_eof": "emitRawWithoutTokenAndEof",
    "create_start_tag": "createStartTag",
    "create_end_tag": "createEndTag",
    "create_doctype": "createDoctype",
    "create_comment": "createComment",
    "start_token_part": "startTokenPart",
    "mark_comment_text_end": "markCommentTextEnd",
    "shift_comment_text_end_by": "shiftCommentTextEndBy",
    "set_force_quirks": "setForceQuirks",
    "finish_doctype_name": "finishDoctypeName",
    "finish_doctype_public_id": "finishDoctypePublicId",
    "finish_doctype_system_id": "finishDoctypeSystemId",
    "finish_tag_name": "finishTagName",
    "update_tag_name_hash": "updateTagNameHash",
    "mark_as_self_closing": "markAsSelfClosing",
    "start_attr": "startAttr",
    "finish_attr_name": "finishAttrName",
    "finish_attr_value": "finishAttrValue",
    "finish_attr": "finishAttr",
    "set_closing_quote_to_double": "setClosingQuoteToDouble",
    "set_closing_quote_to_single": "setClosingQuoteToSingle",
    "mark_tag_start": "markTagStart",
    "unmark_tag_start": "unmarkTagStart",
    "enter_cdata": "enterCdata",
    "leave_cdata": "leaveCdata",
}
CONDS = {"is_appropriate_end_tag": "isAppropriateEndTag", "cdata_allowed": "cdataAllowed"}

TOKEN_RE = re.compile(
    r"""
    (?P<ws>\s+) |
    (?P<comment>//[^\n]*) |
    (?P<attr>\#\[[^\]]*\]) |
    (?P<byte>b'(?:\\x[0-9a-fA-F]{2}|\\.|[^'\\])') |
    (?P<str>"(?:[^"\\]|\\.)*") |
    (?P<enter><--) |
    (?P<goto>-->) |
    (?P<arrow>=>) |
    (?P<num>\d+) |
    (?P<ident>[A-Za-z_][A-Za-z0-9_]*) |
    (?P<punct>[(){}\[\];?,=!])
    """,
    re.X,
)


def tokenize(src, fname):
    pos = 0
    out = []
    while pos < len(src):
        m = TOKEN_RE.match(src, pos)
        if not m:
            raise TranslateError(f"{fname}: cannot tokenise at offset {pos}: {src[pos:pos+30]!r}")
        pos = m.end()
        k = m.lastgroup
        if k in ("ws", "comment"):
            continue
        out.append((k, m.group(k)))
    return out


def byte_value(lit):
    body = lit[2:-1]
    if body.startswith("\\x"):
        return int(body[2:], 16)
    if body.startswith("\\"):
        esc = {"n": 10, "r": 13, "t": 9, "0": 0, "'": 39, '"': 34, "\\": 92}
        if body[1] not in esc:
            raise TranslateError(f"unknown byte escape {lit}")
        return esc[body[1]]
    if len(body) != 1 or ord(body) > 127:
        raise TranslateError(f"bad byte literal {lit}")
    return ord(body)


class P:
    def __init__(self, toks, fname):
        self.t = toks
        self.i = 0
        self.f = fname

    def peek(self, k=0):
        return self.t[self.i + k] if self.i + k < len(self.t) else ("eof", "")

    def next(self):
        tok = self.peek()
        self.i += 1
        return tok

    def expect(self, kind, val=None):
        tok = self.next()
        if tok[0] != kind or (val is not None and tok[1] != val):
            raise TranslateError(f"{self.f}: expected {kind} {val or ''} got {tok} near token {self.i}")
        return tok[1]

    def at(self, kind, val=None):
        tok = self.peek()
        return tok[0] == kind and (val is None or tok[1] == val)


def parse_group(p):
    """define_state_group ! ( NAME = { states } ) ;"""
    p.expect("ident", "define_state_group")
    p.expect("punct", "!")
    p.expect("punct", "(")
    name = p.expect("ident")
    p.expect("punct", "=")
    p.expect("punct", "{")
    states = []
    while not p.at("punct", "}"):
        states.append(parse_state(p))
    p.expect("punct", "}")
    p.expect("punct", ")")
    p.expect("punct", ";")
    return name, states


def parse_state(p):
    while p.at("attr"):
        p.next()  # #[cold], #[inline(never)]: no semantic content
    name = p.expect("ident")
    enter = []
    if p.at("enter"):
        p.next()
        p.expect("punct", "(")
        calls, trans = parse_seq(p)
        if trans is not None:
            raise TranslateError(f"{p.f}: state {name}: transition in enter actions")
        enter = calls
        p.expect("punct", ")")
    p.expect("punct", "{")
    arms = []
    memchr = None
    while not p.at("punct", "}"):
        pat = parse_pat(p)
        p.expect("arrow")
        p.expect("punct", "(")
        body = parse_body(p)
        p.expect("punct", ")")
        if pat[0] == "memchr":
            if arms:
                raise TranslateError(f"{p.f}: state {name}: memchr arm must come first")
            memchr = pat[1]
            pat = ("any",)
        arms.append((pat, body))
    p.expect("punct", "}")
    return {"name": name, "enter": enter, "memchr": memchr, "arms": arms}


def parse_pat(p):
    tok = p.next()
    if tok[0] == "byte":
        return ("byte", byte_value(tok[1]))
    if tok[0] == "ident":
        if tok[1] in ("alpha", "whitespace", "eoc", "eof"):
            return (tok[1],)
        if tok[1] == "closing_quote":
            return ("closingQuote",)
        if tok[1] == "_":
            return ("any",)
        if tok[1] == "memchr":
            p.expect("punct", "(")
            b = byte_value(p.expect("byte"))
            p.expect("punct", ")")
            return ("memchr", b)
        raise TranslateError(f"{p.f}: unknown arm pattern {tok[1]}")
    if tok == ("punct", "["):
        s = p.expect("str")
        mods = []
        while p.at("punct", ";"):
            p.next()
            mods.append(p.expect("ident"))
        p.expect("punct", "]")
        for m in mods:
            if m != "ignore_case":
                raise TranslateError(f"{p.f}: unknown sequence modifier {m}")
        return ("chSeq", s[1:-1], "ignore_case" in mods)
    raise TranslateError(f"{p.f}: unknown arm pattern token {tok}")


def parse_body(p):
    if p.at("ident", "if"):
        p.next()
        cond = p.expect("ident")
        if cond not in CONDS:
            raise TranslateError(f"{p.f}: unknown condition {cond}")
        p.expect("punct", "(")
        t = parse_seq(p)
        p.expect("punct", ")")
        p.expect("ident", "else")
        p.expect("punct", "(")
        e = parse_seq(p)
        p.expect("punct", ")")
        return ("ite", CONDS[cond], t, e)
    return ("seq", parse_seq(p))


def parse_seq(p):
    calls = []
    trans = None
    while not p.at("punct", ")"):
        if p.at("goto"):
            p.next()
            if p.at("attr"):
                p.next()  # #[inline]
            if p.at("ident", "dyn"):
                p.next()
                getter = p.expect("ident")
                if getter != "next_text_parsing_state":
                    raise TranslateError(f"{p.f}: unknown dyn state getter {getter}")
                trans = ("gotoDyn",)
            else:
                trans = ("goto", p.expect("ident"))
            break
        if p.at("ident", "reconsume"):
            p.next()
            p.expect("ident", "in")
            trans = ("reconsume", p.expect("ident"))
            break
        if p.at("ident", "if"):
            raise TranslateError(f"{p.f}: nested / non-leading `if` in action list is not supported")
        name = p.expect("ident")
        if name not in ACTIONS:
            raise TranslateError(f"{p.f}: unknown action {name}")
        q = False
        if p.at("punct", "?"):
            p.next()
            q = True
        args = []
        while p.at("num"):
            args.append(int(p.next()[1]))
            if p.at("punct", ","):
                p.next()
        p.expect("punct", ";")
        if name == "shift_comment_text_end_by":
            if len(args) != 1:
                raise TranslateError(f"{p.f}: shift_comment_text_end_by needs one numeric argument")
        elif args:
            raise TranslateError(f"{p.f}: unexpected arguments for {name}")
        calls.append((ACTIONS[name], q, args))
    if not p.at("punct", ")"):
        raise TranslateError(f"{p.f}: state transition must end the action list (token {p.peek()})")
    return calls, trans


def find_groups(repo):
    root = os.path.join(repo, "src/parser/state_machine/syntax")
    groups = {}
    for d, _, files in sorted(os.walk(root)):
        for fn in sorted(files):
            if not fn.endswith(".rs"):
                continue
            path = os.path.join(d, fn)
            src = open(path).read()
            rel = os.path.relpath(path, repo)
            toks = tokenize(src, rel)
            p = P(toks, rel)
            while p.peek()[0] != "eof":
                if p.at("attr"):
                    p.next()
                    continue
                if p.at("ident", "mod"):
                    p.next()
                    p.expect("ident")
                    p.expect("punct", ";")
                    continue
                if p.at("ident", "define_state_group"):
                    name, states = parse_group(p)
                    if name in groups:
                        raise TranslateError(f"duplicate state group {name}")
                    groups[name] = (rel, states)
                    continue
                raise TranslateError(f"{rel}: unexpected top-level token {p.peek()}")
    return groups


def seq_literals(repo):
    src = open(os.path.join(repo, "src/parser/state_machine/syntax_dsl/arm_pattern/ch_sequence.rs")).read()
    table = {}
    for m in re.finditer(r'\|>\s*"([^"]+)"\s*,\s*\$\(\$rest_args:tt\)\*\s*\)\s*=>\s*\{\s*ch_sequence_arm_pattern!\(\s*@first[^\[]*\[(.*?)\],\s*\$\(\$rest_args\)\*', src):
        lit = m.group(1)
        bytes_ = [byte_value(b) for b in re.findall(r"b'(?:\\.|[^'\\])'", m.group(2))]
        if len(bytes_) != len(lit):
            raise TranslateError(f"sequence literal {lit!r}: expansion has {len(bytes_)} bytes")
        table[lit] = bytes_
    if not table:
        raise TranslateError("no sequence literals recognised in ch_sequence.rs")
    # comparison expression: exact, or `ch == exp || ch == exp ^ 0x20` under ignore_case
    if not re.search(r"@cmp_exp \$ch:ident, \$exp_ch:expr \) => \( \$ch == \$exp_ch \);", src):
        raise TranslateError("ch_sequence.rs: exact comparison shape changed")
    if not re.search(r"@cmp_exp \$ch:ident, \$exp_ch:expr, ignore_case \) => \( \$ch == \$exp_ch \|\| \$ch == \$exp_ch \^ 0x20 \);", src):
        raise TranslateError("ch_sequence.rs: ignore_case comparison shape changed")
    return table


def char_classes(repo):
    src = open(os.path.join(repo, "src/parser/state_machine/syntax_dsl/arm_pattern/mod.rs")).read()
    m = re.search(r"alpha => \$actions:tt\s*\) => \{\s*state_body!\(@callback \| \$cb_args \|> Some\(([^)]*)\) => \$actions\);", src)
    if not m:
        raise TranslateError("arm_pattern/mod.rs: alpha class not recognised")
    alpha = []
    for part in m.group(1).split("|"):
        mm = re.fullmatch(r"\s*(b'[^']+')\s*\.\.=\s*(b'[^']+')\s*", part)
        if not mm:
            raise TranslateError(f"alpha class part not recognised: {part}")
        alpha.append((byte_value(mm.group(1)), byte_value(mm.group(2))))
    m = re.search(r"whitespace => \$actions:tt\s*\) => \{\s*state_body!\(@callback \| \$cb_args \|>\s*Some\(([^)]*)\) => \$actions", src)
    if not m:
        raise TranslateError("arm_pattern/mod.rs: whitespace class not recognised")
    ws = [byte_value(x.strip()) for x in m.group(1).split("|")]
    # shapes of eoc / eof / closing_quote arms (semantics are hand-modelled in Model/SM.lean)
    for needle in (
        "None if !$self.is_last_input() => ({",
        "Some(ch) if ch == $self.closing_quote() => $actions",
        "if $self.is_last_input() {",
    ):
        if needle not in src:
            raise TranslateError(f"arm_pattern/mod.rs: expected shape missing: {needle}")
    return ws, alpha


def instantiated_groups(repo):
    src = open(os.path.join(repo, "src/parser/state_machine/mod.rs")).read()
    m = re.search(r"pub\(crate\) trait StateMachine[^{]*\{(.*?)fn state\(", src, re.S)
    if not m:
        raise TranslateError("state_machine/mod.rs: StateMachine trait not found")
    names = re.findall(r"(\w+_states_group)!\(\);", m.group(1))
    m2 = re.search(r"fn next_text_parsing_state.*?match self\.last_text_type\(\) \{(.*?)\}", src, re.S)
    if not m2:
        raise TranslateError("state_machine/mod.rs: next_text_parsing_state not found")
    dyn = dict(re.findall(r"TextType::(\w+) => Self::(\w+),", m2.group(1)))
    return names, dyn


def lean_bytes(bs):
    return "[" + ", ".join(str(b) for b in bs) + "]"


# State functions are independent items: the order in which they are defined (within a file, across files, or the order of
# the group instantiations) has no meaning in the Rust. The table is therefore emitted in ONE canonical order — the order at
# the pinned commit — so that moving definitions around does not renumber states; a state unknown here (new or renamed)
# is appended after the known ones in discovery order.
NOTES = []  # soft notes of the last translate() call

CANONICAL_STATE_ORDER = [
    "cdata_section_state",
    "cdata_section_bracket_state",
    "data_state",
    "plaintext_state",
    "rawtext_state",
    "rawtext_less_than_sign_state",
    "rawtext_end_tag_open_state",
    "rawtext_end_tag_name_state",
    "rcdata_state",
    "rcdata_less_than_sign_state",
    "rcdata_end_tag_open_state",
    "rcdata_end_tag_name_state",
    "script_data_state",
    "script_data_less_than_sign_state",
    "script_data_end_tag_open_state",
    "script_data_end_tag_name_state",
    "script_data_escape_start_state",
    "script_data_escaped_dash_dash_state",
    "script_data_escaped_state",
    "script_data_escaped_less_than_sign_state",
    "script_data_escaped_end_tag_open_state",
    "script_data_escaped_end_tag_name_state",
    "script_data_double_escaped_start_state",
    "script_data_double_escaped_state",
    "script_data_double_escaped_dash_dash_state",
    "script_data_double_escaped_less_than_sign_state",
    "script_data_double_escaped_end_tag_name_state",
    "script_data_double_escaped_end_state",
    "tag_open_state",
    "end_tag_open_state",
    "markup_declaration_open_state",
    "tag_name_state",
    "self_closing_start_tag_state",
    "before_attribute_name_state",
    "attribute_name_state",
    "after_attribute_name_state",
    "before_attribute_value_state",
    "attribute_value_single_quoted_state",
    "attribute_value_double_quoted_state",
    "attribute_value_unquoted_state",
    "bogus_comment_state",
    "comment_start_state",
    "comment_state",
    "comment_start_dash_state",
    "comment_end_dash_state",
    "comment_end_state",
    "comment_less_than_sign_state",
    "comment_less_than_sign_bang_state",
    "comment_less_than_sign_bang_dash_state",
    "comment_less_than_sign_bang_dash_dash_state",
    "comment_end_bang_state",
    "doctype_state",
    "before_doctype_name_state",
    "doctype_name_state",
    "after_doctype_name_state",
    "after_doctype_public_keyword_state",
    "after_doctype_system_keyword_state",
    "before_doctype_public_identifier_state",
    "before_doctype_system_identifier_state",
    "doctype_public_identifier_state",
    "doctype_system_identifier_state",
    "after_doctype_public_identifier_state",
    "after_doctype_system_identifier_state",
    "between_doctype_public_and_system_identifiers_state",
    "bogus_doctype_state",
]


def translate(repo):
    del NOTES[:]
    groups = find_groups(repo)
    inst, dyn = instantiated_groups(repo)
    for g in groups:
        if g not in inst:
            raise TranslateError(f"state group {g} is defined but not instantiated in StateMachine")
    for g in inst:
        if g not in groups:
            raise TranslateError(f"state group {g} instantiated but not found in syntax/")
    seqs = seq_literals(repo)
    ws, alpha = char_classes(repo)
    states = []
    origin = {}
    for g in inst:
        rel, sts = groups[g]
        for st in sts:
            if st["name"] in origin:
                raise TranslateError(f"duplicate state {st['name']}")
            origin[st["name"]] = rel
            states.append(st)
    rank = {n: i for i, n in enumerate(CANONICAL_STATE_ORDER)}
    aliases = {}
    present = {st["name"] for st in states}
    missing = [n for n in CANONICAL_STATE_ORDER if n not in present]
    unknown = [st["name"] for st in states if st["name"] not in rank]
    if len(missing) == 1 and len(unknown) == 1:
        # one state renamed: it keeps the slot AND the canonical name of the state that disappeared. The Rust name of a
        # state function carries no behaviour; whether the renamed state really is the old one is decided by the
        # obligations that compare its resolved arms (reference table, labellings), which fail if it is not.
        rank[unknown[0]] = rank[missing[0]]
        NOTES.append(f"state `{unknown[0]}` takes the place of `{missing[0]}` (renamed); emitted under the canonical name")
        renamed = {unknown[0]: missing[0]}
        aliases.update(renamed)
        for st in states:
            if st["name"] in renamed:
                origin[renamed[st["name"]]] = origin[st["name"]]
                st["name"] = renamed[st["name"]]
    states = [st for _, st in sorted(enumerate(states), key=lambda p: (rank.get(p[1]["name"], len(rank)), p[0]))]
    index = {st["name"]: i for i, st in enumerate(states)}
    for new, old in aliases.items():
        index[new] = index[old]

    def sid(name):
        if name not in index:
            raise TranslateError(f"unknown state {name}")
        return index[name]

    def lean_call(c):
        a, q, args = c
        act = f".{a}" if not args else f"(.{a} {args[0]})"
        return f"⟨{act}, {'true' if q else 'false'}⟩"

    def lean_trans(t):
        if t is None:
            return "none"
        if t[0] == "gotoDyn":
            return "some .gotoDyn"
        return f"some (.{t[0]} {sid(t[1])})"

    def lean_seq(s):
        calls, trans = s
        return f"⟨[{', '.join(lean_call(c) for c in calls)}], {lean_trans(trans)}⟩"

    def lean_body(b):
        if b[0] == "seq":
            return f".seq {lean_seq(b[1])}"
        return f".ite .{b[1]} {lean_seq(b[2])} {lean_seq(b[3])}"

    def lean_pat(p):
        if p[0] == "byte":
            return f".byte {p[1]}"
        if p[0] == "chSeq":
            if p[1] not in seqs:
                raise TranslateError(f"sequence literal {p[1]!r} has no expansion in ch_sequence.rs")
            return f".chSeq {lean_bytes(seqs[p[1]])} {'true' if p[2] else 'false'}"
        return f".{p[0]}"

    out = []
    out.append("-- GENERATED by /verif/translate/dsl2lean.py from " + repo + " — do not edit")
    out.append("import LolHtml.Model.Syntax")
    out.append("namespace LolHtml.Gen.Syntax")
    out.append("open LolHtml.Model")
    out.append("")
    for i, st in enumerate(states):
        out.append(f"/-- {origin[st['name']]} -/")
        out.append(f"def s{i}_{st['name']} : StateDef :=")
        out.append(f"  {{ name := \"{st['name']}\"")
        out.append(f"    enter := [{', '.join(lean_call(c) for c in st['enter'])}]")
        out.append(f"    memchr := {'none' if st['memchr'] is None else 'some ' + str(st['memchr'])}")
        out.append("    arms := [")
        arms = [f"      ⟨{lean_pat(p)}, {lean_body(b)}⟩" for p, b in st["arms"]]
        out.append(",\n".join(arms))
        out.append("    ] }")
        out.append("")
    out.append("def states : List StateDef := [")
    out.append(",\n".join(f"  s{i}_{st['name']}" for i, st in enumerate(states)))
    out.append("]")
    out.append("")
    need = {"Data": "dataState", "PlainText": "plaintextState", "RCData": "rcdataState", "RawText": "rawtextState", "ScriptData": "scriptDataState", "CDataSection": "cdataSectionState"}
    for k in need:
        if k not in dyn:
            raise TranslateError(f"next_text_parsing_state has no arm for TextType::{k}")
    out.append("def table : Table :=")
    out.append("  { states := states")
    out.append(f"    whitespace := {lean_bytes(ws)}")
    out.append("    alpha := [" + ", ".join(f"({a}, {b})" for a, b in alpha) + "]")
    for k, field in need.items():
        out.append(f"    {field} := {sid(dyn[k])}")
    out.append("  }")
    out.append("")
    out.append("def stateNames : List String := [" + ", ".join(f'"{st["name"]}"' for st in states) + "]")
    out.append("")
    out.append("end LolHtml.Gen.Syntax")
    return {"Syntax.lean": "\n".join(out) + "\n"}


if __name__ == "__main__":
    import sys

    res = translate(sys.argv[1] if len(sys.argv) > 1 else "/repo")
    print(res["Syntax.lean"])
