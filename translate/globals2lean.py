"""globals2lean: list every global-state ITEM of lol-html (core crate and C API) for property C18.

`translate(repo) -> {"Globals.lean": <text>}`

Scans every *.rs under <repo>/src and <repo>/c-api/src, skipping
  * files named tests.rs and everything under a directory named `tests`,
  * `#[cfg(test)]` modules (`#[cfg(test)] mod x { ... }`) and single items carrying `#[cfg(test)]`,
  * the verification hooks, which are not part of the product build (guard off = the build C18 speaks of):
    files of modules declared `#[cfg(feature = "_verif_hooks")] mod x;` and single items carrying that attribute,
and reports every item (not field, not local type mention) that is
  * `static NAME: T = ...`            kind `immutable`      if T has no interior mutability
                                      kind `interior`       if T mentions Cell/RefCell/Mutex/Atomic*/Once*/Lazy*...
  * `static mut NAME`                 kind `static_mut`
  * `thread_local! { static NAME }`   kind `thread_local`
  * `lazy_static! { static ref NAME }` kind `lazy`
The translator is deliberately dumb: it strips comments and string literals, tracks brace depth to
know the extent of a skipped module / macro block, and matches item shapes with regular expressions.
It always emits; the theorem `C18_no_globals` constrains the emitted lists.
"""
import os
import re

INTERIOR = re.compile(
    r"\b(Cell|RefCell|UnsafeCell|OnceCell|LazyCell|Mutex|RwLock|Condvar|Once|OnceLock|LazyLock|Lazy|"
    r"Atomic[A-Za-z0-9]*|SyncUnsafeCell|Rc|Arc|ThreadLocal)\b"
)
STATIC_ITEM = re.compile(
    r"(?:^|[{};])\s*(?:pub(?:\s*\([^)]*\))?\s+)?(?:unsafe\s+)?static\s+(mut\s+)?(ref\s+)?([A-Za-z_][A-Za-z0-9_]*)\s*:\s*([^;]*)"
)
CFG_TEST = re.compile(r"#\s*\[\s*cfg\s*\(\s*test\s*\)\s*\]")
HOOK_GUARD = "_verif_hooks"
CFG_HOOK_RAW = re.compile(r'#\s*\[\s*cfg\s*\(\s*feature\s*=\s*"' + HOOK_GUARD + r'"\s*\)\s*\]')
GATED_MOD_DECL = re.compile(r'#\s*\[\s*cfg\s*\(\s*feature\s*=\s*"' + HOOK_GUARD + r'"\s*\)\s*\]\s*(?:pub(?:\s*\([^)]*\))?\s+)?mod\s+([A-Za-z_][A-Za-z0-9_]*)\s*;')
MOD_OPEN = re.compile(r"^\s*(?:pub(?:\s*\([^)]*\))?\s+)?mod\s+[A-Za-z_][A-Za-z0-9_]*\s*\{")
MACRO_OPEN = re.compile(r"\b(thread_local|lazy_static)\s*!\s*[\{\(]")


def strip_comments_and_strings(src):
    """Replace comments, string and char literals by blanks, keeping line structure."""
    out = []
    i, n = 0, len(src)
    depth_block = 0
    while i < n:
        c = src[i]
        two = src[i : i + 2]
        if depth_block:
            if two == "/*":
                depth_block += 1
                out.append("  ")
                i += 2
            elif two == "*/":
                depth_block -= 1
                out.append("  ")
                i += 2
            else:
                out.append("\n" if c == "\n" else " ")
                i += 1
            continue
        if two == "//":
            while i < n and src[i] != "\n":
                out.append(" ")
                i += 1
            continue
        if two == "/*":
            depth_block = 1
            out.append("  ")
            i += 2
            continue
        if c == '"' or (c == "r" and re.match(r'r#*"', src[i:])) or (c == "b" and re.match(r'b(r#*)?"', src[i:])):
            m = re.match(r'b?r(#*)"', src[i:])
            if m:  # raw string
                end = '"' + m.group(1)
                j = src.find(end, i + len(m.group(0)))
                j = n if j < 0 else j + len(end)
            else:
                j = i + (2 if c == "b" else 1)
                while j < n and src[j] != '"':
                    j += 2 if src[j] == "\\" else 1
                j += 1
            out.append("".join("\n" if ch == "\n" else " " for ch in src[i:j]))
            i = j
            continue
        if c == "'":
            m = re.match(r"'(\\.[^']*|[^'\\])'", src[i:])
            if m:  # char literal (otherwise a lifetime)
                out.append(" " * len(m.group(0)))
                i += len(m.group(0))
                continue
        out.append(c)
        i += 1
    return "".join(out)


def scan_file(path):
    """Yield (kind, name, line) for every global-state item of one file."""
    raw = open(path, encoding="utf-8").read()
    src = strip_comments_and_strings(raw)
    # the hook guard is a string literal: blank the whole attribute into the `#[cfg(test)]` shape
    for m in CFG_HOOK_RAW.finditer(raw):
        if src[m.start()] == "#":  # not inside a comment or string
            att = "#[cfg(test)]"
            src = src[: m.start()] + att + " " * (len(m.group(0)) - len(att)) + src[m.end():]
    lines = src.split("\n")
    items = []
    depth = 0
    skip_until_depth = None  # inside a #[cfg(test)] module: skip until depth returns here
    macro = None  # (name, depth at which the macro block closes)
    pending_cfg_test = False
    for ln, line in enumerate(lines, 1):
        stripped = line.strip()
        opens, closes = line.count("{") + line.count("("), line.count("}") + line.count(")")
        if skip_until_depth is None:
            if CFG_TEST.search(line):
                pending_cfg_test = True
                # attribute and item may share the line
                rest = CFG_TEST.sub("", line)
                if not rest.strip():
                    depth += opens - closes
                    continue
                line_item = rest
            else:
                line_item = line
            if pending_cfg_test and stripped and not stripped.startswith("#"):
                # the item the attribute applies to
                pending_cfg_test = False
                if MOD_OPEN.match(line_item):
                    skip_until_depth = depth
                    depth += opens - closes
                    if depth <= skip_until_depth:
                        skip_until_depth = None
                    continue
                # a single cfg(test) item: skip it (its body, if braced/bracketed, is skipped by depth)
                if opens > closes:
                    skip_until_depth = depth
                depth += opens - closes
                continue
            mm = MACRO_OPEN.search(line_item)
            if mm and macro is None:
                macro = (mm.group(1), depth)
            for m in STATIC_ITEM.finditer(line_item):
                is_mut, is_ref, name, ty = m.group(1), m.group(2), m.group(3), m.group(4)
                ty = ty.split("=")[0]
                if macro and macro[0] == "thread_local":
                    kind = "thread_local"
                elif (macro and macro[0] == "lazy_static") or is_ref:
                    kind = "lazy"
                elif is_mut:
                    kind = "static_mut"
                elif INTERIOR.search(ty):
                    kind = "interior"
                else:
                    kind = "immutable"
                items.append((kind, name, ln))
        depth += opens - closes
        if skip_until_depth is not None and depth <= skip_until_depth:
            skip_until_depth = None
        if macro is not None and depth <= macro[1] and not MACRO_OPEN.search(line):
            macro = None
    return items


def gated_module_paths(root):
    """Paths (files / directories) of modules declared under the hook guard anywhere in the tree."""
    skip = set()
    for dirpath, _, filenames in os.walk(root):
        for fn in filenames:
            if not fn.endswith(".rs"):
                continue
            p = os.path.join(dirpath, fn)
            raw = open(p, encoding="utf-8").read()
            for m in GATED_MOD_DECL.finditer(raw):
                base = dirpath if fn in ("lib.rs", "mod.rs", "main.rs") else os.path.join(dirpath, fn[:-3])
                skip.add(os.path.join(base, m.group(1) + ".rs"))
                skip.add(os.path.join(base, m.group(1)))
    return skip


def scan_tree(root, repo):
    res = []
    skip = gated_module_paths(root)
    for dirpath, dirnames, filenames in sorted(os.walk(root)):
        dirnames.sort()
        if "tests" in os.path.relpath(dirpath, root).split(os.sep):
            continue
        if any(dirpath == d or dirpath.startswith(d + os.sep) for d in skip):
            continue
        for fn in sorted(filenames):
            if not fn.endswith(".rs") or fn == "tests.rs":
                continue
            p = os.path.join(dirpath, fn)
            if p in skip:
                continue
            rel = os.path.relpath(p, repo)
            for kind, name, ln in scan_file(p):
                res.append((kind, name, ln, rel))
    return res


def lean_list(items):
    if not items:
        return "[]"
    return "[\n" + ",\n".join(f'  ("{k}", "{n}", {ln})' for k, n, ln, _ in items) + "\n]"


def lean_files(items):
    if not items:
        return "[]"
    return "[\n" + ",\n".join(f'  "{rel}"' for _, _, _, rel in items) + "\n]"


def translate(repo):
    core = scan_tree(os.path.join(repo, "src"), repo)
    capi = scan_tree(os.path.join(repo, "c-api", "src"), repo)
    text = f"""/- GENERATED by translate/globals2lean.py from the lol-html sources. Do not edit. -/
namespace LolHtml.Gen.Globals

/-- Every global-state item `(kind, name, line)` of the core crate (`src/**/*.rs`, test code excluded).
    kind ∈ immutable | interior | static_mut | thread_local | lazy. -/
def core : List (String × String × Nat) := {lean_list(core)}

/-- File of each entry of `core`, same order. -/
def coreFiles : List String := {lean_files(core)}

/-- Every global-state item of the C API crate (`c-api/src/**/*.rs`). -/
def capi : List (String × String × Nat) := {lean_list(capi)}

/-- File of each entry of `capi`, same order. -/
def capiFiles : List String := {lean_files(capi)}

end LolHtml.Gen.Globals
"""
    return {"Globals.lean": text}


if __name__ == "__main__":
    import sys

    print(translate(sys.argv[1] if len(sys.argv) > 1 else "/repo")["Globals.lean"])
