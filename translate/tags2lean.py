"""Translate the tag-hash table and every `tag_is_one_of!` list into Lean data (LolHtml.Gen.Tags).

Reads src/html/tag.rs, src/html/local_name.rs (hash constants), src/parser/tree_builder_simulator/{mod,
ambiguity_guard}.rs, src/selectors_vm/stack.rs. Shape-matching only; raises on anything unrecognised
(a `tag_is_one_of!`/`Tag::` use outside the known places, a list under a different condition shape).
"""
import os
import re


NOTES = []  # soft notes of the last translate() call: hand-modelled control flow whose text no longer matches


class TranslateError(Exception):
    pass


def read(repo, rel):
    src = open(os.path.join(repo, rel)).read()
    # strip line comments (no string literal in the files read here contains `//`)
    return re.sub(r"//[^\n]*", "", src)


def names(lst):
    return [x.strip() for x in lst.replace("\n", " ").split(",") if x.strip()]


def fn_body(src, name, rel):
    m = re.search(r"fn " + re.escape(name) + r"\b[^{]*\{", src)
    if not m:
        raise TranslateError(f"{rel}: fn {name} not found")
    i = m.end()
    depth = 1
    while depth and i < len(src):
        if src[i] == "{":
            depth += 1
        elif src[i] == "}":
            depth -= 1
        i += 1
    return src[m.end() : i - 1]


def one_of_lists(body):
    return [names(m) for m in re.findall(r"tag_is_one_of!\(\s*\*?\w+\s*,\s*\[([^\]]*)\]\s*,?\s*\)", body)]


def translate(repo):
    del NOTES[:]
    return _translate(repo)


def _translate(repo):
    tag_rs = read(repo, "src/html/tag.rs")
    m = re.search(r"declare_tags!\s*\{(.*?)\n\}", tag_rs, re.S)
    if not m:
        raise TranslateError("tag.rs: declare_tags! not found")
    tags = {}
    order = []
    for n, v in re.findall(r"(\w+)\s*=\s*([0-9_]+)u64", m.group(1)):
        tags[n] = int(v.replace("_", ""))
        order.append(n)
    if not tags:
        raise TranslateError("tag.rs: no tags recognised")
    if not re.search(r"\(\$hash:expr, \[\$\(\$tag:ident\),\+\]\) => \{\s*\$\(\$hash == Tag::\$tag\)\|\|\+", tag_rs):
        raise TranslateError("tag.rs: tag_is_one_of! shape changed")

    def h(n):
        if n not in tags:
            raise TranslateError(f"unknown tag {n}")
        return tags[n]

    ln = read(repo, "src/html/local_name.rs")
    if "const EMPTY_HASH: u64 = !0;" not in ln:
        raise TranslateError("local_name.rs: EMPTY_HASH changed")
    upd = fn_body(ln, "update", "local_name.rs")
    shape = re.sub(r"\s+", " ", upd)
    expect = "let h = self.0; self.0 = if h >> (64 - 5) == 0 { match ch { b'a'..=b'z' | b'A'..=b'Z' => (h << 5) | ((u64::from(ch) & 0x1F) + 5), b'1'..=b'6' => (h << 5) | ((u64::from(ch) & 0x0F) - 1), _ => EMPTY_HASH, } } else { EMPTY_HASH };"
    if expect not in shape:
        # the hash function is hand-modelled (Model/NameHash.lean) and compared value by value with the real one by
        # lane `hash`; a textual change alone is a note, not a broken obligation
        NOTES.append("local_name.rs: LocalNameHash::update is no longer textually the modelled function (Model/NameHash.lean); lane hash compares the values")

    sim_rel = "src/parser/tree_builder_simulator/mod.rs"
    sim = read(repo, sim_rel)
    adj = fn_body(sim, "get_text_type_adjustment", sim_rel)
    adj_n = re.sub(r"\s+", " ", adj)
    mm = re.search(
        r"if tag_is_one_of!\(tag_name, \[([^\]]*)\]\) \{ RCData\.into\(\) \} else if tag_name == Tag::(\w+) \{ PlainText\.into\(\) \} else if tag_name == Tag::(\w+) \{ ScriptData\.into\(\) \} else if tag_is_one_of!\(tag_name, \[([^\]]*)\]\) \{ RawText\.into\(\) \} else \{ TreeBuilderFeedback::None \}",
        adj_n,
    )
    if not mm:
        raise TranslateError(f"{sim_rel}: get_text_type_adjustment shape changed")
    rcdata, plaintext, script, rawtext = names(mm.group(1)), mm.group(2), mm.group(3), names(mm.group(4))

    def single_list(fn):
        b = fn_body(sim, fn, sim_rel)
        ls = one_of_lists(b)
        if len(ls) != 1 or re.sub(r"\s+", "", b).count("tag_is_one_of!") != 1:
            raise TranslateError(f"{sim_rel}: {fn} shape changed")
        rest = re.sub(r"tag_is_one_of!\([^)]*\)", "", b, flags=re.S).strip()
        if rest:
            raise TranslateError(f"{sim_rel}: {fn} has extra logic: {rest[:60]}")
        return ls[0]

    foreign_exit = single_list("causes_foreign_content_exit")
    mathml_ip = single_list("is_text_integration_point_in_math_ml")
    svg_ip = single_list("is_html_integration_point_in_svg")

    start = re.sub(r"\s+", " ", fn_body(sim, "get_feedback_for_start_tag", sim_rel))
    mm = re.search(r"Ok\(if tag_name == Tag::(\w+) \{ self\.enter_ns\(Namespace::Svg\) \} else if tag_name == Tag::(\w+) \{ self\.enter_ns\(Namespace::MathML\) \} else if self\.current_ns != Namespace::Html \{ self\.get_feedback_for_start_tag_in_foreign_content\(tag_name\) \} else \{ get_text_type_adjustment\(tag_name\) \}\)", start)
    if not mm:
        raise TranslateError(f"{sim_rel}: get_feedback_for_start_tag shape changed")
    svg_tag, math_tag = mm.group(1), mm.group(2)

    leave = re.sub(r"\s+", " ", fn_body(sim, "should_leave_ns", sim_rel))
    mm = re.search(r"if self\.current_ns == Namespace::Svg && tag_name == Tag::(\w+) \|\| self\.current_ns == Namespace::MathML && tag_name == Tag::(\w+) \{ return true; \} if \(self\.current_ns == Namespace::Svg \|\| self\.current_ns == Namespace::MathML\) && tag_is_one_of!\(tag_name, \[([^\]]*)\]\) \{ (?://[^\n]*)?\s*return true; \} false", leave)
    if not mm:
        # tolerate the inline comment having been collapsed into the single line
        mm = re.search(r"if self\.current_ns == Namespace::Svg && tag_name == Tag::(\w+) \|\| self\.current_ns == Namespace::MathML && tag_name == Tag::(\w+) \{ return true; \} if \(self\.current_ns == Namespace::Svg \|\| self\.current_ns == Namespace::MathML\) && tag_is_one_of!\(tag_name, \[([^\]]*)\]\) \{.*?return true; \} false", leave)
    if mm:
        if (mm.group(1), mm.group(2)) != (svg_tag, math_tag):
            raise TranslateError(f"{sim_rel}: should_leave_ns uses different root tags than get_feedback_for_start_tag")
        ns_leave_end = names(mm.group(3))
    else:
        # fall back to the data alone: the two root tags next to their namespaces and ONE tag list; the control flow
        # around them is hand-modelled (Model/TreeSim.lean) and compared with the real simulator by lanes lex / h5 / full
        roots = re.findall(r"Namespace::(Svg|MathML) && tag_name == Tag::(\w+)", leave)
        lists = re.findall(r"tag_is_one_of!\(tag_name, \[([^\]]*)\]\)", leave)
        if sorted(roots) != sorted([("Svg", svg_tag), ("MathML", math_tag)]) or len(lists) != 1 or len(re.findall(r"Tag::\w+", leave)) != 2:
            raise TranslateError(f"{sim_rel}: should_leave_ns shape changed")
        ns_leave_end = names(lists[0])
        NOTES.append(f"{sim_rel}: should_leave_ns is no longer textually the modelled function (Model/TreeSim.lean); data extracted, lanes lex/h5/full compare the behaviour")

    fc = re.sub(r"\s+", " ", fn_body(sim, "get_feedback_for_start_tag_in_foreign_content", sim_rel))
    mm = re.search(r"if tag_name == Tag::(\w+) \{", fc)
    if not mm:
        raise TranslateError(f"{sim_rel}: font special case not found")
    font_tag = mm.group(1)
    attrs = re.findall(r'eq_case_insensitive\(&name, b"(\w+)"\)', fc)
    if attrs[:3] != ["color", "size", "face"] or attrs[3:] != ["encoding"]:
        raise TranslateError(f"{sim_rel}: attribute names in foreign-content callbacks changed: {attrs}")
    vals = re.findall(r'eq_case_insensitive\(&value, b"([^"]+)"\)', fc)
    if vals != ["text/html", "application/xhtml+xml"]:
        raise TranslateError(f"{sim_rel}: annotation-xml encoding values changed: {vals}")
    if fc.count('b"annotation-xml"') != 1 or sim.count('b"annotation-xml"') != 2:
        raise TranslateError(f"{sim_rel}: annotation-xml literal uses changed")
    m = re.search(r"const DEFAULT_NS_STACK_CAPACITY: usize = (\d+);", sim)
    if not m:
        raise TranslateError(f"{sim_rel}: DEFAULT_NS_STACK_CAPACITY not found")

    # every Tag:: / tag_is_one_of! use in the simulator is accounted for
    n_uses = len(re.findall(r"tag_is_one_of!|Tag::\w+", sim))
    if n_uses != 13:
        raise TranslateError(f"{sim_rel}: {n_uses} tag references, expected 13 (a new special case?)")

    g_rel = "src/parser/tree_builder_simulator/ambiguity_guard.rs"
    guard = read(repo, g_rel)
    m = re.search(r"create_assert_for_tags!\(\s*([^)]*)\);", guard)
    if not m:
        raise TranslateError(f"{g_rel}: create_assert_for_tags! not found")
    text_switch = names(m.group(1))
    tst = re.sub(r"\s+", " ", fn_body(guard, "track_start_tag", g_rel))
    tst = re.sub(r"// [^\n]*?(?= if | else | \} | assert)", "", tst)
    expect_re = (
        r"match self\.state \{ State::Default => \{ if tag_name == Tag::(\w+) \{ self\.state = State::InSelect; \} else if tag_name == Tag::(\w+) \{ self\.state = State::InOrAfterFrameset; \} \} "
        r"State::InSelect => \{.*?if tag_is_one_of!\(tag_name, \[([^\]]*)\]\) \{ self\.state = State::Default; \} else if tag_name == Tag::(\w+) \{ self\.state = State::InTemplateInSelect\(1\); \}.*?else if tag_name != Tag::(\w+) \{ assert_not_ambiguous_text_type_switch\(tag_name\)\?; \} \} "
        r"State::InTemplateInSelect\(depth\) => \{ if tag_name == Tag::(\w+) \{ self\.state = State::InTemplateInSelect\(depth \+ 1\); \} else \{ assert_not_ambiguous_text_type_switch\(tag_name\)\?; \} \} "
        r"State::InOrAfterFrameset => \{.*?if tag_name != Tag::(\w+) \{ assert_not_ambiguous_text_type_switch\(tag_name\)\?; \} \} \} Ok\(\(\)\)"
    )
    mm = re.search(expect_re, tst)
    if not mm:
        raise TranslateError(f"{g_rel}: track_start_tag shape changed")
    g_select, g_frameset, g_select_exit, g_template, g_script, g_template2, g_noframes = mm.groups()
    g_select_exit = names(g_select_exit)
    if g_template != g_template2:
        raise TranslateError(f"{g_rel}: inconsistent template tags")
    tet = re.sub(r"\s+", " ", fn_body(guard, "track_end_tag", g_rel))
    mm = re.search(
        r"match self\.state \{ State::InSelect if tag_name == Tag::(\w+) => \{ self\.state = State::Default; \} State::InTemplateInSelect\(depth\) if tag_name == Tag::(\w+) => \{ self\.state = if depth == 1 \{ State::InSelect \} else \{ State::InTemplateInSelect\(depth - 1\) \} \} _ => \(\), \}",
        tet,
    )
    if not mm or mm.group(1) != g_select or mm.group(2) != g_template:
        # fall back to the data alone: the tags tested in track_end_tag, in order, must be the select and template tags
        # of track_start_tag; the state update itself is hand-modelled (Model/TreeSim.lean Guard.trackEndTag) and
        # compared with the real guard by lanes lex / h5 in strict mode
        if re.findall(r"Tag::(\w+)", tet) != [g_select, g_template]:
            raise TranslateError(f"{g_rel}: track_end_tag shape changed")
        NOTES.append(f"{g_rel}: track_end_tag is no longer textually the modelled function (Model/TreeSim.lean); data extracted, lanes lex/h5 compare the behaviour")

    st_rel = "src/selectors_vm/stack.rs"
    stack = read(repo, st_rel)
    ive = fn_body(stack, "is_void_element", st_rel)
    ls = one_of_lists(ive)
    if len(ls) != 2:
        raise TranslateError(f"{st_rel}: is_void_element shape changed")
    ive_n = re.sub(r"\s+", " ", re.sub(r"//[^\n]*", "", ive))
    if not re.search(r"^ ?if tag_is_one_of!\([^)]*\) \{ return false; \} if tag_is_one_of!\([^)]*\) \{ return true; \} if enable_esi_tags \{ if let LocalName::Bytes\(bytes\) = local_name \{ if &\*\*bytes == b\"esi:include\" \|\| &\*\*bytes == b\"esi:comment\" \{ return true; \} \} \} false ?$", ive_n):
        # the two tag lists are extracted above; the control flow (fast negative list, void list, ESI names) is
        # hand-modelled and compared with the real stack by lanes sel / scope / full
        if ive.count('b"esi:include"') != 1 or ive.count('b"esi:comment"') != 1:
            raise TranslateError(f"{st_rel}: is_void_element control flow changed")
        NOTES.append(f"{st_rel}: is_void_element is no longer textually the modelled function; data extracted, lanes sel/scope/full compare the behaviour")
    nonvoid_fast, void = ls

    def lst(ns):
        return "[" + ", ".join(str(h(n)) for n in ns) + "]"

    out = []
    out.append("-- GENERATED by /verif/translate/tags2lean.py from " + repo + " — do not edit")
    out.append("import LolHtml.Model.TagCfg")
    out.append("namespace LolHtml.Gen.Tags")
    out.append("open LolHtml.Model")
    out.append("")
    out.append("/-- `declare_tags!` rows: lower-cased name bytes and declared hash. -/")
    out.append("def tags : List (List UInt8 × Nat) := [")
    out.append(",\n".join(f"  ({[ord(c) for c in n.lower()]}, {tags[n]})  -- {n}" .replace("  --", "") if False else f"  ({[ord(c) for c in n.lower()]}, {tags[n]})" for n in order))
    out.append("]")
    out.append("")
    out.append("def tagNames : List String := [" + ", ".join(f'"{n}"' for n in order) + "]")
    out.append("")
    out.append("def cfg : TagCfg :=")
    out.append(f"  {{ rcdata := {lst(rcdata)}  -- {rcdata}")
    out.append(f"    plaintext := {h(plaintext)}")
    out.append(f"    script := {h(script)}")
    out.append(f"    rawtext := {lst(rawtext)}  -- {rawtext}")
    out.append(f"    foreignExit := {lst(foreign_exit)}")
    out.append(f"    mathmlTextIP := {lst(mathml_ip)}  -- {mathml_ip}")
    out.append(f"    svgHtmlIP := {lst(svg_ip)}  -- {svg_ip}")
    out.append(f"    svg := {h(svg_tag)}")
    out.append(f"    math := {h(math_tag)}")
    out.append(f"    nsLeaveEnd := {lst(ns_leave_end)}  -- {ns_leave_end}")
    out.append(f"    font := {h(font_tag)}")
    out.append(f"    guardTextSwitch := {lst(text_switch)}  -- {text_switch}")
    out.append(f"    gSelect := {h(g_select)}")
    out.append(f"    gFrameset := {h(g_frameset)}")
    out.append(f"    gSelectExit := {lst(g_select_exit)}  -- {g_select_exit}")
    out.append(f"    gTemplate := {h(g_template)}")
    out.append(f"    gScript := {h(g_script)}")
    out.append(f"    gNoframes := {h(g_noframes)}")
    out.append(f"    nonVoidFast := {lst(nonvoid_fast)}  -- {nonvoid_fast}")
    out.append(f"    void := {lst(void)}  -- {void}")
    out.append("  }")
    out.append("")
    out.append("end LolHtml.Gen.Tags")
    return {"Tags.lean": "\n".join(out) + "\n"}


if __name__ == "__main__":
    import sys

    print(translate(sys.argv[1] if len(sys.argv) > 1 else "/repo")["Tags.lean"])
