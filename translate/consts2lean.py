"""consts2lean: extract literal constants of lol-html's escaping / validation code into Lean.

`translate(repo) -> {"Consts.lean": <lean source>}`.

Deliberately dumb: it tokenises a few function bodies of the Rust source *text*, matches fixed literal
shapes and prints them as numerals. It does not interpret Rust. Any shape it does not recognise raises
`TranslateError` (the check pipeline reports that as a broken obligation).

Extracted (all as `UInt8` numerals, no string literals):
  src/html/mod.rs
    escape_body_text            memchr3 needles, the `match matched { b'x' => "..", _ => ".." }` arms
    escape_double_quotes_only   memchr needle, the replacement literal
  src/rewritable_units/tokens/attributes.rs
    Attribute::name_from_string  `matches!(ch, b' ' | ...)` reject list, the empty-name check
    Serialize for &Attribute     the `="` and `"` literals; Serialize for &mut Attributes: the separator
  src/rewritable_units/element.rs
    tag_name_bytes_from_str      `matches!(ch, ...)` reject list, first-character rule, empty check
  src/rewritable_units/tokens/comment.rs
    contains_comment_closing_sequence   the `contains(..)` / `starts_with(..)` disjuncts
    serialize_self                      `<!--` and `-->`
  src/rewritable_units/tokens/start_tag.rs, end_tag.rs
    serialize_self               `<`, ` `, `/>`, `>`, `</`, `>`
"""
import os
import re


class TranslateError(Exception):
    pass


# ----------------------------------------------------------------------------- Rust text helpers


def _read(repo, rel):
    p = os.path.join(repo, rel)
    try:
        with open(p, encoding="utf-8") as f:
            return f.read()
    except OSError as e:
        raise TranslateError(f"cannot read {rel}: {e}")


def _strip_comments(src):
    """Remove // and /* */ comments, keeping string / char / byte literals intact."""
    out = []
    i, n = 0, len(src)
    while i < n:
        c = src[i]
        if src.startswith("//", i):
            j = src.find("\n", i)
            i = n if j < 0 else j
        elif src.startswith("/*", i):
            j = src.find("*/", i + 2)
            if j < 0:
                raise TranslateError("unterminated block comment")
            i = j + 2
        elif c == '"':
            j = i + 1
            while j < n and src[j] != '"':
                j += 2 if src[j] == "\\" else 1
            out.append(src[i : j + 1])
            i = j + 1
        elif c == "'":
            # char / byte literal or lifetime
            m = re.match(r"'(\\x[0-9a-fA-F]{2}|\\u\{[0-9a-fA-F]+\}|\\.|[^\\'])'", src[i:])
            if m:
                out.append(m.group(0))
                i += len(m.group(0))
            else:
                out.append(c)
                i += 1
        else:
            out.append(c)
            i += 1
    return "".join(out)


def _fn_body(src, name, rel, nth=0):
    """Text between the braces of the nth `fn <name>` in (comment-stripped) src."""
    ms = list(re.finditer(r"\bfn\s+" + re.escape(name) + r"\b", src))
    if len(ms) <= nth:
        raise TranslateError(f"{rel}: fn {name} not found")
    i = src.find("{", ms[nth].end())
    # the signature may contain `{` only inside where-clauses we do not expect here
    if i < 0:
        raise TranslateError(f"{rel}: fn {name}: no body")
    return _braced(src, i, f"{rel}: fn {name}")


def _braced(src, i, what):
    assert src[i] == "{"
    depth, j, n = 0, i, len(src)
    while j < n:
        c = src[j]
        if c == '"':
            j += 1
            while j < n and src[j] != '"':
                j += 2 if src[j] == "\\" else 1
        elif c == "'":
            m = re.match(r"'(\\x[0-9a-fA-F]{2}|\\u\{[0-9a-fA-F]+\}|\\.|[^\\'])'", src[j:])
            if m:
                j += len(m.group(0)) - 1
        elif c == "{":
            depth += 1
        elif c == "}":
            depth -= 1
            if depth == 0:
                return src[i + 1 : j]
        j += 1
    raise TranslateError(f"{what}: unbalanced braces")


_ESC = {"n": 10, "r": 13, "t": 9, "0": 0, "\\": 92, "'": 39, '"': 34}


def _unescape(body, what):
    """Bytes of the inside of a Rust (byte-)string / (byte-)char literal."""
    out = []
    i = 0
    while i < len(body):
        c = body[i]
        if c == "\\":
            if i + 1 >= len(body):
                raise TranslateError(f"{what}: bad escape in {body!r}")
            e = body[i + 1]
            if e == "x":
                out.append(int(body[i + 2 : i + 4], 16))
                i += 4
            elif e in _ESC:
                out.append(_ESC[e])
                i += 2
            else:
                raise TranslateError(f"{what}: unsupported escape \\{e} in {body!r}")
        else:
            out.extend(c.encode("utf-8"))
            i += 1
    return out


def _byte_lit(tok, what):
    m = re.fullmatch(r"b'((?:\\.|[^\\'])+)'", tok.strip())
    if not m:
        raise TranslateError(f"{what}: expected a byte literal b'..', got {tok.strip()!r}")
    b = _unescape(m.group(1), what)
    if len(b) != 1:
        raise TranslateError(f"{what}: byte literal {tok!r} is not one byte")
    return b[0]


def _str_or_char_lit(tok, what):
    t = tok.strip()
    m = re.fullmatch(r'b?"((?:\\.|[^\\"])*)"', t)
    if m:
        return _unescape(m.group(1), what)
    m = re.fullmatch(r"b?'((?:\\.|[^\\'])+)'", t)
    if m:
        return _unescape(m.group(1), what)
    raise TranslateError(f"{what}: expected a string/char literal, got {t!r}")


def _matches_list(body, what):
    """The byte alternatives of the single `matches!(ch, b'a' | b'b' ...)` in body."""
    ms = list(re.finditer(r"matches!\s*\(", body))
    if len(ms) != 1:
        raise TranslateError(f"{what}: expected exactly one matches!(..), found {len(ms)}")
    i = ms[0].end()
    depth, j = 1, i
    while j < len(body) and depth:
        if body[j] == "'" :
            m = re.match(r"'(\\x[0-9a-fA-F]{2}|\\.|[^\\'])'", body[j:])
            if m:
                j += len(m.group(0))
                continue
        if body[j] == "(":
            depth += 1
        elif body[j] == ")":
            depth -= 1
        j += 1
    inner = body[i : j - 1]
    m = re.fullmatch(r"\s*(\w+)\s*,(.*?),?\s*", inner, re.S)
    if not m:
        raise TranslateError(f"{what}: matches! shape not recognised: {inner!r}")
    alts = _split_alts(m.group(2))
    return m.group(1), [_byte_lit(a, what) for a in alts]


def _split_alts(s):
    """Split on `|` outside of char literals."""
    parts, cur, i = [], "", 0
    while i < len(s):
        m = re.match(r"b?'(\\x[0-9a-fA-F]{2}|\\.|[^\\'])'", s[i:])
        if m:
            cur += m.group(0)
            i += len(m.group(0))
        elif s[i] == "|":
            parts.append(cur)
            cur = ""
            i += 1
        else:
            cur += s[i]
            i += 1
    parts.append(cur)
    return parts


def _handler_literals(body):
    """In order: the byte-string literals passed directly to `output_handler(b"..")`."""
    return [
        _unescape(m.group(1), "output_handler literal")
        for m in re.finditer(r'\(?output_handler\)?\s*\(\s*b"((?:\\.|[^\\"])*)"\s*\)', body)
    ]


# ----------------------------------------------------------------------------- extraction


def extract(repo):
    c = {}

    # ---- src/html/mod.rs
    rel = "src/html/mod.rs"
    src = _strip_comments(_read(repo, rel))
    body = _fn_body(src, "escape_body_text", rel)
    m = re.search(r"memchr3\s*\(([^()]*?),\s*content\.as_bytes\(\)\s*\)", body)
    if not m or len(re.findall(r"\bmemchr\d?\s*\(", body)) != 1:
        raise TranslateError(f"{rel}: escape_body_text: memchr3(b'..', b'..', b'..', content.as_bytes()) not found")
    c["bodyTriggers"] = [_byte_lit(t, rel) for t in _split_top_commas(m.group(1))]
    m = re.search(r"match\s+matched\s*\{", body)
    if not m:
        raise TranslateError(f"{rel}: escape_body_text: `match matched {{` not found")
    arms_src = _braced(body, m.end() - 1, rel)
    arms, dflt = [], None
    for arm in [a for a in _split_top_commas(arms_src) if a.strip()]:
        am = re.fullmatch(r"\s*(.+?)\s*=>\s*(.+?)\s*", arm, re.S)
        if not am:
            raise TranslateError(f"{rel}: escape_body_text: arm shape not recognised: {arm!r}")
        val = _str_or_char_lit(am.group(2), rel)
        if am.group(1) == "_":
            if dflt is not None:
                raise TranslateError(f"{rel}: two default arms")
            dflt = val
        else:
            if dflt is not None:
                raise TranslateError(f"{rel}: arm after the default arm")
            arms.append((_byte_lit(am.group(1), rel), val))
    if dflt is None:
        raise TranslateError(f"{rel}: escape_body_text: no default arm")
    c["bodyArms"], c["bodyDefault"] = arms, dflt
    # the shape of the loop the model transcribes
    for needle in ("split_at_checked(pos)", "split_at_checked(1)", "!chunk_before.is_empty()", "!content.is_empty()"):
        if needle not in body:
            raise TranslateError(f"{rel}: escape_body_text: expected `{needle}`")

    body = _fn_body(src, "escape_double_quotes_only", rel)
    m = re.search(r"\bmemchr\s*\(([^(),]*?),\s*content\s*\)", body)
    if not m or len(re.findall(r"\bmemchr\d?\s*\(", body)) != 1:
        raise TranslateError(f"{rel}: escape_double_quotes_only: memchr(b'..', content) not found")
    c["attrTrigger"] = _byte_lit(m.group(1), rel)
    lits = _handler_literals(body)
    if len(lits) != 1:
        raise TranslateError(f"{rel}: escape_double_quotes_only: expected one replacement literal, got {lits}")
    c["attrReplacement"] = lits[0]
    for needle in ("split_at_checked(pos)", "rest.get(1..)", "!chunk_before.is_empty()", "!content.is_empty()"):
        if needle not in body:
            raise TranslateError(f"{rel}: escape_double_quotes_only: expected `{needle}`")

    # ---- attributes.rs
    rel = "src/rewritable_units/tokens/attributes.rs"
    src = _strip_comments(_read(repo, rel))
    body = _fn_body(src, "name_from_string", rel)
    var, lst = _matches_list(body, f"{rel}: name_from_string")
    if not re.search(r"name\s*\.\s*as_bytes\(\)\s*\.\s*iter\(\)\s*\.\s*copied\(\)\s*\.\s*find\s*\(\s*\|&" + var + r"\|", body):
        raise TranslateError(f"{rel}: name_from_string: `name.as_bytes().iter().copied().find(|&{var}| matches!(..))` not found")
    if not re.match(r"\s*if\s+name\.is_empty\(\)\s*\{\s*Err\(AttributeNameError::Empty\)", body):
        raise TranslateError(f"{rel}: name_from_string: leading `if name.is_empty() {{ Err(Empty) }}` not found")
    if "owned_from_str_without_replacements(name, encoding)" not in body:
        raise TranslateError(f"{rel}: name_from_string: owned_from_str_without_replacements not found")
    c["attrNameReject"] = lst
    # impl Serialize for &Attribute (first into_bytes), for &mut Attributes (second)
    lits = _handler_literals(_fn_body(src, "into_bytes", rel, 0))
    if len(lits) != 2:
        raise TranslateError(f"{rel}: Attribute::into_bytes: expected 2 literals, got {lits}")
    c["attrOpen"], c["attrClose"] = lits
    body0 = _fn_body(src, "into_bytes", rel, 0)
    if not re.search(r"escape_double_quotes_only\s*\(\s*self\.value\.as_ref\(\)\s*,\s*output_handler\s*\)", body0):
        raise TranslateError(f"{rel}: Attribute::into_bytes: value is not written through escape_double_quotes_only")
    lits = _handler_literals(_fn_body(src, "into_bytes", rel, 1))
    if len(lits) != 1:
        raise TranslateError(f"{rel}: Attributes::into_bytes: expected 1 literal, got {lits}")
    c["attrSep"] = lits[0]
    body = _fn_body(src, "set_attribute", rel)
    if "name_from_string(name.to_ascii_lowercase(), encoding)?" not in re.sub(r"\s+", " ", body).replace("Attribute::", ""):
        raise TranslateError(f"{rel}: set_attribute: name is not validated via name_from_string(name.to_ascii_lowercase(), ..)?")

    # ---- element.rs
    rel = "src/rewritable_units/element.rs"
    src = _strip_comments(_read(repo, rel))
    body = _fn_body(src, "tag_name_bytes_from_str", rel)
    var, lst = _matches_list(body, f"{rel}: tag_name_bytes_from_str")
    c["tagNameReject"] = lst
    flat = re.sub(r"\s+", " ", body)
    # the `None` arm is disjoint from the two `Some` arms, so only their relative order matters
    m_first = re.search(r"Some\((\w+)\) if !\1\.is_ascii_alphabetic\(\) => Err\(TagNameError::InvalidFirstCharacter\)", flat)
    m_rest = re.search(r"Some\(_\) =>", flat)
    if "match name.as_bytes().first() {" not in flat or not m_first or not m_rest or m_first.start() > m_rest.start():
        raise TranslateError(f"{rel}: tag_name_bytes_from_str: first-character rule `!ch.is_ascii_alphabetic()` not found")
    if not re.search(r"None => Err\(TagNameError::Empty\)", flat):
        raise TranslateError(f"{rel}: tag_name_bytes_from_str: `None => Err(Empty)` not found")
    if "owned_from_str_without_replacements(name, self.encoding)" not in flat:
        raise TranslateError(f"{rel}: tag_name_bytes_from_str: owned_from_str_without_replacements not found")
    c["tagNameFirstAsciiAlpha"] = True

    # ---- comment.rs
    rel = "src/rewritable_units/tokens/comment.rs"
    src = _strip_comments(_read(repo, rel))
    body = _fn_body(src, "contains_comment_closing_sequence", rel).strip()
    sig = re.search(r"fn\s+contains_comment_closing_sequence\s*\(\s*(\w+)\s*:\s*&str\s*\)\s*->\s*bool", src)
    if not sig:
        raise TranslateError(f"{rel}: contains_comment_closing_sequence(text: &str) -> bool not found")
    var = sig.group(1)
    contains, prefixes = [], []
    for term in _split_or(body):
        m = re.fullmatch(r"\s*" + var + r"\s*\.\s*(contains|starts_with)\s*\((.*)\)\s*", term, re.S)
        if not m:
            raise TranslateError(f"{rel}: contains_comment_closing_sequence: disjunct not recognised: {term.strip()!r}")
        lit = _str_or_char_lit(m.group(2), rel)
        if not lit:
            raise TranslateError(f"{rel}: empty closing sequence")
        (contains if m.group(1) == "contains" else prefixes).append(lit)
    c["commentContains"], c["commentPrefixes"] = contains, prefixes
    body = _fn_body(src, "set_text", rel)
    flat = re.sub(r"\s+", " ", body)
    if not re.match(r" ?if contains_comment_closing_sequence\(text\) \{ return Err\(CommentTextError::CommentClosingSequence\); \}", flat):
        raise TranslateError(f"{rel}: set_text: leading closing-sequence check not found")
    if "owned_from_str_without_replacements(text, self.encoding)" not in flat:
        raise TranslateError(f"{rel}: set_text: owned_from_str_without_replacements not found")
    lits = _handler_literals(_fn_body(src, "serialize_self", rel))
    if len(lits) != 2:
        raise TranslateError(f"{rel}: Comment::serialize_self: expected 2 literals, got {lits}")
    c["commentOpen"], c["commentClose"] = lits

    # ---- start_tag.rs / end_tag.rs
    rel = "src/rewritable_units/tokens/start_tag.rs"
    src = _strip_comments(_read(repo, rel))
    lits = _handler_literals(_fn_body(src, "serialize_self", rel))
    if len(lits) != 4:
        raise TranslateError(f"{rel}: StartTag::serialize_self: expected 4 literals, got {lits}")
    c["startTagOpen"], c["startTagSelfClosingSep"], c["startTagSelfClose"], c["startTagClose"] = lits
    rel = "src/rewritable_units/tokens/end_tag.rs"
    src = _strip_comments(_read(repo, rel))
    lits = _handler_literals(_fn_body(src, "serialize_self", rel))
    if len(lits) != 2:
        raise TranslateError(f"{rel}: EndTag::serialize_self: expected 2 literals, got {lits}")
    c["endTagOpen"], c["endTagClose"] = lits
    return c


def _split_top_commas(s):
    parts, cur, depth, i = [], "", 0, 0
    while i < len(s):
        m = re.match(r"b?'(\\x[0-9a-fA-F]{2}|\\.|[^\\'])'", s[i:]) or re.match(r'b?"((?:\\.|[^\\"])*)"', s[i:])
        if m:
            cur += m.group(0)
            i += len(m.group(0))
            continue
        ch = s[i]
        if ch in "([{":
            depth += 1
        elif ch in ")]}":
            depth -= 1
        if ch == "," and depth == 0:
            parts.append(cur)
            cur = ""
        else:
            cur += ch
        i += 1
    if cur.strip():
        parts.append(cur)
    return parts


def _split_or(s):
    parts, cur, depth, i = [], "", 0, 0
    while i < len(s):
        m = re.match(r"b?'(\\x[0-9a-fA-F]{2}|\\.|[^\\'])'", s[i:]) or re.match(r'b?"((?:\\.|[^\\"])*)"', s[i:])
        if m:
            cur += m.group(0)
            i += len(m.group(0))
            continue
        if s.startswith("||", i) and depth == 0:
            parts.append(cur)
            cur = ""
            i += 2
            continue
        ch = s[i]
        if ch in "([{":
            depth += 1
        elif ch in ")]}":
            depth -= 1
        cur += ch
        i += 1
    parts.append(cur)
    return parts


# ----------------------------------------------------------------------------- printing


def _bytes(bs):
    return "[" + ", ".join(str(b) for b in bs) + "]"


def _comment(bs):
    return "".join(chr(b) if 33 <= b < 127 and chr(b) not in "-/" else f"\\x{b:02x}" for b in bs)


def render(c):
    L = []
    L.append("/- GENERATED by translate/consts2lean.py from the Rust sources of lol-html. DO NOT EDIT. -/")
    L.append("namespace LolHtml.Gen.Consts")
    L.append("")

    def d(name, ty, val, doc):
        L.append(f"/-- {doc} -/")
        L.append(f"def {name} : {ty} := {val}")
        L.append("")

    d("bodyTriggers", "List UInt8", _bytes(c["bodyTriggers"]), "html/mod.rs escape_body_text: memchr3 needles")
    d(
        "bodyArms",
        "List (UInt8 × List UInt8)",
        "[" + ", ".join(f"({b}, {_bytes(v)})" for b, v in c["bodyArms"]) + "]",
        "html/mod.rs escape_body_text: `match matched` arms (byte, entity), in source order",
    )
    d("bodyDefault", "List UInt8", _bytes(c["bodyDefault"]), "html/mod.rs escape_body_text: the `_ =>` arm")
    d("attrTrigger", "UInt8", str(c["attrTrigger"]), "html/mod.rs escape_double_quotes_only: memchr needle")
    d("attrReplacement", "List UInt8", _bytes(c["attrReplacement"]), "html/mod.rs escape_double_quotes_only: replacement")
    d("attrNameReject", "List UInt8", _bytes(c["attrNameReject"]), "attributes.rs Attribute::name_from_string: matches! reject list")
    d("attrOpen", "List UInt8", _bytes(c["attrOpen"]), "attributes.rs Serialize for &Attribute: between name and value")
    d("attrClose", "List UInt8", _bytes(c["attrClose"]), "attributes.rs Serialize for &Attribute: after the value")
    d("attrSep", "List UInt8", _bytes(c["attrSep"]), "attributes.rs Serialize for &mut Attributes: before each attribute")
    d("tagNameReject", "List UInt8", _bytes(c["tagNameReject"]), "element.rs tag_name_bytes_from_str: matches! reject list")
    d(
        "tagNameFirstAsciiAlpha",
        "Bool",
        "true" if c["tagNameFirstAsciiAlpha"] else "false",
        "element.rs tag_name_bytes_from_str: first byte must be is_ascii_alphabetic",
    )
    d(
        "commentContains",
        "List (List UInt8)",
        "[" + ", ".join(_bytes(x) for x in c["commentContains"]) + "]",
        "comment.rs contains_comment_closing_sequence: `text.contains(..)` disjuncts",
    )
    d(
        "commentPrefixes",
        "List (List UInt8)",
        "[" + ", ".join(_bytes(x) for x in c["commentPrefixes"]) + "]",
        "comment.rs contains_comment_closing_sequence: `text.starts_with(..)` disjuncts",
    )
    d("commentOpen", "List UInt8", _bytes(c["commentOpen"]), "comment.rs serialize_self")
    d("commentClose", "List UInt8", _bytes(c["commentClose"]), "comment.rs serialize_self")
    d("startTagOpen", "List UInt8", _bytes(c["startTagOpen"]), "start_tag.rs serialize_self")
    d("startTagSelfClosingSep", "List UInt8", _bytes(c["startTagSelfClosingSep"]), "start_tag.rs serialize_self: before `/>` when there are attributes")
    d("startTagSelfClose", "List UInt8", _bytes(c["startTagSelfClose"]), "start_tag.rs serialize_self")
    d("startTagClose", "List UInt8", _bytes(c["startTagClose"]), "start_tag.rs serialize_self")
    d("endTagOpen", "List UInt8", _bytes(c["endTagOpen"]), "end_tag.rs serialize_self")
    d("endTagClose", "List UInt8", _bytes(c["endTagClose"]), "end_tag.rs serialize_self")
    L.append("end LolHtml.Gen.Consts")
    return "\n".join(L) + "\n"


def translate(repo):
    return {"Consts.lean": render(extract(repo))}


if __name__ == "__main__":
    import sys

    print(translate(sys.argv[1] if len(sys.argv) > 1 else os.environ.get("VERIF_REPO", "/repo"))["Consts.lean"])
