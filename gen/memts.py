"""Case generator for lane `memts` (property C10): `M prealloc chunkhex,chunkhex,…`.

Chunks over the alphabet {`<`, `>`, `a`}: text runs, complete tags, and tags left open at a chunk end
(so that the parsing buffer is initialised, appended to, shifted and released), with the limit chosen
next to the amounts of retained input the run goes through.
"""

USIZE_MAX = (1 << 64) - 1


def piece(rng, tier):
    r = rng.random()
    n = rng.choice([0, 1, 2, 3, 5, 9, 17, 40, 100, 300 if tier == "quick" else 1200])
    n = rng.randrange(0, n + 1)
    if r < 0.25:
        return b"a" * n
    if r < 0.55:
        return b"<" + b"a" * (n + 1) + b">"
    if r < 0.70:
        return b"<" + b"a" * n  # left open
    if r < 0.78:
        return b"<"
    if r < 0.84:
        return b">"
    if r < 0.90:
        return b"<>" + b"<<"[: rng.randrange(3)]
    return bytes(rng.choice(b"<>aa") for _ in range(n))


def scan_consumed(chunk):
    state, start = 0, 0
    for pos, b in enumerate(chunk):
        if state == 0:
            if b == 60:
                state, start = 1, pos
        elif state == 1:
            if b == 60:
                start = pos
            elif b == 62:
                state = 0
            else:
                state = 2
        else:
            if b == 62:
                state = 0
    return len(chunk) if state == 0 else start


def one(rng, tier):
    doc = b"".join(piece(rng, tier) for _ in range(rng.randrange(0, 9)))
    k = rng.choice([0, 1, 2, 3, 5, 8, 13])
    cuts = sorted(rng.randrange(0, len(doc) + 1) for _ in range(k)) if doc else [0] * min(k, 2)
    if rng.random() < 0.15 and len(doc) <= 120:
        cuts = list(range(1, len(doc)))
    chunks, prev = [], 0
    for c in cuts + [len(doc)]:
        chunks.append(doc[prev:c])
        prev = c
    # retained amounts under an infinite limit
    pending, levels = b"", {0}
    for c in chunks:
        chunk = pending + c
        pending = chunk[scan_consumed(chunk):]
        levels.add(len(pending))
        levels.add(len(chunk))
    prealloc = rng.choice([0, 0, 0, 1, 16, 64, 1024])
    r = rng.random()
    if r < 0.55:
        M = max(0, rng.choice(sorted(levels)) + rng.choice([-1, 0, 0, 1]))
    elif r < 0.7:
        M = rng.randrange(0, max(levels) + 3)
    elif r < 0.8:
        M = USIZE_MAX
    elif r < 0.9:
        M = prealloc + rng.choice([0, 1, 5, 50])
    else:
        M = rng.choice([0, 1, 2, 3, 100000])
    if M < prealloc and rng.random() < 0.8:
        M += prealloc
    return f"{M} {prealloc} {','.join(c.hex() if c else '-' for c in chunks)}"


def gen(rng, n, tier, pid):
    return [one(rng, tier) for _ in range(n)]


def nontrivial(case, obs):
    return " ok:" in obs


def stats(cases, obs):
    d = {"cases": len(cases), "with_err": 0, "all_ok": 0, "panic_prealloc": 0, "writes_ok": 0,
         "writes_buffering": 0, "oracle_flags": 0}
    for c, o in zip(cases, obs):
        main = o.split(" ||ORACLE:")[0]
        if "||ORACLE:" in o:
            d["oracle_flags"] += 1
        if main.startswith("PANIC-prealloc"):
            d["panic_prealloc"] += 1
            continue
        if " err:" in main:
            d["with_err"] += 1
        else:
            d["all_ok"] += 1
        for t in main.split(" "):
            if t.startswith("ok:"):
                d["writes_ok"] += 1
                if t.split(":")[2] != "0":
                    d["writes_buffering"] += 1
    return d
