"""Case generator for lane `attrs` (C16 element/attribute read API, C14 attribute locations).

case: <ctx html|svg|math> <tag bytes hex> <cut | -> [<edit[,edit]* | ->] <query hex[,query hex]* | ->
      edit = s:<name hex>:<value hex> | r:<name hex> | n:<tag name hex>   (set_attribute / remove_attribute / set_tag_name,
      applied in the element handler; the reads are then repeated)

One start tag per case (document = namespace prefix ++ tag bytes, windows-1252 so that every byte is a
character): unquoted / single / double quoted values, missing values, duplicates, odd characters in
names (`"`, `'`, `<`, `=`), `/` placements, upper case, non-ASCII bytes, whitespace of all five kinds,
unfinished tags, plus a malformed stream (random bytes after `<x`). Cuts everywhere inside the tag.
Queries: names of the tag's attributes (case-varied), near misses, names the validator rejects.
Edit scripts (about 45 % of the cases, also on tags with a byte-order mark in a name / value, and occasionally setting a
BOM-prefixed name / value — the accessors no longer sniff BOMs): attribute-less tags,
duplicates, case variants of the edited name, set-then-remove, remove-then-set, set twice, names the validators reject,
renames (valid, upper case, invalid first character, forbidden characters, empty); the edited names are always queried.
"""

HTML_TAGS = ["a", "b", "div", "p", "span", "i", "li", "em", "img", "br", "input", "hr", "meta", "link", "area", "base",
             "col", "embed", "source", "track", "wbr", "param", "keygen", "basefont", "bgsound", "h1", "x-custom",
             "my:el", "a1", "q7", "font", "section", "ul", "button", "label", "textarea", "title", "script", "style",
             "xmp", "iframe", "noembed", "noframes", "noscript", "plaintext", "select", "template", "table", "desc",
             "mi", "image", "esi:include", "xyzzyxyzzyxyzzy", "\xe9l\xe9ment"]
SVG_TAGS = ["g", "path", "circle", "rect", "desc", "title", "foreignObject", "foreignobject", "FOREIGNOBJECT", "font",
            "a", "text", "use", "svg", "script", "style", "image", "x-y", "div", "p", "b", "img", "br", "span", "table",
            "mi", "math", "annotation-xml", "\xe9"]
MATH_TAGS = ["mi", "mo", "mn", "ms", "mtext", "mrow", "mfrac", "annotation-xml", "semantics", "math", "font", "a",
             "svg", "div", "p", "b", "img", "br", "span", "desc", "title", "malignmark", "mglyph", "x1"]
ATTR_NAMES = ["a", "b", "href", "class", "id", "disabled", "DATA-x", "data-x", "color", "size", "face", "encoding",
              "x:y", "=b", "=", "a\"b", "a'b", "a<b", "\"", "'", "<", "\xe9", "\xc9", "\xff", "a\x00b", "A", "Href",
              "xlink:href", "definitionURL", "a=", "\x80"]
ATTR_VALUES = ["", "b", "x y", "text/html", "application/xhtml+xml", "TEXT/HTML", ">", "/", "a=b", "'", '"', "<b>",
               "--", "\xff", "\xe9t\xe9", "a/", "=", "==", "`", "a\tb", "\x80\x9f", "1", "0", "\xa0", "<", "//"]
# names / values beginning with a byte-order mark: the read accessors used to sniff it (repaired finding); kept covered
BOM_NAMES = ["\xef\xbb\xbfx", "\xff\xfea"]
BOM_VALUES = ["\xef\xbb\xbf\xe9", "\xff\xfeab", "\xfe\xffab"]
WS = [" ", "\n", "\t", "\r", "\x0c", "  ", " \n"]
REJECTED_Q = ["=b", "=", "a=", "a b", "a/b", "a>", "", " a", "a\n", "/", ">"]


def up(c):
    return c.upper() if "a" <= c <= "z" else c


def caseify(rng, s):
    """ASCII-only case variation (the bytes are windows-1252, not Unicode text)"""
    r = rng.random()
    if r < 0.6:
        return s
    if r < 0.8:
        return "".join(up(c) for c in s)
    return "".join(up(c) if rng.random() < 0.5 else c for c in s)


def attr(rng):
    n = caseify(rng, rng.choice(ATTR_NAMES if rng.random() > 0.01 else BOM_NAMES))
    r = rng.random()
    if r < 0.2:
        return n, n
    v = rng.choice(ATTR_VALUES if rng.random() > 0.015 else BOM_VALUES)
    eq = rng.choice(["=", " =", "= ", " = ", "\t=\n"]) if rng.random() < 0.3 else "="
    q = rng.random()
    if q < 0.35:
        return n, f'{n}{eq}"{v.replace(chr(34), "")}"'
    if q < 0.6:
        return n, f"{n}{eq}'{v.replace(chr(39), '')}'"
    if q < 0.9:
        vv = "".join(c for c in v if c not in " \t\n\r\x0c>")
        return n, f"{n}{eq}{vv}"
    return n, f"{n}{eq}"


def tag(rng, ctx):
    pool = {"html": HTML_TAGS, "svg": SVG_TAGS, "math": MATH_TAGS}[ctx]
    name = caseify(rng, rng.choice(pool))
    s = "<" + name
    names = []
    k = rng.choice([0, 0, 1, 1, 2, 2, 3, 4, 6])
    for j in range(k):
        n, a = attr(rng)
        if names and rng.random() < 0.15:          # duplicate (case-varied) name
            n0 = caseify(rng, rng.choice(names))
            a = n0 + a[len(n):]
            n = n0
        names.append(n)
        sep = rng.choice(WS)
        if rng.random() < 0.08:
            sep = rng.choice(["/", " / ", "/ ", " /"])
        if rng.random() < 0.04:
            sep = ""                                  # missing whitespace (after a quoted value it still separates)
        s += sep + a
    r = rng.random()
    if r < 0.1:
        s += rng.choice(WS)
    if r > 0.8:
        s += rng.choice(["/", " /", "/ ", "//", " / /"])
    return s + ">", names


def malformed(rng):
    alphabet = "ab=\"'/> \t\n<A\xe9\x00=/>\"' "
    n = rng.randrange(0, 14)
    return "<" + rng.choice(["a", "x", "B", "svg", "p"]) + "".join(rng.choice(alphabet) for _ in range(n)) + rng.choice([">", ">", ""])


def queries(rng, names):
    qs = []
    for n in names:
        if rng.random() < 0.7:
            qs.append(caseify(rng, n))
    for _ in range(rng.choice([0, 1, 1, 2])):
        r = rng.random()
        if r < 0.35:
            qs.append(rng.choice(ATTR_NAMES))
        elif r < 0.6:
            qs.append(rng.choice(REJECTED_Q))
        elif r < 0.8 and names:
            n = rng.choice(names)
            qs.append(n[:-1] if rng.random() < 0.5 else n + "x")
        else:
            qs.append(rng.choice(["zz", "\xe9", "\xc9", "ID", "clas"]))
    rng.shuffle(qs)
    return qs[:6]


NEW_NAMES = ["zz", "new", "data-n", "Z", "x:y", "id", "class", "\xe9", "a", "b"]
BAD_ATTR_NAMES = ["", "=b", "a b", "a/b", "a>", "a=", "\ta", "a\x0c", " ", "="]
TAG_RENAMES = ["span", "DIV", "x-y", "a1", "Sp\xe9", "b", "1a", "-a", "\xe9a", "", "a b", "a/b", "a>b", "a\nb", "a=b",
               "foreignObject", "q\"r", " a"]


def has_bom(t):
    return "\xef\xbb\xbf" in t or "\xff\xfe" in t or "\xfe\xff" in t


def edit_value(rng):
    return rng.choice(ATTR_VALUES if rng.random() > 0.03 else BOM_VALUES)


def edits(rng, names):
    """an edit script and the names it touches"""
    es, touched = [], []

    def target():
        r = rng.random()
        if names and r < 0.6:
            return caseify(rng, rng.choice(names))
        if r < 0.83:
            return caseify(rng, rng.choice(NEW_NAMES))
        if r < 0.86:
            return rng.choice(BOM_NAMES)
        return rng.choice(BAD_ATTR_NAMES)

    shape = rng.random()
    if shape < 0.2:                                   # set then remove the same name (case-varied)
        n = target()
        es += [("s", n, edit_value(rng)), ("r", caseify(rng, n))]
        touched.append(n)
    elif shape < 0.35:                                # remove then set
        n = target()
        es += [("r", n), ("s", caseify(rng, n), edit_value(rng))]
        touched.append(n)
    elif shape < 0.45:                                # set twice
        n = target()
        es += [("s", n, edit_value(rng)), ("s", caseify(rng, n), edit_value(rng))]
        touched.append(n)
    else:
        for _ in range(rng.choice([1, 1, 2, 3, 4])):
            r = rng.random()
            if r < 0.45:
                n = target()
                es.append(("s", n, edit_value(rng)))
                touched.append(n)
            elif r < 0.8:
                n = target()
                es.append(("r", n))
                touched.append(n)
            else:
                es.append(("n", rng.choice(TAG_RENAMES)))
    if rng.random() < 0.25:
        es.insert(rng.randrange(0, len(es) + 1), ("n", rng.choice(TAG_RENAMES)))
    return es[:5], touched


def edit_str(e):
    return ":".join([e[0]] + [hx(x) for x in e[1:]])


def hx(s):
    b = s.encode("latin-1")
    return b.hex() if b else "-"


def gen(rng, n, tier, pid):
    out = []
    for k in range(n):
        ctx = rng.choice(["html", "html", "html", "svg", "svg", "math"])
        r = rng.random()
        if r < 0.85:
            t, names = tag(rng, ctx)
            if rng.random() < 0.05:
                t = t[: rng.randrange(1, len(t))]         # unfinished
        else:
            t, names = malformed(rng), ["a", "b"]
        plen = {"html": 0, "svg": 5, "math": 6}[ctx]
        total = plen + len(t)
        c = rng.random()
        if c < 0.25:
            cut = "-"
        elif c < 0.9:
            cut = str(plen + rng.randrange(0, len(t) + 1))  # inside the tag (both ends included)
        else:
            cut = str(rng.randrange(0, total + 1))
        qs = queries(rng, names)
        es = []
        if rng.random() < 0.45:
            es, touched = edits(rng, names)
            qs = [caseify(rng, n) for n in touched] + qs
        # the query list is comma separated hex; an empty query cannot be written, use none instead
        qs = [q for q in qs if q != ""][:7]
        qstr = ','.join(hx(q) for q in qs) if qs else '-'
        if es:
            out.append(f"{ctx} {hx(t)} {cut} {','.join(edit_str(e) for e in es)} {qstr}")
        else:
            out.append(f"{ctx} {hx(t)} {cut} {qstr}")
    return out


def nontrivial(case, obs):
    return " # E:" in obs or ";E:" in obs


def stats(cases, obs):
    d = {"cases": len(cases), "with_element": 0, "cut": 0, "svg": 0, "math": 0, "attrs>=2": 0, "self_closing": 0,
         "lookup_hit": 0, "lookup_miss": 0, "oracle": 0, "edited": 0, "edit_on_attrless": 0, "edit_rejected": 0,
         "renamed": 0, "bom": 0, "bom_edited": 0, "rejected_name_listed": 0}
    for c, o in zip(cases, obs):
        f = c.split(" ")
        d["cut"] += f[2] != "-"
        bom = has_bom(bytes.fromhex(f[1]).decode("latin-1")) if f[1] != "-" else False
        d["bom"] += bom
        d["bom_edited"] += bom and len(f) == 5
        d["rejected_name_listed"] += any(x in o for x in (":3d", "+3d"))
        if len(f) == 5:
            d["edited"] += ":A:" in o
            d["edit_on_attrless"] += ":-:-:A:" in o or ":-:g" in o.split(":A:")[0][-12:]
            a = o.split(":A:")[1].split(":")[0] if ":A:" in o else ""
            d["edit_rejected"] += "e" in a or "t" in a
            d["renamed"] += any(e.startswith("n:") for e in f[3].split(","))
        d["svg"] += f[0] == "svg"
        d["math"] += f[0] == "math"
        d["with_element"] += "E:" in o
        d["attrs>=2"] += "+" in o.split(" ||ORACLE")[0]
        d["lookup_hit"] += "h1" in o
        d["lookup_miss"] += "gNh0" in o
        d["oracle"] += "||ORACLE" in o
        last = o.split(" ||ORACLE")[0].split(";")[-1].split(":")
        if len(last) > 4 and last[0] == "E":
            d["self_closing"] += last[4] == "1"
    return d
