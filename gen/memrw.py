"""Case generator for lane `memrw` (property C10, implementation only).

case = `kind prealloc inputhex cuts M,M,…`   (see harness/src/lanes/memrw.rs)

Inputs are built to grow each buffer of the rewriter: unterminated tags / comments / attribute
values under capturing handlers, very long names, deep nesting under selectors with combinators,
many chunks, multi-byte text cut inside a character; every case is replayed under a sweep of limits
(from 0 past the need, boundary values next to the input length and the preallocation, usize::MAX).
"""

USIZE_MAX = (1 << 64) - 1
KINDS = ["tsall", "tstags", "tsscan", "rwall", "rwsel", "rwnone"]


def hx(b):
    return b.hex() if b else "-"


def blob(rng, n, alphabet=b"abcdefghij klmnop"):
    return bytes(rng.choice(alphabet) for _ in range(n))


def length(rng, tier):
    r = rng.random()
    if r < 0.3:
        return rng.randrange(0, 20)
    if r < 0.7:
        return rng.randrange(0, 200)
    if r < 0.93:
        return rng.randrange(0, 1500)
    return rng.randrange(0, 6000 if tier == "thorough" else 2500)


def fragment(rng, tier):
    k = rng.randrange(14)
    n = length(rng, tier) // 4
    if k == 0:
        return blob(rng, n)
    if k == 1:
        return b"<" + blob(rng, 1 + n, b"abcdxyz") + b">"
    if k == 2:
        return b"<div " + blob(rng, 1 + n % 30, b"abc") + b'="' + blob(rng, n) + b'">'
    if k == 3:
        return b"<!--" + blob(rng, n) + b"-->"
    if k == 4:
        return b"</" + blob(rng, 1 + n % 40, b"abcdiv") + b">"
    if k == 5:
        return b"<![CDATA[" + blob(rng, n) + b"]]>"
    if k == 6:
        return b"<!doctype html " + blob(rng, n % 60, b"abc ") + b">"
    if k == 7:
        return b"<script>" + blob(rng, n, b"ab<!-/ >") + b"</script>"
    if k == 8:
        return rng.choice([b"<textarea>", b"<title>", b"<style>", b"<plaintext>"]) + blob(rng, n % 80)
    if k == 9:
        return "".join(rng.choice("é€😀aß") for _ in range(n % 60)).encode()
    if k == 10:
        return b"<p a=" + blob(rng, n % 50, b"abc'\"") + b" b c='" + blob(rng, n % 50) + b"'>"
    if k == 11:
        return b"<span>" + blob(rng, n % 40) + b"</span>"
    if k == 12:
        return b"<?" + blob(rng, n % 80) + b">"
    return b"<div><p>" + blob(rng, n % 30) + b"</p>"


def build_input(rng, tier):
    shape = rng.randrange(10)
    n = length(rng, tier)
    if shape == 0:  # unterminated start tag, long name
        return blob(rng, rng.randrange(0, 10)) + b"<" + blob(rng, 1 + n, b"abcdefg"), "open-tag-name"
    if shape == 1:  # unterminated attribute value
        q = rng.choice([b'"', b"'", b""])
        return b"<div id=x title=" + q + blob(rng, n), "open-attr-value"
    if shape == 2:  # unterminated comment
        return b"<p>t</p><!--" + blob(rng, n, b"abc- >"), "open-comment"
    if shape == 3:  # long terminated tag followed by content
        return b"<" + blob(rng, 1 + n, b"abcdefg") + b" x=y>" + blob(rng, n // 3) + b"</a>", "long-tag"
    if shape == 4:  # deep nesting
        d = rng.choice([1, 7, 8, 9, 15, 16, 17, 31, 33, 64, 65, 100, 129 if tier == "thorough" else 40])
        tag = rng.choice([b"div", b"div", b"p", b"span", b"x-y"])
        inner = b"<span>x</span><p>1</p><p a>2</p>"
        close = rng.choice([d, d, d // 2, 0])
        return (b"<" + tag + b">") * d + inner + (b"</" + tag + b">") * close, "deep-nesting"
    if shape == 5:  # long text (many chunks)
        return blob(rng, n * 2), "long-text"
    if shape == 6:  # unterminated end tag / doctype / cdata / bogus comment
        pre = rng.choice([b"</", b"<!doctype ", b"<![CDATA[", b"<?", b"<!-", b"<a b", b"<a b=", b"</a "])
        return b"<svg>" + pre + blob(rng, n, b"abc"), "open-other"
    if shape == 7:  # multi-byte text cut anywhere
        return "".join(rng.choice("é€😀a") for _ in range(n // 3)).encode(), "multibyte-text"
    if shape == 8:  # deep nesting of elements with long distinct names (names are owned by the stack)
        d = rng.choice([2, 8, 9, 16, 17, 33])
        ln = rng.choice([13, 100, 1000, 3000 if tier == "thorough" else 1500])
        doc = b"".join(b"<x%d-" % i + b"n" * ln + b">" for i in range(d))
        return doc + b"<span>x</span>", "deep-long-names"
    # mixed fragments
    parts = [fragment(rng, tier) for _ in range(rng.randrange(1, 9))]
    return b"".join(parts), "mixed"


def cuts_for(rng, n):
    r = rng.random()
    if n == 0 or r < 0.15:
        return [], "single"
    if r < 0.30 and n <= 400:
        return list(range(1, n)), "every-byte"
    if r < 0.55:
        k = rng.choice([1, 2, 3, 7, 16, 64, 255])
        return list(range(k, n, k))[:600], "fixed"
    m = rng.randrange(1, 12)
    cs = sorted(rng.randrange(0, n + 1) for _ in range(m))
    if rng.random() < 0.3 and cs:
        cs.insert(0, cs[0])  # an empty chunk
        cs.sort()
    return cs, "random"


def limits_for(rng, n, prealloc, tier):
    if n <= 48 and rng.random() < 0.35:
        ls = set(range(0, n + 6))  # full sweep from 0 past the need of the parsing buffer
        ls |= {prealloc, prealloc + n, 2048, 4096, USIZE_MAX}
        return sorted(ls), "full"
    ls = {0, rng.choice([1, 2, 7, 8]), n, max(0, n - 1), n + 1, prealloc, prealloc + 1, max(0, prealloc - 1),
          prealloc + n, rng.randrange(0, n + 2), rng.randrange(0, 2 * n + 2),
          rng.choice([512, 1024, 1536, 2048, 3072, 4096, 8192, 16384]), rng.randrange(0, 20000),
          1 << 20, rng.choice([USIZE_MAX, (1 << 63) - 1])}
    return sorted(ls), "sparse"


def one(rng, tier):
    kind = rng.choice(KINDS)
    prealloc = rng.choice([0, 0, 0, 1, 64, 64, 1024])
    data, shape = build_input(rng, tier)
    cuts, cstyle = cuts_for(rng, len(data))
    limits, lstyle = limits_for(rng, len(data), prealloc, tier)
    case = f"{kind} {prealloc} {hx(data)} {','.join(map(str, cuts)) if cuts else '-'} {','.join(map(str, limits))}"
    return case, (shape, cstyle, lstyle)


def gen(rng, n, tier, pid):
    return [one(rng, tier)[0] for _ in range(n)]


def nontrivial(case, obs):
    return ":mem@" in obs and ":ok:" in obs


def stats(cases, obs):
    d = {"cases": len(cases), "runs": 0, "runs_ok": 0, "runs_mem": 0, "runs_other": 0, "runs_panic_new": 0,
         "runs_panic": 0, "cases_with_both_ok_and_mem": 0, "oracle_flags": {}, "per_kind": {}}
    for c, o in zip(cases, obs):
        kind = c.split(" ")[0]
        d["per_kind"][kind] = d["per_kind"].get(kind, 0) + 1
        main, _, orc = o.partition(" ||ORACLE:")
        if orc:
            tag = orc.split(" ")[0]
            d["oracle_flags"][tag] = d["oracle_flags"].get(tag, 0) + 1
        runs = [t for t in main.split(" ") if t.startswith("M=")]
        d["runs"] += len(runs)
        for t in runs:
            res = t.split(":")[1]
            if res == "ok":
                d["runs_ok"] += 1
            elif res.startswith("mem@"):
                d["runs_mem"] += 1
            elif res.startswith("other@"):
                d["runs_other"] += 1
            elif res == "PANIC-new":
                d["runs_panic_new"] += 1
            else:
                d["runs_panic"] += 1
        if nontrivial(c, main):
            d["cases_with_both_ok_and_mem"] += 1
    return d
