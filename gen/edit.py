"""Case generator for lane `edit` (C07). Documents are built from a TOKEN-LEVEL grammar, so the
token stream is known by construction (syntax: lean/LolHtml/Lane/Edit.lean).

Grammar: well-formed start tags with attributes (all quoting styles, duplicate names, upper case),
end tags, comments, text without '<', doctype; nesting with closed / unclosed / implicitly closed
(end tag of an ancestor) / stray end tags, void elements, `<div/>` in HTML, an `<svg>` island with
self-closing and ordinary foreign children.  Handlers: `*` or type selectors; element, text, comment
(selector and document level), doctype and end handlers; several handlers per token; scripts of API
calls with both content types and streaming handlers; a different script per invocation.
"""

HTML_NAMES = ["div", "span", "p", "a", "b", "i", "em", "ul", "li", "section", "h1", "x-foo", "DIV", "Span", "P"]
VOID_NAMES = ["br", "img", "hr", "input", "IMG", "wbr", "meta"]
SVG_NAMES = ["g", "path", "circle", "rect"]
# `=b`, `a"b`, `a<b`: names the parser produces and `set_attribute` would refuse; lookups / remove_attribute must find them (F8, repaired)
ATTR_NAMES = ["id", "class", "href", "title", "data-x", "HREF", "x", "Class", "=b", 'a"b', "a<b"]
TEXT_PIECES = ["a", "b", "hello", " ", "\n", "&", "&amp;", ">", "\"", "'", "x y", "1", "é", "日本", "=", "/", "-->", "]]>", "-", "!"]
COMMENT_PIECES = ["a", " ", "c o", "x=1", "é", "[", "?", "/", "1", "'"]
CONTENT_POOL = ["<b>", "x", "&", "<!--c-->", "a<b", "é", "", "</p>", "\"q\"", "<i>y</i>", ">", "&lt;", " ", "</div>", "<br>", "日"]
NEW_TAG_NAMES = ["x", "h2", "Y-z", "section", "b", "", "1a", "a b", "a/b", "q>", "é", "aé"]
SET_ATTR_NAMES = ["id", "class", "href", "title", "data-x", "HREF", "x", "new", "NEW", "a=b", "", "a b", "é", "y/", "=b", "=B", 'a"b', "A<B"]
ATTR_VALUES = ["", "v", "a b", "\"", "a\"b\"", "&", "<>", "é", "'", "x=1"]
COMMENT_TEXTS = ["n", "", " x ", "a-b", "-->", "--!>", ">x", "->x", "a--b", "é", "-"]


def hx(b):
    if isinstance(b, str):
        b = b.encode()
    return b.hex() if b else "-"


class Doc:
    def __init__(self, rng):
        self.rng = rng
        self.toks = []       # (kind, fields...) for printing
        self.raws = []
        self.kinds = []
        self.open = []       # open element names (lower case), innermost last
        self.svg_marks = []  # indices into self.open where an <svg> sits (ns stack)
        self.used = set()
        self.shape = set()

    def foreign(self):
        return len(self.svg_marks) > 0

    def add(self, kind, s, raw):
        self.toks.append(s)
        self.raws.append(raw)
        self.kinds.append(kind)

    def gen_attrs(self):
        rng = self.rng
        n = rng.choice([0, 0, 1, 1, 2, 3, 5])
        out = b""
        attrs = []
        last_unquoted = False
        prev_valueless = False
        for _ in range(n):
            name = rng.choice(ATTR_NAMES)
            if prev_valueless and name.startswith("="):
                name = "x"                        # `title =b` would be title="b": `=b` is a name only after a value / the tag name
            sep = rng.choice([" ", " ", "  ", "\n", "\t"])
            form = rng.randrange(6)
            val = "".join(rng.choice(["a", "b", "1", " ", "é", "&", "x", "/", "=", ">", "<"]) for _ in range(rng.randrange(0, 5)))
            if form == 0:
                raw, value = name, ""
                last_unquoted = False
            elif form == 1:
                v = "".join(c for c in val if c in "ab1x") or "v"
                raw, value = name + "=" + v, v
                last_unquoted = True
            elif form == 2:
                raw, value = name + '="' + val + '"', val
                last_unquoted = False
            elif form == 3:
                raw, value = name + "='" + val + "'", val
                last_unquoted = False
            elif form == 4:
                raw, value = name + ' = "' + val + '"', val
                last_unquoted = False
            else:
                raw, value = name + '=""', ""
                last_unquoted = False
            prev_valueless = form == 0
            out += sep.encode() + raw.encode()
            attrs.append((name.encode(), value.encode(), raw.encode()))
        return out, attrs, last_unquoted

    def start_tag(self, name, self_closing, foreign_ns):
        rng = self.rng
        attr_bytes, attrs, last_unquoted = self.gen_attrs()
        tail = rng.choice(["", "", " ", "\n"])
        if self_closing:
            if last_unquoted or (not attrs and False):
                tail = tail or " "
            close = tail + "/>"
        else:
            close = tail + ">"
        raw = b"<" + name.encode() + attr_bytes + close.encode()
        a = ",".join("%s/%s/%s" % (hx(n), hx(v), hx(r)) for n, v, r in attrs) or "-"
        self.add("S", "S:%s:%s:%d:%d:%s" % (hx(raw), hx(name), 1 if self_closing else 0, 1 if foreign_ns else 0, a), raw)
        self.used.add(name.lower())

    def end_tag(self, name):
        raw = ("</" + name + self.rng.choice(["", "", " "]) + ">").encode()
        self.add("E", "E:%s:%s" % (hx(raw), hx(name)), raw)

    def pop_to(self, lname):
        # mirror of pop_up_to on the generator's own stack (for ns bookkeeping only)
        if lname in self.open:
            idx = len(self.open) - 1 - self.open[::-1].index(lname)
            del self.open[idx:]
            self.svg_marks = [m for m in self.svg_marks if m < idx]

    def step(self):
        rng = self.rng
        r = rng.random()
        prev = self.kinds[-1] if self.kinds else None
        if r < 0.22 and prev != "T":
            t = "".join(rng.choice(TEXT_PIECES) for _ in range(rng.randrange(1, 5)))
            self.add("T", "T:%s" % hx(t), t.encode())
        elif r < 0.30:
            t = "".join(rng.choice(COMMENT_PIECES) for _ in range(rng.randrange(0, 4)))
            raw = ("<!--" + t + "-->").encode()
            self.add("C", "C:%s:%s" % (hx(raw), hx(t)), raw)
        elif r < 0.33:
            raw = rng.choice(["<!DOCTYPE html>", "<!doctype html>", '<!DOCTYPE html PUBLIC "-//W3C//DTD HTML 4.01//EN" "x">', "<!DOCTYPE>"]).encode()
            self.add("D", "D:%s" % hx(raw), raw)
        elif r < 0.70:
            if self.foreign():
                if rng.random() < 0.08:
                    self.start_tag("svg", False, True)
                    self.open.append("svg")
                    self.svg_marks.append(len(self.open) - 1)
                    self.shape.add("nested-svg")
                else:
                    name = rng.choice(SVG_NAMES)
                    sc = rng.random() < 0.45
                    self.start_tag(name, sc, True)
                    self.shape.add("foreign-selfclosing" if sc else "foreign-open")
                    if not sc:
                        self.open.append(name)
            else:
                q = rng.random()
                if q < 0.12:
                    self.start_tag("svg", False, True)
                    self.open.append("svg")
                    self.svg_marks.append(len(self.open) - 1)
                    self.shape.add("svg")
                elif q < 0.30:
                    name = rng.choice(VOID_NAMES)
                    sc = rng.random() < 0.3
                    self.start_tag(name, sc, False)
                    self.shape.add("void")
                else:
                    name = rng.choice(HTML_NAMES)
                    sc = rng.random() < 0.1
                    self.start_tag(name, sc, False)
                    if sc:
                        self.shape.add("html-selfclosing")
                    self.open.append(name.lower())
        else:
            # end tag
            if self.foreign():
                mark = self.svg_marks[-1]
                inner = self.open[mark + 1:]
                q = rng.random()
                if inner and q < 0.6:
                    name = inner[-1] if rng.random() < 0.7 else rng.choice(inner)
                    if name != inner[-1]:
                        self.shape.add("implicit-close")
                elif q < 0.9 or not inner:
                    name = "svg"
                    if inner:
                        self.shape.add("implicit-close")
                else:
                    name = rng.choice(SVG_NAMES)  # possibly stray
                    if name not in self.open:
                        self.shape.add("stray-end")
                self.end_tag(name)
                # `</svg>`: the tree-builder simulator leaves the namespace, the VM pops the innermost
                # open svg (they coincide: in foreign mode the innermost svg is always still open)
                self.pop_to(name)
            else:
                q = rng.random()
                if self.open and q < 0.65:
                    name = self.open[-1]
                elif self.open and q < 0.88:
                    name = rng.choice(self.open)
                    if name != self.open[-1]:
                        self.shape.add("implicit-close")
                else:
                    name = rng.choice(["div", "span", "p", "b", "zz"])
                    if name not in self.open:
                        self.shape.add("stray-end")
                if rng.random() < 0.15:
                    name = name.upper()
                self.end_tag(name)
                self.pop_to(name.lower())


def gen_content(rng):
    if rng.random() < 0.15:
        ws = []
        for _ in range(rng.randrange(0, 4)):
            ws.append(("t" if rng.random() < 0.5 else "h") + hx(rng.choice(CONTENT_POOL)))
        return "s" + "_".join(ws)
    return ("t" if rng.random() < 0.45 else "h") + hx(rng.choice(CONTENT_POOL))


def gen_mut_op(rng, sep="."):
    k = rng.choice(["bf", "bf", "af", "af", "rp", "rm"])
    if k == "rm":
        return k
    return k + sep + gen_content(rng)


def gen_start_tag_op(rng, sep):
    k = rng.randrange(10)
    if k < 5:
        return gen_mut_op(rng, sep)
    if k < 6:
        return "sn" + sep + hx(rng.choice(["x", "h2", "", "a b", "Q"]))
    if k < 9:
        return "sa" + sep + hx(rng.choice(SET_ATTR_NAMES)) + sep + hx(rng.choice(ATTR_VALUES))
    return "ra" + sep + hx(rng.choice(SET_ATTR_NAMES))


def gen_end_tag_op(rng, sep):
    if rng.random() < 0.2:
        return "sn" + sep + hx(rng.choice(["x", "h2", "", "Q"]))
    return gen_mut_op(rng, sep)


def gen_element_op(rng):
    k = rng.choice(["bf", "af", "pp", "ap", "si", "rp", "rm", "rk", "tn", "sa", "sa", "ra", "st", "oe",
                    "bf", "af", "pp", "ap"])
    if k in ("bf", "af", "pp", "ap", "si", "rp"):
        return k + "." + gen_content(rng)
    if k in ("rm", "rk"):
        return k
    if k == "tn":
        return "tn." + hx(rng.choice(NEW_TAG_NAMES))
    if k == "sa":
        return "sa." + hx(rng.choice(SET_ATTR_NAMES)) + "." + hx(rng.choice(ATTR_VALUES))
    if k == "ra":
        return "ra." + hx(rng.choice(SET_ATTR_NAMES))
    if k == "st":
        return "st." + gen_start_tag_op(rng, "~")
    ops = [gen_end_tag_op(rng, "~") for _ in range(rng.randrange(0, 3))]
    return "oe." + ("+".join(ops) or "-")


def gen_script(rng, kind):
    n = rng.choice([0, 1, 1, 2, 2, 3, 4, 6])
    ops = []
    for _ in range(n):
        if kind == "e":
            ops.append(gen_element_op(rng))
        elif kind == "c":
            ops.append("sx." + hx(rng.choice(COMMENT_TEXTS)) if rng.random() < 0.25 else gen_mut_op(rng))
        elif kind == "t":
            ops.append("ss." + hx(rng.choice(CONTENT_POOL)) if rng.random() < 0.2 else gen_mut_op(rng))
        elif kind == "d":
            ops.append("rm")
        else:
            ops.append("ap." + ("t" if rng.random() < 0.5 else "h") + hx(rng.choice(CONTENT_POOL)))
    return ",".join(ops) or "-"


def gen_handler(rng, names):
    r = rng.random()
    if r < 0.55:
        kind, doc = "e", False
    elif r < 0.66:
        kind, doc = "t", False
    elif r < 0.76:
        kind, doc = "c", False
    elif r < 0.82:
        kind, doc = "t", True
    elif r < 0.88:
        kind, doc = "c", True
    elif r < 0.92:
        kind, doc = "d", True
    else:
        kind, doc = "z", True
    if doc:
        sel = "-"
    elif rng.random() < 0.3 or not names:
        sel = hx("*")
    else:
        sel = hx(rng.choice(names))
    scripts = "|".join(gen_script(rng, kind) for _ in range(rng.choice([1, 1, 2, 3])))
    return "%s:%s:%s" % (kind, sel, scripts)


def gen_case(rng, tier):
    d = Doc(rng)
    n = rng.choice([0, 1, 2, 3, 5, 8, 12, 16, 24]) if tier == "quick" else rng.choice([0, 1, 3, 6, 10, 16, 24, 40])
    for _ in range(n):
        d.step()
    raw = b"".join(d.raws)
    # forbidden cut positions: inside a multi-byte character of a text token
    forbidden = set()
    off = 0
    for kind, r in zip(d.kinds, d.raws):
        if kind == "T":
            for i, b in enumerate(r):
                if b & 0xC0 == 0x80:
                    forbidden.add(off + i)
        off += len(r)
    mode = rng.random()
    cuts = []
    if len(raw) > 0:
        if mode < 0.25:
            cuts = []
        elif mode < 0.31:
            cuts = [c for c in range(1, len(raw)) if c not in forbidden]
        else:
            for _ in range(rng.randrange(1, 6)):
                c = rng.randrange(0, len(raw) + 1)
                if c not in forbidden:
                    cuts.append(c)
            cuts.sort()
    names = sorted(d.used)
    hs = [gen_handler(rng, names) for _ in range(rng.choice([0, 1, 1, 2, 2, 3, 4, 5]))]
    return "%s %s %s" % (";".join(d.toks) or "-", ",".join(map(str, cuts)) or "-", ";".join(hs) or "-"), d.shape


def gen(rng, n, tier, pid):
    return [gen_case(rng, tier)[0] for _ in range(n)]


def nontrivial(case, obs):
    toks, cuts, hs = case.split()
    return hs != "-" and toks != "-"


def project(pid, case, line):
    """The comparison covers all four fields: sink bytes, handler invocation counts, the documented
    output (Lean `Spec.EditDoc.rewrite` vs the harness's reference editor) and the `clean` flag."""
    return line


def invalid_case(case, impl_line):
    """the harness re-lexes the document with the real lexer and refuses cases whose claimed token list (an INPUT of
    the model) is not what the lexer produces: a generator bug (rare namespace-bookkeeping corner: nested <svg>), not a
    disagreement between model and implementation; the check skips a handful and alarms when they become frequent"""
    return impl_line.startswith("gen-mismatch")


def stats(cases, obs):
    from collections import Counter
    c = Counter()
    for case, o in zip(cases, obs):
        toks, cuts, hs = case.split()
        tl = [] if toks == "-" else toks.split(";")
        hl = [] if hs == "-" else hs.split(";")
        c["cases"] += 1
        c["tokens"] += len(tl)
        c["handlers"] += len(hl)
        c["with_cuts"] += cuts != "-"
        for h in hl:
            c["handler_" + h[0] + ("_doc" if h.split(":")[1] == "-" else "")] += 1
        for t in tl:
            c["tok_" + t[0]] += 1
        for k in ("si.", "rp.", "rm", "rk", "tn.", "oe.", "st.", ".s"):
            c["cases_with_op_" + k] += any(k in h for h in hl)
        if o is not None:
            f = o.split(" ||ORACLE:")[0].split()
            if len(f) == 4:
                out, inv, expected, clean = f
                c["cases_with_invocation"] += any(x not in ("0", "-") for x in inv.split(","))
                c["output_differs_from_input"] += out.replace("-", "") != "".join(t.split(":")[1].replace("-", "") for t in tl)
                c["clean"] += clean[0] == "1"
                c["tidy"] += clean[1] == "1"
                c["out_ne_documented"] += out != expected
                c["clean_and_out_ne_documented"] += clean[0] == "1" and out != expected
                c["tidy_and_not_clean"] += clean[1] == "1" and clean[0] != "1"
            else:
                c["obs_" + f[0]] += 1
            c["oracle_flagged"] += "||ORACLE" in o
            for tag in ("implicit-close", "unclosed-eof", "other"):
                c["oracle_" + tag] += ("||ORACLE:C07:" + tag) in o
    return dict(c)
