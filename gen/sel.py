"""Case generator for lane `sel` (property C04).

Case line (whitespace separated fields):
  1. esi        0|1                      Settings::enable_esi_tags
  2. cuts       n,n,...|-                byte offsets where the HTML text is cut into write() calls
  3. sels       structured selector set, ','-separated prefix tokens (grammar below)
  4. css        hex(css text) per registered selector, ','-separated  (printed by this file; the Lean
                lane prints the same AST with its own printer and both sides echo it)
  5. script     document: events separated by ';'
                  s:<namehex>:<ns h|s|m>:<selfclosing 0|1>:<attrs>   attrs = '-' | a&a&..., a = namehex=valuehex | namehex
                  e:<namehex>
                  t:<hex>          raw text between tags (ignored by the model)

Structured selector grammar (mirror of LolHtml.Sel):
  selset   = N sellist*N
  sellist  = K complex*K
  complex  = M compound (comb compound)*(M-1)        comb = c | d
  compound = J simple*J
  simple   = t <hex> | u | i <hex> | k <hex> | e <hex> | a <hex> <op> <hex> <case> | n <a> <b> | o <a> <b>
           | f | g | x K compound*K
  op = eq|inc|dash|pfx|sub|sfx    case = es|ai|cs|ih  (ParsedCaseSensitivity)

The namespace of every start tag is *claimed* by the generator (a transcription of the tree builder
simulator restricted to the vocabulary used here); the Rust lane checks the claim against what the
real rewriter reports and prints `nsdiff` when it is wrong.
"""

LEGACY_ATTRS = set("""accept accept-charset align alink axis bgcolor charset checked clear codetype color
compact declare defer dir direction disabled enctype face frame hreflang http-equiv lang language link
media method multiple nohref noresize noshade nowrap readonly rel rev rules scope scrolling selected shape
target text type valign valuetype vlink""".split())

HTML_TAGS = ["div", "span", "p", "a", "ul", "li", "b", "i", "em", "h1", "h7", "x-y", "section",
             "averyveryverylongtagname", "dl"]
VOID_TAGS = ["br", "img", "input", "hr", "meta", "link", "wbr", "area", "col", "embed", "param", "source",
             "track", "base", "basefont", "bgsound", "keygen"]
ESI_TAGS = ["esi:include", "esi:comment", "ESI:include", "esi:vars"]
SVG_INNER = ["g", "path", "circle", "rect", "desc", "foreignObject", "a", "text"]
MATH_INNER = ["mrow", "mi", "mtext", "mfrac", "mo"]
BREAKOUT = set("""b big blockquote body br center code dd div dl dt em embed h1 h2 h3 h4 h5 h6 head hr i img li
listing menu meta nobr ol p pre ruby s small span strong strike sub sup table tt u ul var""".split())
SVG_IP = {"desc", "title", "foreignobject"}
MATH_IP = {"mi", "mo", "mn", "ms", "mtext"}

ATTR_NAMES = ["id", "class", "type", "lang", "title", "data-x", "href", "Class", "ID", "TYPE", "rel"]
ATTR_VALUES = ["", "a", "foo", "foo bar", "Foo", "FOO", "en", "en-US", "a b  c", "bar-baz", "x", " foo ",
               "bar", "foo\tbar", "-", "afoo", "fooa"]
IDENTS = ["foo", "bar", "a", "x", "Foo", "en", "baz"]


def hx(b):
    if isinstance(b, str):
        b = b.encode()
    return b.hex() if b else "-"


# ---------------------------------------------------------------- selectors (AST as nested tuples)

def rand_case(rng, s):
    r = rng.random()
    if r < 0.75:
        return s
    if r < 0.9:
        return s.upper()
    return "".join(c.upper() if rng.random() < 0.5 else c for c in s)


def gen_type(rng):
    pool = HTML_TAGS + ["br", "img", "svg", "g", "path", "desc", "math", "mi", "esi:include", "foreignObject"]
    n = rng.choice(pool)
    if ":" in n:       # needs escaping in CSS; keep the type selector vocabulary escape-free
        n = "div"
    return ("t", rand_case(rng, n))


def parsed_case(name, flag):
    if flag == "i":
        return "ai"
    if flag == "s":
        return "es"
    return "ih" if name.lower() in LEGACY_ATTRS else "cs"


def gen_attr_sel(rng):
    name = rand_case(rng, rng.choice(["id", "class", "type", "lang", "title", "data-x", "href", "rel"]))
    if rng.random() < 0.3:
        return ("e", name)
    op = rng.choice(["eq", "inc", "dash", "pfx", "sub", "sfx"])
    r = rng.random()
    if r < 0.04:
        value = ""
    elif r < 0.08:
        value = rng.choice(["foo bar", " "])
    else:
        value = rng.choice(["a", "foo", "Foo", "bar", "en", "x", "b", "fo", "oo", "-", "foo bar"[:3]])
    flag = rng.choice(["", "", "", "i", "s"])
    return ("a", name, op, value, parsed_case(name, flag))


def gen_nth(rng):
    r = rng.random()
    if r < 0.15:
        return ("f",)
    if r < 0.3:
        return ("g",)
    a = rng.choice([0, 0, 1, 2, 3, -1, -2, 2147483647, -2147483648])
    b = rng.choice([0, 1, 1, 2, 3, -1, -3, 5, 2147483647, -2147483648])
    return (rng.choice(["n", "o"]), a, b)


def gen_simple_nonneg(rng, allow_type):
    r = rng.random()
    if allow_type and r < 0.3:
        return gen_type(rng)
    if allow_type and r < 0.36:
        return ("u",)
    if r < 0.5:
        return ("i", rng.choice(IDENTS))
    if r < 0.68:
        return ("k", rng.choice(IDENTS))
    if r < 0.86:
        return gen_attr_sel(rng)
    return gen_nth(rng)


def gen_not(rng, depth):
    """:not(list of compounds); biased to single simple arguments, sometimes compound / nested"""
    k = 1 if rng.random() < 0.7 else rng.randrange(2, 4)
    args = []
    for _ in range(k):
        r = rng.random()
        if r < 0.6:
            args.append(gen_compound(rng, depth + 1, size=1))
        else:
            args.append(gen_compound(rng, depth + 1, size=rng.randrange(2, 4)))
    return ("x", args)


def gen_compound(rng, depth=0, size=None):
    if size is None:
        size = rng.choice([1, 1, 1, 2, 2, 3])
    out = []
    first = True
    for _ in range(size):
        if not first or rng.random() < 0.5:
            allow_type = False
        else:
            allow_type = True
        if depth < 2 and rng.random() < (0.18 if depth == 0 else 0.12):
            out.append(gen_not(rng, depth))
        else:
            s = gen_simple_nonneg(rng, first)
            out.append(s)
        first = False
    # a type/universal selector must come first in a compound
    head = [s for s in out if s[0] in ("t", "u")][:1]
    rest = [s for s in out if s[0] not in ("t", "u")]
    return head + rest if head or rest else [("u",)]


def gen_complex(rng):
    m = rng.choice([1, 1, 1, 2, 2, 3, 4])
    comps = [gen_compound(rng)]
    for _ in range(m - 1):
        comps.append(rng.choice(["c", "d"]))
        comps.append(gen_compound(rng))
    return comps


def gen_sellist(rng):
    k = rng.choice([1, 1, 1, 1, 2, 3])
    return [gen_complex(rng) for _ in range(k)]


OPS = {"eq": "=", "inc": "~=", "dash": "|=", "pfx": "^=", "sub": "*=", "sfx": "$="}


def an_plus_b(a, b):
    return "%dn%s" % (a, ("-%d" % -b) if b < 0 else ("+%d" % b))


def css_simple(s):
    k = s[0]
    if k == "t":
        return s[1]
    if k == "u":
        return "*"
    if k == "i":
        return "#" + s[1]
    if k == "k":
        return "." + s[1]
    if k == "e":
        return "[" + s[1] + "]"
    if k == "a":
        flag = {"ai": " i", "es": " s"}.get(s[4], "")
        return '[%s%s"%s"%s]' % (s[1], OPS[s[2]], s[3], flag)
    if k == "n":
        return ":nth-child(%s)" % an_plus_b(s[1], s[2])
    if k == "o":
        return ":nth-of-type(%s)" % an_plus_b(s[1], s[2])
    if k == "f":
        return ":first-child"
    if k == "g":
        return ":first-of-type"
    if k == "x":
        return ":not(" + ", ".join(css_compound(c) for c in s[1]) + ")"
    raise ValueError(k)


def css_compound(c):
    return "".join(css_simple(s) for s in c)


def css_complex(cx):
    out = ""
    for part in cx:
        if part == "c":
            out += " > "
        elif part == "d":
            out += " "
        else:
            out += css_compound(part)
    return out


def css_sellist(sl):
    return ", ".join(css_complex(c) for c in sl)


def enc_simple(s, out):
    k = s[0]
    if k in ("t", "i", "k", "e"):
        out += [k, hx(s[1])]
    elif k in ("u", "f", "g"):
        out.append(k)
    elif k == "a":
        out += ["a", hx(s[1]), s[2], hx(s[3]), s[4]]
    elif k in ("n", "o"):
        out += [k, str(s[1]), str(s[2])]
    elif k == "x":
        out += ["x", str(len(s[1]))]
        for c in s[1]:
            enc_compound(c, out)


def enc_compound(c, out):
    out.append(str(len(c)))
    for s in c:
        enc_simple(s, out)


def enc_selset(sels):
    out = [str(len(sels))]
    for sl in sels:
        out.append(str(len(sl)))
        for cx in sl:
            out.append(str((len(cx) + 1) // 2))
            for part in cx:
                if part in ("c", "d"):
                    out.append(part)
                else:
                    enc_compound(part, out)
    return ",".join(out)


def has_f3_shape(sl):
    def simple(s, in_not):
        if s[0] != "x":
            return False
        if in_not:
            return True
        return any(len(c) >= 2 or any(simple(t, True) for t in c) for c in s[1])
    return any(simple(s, False) for cx in sl for part in cx if part not in ("c", "d") for s in part)


def has_attr_part(sl):
    def simple(s):
        if s[0] in ("i", "k", "e", "a"):
            return True
        return s[0] == "x" and any(simple(t) for c in s[1] for t in c)
    return any(simple(s) for cx in sl for part in cx if part not in ("c", "d") for s in part)


# ---------------------------------------------------------------- documents

class NsSim:
    """tree_builder_simulator/mod.rs restricted to the vocabulary used here"""

    def __init__(self):
        self.stack = ["h"]

    @property
    def cur(self):
        return self.stack[-1]

    def start(self, name, self_closing):
        """returns the namespace reported for this start tag"""
        n = name.lower()
        if n == "svg":
            self.stack.append("s")
        elif n == "math":
            self.stack.append("m")
        elif self.cur != "h":
            if n in BREAKOUT:
                if len(self.stack) > 1:
                    self.stack.pop()
            elif (self.cur == "s" and n in SVG_IP) or (self.cur == "m" and n in MATH_IP):
                if not self_closing:
                    self.stack.append("h")
        return self.cur

    def end(self, name):
        n = name.lower()
        if self.cur == "h":
            if len(self.stack) >= 2:
                prev = self.stack[-2]
                if (prev == "m" and n in MATH_IP) or (prev == "s" and n in SVG_IP):
                    self.stack.pop()
        else:
            if (self.cur == "s" and n == "svg") or (self.cur == "m" and n == "math") or n in ("p", "br"):
                self.stack.pop()


def gen_attrs(rng):
    r = rng.random()
    if r < 0.35:
        return []
    k = rng.choice([1, 1, 2, 2, 3])
    out = []
    for _ in range(k):
        name = rng.choice(ATTR_NAMES)
        if rng.random() < 0.1:
            out.append((name, None))
        else:
            out.append((name, rng.choice(ATTR_VALUES)))
    return out


def gen_doc(rng, esi, tier):
    """returns list of events: ('s', name, ns, sc, attrs) | ('e', name) | ('t', text)"""
    sim = NsSim()
    open_names = []
    evs = []
    maxlen = rng.choice([1, 2, 4, 6, 8, 10, 14] + ([20, 30] if tier != "quick" else []))
    foreign_bias = rng.random() < 0.25
    deep = rng.random() < 0.2
    for _ in range(maxlen):
        r = rng.random()
        if r < (0.75 if deep else 0.55):
            cur = sim.cur
            if cur == "s":
                pool = SVG_INNER * 3 + ["svg", "div", "p"]
            elif cur == "m":
                pool = MATH_INNER * 3 + ["math", "span"]
            else:
                pool = HTML_TAGS * 3 + VOID_TAGS[:6] + rng.sample(VOID_TAGS, 2)
                if esi or rng.random() < 0.1:
                    pool = pool + ESI_TAGS
                if foreign_bias or rng.random() < 0.1:
                    pool = pool + ["svg", "math"] * 4
            name = rand_case(rng, rng.choice(pool))
            sc = rng.random() < (0.3 if cur != "h" else 0.08)
            if name.lower() in ("svg", "math") and sc:
                sc = False      # F2 (C03): self-closing <svg/> still enters the namespace; kept out of this lane
            ns = sim.start(name, sc)
            evs.append(("s", name, ns, sc, gen_attrs(rng)))
            open_names.append(name)
        elif r < 0.9:
            q = rng.random()
            if open_names and q < 0.6:
                name = open_names.pop()
            elif open_names and q < 0.85:
                name = rng.choice(open_names)
            else:
                name = rng.choice(HTML_TAGS + ["svg", "math", "g", "br", "p", "desc", "mi"])
            name = rand_case(rng, name)
            sim.end(name)
            evs.append(("e", name))
        else:
            evs.append(("t", rng.choice(["x", "hello ", " ", "a &amp; b", "1 > 0"])))
    return evs


def html_of(evs):
    out = b""
    for e in evs:
        if e[0] == "s":
            s = "<" + e[1]
            for (n, v) in e[4]:
                s += " " + n if v is None else ' %s="%s"' % (n, v)
            s += " />" if e[3] else ">"
            out += s.encode()
        elif e[0] == "e":
            out += ("</%s>" % e[1]).encode()
        else:
            out += e[1].encode()
    return out


def enc_doc(evs):
    parts = []
    for e in evs:
        if e[0] == "s":
            attrs = "&".join(hx(n) if v is None else "%s=%s" % (hx(n), v.encode().hex()) for (n, v) in e[4]) or "-"
            parts.append("s:%s:%s:%d:%s" % (hx(e[1]), e[2], 1 if e[3] else 0, attrs))
        elif e[0] == "e":
            parts.append("e:" + hx(e[1]))
        else:
            parts.append("t:" + hx(e[1]))
    return ";".join(parts) or "-"


VOID_SET = set(VOID_TAGS)


def doc_tree(evs, esi):
    """(index in evs, ancestors as list of indices innermost first, child index, type index) per start tag"""
    out = []
    open_ = []          # indices into evs
    kids = {None: []}
    for idx, e in enumerate(evs):
        if e[0] == "s":
            parent = open_[-1] if open_ else None
            sibs = kids.setdefault(parent, [])
            out.append((idx, list(reversed(open_)), len(sibs) + 1,
                        sum(1 for j in sibs if evs[j][1].lower() == e[1].lower()) + 1))
            sibs.append(idx)
            kids[idx] = []
            if e[2] == "h":
                closes = e[1].lower() in VOID_SET or (esi and e[1] in ("esi:include", "esi:comment"))
            else:
                closes = e[3]
            if not closes:
                open_.append(idx)
        elif e[0] == "e":
            for k in range(len(open_) - 1, -1, -1):
                if evs[open_[k]][1].lower() == e[1].lower():
                    del open_[k:]
                    break
    return out


def compound_for(rng, evs, idx, cidx, tidx):
    """a compound that the start tag evs[idx] satisfies (mostly)"""
    e = evs[idx]
    out = []
    name = e[1]
    if ":" not in name and rng.random() < 0.6:
        out.append(("t", rand_case(rng, name)))
    elif rng.random() < 0.15:
        out.append(("u",))
    for (n, v) in e[4]:
        if rng.random() < 0.5:
            continue
        v = v or ""
        ln = n.lower()
        r = rng.random()
        if ln == "id" and v and " " not in v and "\t" not in v and r < 0.5 and v[0].isalpha():
            out.append(("i", v))
        elif ln == "class" and r < 0.6:
            toks = [t for t in v.replace("\t", " ").split(" ") if t and t[0].isalpha()]
            if toks:
                out.append(("k", rng.choice(toks)))
        elif r < 0.3:
            out.append(("e", rand_case(rng, n)))
        elif v:
            op = rng.choice(["eq", "inc", "dash", "pfx", "sub", "sfx"])
            if op == "eq":
                val = v
            elif op == "inc":
                val = rng.choice(v.replace("\t", " ").split(" ") or [v])
            elif op == "dash":
                val = v.split("-")[0]
            elif op == "pfx":
                val = v[:rng.randrange(1, len(v) + 1)]
            elif op == "sfx":
                val = v[-rng.randrange(1, len(v) + 1):]
            else:
                a = rng.randrange(0, len(v))
                val = v[a:rng.randrange(a + 1, len(v) + 1)]
            if "\t" in val:
                continue
            flag = rng.choice(["", "", "i", "s"])
            if flag == "i" or rng.random() < 0.15:
                val = rand_case(rng, val)
            out.append(("a", rand_case(rng, n), op, val, parsed_case(n, flag)))
    r = rng.random()
    if r < 0.12:
        out.append(("n", rng.choice([0, 1, 2, -1]), cidx if rng.random() < 0.7 else rng.randrange(0, 4)))
    elif r < 0.24:
        out.append(("o", rng.choice([0, 1, 2, -1]), tidx if rng.random() < 0.7 else rng.randrange(0, 4)))
    elif r < 0.3 and cidx == 1:
        out.append(("f",))
    elif r < 0.36 and tidx == 1:
        out.append(("g",))
    if rng.random() < 0.2:
        out.append(gen_not(rng, 0))
    if not out:
        out.append(("u",))
    head = [s for s in out if s[0] in ("t", "u")][:1]
    rest = [s for s in out if s[0] not in ("t", "u")]
    return head + rest


def gen_sellist_for_doc(rng, evs, tree):
    """selector list aimed at a random start tag of the document"""
    (idx, anc, cidx, tidx) = rng.choice(tree)
    comps = [compound_for(rng, evs, idx, cidx, tidx)]
    cur_anc = list(anc)
    tinfo = {t[0]: t for t in tree}
    while cur_anc and rng.random() < 0.55:
        if rng.random() < 0.5:
            k = 0
            comb = "c"
        else:
            k = rng.randrange(0, len(cur_anc))
            comb = "d"
        a = cur_anc[k]
        cur_anc = cur_anc[k + 1:]
        if rng.random() < 0.12:
            comb = "c" if comb == "d" else "d"
        comps = [compound_for(rng, evs, a, tinfo[a][2], tinfo[a][3]), comb] + comps
    sl = [comps]
    if rng.random() < 0.15:
        sl.append(gen_complex(rng))
    return sl


def directed(rng):
    """hand-picked shapes: F3, prefix sharing, hereditary-jump de-duplication, bail-outs in all three places"""
    D = []
    t = lambda n: ("t", n)
    k = lambda n: ("k", n)
    st = lambda n, attrs=(), ns="h", sc=False: ("s", n, ns, sc, list(attrs))
    en = lambda n: ("e", n)
    D.append(([[[[("x", [[t("div"), k("foo")]])]]]], [st("div")]))
    D.append(([[[[t("p"), ("x", [[t("a"), ("x", [[k("x")]])]])]]]], [st("p")]))
    D.append(([[[[t("a")], "d", [t("b")]]], [[[t("a")], "d", [k("foo")]]]],
              [st("a"), st("a"), st("b", [("class", "foo")]), en("a"), st("b"), en("a"), st("b")]))
    D.append(([[[[t("ul")], "c", [t("li"), ("n", 2, 1)]]], [[[t("li"), ("g",)]]]],
              [st("ul"), st("li"), st("br"), st("li"), en("li"), st("LI"), en("ul"), st("li")]))
    D.append(([[[[k("foo")]]], [[[t("div")], "c", [("i", "x")]]], [[[t("div")], "d", [("e", "href")]]]],
              [st("div", [("class", "foo")]), st("a", [("id", "x"), ("href", "y")]), st("span"), st("a", [("href", "")])]))
    D.append(([[[[t("g")]]], [[[t("svg")], "c", [t("g")]]]],
              [st("svg", (), "s"), st("g", (), "s", True), st("g", (), "s"), st("g", (), "s"), en("svg"), st("g")]))
    return D


def typed_counter_case(rng):
    """one end tag closing several nested levels that each hold same-named elements, then more siblings of that
    name: exercises TypedChildCounterMap::pop_to / the cumulative counters after a multi-level pop"""
    t = lambda n: ("t", n)
    st = lambda n, attrs=(), ns="h", sc=False: ("s", n, ns, sc, list(attrs))
    en = lambda n: ("e", n)
    n = rng.choice(["p", "li", "b", "q7", "x-a"])
    outer, mid, inner = rng.sample(["div", "section", "ul", "table", "em", "span"], 3)
    evs = [st(outer)]
    for _ in range(rng.randrange(0, 3)):
        evs += [st(n), en(n)]
    evs.append(st(mid))
    for _ in range(rng.randrange(1, 3)):
        evs.append(st(n))
    if rng.random() < 0.6:
        evs.append(st(inner))
        for _ in range(rng.randrange(1, 3)):
            evs.append(st(n))
    evs.append(en(mid) if rng.random() < 0.7 else en(outer))
    for _ in range(rng.randrange(1, 4)):
        evs += [st(n)] + ([en(n)] if rng.random() < 0.6 else [])
    if rng.random() < 0.5:
        evs.append(en(outer))
        evs += [st(n), en(n)]
    sels = []
    for _ in range(rng.randrange(1, 4)):
        r = rng.random()
        if r < 0.4:
            comp = [t(n), ("o", 0, rng.randrange(1, 5))]          # :nth-of-type(k)
        elif r < 0.6:
            comp = [t(n), ("o", rng.choice([1, 2]), rng.randrange(0, 3))]
        elif r < 0.8:
            comp = [t(n), ("o", 0, 1)]                            # first-of-type shape
        else:
            comp = [t(n), ("n", 0, rng.randrange(1, 6))]          # :nth-child(k)
        sels.append([[comp]])
    return sels, evs


def shared_parent_case(rng):
    """several selectors whose last step hangs off the SAME parent compound by the same combinator (they are merged
    into one jumps set, in registration order), mixing compounds that need attributes (bail-out + resumption inside
    the set) with type-only ones, aimed at children whose tag names pass the earlier instructions' name tests"""
    t = lambda n: ("t", n)
    k = lambda n: ("k", n)
    st = lambda n, attrs=(), ns="h", sc=False: ("s", n, ns, sc, list(attrs))
    en = lambda n: ("e", n)
    parent = rng.choice(["div", "ul", "section", "p"])
    kids = rng.sample(["span", "a", "li", "b", "em", "i"], 3)
    comb = rng.choice(["c", "c", "d"])
    pool = []
    for kid in kids:
        pool += [[t(kid)], [t(kid), k("a")], [k("a")], [t(kid), ("i", "x")], [("e", "href")], [t(kid), ("e", "title")],
                 [("u",), k("foo")], [t(kid), ("n", 0, 1)]]
    nsel = rng.randrange(2, 6)
    lasts = [rng.choice(pool) for _ in range(nsel)]
    if rng.random() < 0.7:
        # an attribute-needing compound registered BEFORE a type-only one for the same tag
        kid = rng.choice(kids)
        lasts[0] = rng.choice([[k("a")], [t(kid), k("a")], [("e", "href")], [("u",), k("foo")]])
        lasts[1] = [t(kid)]
    pcomp = rng.choice([[t(parent)], [t(parent), k("p")], [("u",)]])
    sels = [[[list(pcomp), comb, list(l)]] for l in lasts]
    if rng.random() < 0.3:
        sels.insert(rng.randrange(0, len(sels) + 1), [[list(l)] for l in [rng.choice(pool)]])
    evs = []
    if rng.random() < 0.3:
        evs.append(st("body"))
    evs.append(st(parent, [("class", rng.choice(["p", "q", "p q"]))] if rng.random() < 0.6 else []))
    for _ in range(rng.randrange(2, 7)):
        kid = rng.choice(kids)
        attrs = []
        if rng.random() < 0.4:
            attrs.append(("class", rng.choice(["a", "foo", "a foo", "b"])))
        if rng.random() < 0.25:
            attrs.append(("id", "x"))
        if rng.random() < 0.25:
            attrs.append((rng.choice(["href", "title"]), "v"))
        evs.append(st(kid, attrs))
        if rng.random() < 0.4:
            g = rng.choice(kids)
            evs += [st(g, [("class", "a")] if rng.random() < 0.5 else []), en(g)]
        evs.append(en(kid))
    evs.append(en(parent))
    if rng.random() < 0.4:
        kid = rng.choice(kids)
        evs += [st(kid, [("class", "a")]), en(kid)]
    return sels, evs


def make_case(rng, sels, evs, esi):
    html = html_of(evs)
    r = rng.random()
    if r < 0.3 or not html:
        cuts = []
    elif r < 0.8:
        cuts = [rng.randrange(0, len(html) + 1)]
    else:
        cuts = sorted(rng.randrange(0, len(html) + 1) for _ in range(rng.choice([2, 3])))
    return " ".join([
        "1" if esi else "0",
        ",".join(map(str, cuts)) or "-",
        enc_selset(sels),
        ",".join(hx(css_sellist(sl)) for sl in sels),
        enc_doc(evs),
    ])


_META = {}


def gen(rng, n, tier, pid):
    cases = []
    for (sels, evs) in directed(rng):
        c = make_case(rng, sels, evs, False)
        _META[c] = (sels, evs)
        cases.append(c)
    while len(cases) < n:
        if rng.random() < 0.07:
            sels, evs = shared_parent_case(rng)
            c = make_case(rng, sels, evs, False)
            _META[c] = (sels, evs)
            cases.append(c)
            continue
        if rng.random() < 0.06:
            sels, evs = typed_counter_case(rng)
            c = make_case(rng, sels, evs, False)
            _META[c] = (sels, evs)
            cases.append(c)
            continue
        esi = rng.random() < 0.15
        nsel = rng.choice([1, 1, 2, 2, 3, 4, 6])
        if rng.random() < 0.04:
            # many registered selectors: match-id sets beyond one machine word (DenseHashSet growth / union)
            nsel = rng.choice([31, 32, 33, 63, 64, 65, 66, 70, 100, 129])
        evs = gen_doc(rng, esi, tier)
        tree = doc_tree(evs, esi)
        sels = []
        for _ in range(nsel):
            if tree and rng.random() < 0.65:
                sels.append(gen_sellist_for_doc(rng, evs, tree))
            else:
                sels.append(gen_sellist(rng))
        if rng.random() < 0.3 and nsel >= 2:
            # force prefix sharing: second selector extends the first one's first complex selector
            base = sels[0][0]
            sels[1] = [base + [rng.choice(["c", "d"]), gen_compound(rng)]]
        c = make_case(rng, sels, evs, esi)
        _META[c] = (sels, evs)
        cases.append(c)
    return cases[:n]


def _hits(line):
    for f in line.split(" "):
        if f.startswith("hits="):
            return f[5:]
    return "-"


def nontrivial(case, obs):
    return _hits(obs) != "-"


def project(pid, case, line):
    """`C04` compares everything (model VM vs implementation, Spec.Css vs reference matcher, printed CSS,
    AST dump); `C04:hits` only the hit sets."""
    line = line.split(" ||ORACLE:")[0]
    if pid.endswith(":hits"):
        return "hits=" + _hits(line)
    # The predicted `{:?}` dump of the Ast prints DenseHashSet as a machine word; with more than 31 registered
    # selectors the real set spills to the heap representation, which the dump model does not cover:
    # compare hits / reference hits / printed CSS only.
    try:
        nsel = int(case.split(" ")[2].split(",")[0])
    except ValueError:
        nsel = 0
    if nsel > 31 and " ast=" in line:
        return line.split(" ast=")[0]
    return line


def stats(cases, obs):
    d = {"cases": len(cases), "with_hits": 0, "f3_shape": 0, "attr_selectors": 0, "combinators": 0,
         "foreign": 0, "void": 0, "self_closing": 0, "cuts": 0, "model_ne_spec": 0, "nth": 0, "esi": 0,
         "end_tags": 0, "nsel_hist": {}, "events_hist": {}}
    void_hex = {hx(v) for v in VOID_TAGS} | {hx(v.upper()) for v in VOID_TAGS}
    for c, o in zip(cases, obs):
        f = c.split(" ")
        if _hits(o) != "-":
            d["with_hits"] += 1
        if f[0] == "1":
            d["esi"] += 1
        if f[1] != "-":
            d["cuts"] += 1
        toks = f[2].split(",")
        d["nsel_hist"][toks[0]] = d["nsel_hist"].get(toks[0], 0) + 1
        if c in _META and any(has_f3_shape(sl) for sl in _META[c][0]):
            d["f3_shape"] += 1
        if any(t in ("i", "k", "e", "a") for t in toks):
            d["attr_selectors"] += 1
        if "c" in toks or "d" in toks:
            d["combinators"] += 1
        if "n" in toks or "o" in toks or "f" in toks or "g" in toks:
            d["nth"] += 1
        evs = [] if f[4] == "-" else f[4].split(";")
        b = str(min(len(evs) // 4 * 4, 28))
        d["events_hist"][b] = d["events_hist"].get(b, 0) + 1
        if ":s:" in f[4] or ":m:" in f[4]:
            d["foreign"] += 1
        if any(e.startswith("s:") and e.split(":")[1] in void_hex for e in evs):
            d["void"] += 1
        if any(e.startswith("s:") and e.split(":")[3] == "1" for e in evs):
            d["self_closing"] += 1
        if any(e.startswith("e:") for e in evs):
            d["end_tags"] += 1
        parts = o.split(" ")
        ref = [p for p in parts if p.startswith("ref=")]
        if ref and ref[0][4:] != _hits(o):
            d["model_ne_spec"] += 1
    return d
