"""Case generator for lane `lex` (and the lanes derived from it).

case: <input-hex> <cuts> <strict 0|1> <initial-flags 0..31> <script>
Grammar-based over an adversarial fragment alphabet (every tokenizer construct, truncated constructs,
all text-mode elements, select/template/frameset, foreign content with integration points, case
variants, odd attribute syntax) plus a malformed/random-bytes stream.
"""

TEXT_TAGS = ["textarea", "title", "script", "style", "xmp", "iframe", "noembed", "noframes", "noscript", "plaintext"]
PLAIN_TAGS = ["a", "b", "div", "p", "span", "i", "br", "img", "input", "li", "table", "td", "select", "option",
              "template", "frameset", "frame", "keygen", "body", "head", "meta", "h1", "font", "x-custom", "my:el", "a1", "q7"]
FOREIGN = ["svg", "math", "desc", "title", "foreignObject", "mi", "mo", "mn", "ms", "mtext", "annotation-xml", "g", "path", "circle", "font"]
ATTR_NAMES = ["a", "href", "class", "id", "disabled", "DATA-x", "color", "size", "face", "encoding", "x:y", "=b", "a\"b", "a'b", "a<b", "é"]
ATTR_VALUES = ["", "b", "x y", "text/html", "application/xhtml+xml", "TEXT/HTML", ">", "/", "a=b", "'", '"', "<b>", "&amp;", "--", "ÿ"]
WS = [" ", "\n", "\t", "\r", "\x0c", "  "]


def caseify(rng, s):
    r = rng.random()
    if r < 0.7:
        return s
    if r < 0.85:
        return s.upper()
    return "".join(c.upper() if rng.random() < 0.5 else c for c in s)


def attr(rng):
    n = rng.choice(ATTR_NAMES)
    r = rng.random()
    if r < 0.2:
        return n
    v = rng.choice(ATTR_VALUES)
    eq = rng.choice(["=", " =", "= ", " = "]) if rng.random() < 0.3 else "="
    q = rng.random()
    if q < 0.35:
        return f'{n}{eq}"{v.replace(chr(34), "")}"'
    if q < 0.6:
        return f"{n}{eq}'{v.replace(chr(39), '')}'"
    if q < 0.9:
        vv = v.replace(" ", "").replace(">", "")
        return f"{n}{eq}{vv}"
    return f"{n}{eq}"


def start_tag(rng, name=None, pool=None):
    name = name or rng.choice(pool or PLAIN_TAGS)
    s = "<" + caseify(rng, name)
    for _ in range(rng.choice([0, 0, 0, 1, 1, 2, 3])):
        s += rng.choice(WS) + attr(rng)
    r = rng.random()
    if r < 0.1:
        s += rng.choice(WS)
    if r > 0.85:
        s += rng.choice(["/", " /", "/ "])
    return s + ">"


def end_tag(rng, name=None, pool=None):
    name = name or rng.choice(pool or PLAIN_TAGS)
    r = rng.random()
    tail = "" if r < 0.8 else rng.choice([" ", " a=b", "/", " /"])
    return "</" + caseify(rng, name) + tail + ">"


def comment(rng):
    return rng.choice([
        "<!--c-->", "<!---->", "<!-->", "<!--->", "<!--a--!>", "<!--a--!-->", "<!-- <!-- x -->", "<!--a-b-->", "<!--a--b-->",
        "<!--<!--->", "<!--<!-->", "<!-- --!x -->", "<!x>", "<!>", "<?pi?>", "<?>", "</ x>", "</>", "<!--a---->", "<!--<-->",
        "<!--a<!b-->", "<!--a<!-b-->", "<!--a<!--b-->", "<!-- - -->", "<![CDATA[x]]>", "<!--\n-->",
    ])


def doctype(rng):
    return rng.choice([
        "<!DOCTYPE html>", "<!doctype html>", "<!DOCTYPE>", "<!DOCTYPE >", "<!DOCTYPEhtml>", "<!DOCTYPE html PUBLIC \"a\" \"b\">",
        "<!DOCTYPE html SYSTEM 'x'>", "<!DOCTYPE html public\"a\"'b'>", "<!DOCTYPE html PUBLIC>", "<!DOCTYPE html PUBLIC \"a>", "<!DOCTYPE html bogus x>",
        "<!DOCTYPE html SYSTEM \"a\" x>", "<!DOCTYPE a PUBLIC 'x' >", "<!DocType  X  SyStEm  \"\">", "<!DOCTYP html>", "<!DOCTYPE html PUBLI>",
    ])


def text(rng):
    return rng.choice(["x", "hello world", " ", "a<", "1 < 2", "a & b", "&lt;", "éÿ", "]]>", "-->", "a\x00b", "<<", "< b>", "</", "<a", "]", "]]", "--", "\n"])


def text_elem(rng):
    name = rng.choice(TEXT_TAGS)
    inner = rng.choice([
        "x", "<b>x</b>", "</b>", "</" + name[:-1] + ">", "</" + name + "x>", "<!--", "<!-- <script> --> </script>", "<!--<script>x</script>-->",
        "<!-- </script> -->", "</" + name.upper(), "</" + name + " ", "a</" + name + "/", "", "<", "</", "<!", "<!-", "<!--x", "<!--<scrip", "<!--<script",
        "<!--<script ", "<!--<script></scrip", "<!--<script></script", "<!---->", "-->", "<!-->", "--!>", "x<y>z",
    ])
    close = rng.random() < 0.75
    return start_tag(rng, name) + inner + (end_tag(rng, name) if close else "")


def foreign(rng, depth=0):
    root = rng.choice(["svg", "math"])
    s = start_tag(rng, root)
    for _ in range(rng.randrange(0, 4)):
        r = rng.random()
        if r < 0.3:
            n = rng.choice(FOREIGN)
            s += start_tag(rng, n)
            if rng.random() < 0.7:
                s += rng.choice(["x", start_tag(rng), text_elem(rng), "<![CDATA[<b>]]>", ""])
                s += end_tag(rng, n)
        elif r < 0.45:
            s += rng.choice(["<![CDATA[", "<![CDATA[", "<![CDATA[", "<![cdata[", "<![CData["]) + rng.choice(["x", "<b>", "]]", "]", "]>", ""]) + rng.choice(["]]>", "]]", ""])
        elif r < 0.6 and depth < 2:
            s += foreign(rng, depth + 1)
        elif r < 0.75:
            s += start_tag(rng) + rng.choice(["", "x"]) + end_tag(rng)
        elif r < 0.82:
            s += rng.choice(["</p>", "</br>", "<p>", "<b>", "<font color=red>", "<font>", "<FONT SIZE=1>"])
        elif r < 0.9:
            # an integration point whose content has end tags with unhashable names (RequestLexeme on an END tag:
            # check_integration_point_exit), directly followed by start tags
            ip = rng.choice(["mi", "mo", "mtext", "desc", "title", "foreignObject", "annotation-xml encoding=text/html"])
            s += "<" + ip + ">" + rng.choice(["</x-custom>", "</my:el>", "</annotation-xml>", "</a1-b>", "</é>"]) \
                + rng.choice(["<b>", "<textarea>", "<i class=x>", "<script>", "<q7>"]) + rng.choice(["x", "</b>", ""])
        else:
            s += text(rng)
    if rng.random() < 0.8:
        s += end_tag(rng, root)
    return s


def select_frag(rng, depth=0):
    """select / template-in-select / frameset contexts of the ambiguity guard, with text-mode elements and
    nested templates inside (strict mode refuses some of these; non-strict goes on)."""
    r = rng.random()
    if r < 0.6:
        s = start_tag(rng, "select")
        for _ in range(rng.randrange(0, 4)):
            q = rng.random()
            if q < 0.45:
                s += start_tag(rng, "template")
                for _ in range(rng.randrange(0, 3)):
                    s += rng.choice([start_tag(rng), text_elem(rng), "x", start_tag(rng, "option"),
                                     select_frag(rng, depth + 1) if depth < 2 else "y",
                                     start_tag(rng, "template") + rng.choice(["", text_elem(rng)]) + end_tag(rng, "template")])
                if rng.random() < 0.8:
                    s += end_tag(rng, "template")
            elif q < 0.6:
                s += start_tag(rng, rng.choice(["option", "optgroup", "script", "input", "keygen", "hr"])) + rng.choice(["x", ""])
            elif q < 0.8:
                s += text_elem(rng)
            else:
                s += rng.choice([end_tag(rng, "template"), end_tag(rng, "option"), start_tag(rng, "select"), "z"])
        if rng.random() < 0.7:
            s += end_tag(rng, "select")
        return s
    s = start_tag(rng, "frameset")
    for _ in range(rng.randrange(0, 3)):
        s += rng.choice([start_tag(rng, "frame"), start_tag(rng, "frameset"), end_tag(rng, "frameset"),
                         text_elem(rng), start_tag(rng, "noframes") + "x" + end_tag(rng, "noframes")])
    if rng.random() < 0.6:
        s += end_tag(rng, "frameset")
    return s + rng.choice(["", text_elem(rng)])


def truncated(rng):
    full = rng.choice([start_tag(rng), end_tag(rng), comment(rng), doctype(rng), text_elem(rng), "<![CDATA[x]]>"])
    return full[: rng.randrange(1, len(full) + 1)]


def fragment(rng):
    r = rng.random()
    if r < 0.22:
        return start_tag(rng)
    if r < 0.36:
        return end_tag(rng)
    if r < 0.48:
        return text(rng)
    if r < 0.58:
        return comment(rng)
    if r < 0.64:
        return doctype(rng)
    if r < 0.78:
        return text_elem(rng)
    if r < 0.86:
        return foreign(rng)
    if r < 0.91:
        return select_frag(rng)
    if r < 0.96:
        return truncated(rng)
    return "".join(chr(rng.choice([60, 62, 47, 33, 45, 61, 34, 39, 32, 97, 65, 93, 91, 0, 255, 10])) for _ in range(rng.randrange(1, 8)))


def document(rng):
    n = rng.choice([1, 1, 2, 2, 3, 3, 4, 5, 6, 8])
    s = "".join(fragment(rng) for _ in range(n))
    if rng.random() < 0.25:
        s = s[: rng.randrange(0, len(s) + 1)]
    return s.encode("latin-1", "replace")


def cuts_for(rng, n):
    r = rng.random()
    if r < 0.25 or n == 0:
        return []
    if r < 0.35:
        return list(range(1, n))  # byte-wise
    if r < 0.55:
        return [rng.randrange(0, n + 1)]
    if r < 0.75:
        return sorted(rng.randrange(0, n + 1) for _ in range(2))
    k = rng.randrange(1, 7)
    cs = sorted(rng.randrange(0, n + 1) for _ in range(k))
    if rng.random() < 0.3:  # interleave empty writes
        cs = sorted(cs + [rng.choice(cs)])
    return cs


def flags(rng):
    return rng.choice([0, 0, 31, 31, 1, 2, 4, 8, 16, 12, 3, rng.randrange(32)])


def script(rng):
    r = rng.random()
    if r < 0.4:
        return "-"
    items = []
    for _ in range(rng.randrange(1, 6)):
        f = flags(rng)
        items.append(str(f) + ("i" if rng.random() < 0.2 else ""))
    return ",".join(items)


def mk(doc, cuts, strict, init, scr):
    return f"{doc.hex() or '-'} {','.join(map(str, cuts)) or '-'} {strict} {init} {scr}"


def gen(rng, n, tier, pid):
    out = []
    for _ in range(n):
        doc = document(rng)
        out.append(mk(doc, cuts_for(rng, len(doc)), int(rng.random() < 0.4), flags(rng), script(rng)))
    return out


def project(pid, case, line):
    if line.startswith("PANIC"):
        return "PANIC"
    return line


def nontrivial(case, obs):
    return ("hs:" in obs or "he:" in obs or "C:" in obs or "D:" in obs) and len(case.split(" ")[0]) >= 6


def stats(cases, obs):
    import collections

    c = collections.Counter()
    for o in obs:
        parts = o.split(" # ")
        if len(parts) != 3:
            c["malformed-or-panic"] += 1
            continue
        res = parts[0].split(";")
        c["res:" + res[-1]] += 1
        for ev in parts[2].split(";"):
            c["ev:" + ev.split(":")[0]] += 1
    sizes = [len(x.split(" ")[0]) // 2 for x in cases]
    c["max_input_len"] = max(sizes) if sizes else 0
    c["mean_input_len"] = sum(sizes) // max(1, len(sizes))
    return {"distribution": dict(c)}
