"""Case generator for lane `tb` (Spec.TreeBuilder ⇄ html5ever 0.39 tree builder; validates the spec of C03).

case: `<cfg> <tok> <tok> …`     (format: harness/src/lanes/tb.rs)

Token soup over every name the tree-construction rules mention, start and end tags in any order,
self-closing flags, the three modelled attributes, characters (whitespace / text / NUL), comments,
doctypes (no-quirks / limited-quirks / quirks), optional EOF (documents without it are truncated).
Streams:
  soup        uniform soup over all names
  mode:<m>    a prefix that reaches insertion mode <m>, then soup biased to the tags that mode looks at
  foreign     svg / math islands, integration points, breakout tags, font attributes, annotation-xml encodings
  format      formatting elements / adoption agency / implied end tags
  tables      table structure with misplaced content, nested tables, templates, selects
  devshapes   shapes on which the documented html5ever deviations show, followed by soup
  wellformed  mostly well-nested documents (long runs of the common path)

Known html5ever deviations from the standard are NOT excluded here: the Lean side runs the spec with the
deviation switches `Dev.h5` (Spec/TreeBuilder/Basic.lean), each switch documented where it is used; lane
`tbm` (Lean only) reports for every case whether `Dev.std` gives the same observation.
"""
import subprocess, os

HTML_STRUCT = ["html", "head", "body", "title", "base", "basefont", "bgsound", "link", "meta", "style", "script",
               "noscript", "template", "frameset", "frame", "noframes"]
TABLE = ["table", "caption", "colgroup", "col", "tbody", "thead", "tfoot", "tr", "td", "th"]
SELECT = ["select", "option", "optgroup", "input", "keygen", "textarea", "hr"]
RAW = ["xmp", "iframe", "noembed", "plaintext", "textarea", "title", "style", "script", "noscript", "noframes"]
BLOCK = ["p", "li", "dd", "dt", "h1", "h2", "h3", "h4", "h5", "h6", "address", "article", "aside", "blockquote", "center",
         "details", "dialog", "dir", "div", "dl", "fieldset", "figcaption", "figure", "footer", "header", "hgroup", "main",
         "menu", "nav", "ol", "pre", "listing", "search", "section", "summary", "ul", "form", "button"]
FORMAT = ["a", "b", "big", "code", "em", "font", "i", "s", "small", "strike", "strong", "tt", "u", "nobr"]
MISC = ["applet", "marquee", "object", "area", "br", "embed", "img", "wbr", "param", "source", "track", "image", "rb", "rtc",
        "rp", "rt", "ruby", "span", "sub", "sup", "var"]
FOREIGN = ["math", "svg", "mi", "mo", "mn", "ms", "mtext", "annotation-xml", "mglyph", "malignmark", "foreignobject", "desc",
           "title"]
OTHER = ["g", "path", "circle", "mrow", "x", "custom-el", "clippath"]   # not `isindex`: html5ever 0.39 still has the obsolete name in its "special" set
ALL = HTML_STRUCT + TABLE + SELECT + RAW + BLOCK + FORMAT + MISC + FOREIGN + OTHER


def start(rng, name, p_sc=0.08):
    s = "S:" + name
    if rng.random() < p_sc:
        s += "/"
    if name == "annotation-xml":
        r = rng.random()
        if r < 0.7:
            s += ";e=" + rng.choice("hhxo")
    elif name == "font":
        if rng.random() < 0.6:
            s += ";f=" + rng.choice("caso")
    elif name == "input":
        if rng.random() < 0.6:
            s += ";t=" + rng.choice("hho")
    elif rng.random() < 0.03:
        s += rng.choice([";e=h", ";f=c", ";t=h", ";f=o"])
    return s


def char(rng):
    return "C:" + rng.choice("wwtttn")


def tok(rng, pool, p_start=0.5, p_end=0.28, p_sc=0.08):
    r = rng.random()
    if r < p_start:
        return start(rng, rng.choice(pool), p_sc)
    if r < p_start + p_end:
        return "E:" + rng.choice(pool)
    if r < p_start + p_end + 0.16:
        return char(rng)
    if r < p_start + p_end + 0.19:
        return "M"
    if r < p_start + p_end + 0.20:
        return "D:" + rng.choice("nlq")
    return start(rng, rng.choice(ALL), p_sc)


def soup(rng, n, pool):
    out = []
    for _ in range(n):
        t = tok(rng, pool)
        out.append(t)
        # a raw-text start tag swallows everything up to its end tag (if the tree builder honours it):
        # mostly close it at once so that the rest of the case is still seen
        if t.startswith("S:") and t[2:].split(";")[0].rstrip("/") in RAW and rng.random() < 0.7:
            if rng.random() < 0.5:
                out.append(char(rng))
            out.append("E:" + t[2:].split(";")[0].rstrip("/"))
    return out


# shapes on which the documented html5ever deviations show (each followed by soup)
DEV_SHAPES = [
    ["S:p", "S:math", "S:annotation-xml;e=h", "S:div"],                  # scopeNoAnnotationXml
    ["S:button", "S:math", "S:annotation-xml;e=x", "S:button"],
    ["S:li", "S:math", "S:annotation-xml;e=h", "S:li"],
    ["S:table", "S:b", "S:tr", "C:t", "D:n"],                            # doctypeEarly
    ["S:table", "S:i", "S:tbody", "C:t", "C:w", "D:q", "C:t"],
    ["S:math", "S:annotation-xml;e=h", "S:svg", "S:b"],                  # breakoutNoAnnotationXml
    ["S:math", "S:annotation-xml;e=x", "S:math", "S:mrow", "S:p"],
    ["S:x", "S:svg", "S:desc", "S:b", "E:x"],                            # specialHtmlOnly
    ["S:a", "S:math", "S:mi", "S:p", "E:a"],
    ["S:template", "S:tr", "S:b", "E:tr", "C:w"],                        # tableTextNoTemplate
    ["S:template", "S:thead", "S:caption"],                              # tableBodyScopeH5
]


# prefixes that reach each insertion mode (the soup that follows may of course leave it again)
MODE_PREFIX = {
    "initial": [[]],
    "beforeHtml": [["D:n"], ["D:q"], ["M", "D:l"]],
    "beforeHead": [["S:html"], ["D:n", "S:html"]],
    "inHead": [["S:head"], ["S:html", "S:head"], ["D:n", "S:head", "S:meta"]],
    "inHeadNoscript": [["S:head", "S:noscript"], ["S:noscript"]],   # with s0
    "afterHead": [["S:head", "E:head"], ["D:n", "S:html", "S:head", "E:head", "C:w"]],
    "inBody": [["S:body"], ["S:div"], ["D:n", "S:p", "C:t"], ["C:t"]],
    "text": [["S:textarea"], ["S:title"], ["S:script"], ["S:body", "S:xmp"], ["S:table", "S:style"]],
    "inTable": [["S:table"], ["S:div", "S:table"], ["D:n", "S:p", "S:table"], ["D:q", "S:p", "S:table"]],
    "inTableText": [["S:table", "C:t"], ["S:table", "C:w"], ["S:table", "S:tbody", "C:w", "C:t"]],
    "inCaption": [["S:table", "S:caption"]],
    "inColumnGroup": [["S:table", "S:colgroup"], ["S:table", "S:col"], ["S:template", "S:col"]],
    "inTableBody": [["S:table", "S:tbody"], ["S:table", "S:thead"], ["S:template", "S:tr", "E:tr"]],
    "inRow": [["S:table", "S:tr"], ["S:template", "S:td", "E:td"], ["S:template", "S:tr"]],
    "inCell": [["S:table", "S:td"], ["S:table", "S:tr", "S:th"], ["S:template", "S:td"]],
    "inSelect": [["S:select"], ["S:select", "S:option"], ["S:select", "S:optgroup", "S:option"]],
    "inSelectInTable": [["S:table", "S:td", "S:select"], ["S:table", "S:caption", "S:select"], ["S:table", "S:select"]],
    "inTemplate": [["S:template"], ["S:body", "S:template"], ["S:table", "S:template"], ["S:select", "S:template"],
                   ["S:template", "S:template"]],
    "afterBody": [["S:body", "E:body"], ["S:p", "E:body"]],
    "inFrameset": [["S:frameset"], ["S:head", "E:head", "S:frameset"], ["S:html", "S:frameset", "S:frameset"]],
    "afterFrameset": [["S:frameset", "E:frameset"]],
    "afterAfterBody": [["S:body", "E:body", "E:html"], ["S:body", "E:html"]],
    "afterAfterFrameset": [["S:frameset", "E:frameset", "E:html"]],
}

MODE_POOL = {
    "initial": HTML_STRUCT + ["p", "table", "svg"],
    "beforeHtml": HTML_STRUCT + ["br", "p"],
    "beforeHead": HTML_STRUCT + ["br", "p"],
    "inHead": HTML_STRUCT + ["br", "p", "select", "svg"],
    "inHeadNoscript": HTML_STRUCT + ["br", "p"],
    "afterHead": HTML_STRUCT + ["br", "p", "select", "table"],
    "inBody": ALL,
    "text": RAW + ["b", "p"],
    "inTable": TABLE + ["input", "form", "style", "script", "template", "select", "p", "b", "a", "svg", "textarea", "body", "html"],
    "inTableText": TABLE + ["b", "i", "p", "template"],
    "inCaption": TABLE + ["b", "p", "select", "body", "html", "div", "svg"],
    "inColumnGroup": TABLE + ["template", "html", "textarea", "script", "title", "select", "frameset", "p"],
    "inTableBody": TABLE + ["b", "p", "template", "body", "html", "form", "input"],
    "inRow": TABLE + ["b", "p", "template", "body", "html", "select"],
    "inCell": TABLE + ["b", "p", "a", "div", "select", "body", "html", "li", "svg", "math"],
    "inSelect": SELECT + ["template", "script", "div", "p", "b", "table", "td", "tr", "svg", "xmp", "html", "frameset"],
    "inSelectInTable": SELECT + TABLE + ["template", "script", "div", "xmp"],
    "inTemplate": TABLE + HTML_STRUCT + SELECT + ["div", "p", "b", "svg"],
    "afterBody": HTML_STRUCT + ["p", "textarea", "table"],
    "inFrameset": ["frameset", "frame", "noframes", "html", "script", "textarea", "body", "p", "template", "svg", "select"],
    "afterFrameset": ["frameset", "frame", "noframes", "html", "script", "textarea", "body", "p"],
    "afterAfterBody": HTML_STRUCT + ["p", "textarea"],
    "afterAfterFrameset": ["frameset", "frame", "noframes", "html", "script", "textarea", "body", "p"],
}
MODES = list(MODE_PREFIX.keys())

FOREIGN_POOL = FOREIGN + OTHER + ["b", "p", "br", "font", "table", "div", "span", "img", "textarea", "script", "style", "title",
                                  "select", "template", "frameset", "body", "html", "a", "li", "td", "form", "h1", "ul"]
FORMAT_POOL = FORMAT + ["p", "div", "li", "table", "td", "tr", "button", "applet", "marquee", "object", "address", "dd", "dt",
                        "h1", "h2", "ul", "ol", "option", "optgroup", "select", "ruby", "rb", "rt", "rtc", "rp", "form", "br",
                        "template", "caption"]
TABLES_POOL = TABLE + SELECT + ["template", "form", "input", "b", "a", "p", "div", "style", "script", "body", "html", "svg", "li"]


def wellformed(rng, depth, pool):
    """mostly well-nested element sequence"""
    out = []
    for _ in range(rng.randrange(1, 4)):
        r = rng.random()
        if r < 0.2:
            out.append(char(rng))
        elif r < 0.3:
            out.append(start(rng, rng.choice(["br", "img", "input", "hr", "col", "meta", "link", "area", "wbr", "frame"]), 0.3))
        elif depth <= 0:
            out.append(char(rng))
        else:
            name = rng.choice(pool)
            if name in RAW:
                out += ["S:" + name, "C:t", "E:" + name] if name != "plaintext" else [char(rng)]
            else:
                out.append(start(rng, name, 0.03))
                if not out[-1].split(";")[0].endswith("/"):
                    out += wellformed(rng, depth - 1, pool)
                    if rng.random() < 0.9:
                        out.append("E:" + name)
    return out


def one_case(rng):
    r = rng.random()
    cfg = "s1" if rng.random() < 0.85 else "s0"
    n = rng.choice([1, 2, 3, 4, 5, 6, 8, 10, 12, 16, 20, 24, 30, 40, 60])
    toks = []
    if r < 0.22:
        stream = "soup"
        if rng.random() < 0.3:
            toks.append("D:" + rng.choice("nlq"))
        toks += soup(rng, n, ALL)
    elif r < 0.62:
        m = rng.choice(MODES)
        stream = "mode:" + m
        if m == "inHeadNoscript":
            cfg = "s0"
        toks = list(rng.choice(MODE_PREFIX[m]))
        pool = MODE_POOL[m] if rng.random() < 0.8 else ALL
        toks += soup(rng, n, pool)
    elif r < 0.76:
        stream = "foreign"
        if rng.random() < 0.5:
            toks += soup(rng, rng.randrange(0, 4), BLOCK + TABLE + ["select", "template"])
        toks.append(start(rng, rng.choice(["svg", "math"]), 0.1))
        toks += soup(rng, n, FOREIGN_POOL)
    elif r < 0.86:
        stream = "format"
        toks += soup(rng, n + 4, FORMAT_POOL)
    elif r < 0.92:
        stream = "tables"
        toks += soup(rng, n + 4, TABLES_POOL)
    elif r < 0.95:
        stream = "devshapes"
        if rng.random() < 0.4:
            toks += soup(rng, rng.randrange(0, 3), BLOCK + FORMAT)
        toks += rng.choice(DEV_SHAPES)
        toks += soup(rng, n, rng.choice([FOREIGN_POOL, TABLES_POOL, FORMAT_POOL, ALL]))
    else:
        stream = "wellformed"
        toks += wellformed(rng, 4, BLOCK + FORMAT + TABLE + SELECT + ["svg", "math", "desc", "mi", "template", "g", "title",
                                                                       "textarea", "script", "annotation-xml", "foreignobject"])
    if rng.random() < 0.35:
        toks.append("Z")
    return stream, cfg + " " + " ".join(toks)


def gen(rng, n, tier="quick", pid="C03"):
    return [one_case(rng)[1] for _ in range(n)]


def nontrivial(case, obs):
    return len(obs.split()) >= 3


def stats(cases, obs):
    """feedback / cdata / stack-depth distribution from the lane output; mode histogram via lane `tbm`"""
    fb = {}
    depth = 0
    foreign = 0
    fields = 0
    for o in obs:
        for f in o.split():
            fields += 1
            fb[f[0]] = fb.get(f[0], 0) + 1
            if len(f) > 1 and f[1] == "1":
                foreign += 1
            if ":" in f:
                depth = max(depth, f.count(",") + 1)
    d = {"cases": len(cases), "tokens": fields, "feedback": fb, "tokens_with_foreign_current_node": foreign,
         "max_stack_depth": depth}
    d.update(mode_hist(cases))
    return d


DEV_NAMES = ["specialHtmlOnly", "scopeNoAnnotationXml", "breakoutNoAnnotationXml", "tableTextNoTemplate", "doctypeEarly",
             "tableBodyScopeH5"]


def mode_hist(cases, driver=None):
    """run lane `tbm` of the Lean driver: mode histogram (html5ever-deviation config and legacy-select config),
    number of cases where Dev.std differs from Dev.h5, where the legacy select text differs"""
    driver = driver or os.path.join(os.path.dirname(os.path.abspath(__file__)), "..", "lean", ".lake", "build", "bin", "driver")
    if not os.path.exists(driver):
        return {}
    p = subprocess.run([driver, "tbm"], input="\n".join(cases) + "\n", capture_output=True, text=True)
    hist, lhist, devs = {}, {}, {}
    std_diff = legacy_diff = fuel = 0
    for line in p.stdout.splitlines():
        parts = line.split(" ")
        if len(parts) < 5:
            continue
        for m in parts[0].split(","):
            hist[m] = hist.get(m, 0) + 1
        for m in parts[4].split(","):
            lhist[m] = lhist.get(m, 0) + 1
        for k, b in enumerate(parts[1][4:]):
            devs[DEV_NAMES[k]] = devs.get(DEV_NAMES[k], 0) + (b == "1")
        std_diff += parts[2] == "std=differs"
        legacy_diff += parts[3] == "legacy=differs"
        fuel += "FUEL" in parts
    hist.pop("~", None)
    lhist.pop("~", None)
    return {"cases_where_a_deviation_switch_matters": devs, "mode_histogram": hist, "mode_histogram_legacy_select": lhist, "cases_where_std_differs_from_h5dev": std_diff,
            "cases_where_legacy_select_differs": legacy_diff, "fuel_or_impossible": fuel}
