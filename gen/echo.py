def gen(rng, n, tier, pid):
    return ["".join("%02x" % rng.randrange(256) for _ in range(rng.randrange(0, 8))) or "-" for _ in range(n)]
