"""Generator for lane `patho` (C15): pathological input shapes at growing sizes."""
KINDS = ["nest", "nestclose", "text", "name", "attrs", "attrval", "comment", "unclosedcomment", "lt", "ltslash", "endtags",
         "svg", "script", "select", "cdata", "doctype", "rand", "manysel", "selfuzz", "deepsel"]


def gen(rng, n, tier, pid):
    sizes = [2000, 20000, 100000] if tier == "quick" else [2000, 20000, 100000, 250000, 1000000]
    out = []
    linear = {"nest", "nestclose", "text", "endtags", "svg", "select", "rand", "selfuzz", "deepsel"}
    for k in KINDS:
        for s in sizes:
            if k == "manysel" and s > 100000:
                continue
            # one giant token re-lexed on every 4 KiB write costs len^2/8192 byte-steps (finding F29): keep the
            # 4n input of token kinds at <= 4 MB so that a case stays within seconds
            if k not in linear and s > 250000:
                continue
            for h in range(4):
                out.append(f"{k} {s} {rng.randrange(1, 1 << 30) * 4 + h}")
    return out[: max(n, 1)] if tier == "quick" else out


def nontrivial(case, obs):
    return True


def stats(cases, obs):
    import collections
    c = collections.Counter(o.split(" ")[0] for o in obs)
    return {"distribution": dict(c)}
