"""Case generator for lane `capi` (properties C17, C18).

One case = one C program against the lol-html C API, as a flat token list:

  case   := "P" n hdef{n} "T" call*
  hdef   := "H" stopAt ret nops cop{nops}         stopAt: "-" | k (answer LOL_HTML_STOP at the k-th invocation, from 0)
                                                  ret: return value when used as a `write_all_callback`
  cop    := "sg" dst f | "og" dst f nargs hex* | "ig" f hex | "fa" f nargs hex* | "in" f ishtml nargs hex*
          | "vo" f | "bg" f | "rg" f | "bf" f ishtml hex | "eh" hid | "ce" | "st" f sarg
          | "it" dst | "nx" v | "if" v | "ag" dst v f | "sf" v | "tl" dst
  sarg   := "n" | <reservedNull><hasWriteAll><hasDrop>":"script
  call   := tid top
  top    := "BN" dst | "SP" dst hex | "AD" b dt cm tx de | "AE" b sel el cm tx
          | "BU" dst b encClass encLabelHex prealloc max graceful strict esi
          | "WR" r chunkHex events endEvents | "EN" r | "RF" r | "BF" b | "XF" s | "SF" v | "TL" dst
  events := "-" | unit(";"unit)*        unit := desc "@" [h("+"h)*]
  desc   := "e/"id"/"canHaveContent"/"selfClosing"/"[attr(","attr)*]"/"nameHex      attr := nameHex":"[valueHex]
          | "c/"textHex | "t/"last | "d/"name"/"public"/"system (each "~" = absent | hex, "-" = empty) | "z" | "g/"id"/"nameHex

`f` numbers name Rust methods (see docs/pkg-capi.md). `events` is what the real rewriter does with the
chunk — which rewritable units it hands to which registered handlers — computed here from the token
structure of the generated document (the model's abstract rewriter replays it; the implementation
ignores it). Documents are well nested, ASCII, over a tag pool without text-mode switching elements.
"""

TAGS = ["div", "p", "span", "a", "b", "i", "em", "ul", "li"]
VOIDS = ["br", "img", "hr"]
ATTRS = ["id", "class", "href", "data-x", "TITLE", "lang"]
WORDS = ["hello", "a b", " ", "x", "lorem ipsum", "1 > 0", "q&a", "\n"]
COMMENTS = ["", "", "c", " note ", "a-b", "x--y"]
VALID_SEL = ["*", "div", "p", "span", "a", "b", "li", "em", "br", "img"]
INVALID_SEL = ["", "a[", ">", "div >", "::", "p:foo(", "1a", "#"]
ENC_OK = ["utf-8", "UTF-8", "utf8", "windows-1252", "latin1", "iso-8859-2", "koi8-r", "gbk", "shift_jis", " utf-8 "]
ENC_NON_ASCII = ["utf-16", "utf-16le", "utf-16be", "iso-2022-jp"]
ENC_UNKNOWN = ["", "utf-9", "nope", "replacement", "utf\xff"]
GOOD_NAMES = ["x", "data-y", "Abc", "k1", "id", "class"]
BAD_ATTR_NAMES = ["", "a b", "a=b", "a>", "a/b"]
BAD_TAG_NAMES = ["", "1x", "a b", "a>", "a/b", "-x"]
BAD_UTF8 = [b"\xff", b"ab\xc3", b"\xe2\x82", b"a\xf0\x9f\x98", b"\xc0\xaf", b"\xed\xa0\x80", b"ok\x80", b"\xf5x"]
CONTENT = ["<b>x</b>", "t", "", "a<b", "&amp;", "<!--k-->", "é", "\U0001F600", "x\x00y"]
BAD_COMMENT = ["-->", "a-->b", "--!>", ">x", "->x"]


def hx(b):
    if isinstance(b, str):
        b = b.encode("utf-8", "surrogateescape")
    return b.hex() if b else "-"


class Doc:
    """A generated document: tokens with byte ranges plus what each token means for handlers."""

    def __init__(self, rng):
        self.toks = []  # dict(kind, bytes, ...)
        self.next_id = 0
        if rng.random() < 0.4:
            # (source, name, public id, system id): None = absent, "" = present but empty
            dt = rng.choice(
                [
                    ("<!DOCTYPE html>", "html", None, None),
                    ('<!DOCTYPE html PUBLIC "-//W3C//DTD HTML 4.01//EN" "http://www.w3.org/TR/html4/strict.dtd">', "html", "-//W3C//DTD HTML 4.01//EN", "http://www.w3.org/TR/html4/strict.dtd"),
                    ('<!doctype html SYSTEM "about:legacy-compat">', "html", None, "about:legacy-compat"),
                    ("<!DOCTYPE>", None, None, None),
                    ("<!DOCTYPE >", None, None, None),
                    ('<!DOCTYPE html PUBLIC "" "">', "html", "", ""),
                    ("<!DOCTYPE html PUBLIC '' ''>", "html", "", ""),
                    ('<!DOCTYPE html SYSTEM "">', "html", None, ""),
                    ('<!DOCTYPE html PUBLIC "">', "html", "", None),
                    ('<!DOCTYPE html PUBLIC "x" "">', "html", "x", ""),
                    ('<!DOCTYPE X PUBLIC "" "y">', "x", "", "y"),
                ]
            )
            self.toks.append(dict(kind="doctype", bytes=dt[0].encode(), ids=dt[1:], anc=[]))
        self.gen_nodes(rng, [], 0, rng.randint(1, 5))

    def gen_nodes(self, rng, anc, depth, n):
        for _ in range(n):
            r = rng.random()
            if r < 0.25:
                w = rng.choice(WORDS).encode()
                if self.toks and self.toks[-1]["kind"] == "text":
                    self.toks[-1]["bytes"] += w  # adjacent character data is one text node
                else:
                    self.toks.append(dict(kind="text", bytes=w, anc=list(anc)))
            elif r < 0.38:
                ct = rng.choice(COMMENTS)
                self.toks.append(dict(kind="comment", bytes=("<!--" + ct + "-->").encode(), text=ct, anc=list(anc)))
            elif r < 0.5:
                self.start_tag(rng, rng.choice(VOIDS), anc, void=True)
            else:
                name = rng.choice(TAGS)
                eid = self.start_tag(rng, name, anc, void=False)
                if depth < 3:
                    self.gen_nodes(rng, anc + [(eid, name)], depth + 1, rng.randint(0, 3))
                if getattr(self, "stop", False):
                    return True  # a descendant was left open: no end tag may follow (it would close it implicitly)
                if rng.random() < 0.93:
                    ename = name.upper() if rng.random() < 0.1 else name
                    end = "</" + ename + (" " if rng.random() < 0.1 else "") + ">"
                    self.toks.append(dict(kind="end", bytes=end.encode(), id=eid, name=ename, anc=list(anc)))
                else:
                    # left open: nothing may follow at outer levels either (keeps the tree well nested)
                    self.stop = True
                    return True
            if getattr(self, "stop", False):
                return True
        return False

    def start_tag(self, rng, name, anc, void):
        eid = self.next_id
        self.next_id += 1
        attrs = rng.sample(ATTRS, rng.choice([0, 1, 1, 2, 3, 4]))
        wname = name.upper() if rng.random() < 0.1 else name
        s = "<" + wname
        avals = []
        for a in attrs:
            r = rng.random()
            if r < 0.2:
                s += " " + a  # valueless: present, value ""
                v = ""
            else:
                q = rng.choice(['"', "'", ""])
                # all three syntaxes of an empty value: x="", x='', x (above); unquoted values are never empty
                v = rng.choice(["v", "1", "a-b", "", "", ""]) if q else rng.choice(["v", "1"])
                s += " " + a + "=" + q + v + q
            avals.append((a.lower(), v))
        sc = void and rng.random() < 0.3
        s += (" /" if sc else "") + ">"  # the space keeps `/` out of an unquoted value
        self.toks.append(
            dict(kind="start", bytes=s.encode(), id=eid, name=name, wname=wname, attrs=avals, chc=not void, sc=sc, anc=list(anc))
        )
        return eid

    def data(self):
        return b"".join(t["bytes"] for t in self.toks)


def matches(sel, name):
    return sel == "*" or sel == name


class Config:
    """Handler registrations of one builder: regs = list of ('doc', [dt,cm,tx,de]) / ('elem', sel, [el,cm,tx])."""

    def __init__(self, regs):
        self.regs = regs

    def elem_regs(self):
        return [r for r in self.regs if r[0] == "elem"]

    def doc_regs(self):
        return [r for r in self.regs if r[0] == "doc"]

    def unit_handlers(self, tok):
        """Registered handler scripts that see this token, in invocation order (element-scoped first)."""
        k = tok["kind"]
        hs = []
        if k == "start":
            for r in self.elem_regs():
                if matches(r[1], tok["name"]) and r[2][0] is not None:
                    hs.append(r[2][0])
        elif k in ("comment", "text"):
            slot = 1 if k == "comment" else 2
            for r in self.elem_regs():
                if r[2][slot] is not None and any(matches(r[1], n) for _, n in tok["anc"]):
                    hs.append(r[2][slot])
            for r in self.doc_regs():
                if r[1][slot] is not None:
                    hs.append(r[1][slot])
        elif k == "doctype":
            for r in self.doc_regs():
                if r[1][0] is not None:
                    hs.append(r[1][0])
        return hs

    def end_handlers(self):
        # handlers_dispatcher.rs:121 `drain(first..).rev()`: document-end handlers run in reverse registration order
        return [r[1][3] for r in self.doc_regs() if r[1][3] is not None][::-1]


def fmt_units(units):
    if not units:
        return "-"
    return ";".join(d + "@" + "+".join(str(h) for h in hs) for d, hs in units)


def predict(doc, cfg, cuts):
    """Per chunk: (bytes, units, units-of-end-if-next)."""
    data = doc.data()
    bounds = [0] + sorted(cuts) + [len(data)]
    # token byte ranges
    pos = 0
    spans = []
    for t in doc.toks:
        spans.append((pos, pos + len(t["bytes"])))
        pos += len(t["bytes"])
    res = []
    text_open = None  # handler list of the open text node
    for ci in range(len(bounds) - 1):
        a, b = bounds[ci], bounds[ci + 1]
        units = []
        for t, (s, e) in zip(doc.toks, spans):
            if t["kind"] == "text":
                lo, hi = max(s, a), min(e, b)
                if lo < hi:
                    hs = cfg.unit_handlers(t)
                    units.append(("t/0", hs))
                    text_open = hs
            elif a < e <= b:  # completes in this chunk
                if text_open is not None:
                    units.append(("t/1", text_open))
                    text_open = None
                k = t["kind"]
                if k == "start":
                    d = "e/%d/%d/%d/%s/%s" % (
                        t["id"], t["chc"], t["sc"], ",".join(hx(n) + ":" + (hx(v) if v else "") for n, v in t["attrs"]), hx(t["wname"]))
                    units.append((d, cfg.unit_handlers(t)))
                elif k == "end":
                    units.append(("g/%d/%s" % (t["id"], hx(t["name"])), []))
                elif k == "comment":
                    units.append(("c/" + hx(t["text"]), cfg.unit_handlers(t)))
                elif k == "doctype":
                    units.append(("d/" + "/".join("~" if x is None else hx(x) for x in t["ids"]), cfg.unit_handlers(t)))
        end_units = []
        if text_open is not None:
            end_units.append(("t/1", text_open))
        eh = cfg.end_handlers()
        if eh:
            end_units.append(("z", eh))
        res.append((data[a:b], units, end_units))
    return res


class Scripts:
    def __init__(self, rng):
        self.rng = rng
        self.defs = []  # (stopAt, ret, [op strings])
        self.var = 100
        self.late_strs = []  # Str variables deliberately left for the top level to free
        self.flags = set()

    def fresh(self):
        self.var += 1
        return self.var

    def arg(self, good_pool, bad_pool=None, p_bad=0.08, p_utf8=0.06):
        r = self.rng.random()
        if r < p_utf8:
            self.flags.add("bad-utf8")
            return hx(self.rng.choice(BAD_UTF8))
        if bad_pool and r < p_utf8 + p_bad:
            self.flags.add("rust-err")
            return hx(self.rng.choice(bad_pool))
        return hx(self.rng.choice(good_pool))

    def maybe_free(self, ops, v):
        r = self.rng.random()
        if r < 0.75:
            ops.append("sf %d" % v)
        elif r < 0.9:
            self.late_strs.append(v)
        else:
            self.flags.add("leak")

    def sarg(self):
        r = self.rng.random()
        if r < 0.04:
            self.flags.add("stream-null")
            return "n"
        script = self.sink_script()
        if r < 0.08:
            self.flags.add("stream-reserved")
            return "0%d%d:%d" % (1, self.rng.random() < 0.8, script)
        if r < 0.12:
            self.flags.add("stream-nowrite")
            return "10%d:%d" % (self.rng.random() < 0.8, script)
        self.flags.add("stream")
        return "11%d:%d" % (self.rng.random() < 0.85, script)

    def sink_script(self):
        ops = []
        for _ in range(self.rng.randint(0, 3)):
            if self.rng.random() < 0.6:
                ops.append("in 70 %d 1 %s" % (self.rng.random() < 0.5, self.arg(CONTENT)))
            else:
                r = self.rng.random()
                if r < 0.15:
                    b = self.rng.choice([b"\xff", b"a\xc0b", b"\xed\xa0\x80"])
                    self.flags.add("sink-bad-utf8")
                elif r < 0.3:
                    # a sequence split over two calls: buffered, then completed (the sink keeps the
                    # incomplete bytes across call-backs of one token, so it is always completed here)
                    ops.append("bf 71 %d %s" % (self.rng.random() < 0.5, hx("aé".encode()[:2])))
                    b = "é".encode()[1:] + b"z"
                else:
                    b = self.rng.choice(CONTENT).encode()
                ops.append("bf 71 %d %s" % (self.rng.random() < 0.5, hx(b)))
        ret = 0
        if self.rng.random() < 0.08:
            ret = self.rng.choice([1, -1, 7])
            self.flags.add("stream-cb-error")
        self.defs.append((None, ret, ops))
        return len(self.defs) - 1

    def common_content(self, ops, fs):
        f = self.rng.choice(fs)
        ops.append("in %d %d 1 %s" % (f, self.rng.random() < 0.5, self.arg(CONTENT)))

    def handler(self, kind, stop_p=0.06):
        """kind: element | comment | text | doctype | docend | endtag"""
        rng = self.rng
        ops = []
        n = rng.randint(0, 5)
        has_prepend_stream = False
        for _ in range(n):
            r = rng.random()
            if kind == "element":
                if r < 0.1:
                    v = self.fresh()
                    ops.append("sg %d %d" % (v, rng.choice([0, 1])))
                    self.maybe_free(ops, v)
                elif r < 0.24:
                    # present (possibly empty) and absent attributes alike: document attribute names first
                    v = self.fresh()
                    ops.append("og %d 4 1 %s" % (v, self.arg(ATTRS + ATTRS + GOOD_NAMES, BAD_ATTR_NAMES)))
                    self.maybe_free(ops, v)
                elif r < 0.3:
                    ops.append("ig 5 %s" % self.arg(ATTRS + GOOD_NAMES, BAD_ATTR_NAMES))
                elif r < 0.38:
                    ops.append("fa 2 1 %s" % self.arg(GOOD_NAMES, BAD_TAG_NAMES, 0.2))
                elif r < 0.5:
                    ops.append("fa 6 2 %s %s" % (self.arg(ATTRS + GOOD_NAMES, BAD_ATTR_NAMES, 0.15), self.arg(CONTENT + ["", ""])))
                elif r < 0.56:
                    ops.append("in 7 0 1 %s" % self.arg(ATTRS + GOOD_NAMES, BAD_ATTR_NAMES))
                elif r < 0.68:
                    fs = [8, 9, 10, 11, 12, 13]
                    self.common_content(ops, fs)
                elif r < 0.72:
                    ops.append("vo %d" % rng.choice([14, 15, 20]))
                elif r < 0.8:
                    ops.append("bg %d" % rng.choice([16, 17, 18]))
                elif r < 0.84:
                    ops.append("rg %d" % rng.choice([3, 19, 21]))
                elif r < 0.9:
                    f = rng.choice([10, 10, 8, 12, 13])
                    if f == 8:
                        has_prepend_stream = True
                    ops.append("st %d %s" % (f, self.sarg()))
                elif r < 0.93:
                    if rng.random() < 0.85:
                        ops.append("eh %d" % self.end_tag_script())
                        self.flags.add("end-tag-handler")
                    else:
                        ops.append("ce")
                else:
                    self.iterator(ops)
            elif kind == "comment":
                if r < 0.2:
                    v = self.fresh()
                    ops.append("sg %d 30" % v)
                    self.maybe_free(ops, v)
                elif r < 0.35:
                    ops.append("fa 31 1 %s" % self.arg(COMMENTS + ["n"], BAD_COMMENT, 0.2))
                    if rng.random() < 0.5:  # read back what was set (possibly "")
                        v = self.fresh()
                        ops.append("sg %d 30" % v)
                        self.maybe_free(ops, v)
                elif r < 0.6:
                    self.common_content(ops, [10, 11, 13])
                elif r < 0.68:
                    ops.append("vo %d" % rng.choice([14, 20]))
                elif r < 0.78:
                    ops.append("bg 16")
                elif r < 0.84:
                    ops.append("rg %d" % rng.choice([19, 21]))
                else:
                    ops.append("st %d %s" % (rng.choice([10, 11, 13]), self.sarg()))
            elif kind == "text":
                if r < 0.2:
                    ops.append("rg %d" % rng.choice([40, 40, 19, 21]))
                elif r < 0.5:
                    self.common_content(ops, [10, 11, 13])
                elif r < 0.6:
                    ops.append("vo %d" % rng.choice([14, 20]))
                elif r < 0.8:
                    ops.append("bg %d" % rng.choice([16, 41]))
                else:
                    ops.append("st %d %s" % (rng.choice([10, 11, 13]), self.sarg()))
            elif kind == "doctype":
                if r < 0.6:
                    for f in rng.sample([50, 51, 52], rng.choice([1, 2, 3])):
                        v = self.fresh()
                        ops.append("og %d %d 0" % (v, f))
                        self.maybe_free(ops, v)
                elif r < 0.65:
                    ops.append("vo %d" % rng.choice([14, 20]))
                elif r < 0.85:
                    ops.append("bg 16")
                else:
                    ops.append("rg %d" % rng.choice([19, 21]))
            elif kind == "docend":
                ops.append("in 9 %d 1 %s" % (rng.random() < 0.5, self.arg(CONTENT)))
            elif kind == "endtag":
                if r < 0.25:
                    v = self.fresh()
                    ops.append("sg %d %d" % (v, rng.choice([60, 61])))
                    self.maybe_free(ops, v)
                elif r < 0.4:
                    ops.append("in 62 0 1 %s" % self.arg(GOOD_NAMES + ["", ""]))  # no validation: "" is legal here
                    if rng.random() < 0.6:  # read it back (possibly "")
                        v = self.fresh()
                        ops.append("sg %d %d" % (v, rng.choice([60, 61])))
                        self.maybe_free(ops, v)
                elif r < 0.65:
                    self.common_content(ops, [10, 11, 13])
                elif r < 0.72:
                    ops.append("vo 14")
                elif r < 0.8:
                    ops.append("rg 19")
                else:
                    ops.append("st %d %s" % (rng.choice([10, 11, 13]), self.sarg()))
            # ops available everywhere
            if rng.random() < 0.06:
                v = self.fresh()
                ops.append("tl %d" % v)
                self.maybe_free(ops, v)
        stop = None
        if rng.random() < stop_p:
            stop = rng.choice([0, 0, 1, 2])
            self.flags.add("stop")
        self.defs.append((stop, 0, ops))
        return len(self.defs) - 1

    def end_tag_script(self):
        return self.handler("endtag", stop_p=0.05)

    def iterator(self, ops):
        rng = self.rng
        it = self.fresh()
        ops.append("it %d" % it)
        self.flags.add("iterator")
        danger = rng.random() < 0.25
        for _ in range(rng.randint(0, 4)):
            ops.append("nx %d" % it)
            if rng.random() < 0.5:
                v = self.fresh()
                ops.append("ag %d %d %d" % (v, it, rng.choice([22, 23, 24])))
                self.maybe_free(ops, v)
            if danger and rng.random() < 0.5:
                # permitted by lol_html.h, yet it may invalidate the iterator
                ops.append(rng.choice(["fa 6 2 %s %s" % (hx("zz"), hx("1")), "in 7 0 1 %s" % hx("id")]))
                self.flags.add("iter-mutation")
        if rng.random() < 0.9:
            ops.append("if %d" % it)
        else:
            self.flags.add("leak")

    def render(self):
        out = ["P", str(len(self.defs))]
        for stop, ret, ops in self.defs:
            toks = " ".join(ops).split()
            out += ["H", "-" if stop is None else str(stop), str(ret), str(len(ops))] + toks
        return out


def gen_case(rng, tier):
    sc = Scripts(rng)
    tid = lambda: rng.choice([0, 0, 0, 1, 2])
    top = []
    # selectors
    nsel = rng.randint(0, 3)
    sels = []  # (var, text)
    var = 1
    B = var
    var += 1
    top.append("%d BN %d" % (tid(), B))
    for _ in range(nsel):
        s = rng.choice(VALID_SEL)
        top.append("%d SP %d %s" % (tid(), var, hx(s)))
        sels.append((var, s))
        var += 1
    if rng.random() < 0.15:
        bad = rng.choice(INVALID_SEL + [b"\xffdiv"])
        top.append("%d SP %d %s" % (tid(), var, hx(bad)))
        sc.flags.add("bad-selector")
        var += 1
    # registrations
    regs = []
    for _ in range(rng.randint(0, 3)):
        if sels and rng.random() < 0.65:
            sv, st = rng.choice(sels)
            hs = [sc.handler(k) if rng.random() < p else None for k, p in (("element", 0.85), ("comment", 0.3), ("text", 0.3))]
            regs.append(("elem", st, hs))
            top.append("%d AE %d %d %s" % (tid(), B, sv, " ".join("-" if h is None else str(h) for h in hs)))
        else:
            hs = [sc.handler(k) if rng.random() < p else None for k, p in (("doctype", 0.4), ("comment", 0.4), ("text", 0.4), ("docend", 0.4))]
            regs.append(("doc", hs))
            top.append("%d AD %d %s" % (tid(), B, " ".join("-" if h is None else str(h) for h in hs)))
    cfg = Config(regs)
    builder_live = True
    sel_live = True
    rewriters = []
    nrw = rng.choice([1, 1, 1, 2, 0])
    pending_tail = []
    for _ in range(nrw):
        R = var
        var += 1
        r = rng.random()
        if r < 0.06:
            cls, label = 0, rng.choice(ENC_UNKNOWN)
            sc.flags.add("bad-encoding")
        elif r < 0.12:
            cls, label = 2, rng.choice(ENC_NON_ASCII)
            sc.flags.add("bad-encoding")
        else:
            cls, label = 1, rng.choice(ENC_OK)
        mx = rng.choice([1 << 20, 1 << 16, 1 << 30])
        pre = rng.choice([0, 0, 1024, 4096])
        top.append(
            "%d BU %d %d %d %s %d %d %d %d %d"
            % (tid(), R, B, cls, hx(label.encode("latin1")), pre, mx, rng.random() < 0.2, rng.random() < 0.5, rng.random() < 0.1)
        )
        if cls != 1:
            continue
        # builder may be freed before the rewriter is used (header: explicitly allowed)
        if builder_live and nrw == 1 and rng.random() < 0.3:
            top.append("%d BF %d" % (tid(), B))
            builder_live = False
            sc.flags.add("builder-freed-first")
        doc = Doc(rng)
        data = doc.data()
        ncut = rng.choice([0, 0, 1, 2, 3, 5])
        cuts = sorted(rng.randrange(0, len(data) + 1) for _ in range(ncut)) if data else []
        chunks = predict(doc, cfg, cuts)
        # stop predicted from static handler counts: after an error the rewriter must not be used again
        failed = False
        wt = tid()
        counts = {}
        stops = {i: d[0] for i, d in enumerate(sc.defs) if d[0] is not None}
        ended = False
        for chunk, units, end_units in chunks:
            top.append("%d WR %d %s %s %s" % (wt, R, hx(chunk), fmt_units(units), fmt_units(end_units)))
            if rng.random() < 0.2:
                wt = tid()  # the rewriter object may be driven from another thread between calls
            for _, hs in units:
                for h in hs:
                    k = counts.get(h, 0)
                    counts[h] = k + 1
                    if stops.get(h) == k:
                        failed = True
            if failed:
                break
            if rng.random() < 0.1:
                v = var
                var += 1
                top.append("%d TL %d" % (tid(), v))
                top.append("%d SF %d" % (tid(), v))
        if not failed and rng.random() < 0.85:
            top.append("%d EN %d" % (wt, R))
            ended = True
            sc.flags.add("end")
        if failed:
            sc.flags.add("stop-hit")
        r = rng.random()
        if r < 0.85:
            pending_tail.append("%d RF %d" % (tid(), R))
            if ended:
                sc.flags.add("free-after-end")
        else:
            sc.flags.add("leak")
    # tail: frees in a random allowed order (selectors only after the builder)
    rng.shuffle(pending_tail)
    tail = list(pending_tail)
    for v in sc.late_strs:
        tail.insert(rng.randrange(len(tail) + 1), "%d SF %d" % (tid(), v))
        sc.flags.add("late-str-free")
    if rng.random() < 0.5:
        v = var
        var += 1
        pos = rng.randrange(len(tail) + 1)
        t = tid()
        tail.insert(pos, "%d SF %d" % (t, v))
        tail.insert(pos, "%d TL %d" % (t, v))
    if builder_live and rng.random() < 0.9:
        tail.insert(rng.randrange(len(tail) + 1), "%d BF %d" % (tid(), B))
        builder_live = False
    if not builder_live:
        for sv, _ in sels:
            if rng.random() < 0.9:
                tail.append("%d XF %d" % (tid(), sv))
    top += tail
    line = " ".join(sc.render() + ["T"] + top)
    return line, sc.flags


def gen(rng, n, tier, pid):
    return [gen_case(rng, tier)[0] for _ in range(n)]


def nontrivial(case, obs):
    return " WR " in case and not obs.startswith("NOTPERMITTED")


def stats(cases, obs):
    from collections import Counter

    c = Counter()
    for case, o in zip(cases, obs):
        c["cases"] += 1
        c["top-calls"] += sum(case.count(" %s " % k) for k in ("BN", "SP", "AD", "AE", "BU", "WR", "EN", "RF", "BF", "XF", "SF", "TL"))
        c["writes"] += case.count(" WR ")
        if o.startswith("NOTPERMITTED"):
            c["not-permitted"] += 1
        elif o.startswith("FAULT"):
            c["fault"] += 1
        else:
            if " -1" in o.split("|")[0]:
                c["with-failure-code"] += 1
            if " p0" in o:
                c["with-null-result"] += 1
            if "L:0" not in o:
                c["with-leak"] += 1
            if "E:000" not in o:
                c["error-left-pending"] += 1
            if "D:-" not in o:
                c["with-streaming-handler"] += 1
        body = o.split("|")[0].split()
        c["str-null(s0)"] += body.count("s0")
        c["str-empty(se)"] += body.count("se")
        c["str-nonempty(s1)"] += body.count("s1")
        if "ORACLE" in o:
            c["oracle:" + o.split("||ORACLE:")[1].split()[0]] += 1
    return dict(c)
