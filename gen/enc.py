"""Case generator for lane `enc` (property C13).  Every random choice comes from `rng`."""

ENCODINGS = [
    "Big5", "EUC-JP", "EUC-KR", "gb18030", "GBK", "IBM866", "ISO-8859-2", "ISO-8859-3", "ISO-8859-4",
    "ISO-8859-5", "ISO-8859-6", "ISO-8859-7", "ISO-8859-8", "ISO-8859-8-I", "ISO-8859-10",
    "ISO-8859-13", "ISO-8859-14", "ISO-8859-15", "ISO-8859-16", "KOI8-R", "KOI8-U", "macintosh",
    "Shift_JIS", "UTF-8", "windows-874", "windows-1250", "windows-1251", "windows-1252",
    "windows-1253", "windows-1254", "windows-1255", "windows-1256", "windows-1257", "windows-1258",
    "x-mac-cyrillic", "x-user-defined",
]
MODELLED = ["UTF-8", "windows-1252", "ISO-8859-7"]
PYCODEC = {
    "Big5": "big5", "EUC-JP": "euc_jp", "EUC-KR": "euc_kr", "gb18030": "gb18030", "GBK": "gbk",
    "Shift_JIS": "shift_jis", "UTF-8": "utf-8",
}
SAMPLE_CHARS = (
    "éßłЖΩאمก€™あア中文字한"
    "글Ａ ☃\U0001f408\U0001f433\U00020000\u0080߿ࠀ￿�\U0010ffff"
)
BUFFER_LEN = 1024


def hexs(b):
    return b.hex() if b else "-"


def rand_char(rng):
    r = rng.random()
    if r < 0.5:
        return rng.choice(SAMPLE_CHARS)
    if r < 0.7:
        return chr(rng.randrange(0x20, 0x7F))
    while True:
        c = rng.choice([rng.randrange(0x80, 0x800), rng.randrange(0x800, 0x10000), rng.randrange(0x10000, 0x110000)])
        if not 0xD800 <= c < 0xE000:
            return chr(c)


def rand_unit(rng, enc):
    """one 'unit' of text in the given encoding: ascii run, encoded char, raw high bytes, malformed"""
    r = rng.random()
    if r < 0.35:
        n = rng.choice([1, 1, 2, 3, 8])
        return bytes(rng.choice(b"abc xyz<>&;:0159\n=Z\x00\x7f") for _ in range(n))
    if r < 0.75:
        codec = PYCODEC.get(enc)
        if codec:
            for _ in range(4):
                try:
                    return rand_char(rng).encode(codec)
                except UnicodeEncodeError:
                    continue
        return bytes([rng.randrange(0x80, 0x100)])
    if r < 0.9:
        # raw bytes around lead/trail/continuation boundaries
        pool = [0x80, 0x81, 0x8E, 0x8F, 0x9F, 0xA0, 0xA1, 0xBF, 0xC0, 0xC1, 0xC2, 0xDF, 0xE0, 0xED, 0xEF,
                0xF0, 0xF4, 0xF5, 0xFC, 0xFD, 0xFE, 0xFF, 0x40, 0x7E, 0x7F, 0x30, 0x39, 0xAE, 0xD2]
        return bytes(rng.choice(pool) for _ in range(rng.choice([1, 1, 2, 3, 4])))
    # truncated multi-byte char
    codec = PYCODEC.get(enc, "utf-8")
    try:
        b = rand_char(rng).encode(codec)
    except UnicodeEncodeError:
        b = b"\xe2\x82"
    return b[: max(1, len(b) - 1)]


def rand_text(rng, enc, size):
    out = bytearray()
    while len(out) < size:
        r = rng.random()
        if size > 200 and r < 0.25:
            # long runs so that the 1 KiB buffer fills at varied alignments
            k = rng.choice([BUFFER_LEN - 3, BUFFER_LEN - 2, BUFFER_LEN - 1, BUFFER_LEN, BUFFER_LEN + 1, 200, 500, 1500])
            k = max(1, k - rng.randrange(0, 3))
            if rng.random() < 0.6:
                out += bytes(rng.choice(b"ab ,.<Z") for _ in range(k))
            else:
                u = rand_unit(rng, enc)
                out += (u * (k // max(1, len(u)) + 1))[:k]
        else:
            out += rand_unit(rng, enc)
    return bytes(out)


def rand_cuts(rng, n):
    k = rng.choice([0, 0, 1, 1, 2, 3, 5, 8])
    cuts = sorted(rng.randrange(0, n + 1) for _ in range(k))
    if cuts and rng.random() < 0.2:
        cuts.append(cuts[-1])  # empty piece
        cuts.sort()
    if rng.random() < 0.1:
        cuts = [0] + cuts
    if rng.random() < 0.1:
        cuts = cuts + [n]
    return cuts


def gen_dec(rng):
    enc = rng.choice(MODELLED) if rng.random() < 0.55 else rng.choice(ENCODINGS)
    r = rng.random()
    if r < 0.55:
        size = rng.randrange(0, 40)
    elif r < 0.7:
        size = rng.randrange(40, 1000)
    else:
        size = rng.randrange(1000, 3600)
    text = rand_text(rng, enc, size) if size else b""
    if rng.random() < 0.05:
        text = b""
    cuts = rand_cuts(rng, len(text))
    if size < 40 and rng.random() < 0.3 and len(text) > 1:
        # every single split point of a short text is interesting: pick one inside
        cuts = [rng.randrange(1, len(text))]
    mode = "flush" if rng.random() < 0.8 else "last"
    start = rng.choice([0, 0, 1, 7, rng.randrange(0, 100000)])
    return "dec %s %s %d %s %s" % (enc, mode, start, hexs(text), ",".join(map(str, cuts)) or "-")


def gen(rng, n, tier, pid):
    out = []
    for _ in range(n):
        out.append(gen_dec(rng))
    return out


def stats(cases, obs):
    d = {}
    for c in cases:
        f = c.split(" ")
        k = f[0]
        d[k] = d.get(k, 0) + 1
        if k == "dec":
            d["dec:" + f[1]] = d.get("dec:" + f[1], 0) + 1
            if len(f[4]) > 2 * BUFFER_LEN:
                d["dec:>1KiB"] = d.get("dec:>1KiB", 0) + 1
    return d
