"""Case generator for lane `enc` (property C13).  Every random choice comes from `rng`."""
import os
import subprocess
import sys

ENCODINGS = [
    "Big5", "EUC-JP", "EUC-KR", "gb18030", "GBK", "IBM866", "ISO-8859-2", "ISO-8859-3", "ISO-8859-4",
    "ISO-8859-5", "ISO-8859-6", "ISO-8859-7", "ISO-8859-8", "ISO-8859-8-I", "ISO-8859-10",
    "ISO-8859-13", "ISO-8859-14", "ISO-8859-15", "ISO-8859-16", "KOI8-R", "KOI8-U", "macintosh",
    "Shift_JIS", "UTF-8", "windows-874", "windows-1250", "windows-1251", "windows-1252",
    "windows-1253", "windows-1254", "windows-1255", "windows-1256", "windows-1257", "windows-1258",
    "x-mac-cyrillic", "x-user-defined",
]
MULTIBYTE = ["Big5", "EUC-JP", "EUC-KR", "gb18030", "GBK", "Shift_JIS"]
MODELLED = [e for e in ENCODINGS if e not in MULTIBYTE]
CORE = ["UTF-8", "windows-1252", "ISO-8859-7"]
PYCODEC = {
    "Big5": "big5", "EUC-JP": "euc_jp", "EUC-KR": "euc_kr", "gb18030": "gb18030", "GBK": "gbk",
    "Shift_JIS": "shift_jis", "UTF-8": "utf-8",
}
SAMPLE_CHARS = (
    "éßłЖΩאمก€™あア中文字한"
    "글Ａ ☃\U0001f408\U0001f433\U00020000\u0080߿ࠀ￿�\U0010ffff"
)
BUFFER_LEN = 1024


def hexs(b):
    return b.hex() if b else "-"


def rand_char(rng):
    r = rng.random()
    if r < 0.5:
        return rng.choice(SAMPLE_CHARS)
    if r < 0.7:
        return chr(rng.randrange(0x20, 0x7F))
    while True:
        c = rng.choice([rng.randrange(0x80, 0x800), rng.randrange(0x800, 0x10000), rng.randrange(0x10000, 0x110000)])
        if not 0xD800 <= c < 0xE000:
            return chr(c)


def rand_unit(rng, enc):
    """one 'unit' of text in the given encoding: ascii run, encoded char, raw high bytes, malformed"""
    r = rng.random()
    if r < 0.35:
        n = rng.choice([1, 1, 2, 3, 8])
        return bytes(rng.choice(b"abc xyz<>&;:0159\n=Z\x00\x7f") for _ in range(n))
    if r < 0.75:
        codec = PYCODEC.get(enc)
        if codec:
            for _ in range(4):
                try:
                    return rand_char(rng).encode(codec)
                except UnicodeEncodeError:
                    continue
        return bytes([rng.randrange(0x80, 0x100)])
    if r < 0.9:
        # raw bytes around lead/trail/continuation boundaries
        pool = [0x80, 0x81, 0x8E, 0x8F, 0x9F, 0xA0, 0xA1, 0xBF, 0xC0, 0xC1, 0xC2, 0xDF, 0xE0, 0xED, 0xEF,
                0xF0, 0xF4, 0xF5, 0xFC, 0xFD, 0xFE, 0xFF, 0x40, 0x7E, 0x7F, 0x30, 0x39, 0xAE, 0xD2]
        return bytes(rng.choice(pool) for _ in range(rng.choice([1, 1, 2, 3, 4])))
    # truncated multi-byte char
    codec = PYCODEC.get(enc, "utf-8")
    try:
        b = rand_char(rng).encode(codec)
    except UnicodeEncodeError:
        b = b"\xe2\x82"
    return b[: max(1, len(b) - 1)]


def rand_text(rng, enc, size):
    out = bytearray()
    while len(out) < size:
        r = rng.random()
        if size > 200 and r < 0.25:
            # long runs so that the 1 KiB buffer fills at varied alignments
            k = rng.choice([BUFFER_LEN - 3, BUFFER_LEN - 2, BUFFER_LEN - 1, BUFFER_LEN, BUFFER_LEN + 1, 200, 500, 1500])
            k = max(1, k - rng.randrange(0, 3))
            if rng.random() < 0.6:
                out += bytes(rng.choice(b"ab ,.<Z") for _ in range(k))
            else:
                u = rand_unit(rng, enc)
                out += (u * (k // max(1, len(u)) + 1))[:k]
        else:
            out += rand_unit(rng, enc)
    return bytes(out)


def rand_cuts(rng, n):
    k = rng.choice([0, 0, 1, 1, 2, 3, 5, 8])
    cuts = sorted(rng.randrange(0, n + 1) for _ in range(k))
    if cuts and rng.random() < 0.2:
        cuts.append(cuts[-1])  # empty piece
        cuts.sort()
    if rng.random() < 0.1:
        cuts = [0] + cuts
    if rng.random() < 0.1:
        cuts = cuts + [n]
    return cuts


def gen_dec(rng):
    r0 = rng.random()
    enc = rng.choice(CORE) if r0 < 0.25 else rng.choice(MULTIBYTE) if r0 < 0.5 else rng.choice(ENCODINGS)
    r = rng.random()
    if r < 0.55:
        size = rng.randrange(0, 40)
    elif r < 0.7:
        size = rng.randrange(40, 1000)
    else:
        size = rng.randrange(1000, 3600)
    text = rand_text(rng, enc, size) if size else b""
    if rng.random() < 0.05:
        text = b""
    cuts = rand_cuts(rng, len(text))
    if size < 40 and rng.random() < 0.3 and len(text) > 1:
        # every single split point of a short text is interesting: pick one inside
        cuts = [rng.randrange(1, len(text))]
    mode = "flush" if rng.random() < 0.8 else "last"
    start = rng.choice([0, 0, 1, 7, rng.randrange(0, 100000)])
    return "dec %s %s %d %s %s" % (enc, mode, start, hexs(text), ",".join(map(str, cuts)) or "-")


def rand_str(rng, nchars):
    out = []
    while len(out) < nchars:
        r = rng.random()
        if r < 0.3:
            out.extend(rng.choice("abc <>&;\"'=/09") for _ in range(rng.choice([1, 2, 5, 20])))
        else:
            out.append(rand_char(rng))
    return "".join(out[:nchars])


def gen_tenc(rng, big=False):
    enc = rng.choice(CORE) if rng.random() < 0.25 else rng.choice(ENCODINGS)
    if big:
        # >= 1 MiB of content: TextEncoder switches to the heap buffer (text_encoder.rs:33)
        unit = rng.choice(["\u00e9", "\u00e9a", "\u20ac\u0416"])
        s = unit * ((1 << 20) // len(unit.encode()) + rng.randrange(1, 50))
        pieces = [rand_str(rng, 5), s, rand_str(rng, 70)]
    else:
        pieces = []
        for _ in range(rng.choice([1, 1, 2, 3])):
            r = rng.random()
            n = rng.randrange(0, 20) if r < 0.5 else rng.randrange(20, 400) if r < 0.95 else rng.randrange(400, 6000)
            if rng.random() < 0.3 and n > 10:
                # one char repeated: fills the 63-byte buffer at every alignment
                ch = rand_char(rng)
                pieces.append(rand_str(rng, rng.randrange(0, 4)) + ch * n)
            else:
                pieces.append(rand_str(rng, n))
    return "tenc %s %s" % (enc, ",".join(hexs(p.encode()) for p in pieces))


BAD_UTF8 = [
    b"\xed\xa0\x80", b"\xef\x80", b"\xfe", b"\xff", b"\xe0\x80", b"\xe0\x80\xaf", b"\xf0\x80\x80",
    b"\xf0\x80\x80\x80", b"\xf7\xbf\xbf\xbf", b"\x80", b"\xbf", b"\xc0", b"\xc0\x80", b"\xc1\xbf", b"\xc2",
    b"\xc2\x41", b"\xdf\xc0", b"\xe1\x80", b"\xe1\x80\xe2", b"\xf0\x91\x92", b"\xf1\xbf", b"\xed\x80",
    b"\xf4\x90\x80\x80", b"\xf4\x8f\xbf", b"\xf5\x80", b"\xf8\x88\x80\x80\x80", b"\xe2\x82", b"\xf0\x9f\x90",
    b"\xf0\x90\x80\x80\x80", b"\xe2\x82\xac\x80", b"\xf0\x9f", b"\xf0",
]


def gen_resync(rng):
    parts = []
    for _ in range(rng.choice([1, 2, 3, 5])):
        r = rng.random()
        if r < 0.6:
            parts.append(rand_str(rng, rng.choice([1, 1, 2, 4])).encode())
        elif r < 0.75:
            parts.append(bytes(rng.choice(b"a<Z 0") for _ in range(rng.choice([1, 3]))))
        else:
            parts.append(None)
    valid = rng.random() < 0.5
    data = b"".join(p if p is not None else (rand_char(rng).encode() if valid else rng.choice(BAD_UTF8)) for p in parts)
    n = len(data)
    r = rng.random()
    if r < 0.25:
        cuts = list(range(1, n))  # one byte at a time
    elif r < 0.35:
        k = rng.choice([2, 3])
        cuts = list(range(k, n, k))
    else:
        cuts = rand_cuts(rng, n)
    return "resync %s %s" % (hexs(data), ",".join(map(str, cuts)) or "-")


META_LABELS = ["utf-8", "UTF-8", "utf8", "windows-1252", "latin1", "iso-8859-1", "ascii", "iso-8859-7", "greek",
               "bogus", "utf-16le", "utf-16be", "utf-16", "iso-2022-jp", "replacement", "x",
               "koi8-r", "windows-1251", "cp866", "x-user-defined", "iso-8859-2", "Latin2", "macintosh", "tis-620",
               "csiso2022kr", "hz-gb-2312", "iso-8859-8-i", "logical", "windows-1258"]


def meta_doc(script):
    doc = b""
    for t in script:
        if t.startswith("M:"):
            doc += ('<meta charset="%s">' % t[2:]).encode()
        elif t.startswith("H:"):
            doc += ('<meta http-equiv="Content-Type" content="text/html; charset=%s">' % t[2:]).encode()
        elif t == "B":
            doc += b"<b>"
        else:
            doc += bytes.fromhex(t[2:])
    return doc


def gen_meta(rng):
    enc = rng.choice(CORE) if rng.random() < 0.5 else rng.choice(MODELLED)
    adjust = 1 if rng.random() < 0.85 else 0
    script = []
    for _ in range(rng.randrange(1, 9)):
        r = rng.random()
        if r < 0.35:
            script.append(rng.choice(["M:", "M:", "H:"]) + rng.choice(META_LABELS))
        elif r < 0.6:
            script.append("B")
        elif not (script and script[-1].startswith("T:")):
            pool = b"abz 09.;" + bytes([0xE9, 0xE1, 0xA4, 0x80, 0xC3, 0xA9, 0xE2, 0x82, 0xAC, 0xCE, 0xB1, 0xFF, 0xD2])
            script.append("T:" + bytes(rng.choice(pool) for _ in range(rng.randrange(1, 8))).hex())
        else:
            script.append("B")
    n = len(meta_doc(script))
    cuts = rand_cuts(rng, n)
    return "meta %s %d %s %s" % (enc, adjust, ",".join(script), ",".join(map(str, cuts)) or "-")


COMPAT_LABELS = ["utf-8", "windows-1252", "iso-8859-7", "gbk", "shift_jis", "big5", "euc-jp", "euc-kr", "gb18030",
                 "koi8-r", "x-user-defined", "macintosh", "utf-16le", "utf-16be", "utf-16", "iso-2022-jp",
                 "csiso2022jp", "unicode", "ucs-2", "replacement", "bogus", "iso-2022-kr", "hz-gb-2312",
                 "cp866", "latin1", "l2", "tis-620", "x-sjis", "ms_kanji", "x-gbk", "chinese", "big5-hkscs",
                 "korean", "x-euc-jp", "utf-7", "UTF-8", "Windows-1251", "csunicode", "unicodefffe",
                 "unicodefeff", "iso-8859-8-i", "visual", "logical", "x-mac-roman", "x-mac-ukrainian", "dos-874"]


def gen_loc(rng):
    enc = rng.choice(ENCODINGS)
    text = bytes(b for b in rand_text(rng, enc, rng.randrange(1, 30)) if b not in (0x3C, 0x26, 0x00, 0x0D))
    if not text:
        text = b"a"
    n = len(text) + 7
    cuts = rand_cuts(rng, n)
    if rng.random() < 0.5 and len(text) > 1:
        cuts = [3 + rng.randrange(1, len(text))]
    return "loc %s %s %s" % (enc, hexs(text), ",".join(map(str, cuts)) or "-")


# ---------------------------------------------------------------- index facts for the multi-byte machines


def _windows(enc, data):
    """(table, pointer, bytes) for every window of consecutive bytes the WHATWG decoder of `enc` could look up"""
    out = []
    n = len(data)
    for i in range(n - 1):
        l, t = data[i], data[i + 1]
        if enc == "EUC-KR":
            if 0x81 <= l <= 0xFE and 0x41 <= t <= 0xFE:
                out.append(("k", (l - 0x81) * 190 + (t - 0x41), data[i:i + 2]))
        elif enc == "Big5":
            if 0x81 <= l <= 0xFE and (0x40 <= t <= 0x7E or 0xA1 <= t <= 0xFE):
                p = (l - 0x81) * 157 + (t - (0x40 if t < 0x7F else 0x62))
                if p not in (1133, 1135, 1164, 1166):
                    out.append(("b", p, data[i:i + 2]))
        elif enc == "Shift_JIS":
            if (0x81 <= l <= 0x9F or 0xE0 <= l <= 0xFC) and (0x40 <= t <= 0x7E or 0x80 <= t <= 0xFC):
                p = (l - (0x81 if l < 0xA0 else 0xC1)) * 188 + t - (0x40 if t < 0x7F else 0x41)
                if not 8836 <= p <= 10715:
                    out.append(("j", p, data[i:i + 2]))
        elif enc == "EUC-JP":
            if 0xA1 <= l <= 0xFE and 0xA1 <= t <= 0xFE:
                p = (l - 0xA1) * 94 + t - 0xA1
                out.append(("j", p, data[i:i + 2]))
                out.append(("x", p, b"\x8f" + data[i:i + 2]))
        elif enc in ("gb18030", "GBK"):
            if 0x81 <= l <= 0xFE and (0x40 <= t <= 0x7E or 0x80 <= t <= 0xFE):
                out.append(("g", (l - 0x81) * 190 + t - (0x40 if t < 0x7F else 0x41), data[i:i + 2]))
            if i + 3 < n:
                d, t3, d2 = data[i + 1], data[i + 2], data[i + 3]
                if 0x81 <= l <= 0xFE and 0x30 <= d <= 0x39 and 0x81 <= t3 <= 0xFE and 0x30 <= d2 <= 0x39:
                    out.append(("r", (l - 0x81) * 12600 + (d - 0x30) * 1260 + (t3 - 0x81) * 10 + d2 - 0x30, data[i:i + 4]))
    return out


def _harness_bin():
    here = os.path.dirname(os.path.dirname(os.path.abspath(__file__)))
    return os.environ.get("VERIF_HARNESS_BIN", os.path.join(here, "harness", "target", "debug", "verif_harness"))


def attach_facts(cases):
    """Append the index facts (`<table>:<pointer>=<scalar>`) to every multi-byte `dec` case. The facts are
    what the REAL encoding_rs decodes each 2/3/4-byte window to on its own (sub-lane `decq` of the harness):
    the model's state machines are checked, the index data is taken as given. Without a harness binary the
    cases stay impl-only."""
    todo = []
    for ci, c in enumerate(cases):
        f = c.split(" ")
        if f[0] == "dec" and f[1] in MULTIBYTE and len(f) == 6:
            data = bytes.fromhex(f[4]) if f[4] != "-" else b""
            seen = {}
            for (tbl, ptr, win) in _windows(f[1], data):
                seen.setdefault((tbl, ptr), win)
            todo.append((ci, f[1], sorted(seen.items())))
    if not todo:
        return cases
    binp = _harness_bin()
    if not os.path.exists(binp):
        sys.stderr.write("gen/enc.py: no harness binary, multi-byte dec cases stay impl-only\n")
        return cases
    lines = []
    for (_, enc, items) in todo:
        lines.append("decq %s %s" % (enc, ",".join(w.hex() for (_, w) in items) if items else "-"))
    res = subprocess.run([binp, "enc"], input="\n".join(lines) + "\n", capture_output=True, text=True, timeout=600)
    outs = res.stdout.split("\n")
    if res.returncode != 0 or len(outs) < len(lines):
        sys.stderr.write("gen/enc.py: decq oracle failed, multi-byte dec cases stay impl-only\n")
        return cases
    cases = list(cases)
    for (ci, enc, items), o in zip(todo, outs):
        facts = []
        vals = o.split(",") if items else []
        if len(vals) != len(items):
            continue
        for ((tbl, ptr), _w), v in zip(items, vals):
            if v == "-":
                continue
            try:
                txt = bytes.fromhex(v).decode("utf-8")
            except (ValueError, UnicodeDecodeError):
                continue
            if len(txt) == 1 and txt != "\ufffd":
                facts.append("%s:%d=%x" % (tbl, ptr, ord(txt)))
        cases[ci] = cases[ci] + " " + (",".join(facts) if facts else "-")
    return cases


def gen(rng, n, tier, pid):
    out = []
    for i in range(n):
        r = rng.random()
        if i == n // 2 and n >= 500:
            out.append(gen_tenc(rng, big=True))
        elif r < 0.01:
            out.append("compat " + rng.choice(COMPAT_LABELS))
        elif r < 0.08:
            out.append(gen_loc(rng))
        elif r < 0.5:
            out.append(gen_dec(rng))
        elif r < 0.65:
            out.append(gen_tenc(rng))
        elif r < 0.88:
            out.append(gen_resync(rng))
        else:
            out.append(gen_meta(rng))
    return attach_facts(out)


def stats(cases, obs):
    d = {}
    for c in cases:
        f = c.split(" ")
        k = f[0]
        d[k] = d.get(k, 0) + 1
        if k == "dec":
            d["dec:" + f[1]] = d.get("dec:" + f[1], 0) + 1
            if len(f[4]) > 2 * BUFFER_LEN:
                d["dec:>1KiB"] = d.get("dec:>1KiB", 0) + 1
            if len(f) == 7:
                d["dec:facts:" + f[1]] = d.get("dec:facts:" + f[1], 0) + 1
                if f16_shape(c):
                    d["dec:F16-shape"] = d.get("dec:F16-shape", 0) + 1
        if k == "tenc":
            d["tenc:" + f[1]] = d.get("tenc:" + f[1], 0) + 1
    return d


F16_ENCODINGS = ("Big5", "EUC-KR", "Shift_JIS")


def f16_shape(case):
    """a multi-byte `dec` case (with index facts) that feeds an EMPTY piece right after a possible lead byte to one of
    encoding_rs' two-byte macro decoders: known finding F16 (encoding_rs drops a pending lead byte on an
    empty feed; hook-only). The WHATWG machine of the model does not, so model and implementation are
    EXPECTED to differ exactly there; the Rust oracle tags the cases where it bites."""
    f = case.split(" ")
    if len(f) != 7 or f[0] != "dec" or f[1] not in F16_ENCODINGS:
        return False
    data = bytes.fromhex(f[4]) if f[4] != "-" else b""
    n = len(data)
    cuts = [min(int(c), n) for c in f[5].split(",")] if f[5] != "-" else []
    bounds = [0] + cuts + [n]
    # an empty piece at offset p > 0 right after a byte that can be a lead (>= 0x81): only then can a lead
    # be pending when the empty slice is fed
    return any(bounds[i + 1] <= bounds[i] and bounds[i] > 0 and data[bounds[i] - 1] >= 0x81
               for i in range(1, len(bounds) - 1))


def project(pid, case, line):
    return "F16-shape (not compared; see known finding F16)" if f16_shape(case) else line


def nontrivial(case, obs):
    """compared against the model (not impl-only) and not a degenerate empty observation"""
    return obs not in ("impl-only", "-", "bad-case", "unknown")
