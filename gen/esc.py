"""Case generator for lane `esc` (property C08).

  body <hex utf8> | attrv <hex> | comment <hex utf8> <enc> | attrname <hex utf8> <hex utf8 value> <enc> <doc>
  | tagname <hex utf8> <enc> <doc>
  | attrseq <enc> <hex utf8 name> <hex of the lower-cased name in enc> <hex source attr name|-> <hex v1> <hex v2>

Strings are biased to `<>&"'-!/= `, whitespace, NUL, comment terminators and their near misses,
non-BMP scalars, and scalars around the mappable window of x-user-defined (U+F780..U+F7FF).
Every random choice comes from `rng`.
"""

STRUCT = list("<>&\"'-!/= ")
WS = list("\t\n\r\x0c ")
FRAGS = ["-->", "--!>", "->", ">", "--", "-", "<!--", "--!", "!>", "<!-", "<!", "--->", "--!->", "-- >", "&lt;", "&gt;",
         "&amp;", "&quot;", "&quot", "&#34;", "&", "\"", "'", "</a>", "<b>", "</", "<", "=", "=\"", "\">", "/>", " /",
         "<script>", "]]>", "\x00", "\r\n"]
LETTERS = list("abcxyzABCXYZ019_:.")
NONASCII = ["é", " ", " ", "�", "﻿", "\U0001F600", "\U00010000", "\U0010FFFF",
            "", "", "", "", "", "İ", "K", "ア", "　"]
NAMES = ["a", "div", "href", "data-x", "xml:lang", "on-click", "B", "Class", "d", "script", "textarea", "title",
         "plaintext", "style", "svg", "math", "br", "x-y.z", "a1", "h1"]


# Characters of multi-byte encodings (finding F22). (char, encoded hex); "up": trail byte in A..Z,
# "lo": trail byte in a..z, "hi": trail byte >= 0x80, "pairs": (X, hex, Y, hex) with hex(Y) = hex(X) + 0x20
# in the trail byte. The harness checks every supplied encoding against encoding_rs (`bad-case-encoding`).
MB = {"sjis": {"up": [["\u512a", "9744"], ["\u30fe", "8153"], ["\u5256", "9655"], ["\u4f46", "9241"], ["\u5366", "8c54"], ["\u5168", "9153"], ["\u513c", "9956"], ["\u50ee", "9949"], ["\u309e", "8155"], ["\u50be", "8c58"], ["\u30a2", "8341"]], "pairs": [["\u5121", "9953", "\u51b1", "9973"], ["\u30b1", "8350", "\u30d1", "8370"], ["\u5100", "8b56", "\u4e45", "8b76"], ["\u30a5", "8344", "\u30c5", "8364"], ["\u30ac", "834b", "\u30cc", "836b"], ["\u30a9", "8348", "\u30c9", "8368"]], "lo": [["\u50e7", "916d"], ["\u51a4", "996c"], ["\u4e99", "9869"], ["\u514e", "9365"], ["\u51b3", "9972"]], "hi": [["\u30f5", "8395"], ["\u4fd8", "98d8"], ["\u304e", "82ac"], ["\u4f5d", "98c6"]]},
      "big5": {"up": [["\u52a9", "a755"], ["\u4e4e", "a547"], ["\u5200", "a44d"], ["\u4fd0", "ab57"], ["\u4e0f", "c94d"], ["\u4e01", "a442"], ["\u4ed4", "a54a"], ["\u5382", "c944"], ["\u52e9", "e143"], ["\u51f5", "c942"]], "pairs": [["\u5145", "a552", "\u53f5", "a572"], ["\u5144", "a553", "\u53eb", "a573"], ["\u4ed5", "a54b", "\u53f3", "a56b"], ["\u4ead", "ab46", "\u524c", "ab66"], ["\u5189", "a554", "\u53e6", "a574"], ["\u4e03", "a443", "\u52fa", "a463"]], "lo": [["\u51b9", "ca6b"], ["\u52fa", "a463"], ["\u53f0", "a578"], ["\u511f", "c076"], ["\u53e6", "a574"]], "hi": [["\u523a", "a8eb"], ["\u4f4f", "a6ed"], ["\u5018", "add5"], ["\u50c4", "dcb8"]]},
      "euckr": {"up": [["\uca57", "a54d"], ["\ucf0b", "b148"], ["\uc5a4", "9e4b"], ["\ubeb9", "9642"], ["\ub53f", "8b58"], ["\ub897", "8f52"], ["\ud71e", "c547"], ["\ud10c", "b648"], ["\uac22", "814e"], ["\uc327", "9b51"]], "pairs": [["\ucb7e", "a850", "\ucb98", "a870"], ["\uca58", "a54e", "\uca78", "a56e"], ["\uceb1", "b051", "\ucecc", "b071"], ["\ub1a7", "874a", "\ub1c2", "876a"], ["\uc31d", "9b49", "\uc33b", "9b69"], ["\ucd14", "ac52", "\ucd35", "ac72"]], "lo": [["\ucf39", "b16f"], ["\ud1ee", "b864"], ["\uaf0e", "8466"], ["\ud2ba", "ba6a"], ["\uc5e2", "9e77"]], "hi": [["\ub4b3", "8aac"], ["\uc2fe", "9af2"], ["\uc1b9", "99ae"], ["\ub3fb", "89be"]]},
      "gbk": {"up": [["\u50cb", "834e"], ["\u51ec", "844e"], ["\u4e20", "8148"], ["\u532c", "8550"], ["\u50c9", "834c"], ["\u4e2f", "814e"], ["\u4fbd", "824f"], ["\u4fb0", "8243"], ["\u51f4", "8452"], ["\u532d", "8551"]], "pairs": [["\u50c9", "834c", "\u50f1", "836c"], ["\u51fe", "8454", "\u5247", "8474"], ["\u4fab", "8241", "\u4fdb", "8261"], ["\u4e0f", "8144", "\u4e68", "8164"], ["\u50c1", "8344", "\u50e4", "8364"], ["\u5312", "8541", "\u5346", "8561"]], "lo": [["\u50f4", "836e"], ["\u4ff9", "826f"], ["\u523e", "8470"], ["\u4ff0", "8269"], ["\u4e75", "816d"]], "hi": [["\u4eb2", "c7d7"], ["\u5375", "c2d1"], ["\u5374", "c8b4"], ["\u51a3", "83e2"]]}}
SAFE_VAL = list("abcxyz019 \"'<>=/-")


def rand_attrseq(rng):
    """Two set_attribute calls with the same name. Names: ASCII letters mixed with 0..2 multi-byte
    characters; the source attribute (if any) is the same name, a trail-byte-case variant of it, a
    case variant of its ASCII part, or something unrelated."""
    enc = rng.choice(["sjis", "sjis", "big5", "gbk", "euckr", "gb18030", "utf8"])
    val = lambda: "".join(rng.choice(SAFE_VAL) for _ in range(rng.randrange(0, 4)))
    if enc == "utf8":
        name = rng.choice(["a", "B", "data-x", "\u30a2", "x\u00e9", "Cl"])
        low = name.lower() if name.isascii() else "".join(ch.lower() if ch.isascii() else ch for ch in name)
        src = rng.choice([None, low.encode(), name.encode(), b"zz", name.swapcase().encode() if name.isascii() else name.encode()])
        return "attrseq utf8 %s %s %s %s %s" % (hx(name.encode()), hx(low.encode()), hx(src) if src else "-", hx(val().encode()), hx(val().encode()))
    t = MB["gbk" if enc == "gb18030" else enc]      # two-byte gb18030 = GBK
    parts = []          # (utf8 string, encoded bytes of its lower-cased form, encoded bytes as source variant)
    k = rng.choice(["up", "up", "up", "pairs", "pairs", "lo", "hi"])
    pre = rng.choice(["", "", "a", "X", "d-"])
    post = rng.choice(["", "", "b", "Q"])
    if k == "pairs":
        x, xh, y, yh = rng.choice(t["pairs"])
        use_low_as_name = rng.random() < 0.6
        ch, chh, oth = (y, yh, xh) if use_low_as_name else (x, xh, yh)
    else:
        ch, chh = rng.choice(t[k])
        oth = chh
    name = pre + ch + post
    enc_low = pre.lower().encode() + bytes.fromhex(chh) + post.lower().encode()
    r = rng.random()
    if r < 0.25:
        src = None
    elif r < 0.55:
        src = pre.encode() + bytes.fromhex(chh) + post.encode()            # the same name
    elif r < 0.75:
        src = pre.swapcase().encode() + bytes.fromhex(oth) + post.swapcase().encode()   # trail-byte / ASCII case variant
    elif r < 0.9:
        src = pre.lower().encode() + bytes.fromhex(oth) + post.lower().encode()
    else:
        src = b"zz"
    return "attrseq %s %s %s %s %s %s" % (enc, hx(name.encode()), hx(enc_low), hx(src) if src else "-", hx(val().encode()), hx(val().encode()))


def hx(b):
    return b.hex() if b else "-"


def rand_string(rng, maxlen=12):
    n = rng.choice([0, 1, 1, 2, 3, 4, 6, 8, maxlen])
    out = []
    for _ in range(n):
        r = rng.random()
        if r < 0.30:
            out.append(rng.choice(STRUCT))
        elif r < 0.50:
            out.append(rng.choice(FRAGS))
        elif r < 0.60:
            out.append(rng.choice(WS))
        elif r < 0.64:
            out.append("\x00")
        elif r < 0.76:
            out.append(rng.choice(NONASCII))
        elif r < 0.80:
            out.append(chr(rng.randrange(1, 128)))
        else:
            out.append(rng.choice(LETTERS))
    return "".join(out)


def rand_name(rng):
    """Mostly valid names, sometimes with one injected structural / exotic character."""
    r = rng.random()
    if r < 0.05:
        return ""
    if r < 0.30:
        s = rng.choice(NAMES)
    else:
        s = rng.choice("abcXYZdq") + "".join(rng.choice(LETTERS + ["-"]) for _ in range(rng.randrange(0, 6)))
    r = rng.random()
    if r < 0.45:
        pos = rng.randrange(0, len(s) + 1)
        inj = rng.choice(STRUCT + WS + ["\x00", "=", ">", "/", " "] + NONASCII + ["<", "\"", "'", "`", "\x0b", "\x1f", "\x7f"])
        s = s[:pos] + inj + s[pos:]
    elif r < 0.55:
        s = rand_string(rng, 6)
    return s


def rand_comment(rng):
    r = rng.random()
    if r < 0.15:
        return rng.choice(FRAGS[:14]) + rand_string(rng, 4)
    if r < 0.30:
        return rand_string(rng, 4) + rng.choice(FRAGS[:14])
    if r < 0.40:
        return "".join(rng.choice(["-", "-", "!", ">", "<", "a"]) for _ in range(rng.randrange(0, 8)))
    return rand_string(rng)


def enc(rng):
    return "utf8" if rng.random() < 0.6 else "xud"


def gen(rng, n, tier, pid):
    cases = []
    for i in range(n):
        k = rng.randrange(6)
        if k == 5:
            cases.append(rand_attrseq(rng))
        elif k == 0:
            cases.append("body " + hx(rand_string(rng, 16).encode()))
        elif k == 1:
            if rng.random() < 0.2:
                b = bytes(rng.choice([0x22, 0x26, 0x80, 0xff, 0xc3, 0x3c, 0x41, rng.randrange(256)]) for _ in range(rng.randrange(0, 8)))
            else:
                b = rand_string(rng, 16).encode()
            cases.append("attrv " + hx(b))
        elif k == 2:
            cases.append(f"comment {hx(rand_comment(rng).encode())} {enc(rng)}")
        elif k == 3:
            cases.append(f"attrname {hx(rand_name(rng).encode())} {hx(rand_string(rng, 6).encode())} {enc(rng)} {rng.randrange(3)}")
        else:
            cases.append(f"tagname {hx(rand_name(rng).encode())} {enc(rng)} {rng.randrange(4)}")
    return cases


def case_enc(case):
    f = case.split(" ")
    return f[1] if len(f) > 1 else "?"


def nontrivial(case, obs):
    f = case.split(" ")
    return len(f) > 1 and f[1] != "-"


def project(pid, case, line):
    """`attrseq f22 ...`: the model says a debug assertion of eq_case_insensitive fails on this case
    (finding F22). A debug build of the implementation panics there (`attrseq f22 PANIC`), a release
    build carries on (`attrseq f22 <results> <output>`, equal to the model's line): compare the marker only."""
    if line.startswith("attrseq f22"):
        return "attrseq f22"
    return line


def stats(cases, obs):
    d = {}
    for c, o in zip(cases, obs):
        f = o.split(" ")
        if f[0] == "attrseq":
            key = "attrseq:" + case_enc(c) + (":f22" if len(f) > 1 and f[1] == "f22" else "")
            d[key] = d.get(key, 0) + 1
            continue
        key = f[0] + (":" + f[1].split(":")[0] + (":" + f[1].split(":")[1] if f[1].startswith("err:") else "") if f[0] in ("comment", "attrname", "tagname") and len(f) > 1 else "")
        d[key] = d.get(key, 0) + 1
    return dict(sorted(d.items()))
