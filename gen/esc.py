"""Case generator for lane `esc` (property C08).

  body <hex utf8> | attrv <hex> | comment <hex utf8> <enc> | attrname <hex utf8> <hex utf8 value> <enc> <doc>
  | tagname <hex utf8> <enc> <doc>

Strings are biased to `<>&"'-!/= `, whitespace, NUL, comment terminators and their near misses,
non-BMP scalars, and scalars around the mappable window of x-user-defined (U+F780..U+F7FF).
Every random choice comes from `rng`.
"""

STRUCT = list("<>&\"'-!/= ")
WS = list("\t\n\r\x0c ")
FRAGS = ["-->", "--!>", "->", ">", "--", "-", "<!--", "--!", "!>", "<!-", "<!", "--->", "--!->", "-- >", "&lt;", "&gt;",
         "&amp;", "&quot;", "&quot", "&#34;", "&", "\"", "'", "</a>", "<b>", "</", "<", "=", "=\"", "\">", "/>", " /",
         "<script>", "]]>", "\x00", "\r\n"]
LETTERS = list("abcxyzABCXYZ019_:.")
NONASCII = ["é", " ", " ", "�", "﻿", "\U0001F600", "\U00010000", "\U0010FFFF",
            "", "", "", "", "", "İ", "K", "ア", "　"]
NAMES = ["a", "div", "href", "data-x", "xml:lang", "on-click", "B", "Class", "d", "script", "textarea", "title",
         "plaintext", "style", "svg", "math", "br", "x-y.z", "a1", "h1"]


def hx(b):
    return b.hex() if b else "-"


def rand_string(rng, maxlen=12):
    n = rng.choice([0, 1, 1, 2, 3, 4, 6, 8, maxlen])
    out = []
    for _ in range(n):
        r = rng.random()
        if r < 0.30:
            out.append(rng.choice(STRUCT))
        elif r < 0.50:
            out.append(rng.choice(FRAGS))
        elif r < 0.60:
            out.append(rng.choice(WS))
        elif r < 0.64:
            out.append("\x00")
        elif r < 0.76:
            out.append(rng.choice(NONASCII))
        elif r < 0.80:
            out.append(chr(rng.randrange(1, 128)))
        else:
            out.append(rng.choice(LETTERS))
    return "".join(out)


def rand_name(rng):
    """Mostly valid names, sometimes with one injected structural / exotic character."""
    r = rng.random()
    if r < 0.05:
        return ""
    if r < 0.30:
        s = rng.choice(NAMES)
    else:
        s = rng.choice("abcXYZdq") + "".join(rng.choice(LETTERS + ["-"]) for _ in range(rng.randrange(0, 6)))
    r = rng.random()
    if r < 0.45:
        pos = rng.randrange(0, len(s) + 1)
        inj = rng.choice(STRUCT + WS + ["\x00", "=", ">", "/", " "] + NONASCII + ["<", "\"", "'", "`", "\x0b", "\x1f", "\x7f"])
        s = s[:pos] + inj + s[pos:]
    elif r < 0.55:
        s = rand_string(rng, 6)
    return s


def rand_comment(rng):
    r = rng.random()
    if r < 0.15:
        return rng.choice(FRAGS[:14]) + rand_string(rng, 4)
    if r < 0.30:
        return rand_string(rng, 4) + rng.choice(FRAGS[:14])
    if r < 0.40:
        return "".join(rng.choice(["-", "-", "!", ">", "<", "a"]) for _ in range(rng.randrange(0, 8)))
    return rand_string(rng)


def enc(rng):
    return "utf8" if rng.random() < 0.6 else "xud"


def gen(rng, n, tier, pid):
    cases = []
    for i in range(n):
        k = rng.randrange(5)
        if k == 0:
            cases.append("body " + hx(rand_string(rng, 16).encode()))
        elif k == 1:
            if rng.random() < 0.2:
                b = bytes(rng.choice([0x22, 0x26, 0x80, 0xff, 0xc3, 0x3c, 0x41, rng.randrange(256)]) for _ in range(rng.randrange(0, 8)))
            else:
                b = rand_string(rng, 16).encode()
            cases.append("attrv " + hx(b))
        elif k == 2:
            cases.append(f"comment {hx(rand_comment(rng).encode())} {enc(rng)}")
        elif k == 3:
            cases.append(f"attrname {hx(rand_name(rng).encode())} {hx(rand_string(rng, 6).encode())} {enc(rng)} {rng.randrange(3)}")
        else:
            cases.append(f"tagname {hx(rand_name(rng).encode())} {enc(rng)} {rng.randrange(4)}")
    return cases


def nontrivial(case, obs):
    f = case.split(" ")
    return len(f) > 1 and f[1] != "-"


def stats(cases, obs):
    d = {}
    for c, o in zip(cases, obs):
        f = o.split(" ")
        key = f[0] + (":" + f[1].split(":")[0] + (":" + f[1].split(":")[1] if f[1].startswith("err:") else "") if f[0] in ("comment", "attrname", "tagname") and len(f) > 1 else "")
        d[key] = d.get(key, 0) + 1
    return dict(sorted(d.items()))
