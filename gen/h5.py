"""Case generator for lane `h5` (property C03, implementation only: lol-html strict vs html5ever 0.39 + RcDom).

case: `<mode> <input hex, UTF-8> <cuts>`      mode in all | el | text | comment | doctype

Two document families = the claimed input domain of C03:
 (i)  tag soup in the HTML namespace: the adversarial fragment alphabet of gen/lex.py (every tokenizer
      construct, truncated constructs, all text-mode elements, select / template / frameset / table,
      case variants, odd attribute syntax) with NO svg / math tag;
 (ii) documents from a recursive well-nested foreign-content grammar: an svg / math root, explicitly
      closed or self-closing; children: foreign elements (closed or self-closing), CDATA sections, text,
      comments, integration points (desc / title / foreignObject; mi mo mn ms mtext;
      annotation-xml[encoding=text/html|application/xhtml+xml]) explicitly closed, with well-nested HTML
      inside — including text-mode elements and, recursively, islands.
Restrictions that only serve the comparison with html5ever (see harness/src/lanes/h5.rs): no `&`, no
NUL, valid UTF-8, no BOM at the start.
"""
import lex

MODES = ["all"] * 6 + ["el", "text", "comment", "doctype"]

# ---------------------------------------------------------------- (i) HTML tag soup, no svg/math

SOUP_TAGS = [t for t in lex.PLAIN_TAGS] + ["desc", "title", "foreignObject", "mi", "annotation-xml", "g", "path",
                                            "tr", "th", "tbody", "caption", "colgroup", "optgroup", "button", "form",
                                            "html", "pre", "listing", "noframes", "nobr", "ul", "dd", "hr"]


def clean(s):
    return s.replace("&", "+").replace("\x00", "0")


def soup_fragment(rng):
    r = rng.random()
    if r < 0.24:
        return lex.start_tag(rng, pool=SOUP_TAGS)
    if r < 0.38:
        return lex.end_tag(rng, pool=SOUP_TAGS + lex.TEXT_TAGS)
    if r < 0.50:
        return lex.text(rng)
    if r < 0.60:
        return lex.comment(rng)
    if r < 0.66:
        return lex.doctype(rng)
    if r < 0.81:
        return lex.text_elem(rng)
    if r < 0.84:
        # select / template-in-select / frameset contexts of the ambiguity guard
        return lex.select_frag(rng)
    if r < 0.87:
        # a text-mode start tag with odd endings (F1 family: `=>`, `= >`, `/>`, `a=/>`)
        name = rng.choice(lex.TEXT_TAGS)
        tail = rng.choice([" a=>", " a= >", " a=\n>", "/>", " a=/>", " a=b/>", " a=''>", " a>", " =>", "=>", " a=\">\">", " a='>'>"])
        inner = rng.choice(["<b>x</b>", "x", "<!--", "</b>"])
        return "<" + lex.caseify(rng, name) + tail + inner + ("</" + name + ">" if rng.random() < 0.8 else "")
    if r < 0.96:
        full = rng.choice([lex.start_tag(rng, pool=SOUP_TAGS), lex.end_tag(rng, pool=SOUP_TAGS), lex.comment(rng),
                           lex.doctype(rng), lex.text_elem(rng), "<![CDATA[x]]>"])
        return full[: rng.randrange(1, len(full) + 1)]
    return "".join(chr(rng.choice([60, 62, 47, 33, 45, 61, 34, 39, 32, 97, 65, 93, 91, 10, 13, 63])) for _ in range(rng.randrange(1, 8)))


def no_foreign_root(s):
    low = s.lower()
    return "<svg" not in low and "<math" not in low


def soup_document(rng):
    while True:
        n = rng.choice([1, 1, 2, 2, 3, 3, 4, 5, 6, 8])
        s = "".join(soup_fragment(rng) for _ in range(n))
        if rng.random() < 0.2:
            s = s[: rng.randrange(0, len(s) + 1)]
        s = clean(s)
        if no_foreign_root(s):
            return s


# ---------------------------------------------------------------- (ii) well-nested foreign grammar

SVG_ELEMS = ["g", "path", "circle", "rect", "defs", "use", "a", "text", "tspan", "linearGradient", "clipPath", "style", "script"]
MATH_ELEMS = ["mrow", "mfrac", "msqrt", "msup", "semantics", "mspace", "mtable", "mtr", "mtd", "none"]
SVG_IPS = ["desc", "title", "foreignObject"]
MATH_TEXT_IPS = ["mi", "mo", "mn", "ms", "mtext"]
HTML_INLINE = ["b", "i", "span", "a", "em", "u", "code", "q7", "x-custom"]
HTML_BLOCK = ["div", "p", "ul", "section", "h1", "blockquote"]
HTML_VOID = ["br", "img", "input", "hr", "wbr"]
SAFE_TEXT = ["x", "hello world", " ", "1 > 2", "a]b", "]]", "--", "\n", "é", "a=b", "'q'", "/", "\r\n", "\t"]


# When set, the shapes of the known findings (self-closing root, root directly in foreign content, an HTML
# `title` inside an integration point, CDATA directly in an integration point) are not generated, so that a
# document cannot hide a *different* divergence behind a known one.
_CLEAN = False


def fattrs(rng):
    s = ""
    for _ in range(rng.choice([0, 0, 0, 1, 1, 2])):
        n = rng.choice(["id", "d", "fill", "viewBox", "xlink:href", "class", "xml:lang", "definitionURL", "x"])
        v = rng.choice(["", "b", "M0 0", "x y", "#a", ">", "/"])
        q = rng.choice(['"', "'"])
        s += rng.choice(lex.WS) + (n if rng.random() < 0.15 else f"{n}={q}{v}{q}")
    return s


def cdata(rng):
    return "<![CDATA[" + rng.choice(["x", "<b>", "]]", "]", "]>", "", "</svg>", "<textarea>", "a]]b", "<!--"]) + "]]>"


def html_inside(rng, depth, inline_only=False):
    """well-nested HTML content (may contain text-mode elements and islands).
    `inline_only` (inside annotation-xml): no block elements and no `a` — html5ever 0.39 does not treat MathML
    annotation-xml as a scope boundary ("has an element in button scope" / adoption agency), so with an open
    `<p>` / `<a>` outside the island it pops the whole island where WHATWG does not (an artefact of the
    oracle, see docs/pkg-ref.md)."""
    s = ""
    for _ in range(rng.randrange(0, 4)):
        r = rng.random()
        if r < 0.25:
            s += rng.choice(SAFE_TEXT)
        elif r < 0.45:
            n = rng.choice([x for x in HTML_INLINE if x != "a"] if inline_only else HTML_INLINE + HTML_BLOCK)
            s += "<" + lex.caseify(rng, n) + fattrs(rng) + ">" + html_inside(rng, depth + 1, inline_only) + "</" + lex.caseify(rng, n) + ">"
        elif r < 0.55:
            s += "<" + rng.choice([x for x in HTML_VOID if not (inline_only and x == "hr")]) + fattrs(rng) + rng.choice([">", "/>", " />"])
        elif r < 0.75:
            n = rng.choice(["textarea", "script", "style", "iframe", "noembed", "noscript", "noframes"] + ([] if _CLEAN else ["title"])
                           + ([] if inline_only else ["xmp"]))  # `<hr>` and `<xmp>` also "close a p element"
            inner = rng.choice(["x", "<b>x</b>", "</b>", "<svg>", "</svg>", "<![CDATA[", "<!--", "<!-- </x> -->", "]]>", "", "</" + n[:-1] + ">"])
            s += "<" + lex.caseify(rng, n) + fattrs(rng) + ">" + inner + "</" + lex.caseify(rng, n) + ">"
        elif r < 0.83:
            s += rng.choice(["<!--c-->", "<!-- <svg> -->", "<!---->", "<!--]]>-->"])
        elif r < 0.88 and not _CLEAN:
            # a CDATA section where HTML is expected: directly inside the integration-point element it IS a
            # CDATA section (the adjusted current node is a foreign element), inside an HTML element a bogus comment
            s += cdata(rng)
        elif depth < 3:
            s += island(rng, depth + 1)
    return s


def foreign_children(rng, root, depth):
    s = ""
    for _ in range(rng.randrange(0, 5)):
        r = rng.random()
        if r < 0.2:
            s += rng.choice(SAFE_TEXT)
        elif r < 0.32:
            s += cdata(rng)
        elif r < 0.40:
            s += rng.choice(["<!--c-->", "<!-- </svg> -->", "<!--<![CDATA[-->"])
        elif r < 0.60:
            n = rng.choice(SVG_ELEMS if root == "svg" else MATH_ELEMS)
            if rng.random() < 0.35:
                s += "<" + n + fattrs(rng) + rng.choice(["/>", " />"])
            else:
                inner = foreign_children(rng, root, depth + 1) if depth < 3 else ""
                if n in ("style", "script"):
                    # in foreign content these are ordinary elements: keep the content well-nested markup
                    inner = rng.choice(["x", cdata(rng), "<g></g>", ""])
                s += "<" + n + fattrs(rng) + ">" + inner + "</" + n + ">"
        elif r < 0.90:
            if root == "svg":
                n = rng.choice(SVG_IPS)
                nn = n if rng.random() < 0.8 else rng.choice([n.lower(), n.upper()])
                s += "<" + nn + fattrs(rng) + ">" + html_inside(rng, depth + 1) + "</" + nn + ">"
            else:
                if rng.random() < 0.7:
                    n = rng.choice(MATH_TEXT_IPS)
                    s += "<" + n + fattrs(rng) + ">" + html_inside(rng, depth + 1) + "</" + n + ">"
                else:
                    enc = rng.choice(["text/html", "application/xhtml+xml", "TEXT/HTML", "Application/XHTML+XML"])
                    q = rng.choice(['"', "'", ""])
                    s += "<annotation-xml" + rng.choice(["", " id=a"]) + " encoding=" + q + enc + q + ">" + html_inside(rng, depth + 1, True) + "</annotation-xml>"
        elif depth < 3 and rng.random() < 0.5 and not _CLEAN:
            # a foreign root directly inside foreign content (F11 family)
            s += island(rng, depth + 1)
    return s


def island(rng, depth=0):
    root = rng.choice(["svg", "math"])
    name = lex.caseify(rng, root)
    if rng.random() < 0.12 and not _CLEAN:
        return "<" + name + fattrs(rng) + rng.choice(["/>", " />"])
    return "<" + name + fattrs(rng) + ">" + foreign_children(rng, root, depth) + "</" + name + ">"


def foreign_document(rng, no_known=False):
    global _CLEAN
    _CLEAN = no_known
    pre = rng.choice(["", "", "<!DOCTYPE html>", "<p>", "<div>a", "<body>", "x"])
    s = pre
    for _ in range(rng.choice([1, 1, 1, 2, 3])):
        s += island(rng)
        s += rng.choice(["", "", "x", "<p>y</p>", "<textarea><b></textarea>", "<b>z</b>", "<title><i></title>", "<!--c-->"])
    return clean(s)


# ---------------------------------------------------------------- known shapes (kept at a low rate)

KNOWN = [
    "<svg/><textarea><b>x</b></textarea>", "<math/><title><i></title>", "<div><svg /><style><a></style>",
    "<svg><math><mi><textarea><b></textarea></mi></math></svg>", "<math><svg><title><textarea><b></textarea></title></svg></math>",
    "<svg><desc><title>a</title><textarea><b></textarea></desc></svg>", "<math><mi><mi>a</mi><textarea><b></textarea></mi></math>",
    "<svg><foreignObject><desc>a</desc><xmp><b></xmp></foreignObject></svg>",
    "<textarea a=><b>x</b></textarea>", "<script a=><b>x</b></script><i>", "<title a= ><b></title>",
    "<svg><desc><![CDATA[x<b>]]></desc></svg>", "<math><mi><![CDATA[<textarea>]]><b></b></mi></math>",
    "<frameset><iframe class=\"", "<select><title a",
]


def cuts_for(rng, n):
    r = rng.random()
    if r < 0.45 or n == 0:
        return []
    if r < 0.55:
        return list(range(1, n))
    k = rng.randrange(1, 5)
    cs = sorted(rng.randrange(0, n + 1) for _ in range(k))
    if rng.random() < 0.2:
        cs = sorted(cs + [rng.choice(cs)])
    return cs


def gen(rng, n, tier, pid):
    out = []
    for _ in range(n):
        r = rng.random()
        if r < 0.55:
            doc = soup_document(rng)
        elif r < 0.985:
            doc = foreign_document(rng, no_known=rng.random() < 0.4)
        else:
            doc = rng.choice(KNOWN)
        if doc.startswith("\ufeff"):
            doc = doc[1:]
        b = doc.encode("utf-8")
        out.append("%s %s %s" % (rng.choice(MODES), b.hex() or "-", ",".join(map(str, cuts_for(rng, len(b)))) or "-"))
    return out


def nontrivial(case, obs):
    return len(case.split()[1]) > 16


def stats(cases, obs):
    from collections import Counter

    c = Counter()
    for case, o in zip(cases, obs):
        f = case.split()
        c["cases"] += 1
        c["mode:" + f[0]] += 1
        doc = bytes.fromhex(f[1]) if f[1] != "-" else b""
        low = doc.lower()
        c["family:" + ("foreign" if (b"<svg" in low or b"<math" in low) else "soup")] += 1
        if f[2] != "-":
            c["chunked"] += 1
        c["result:" + o.split()[0]] += 1
        for part in o.split(" ||ORACLE:")[1:]:
            c["oracle:" + part.split()[0]] += 1
    return dict(c)
