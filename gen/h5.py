"""Case generator for lane `h5` (property C03, implementation only: lol-html strict vs html5ever 0.39 + RcDom).

case: `<mode> <input hex, UTF-8> <cuts>`      mode in all | el | text | comment | doctype

Two document families = the claimed input domain of C03:
 (i)  tag soup in the HTML namespace: the adversarial fragment alphabet of gen/lex.py (every tokenizer
      construct, truncated constructs, all text-mode elements, select / template / frameset / table,
      case variants, odd attribute syntax) with NO svg / math tag;
 (ii) documents from a recursive well-nested foreign-content grammar: an svg / math root, explicitly
      closed or self-closing; children: foreign elements (closed or self-closing), CDATA sections, text,
      comments, integration points (desc / title / foreignObject; mi mo mn ms mtext;
      annotation-xml[encoding=text/html|application/xhtml+xml]) explicitly closed, with well-nested HTML
      inside — including text-mode elements and, recursively, islands.
 (iii) the shapes of package tb's findings (docs/pkg-tb.md §5: template + col, select popped with its template +
      frameset, mglyph / malignmark in a MathML text integration point, frameset inside an integration point, a table-structure
      start tag inside an integration point of an island in a table, an end tag walking to a foreign ancestor, and
      the legacy-select-only shapes) with their near-misses — tag soup in the HTML namespace resp. well-nested
      islands, i.e. inside (i) / (ii), but too rare to be hit by those streams.
Restrictions that only serve the comparison with html5ever (see harness/src/lanes/h5.rs): no `&`, no
NUL, valid UTF-8, no BOM at the start.
"""
import lex

MODES = ["all"] * 6 + ["el", "text", "comment", "doctype"]

# ---------------------------------------------------------------- (i) HTML tag soup, no svg/math

SOUP_TAGS = [t for t in lex.PLAIN_TAGS] + ["desc", "title", "foreignObject", "mi", "annotation-xml", "g", "path",
                                            "tr", "th", "tbody", "caption", "colgroup", "optgroup", "button", "form",
                                            "html", "pre", "listing", "noframes", "nobr", "ul", "dd", "hr"]


def clean(s):
    return s.replace("&", "+").replace("\x00", "0")


def soup_fragment(rng):
    r = rng.random()
    if r < 0.24:
        return lex.start_tag(rng, pool=SOUP_TAGS)
    if r < 0.38:
        return lex.end_tag(rng, pool=SOUP_TAGS + lex.TEXT_TAGS)
    if r < 0.50:
        return lex.text(rng)
    if r < 0.60:
        return lex.comment(rng)
    if r < 0.66:
        return lex.doctype(rng)
    if r < 0.81:
        return lex.text_elem(rng)
    if r < 0.84:
        # select / template-in-select / frameset contexts of the ambiguity guard
        return lex.select_frag(rng)
    if r < 0.87:
        # a text-mode start tag with odd endings (F1 family: `=>`, `= >`, `/>`, `a=/>`)
        name = rng.choice(lex.TEXT_TAGS)
        tail = rng.choice([" a=>", " a= >", " a=\n>", "/>", " a=/>", " a=b/>", " a=''>", " a>", " =>", "=>", " a=\">\">", " a='>'>"])
        inner = rng.choice(["<b>x</b>", "x", "<!--", "</b>"])
        return "<" + lex.caseify(rng, name) + tail + inner + ("</" + name + ">" if rng.random() < 0.8 else "")
    if r < 0.96:
        full = rng.choice([lex.start_tag(rng, pool=SOUP_TAGS), lex.end_tag(rng, pool=SOUP_TAGS), lex.comment(rng),
                           lex.doctype(rng), lex.text_elem(rng), "<![CDATA[x]]>"])
        return full[: rng.randrange(1, len(full) + 1)]
    return "".join(chr(rng.choice([60, 62, 47, 33, 45, 61, 34, 39, 32, 97, 65, 93, 91, 10, 13, 63])) for _ in range(rng.randrange(1, 8)))


def no_foreign_root(s):
    low = s.lower()
    return "<svg" not in low and "<math" not in low


def soup_document(rng):
    while True:
        n = rng.choice([1, 1, 2, 2, 3, 3, 4, 5, 6, 8])
        s = "".join(soup_fragment(rng) for _ in range(n))
        if rng.random() < 0.2:
            s = s[: rng.randrange(0, len(s) + 1)]
        s = clean(s)
        if no_foreign_root(s):
            return s


# ---------------------------------------------------------------- (ii) well-nested foreign grammar

SVG_ELEMS = ["g", "path", "circle", "rect", "defs", "use", "a", "text", "tspan", "linearGradient", "clipPath", "style", "script"]
MATH_ELEMS = ["mrow", "mfrac", "msqrt", "msup", "semantics", "mspace", "mtable", "mtr", "mtd", "none"]
SVG_IPS = ["desc", "title", "foreignObject"]
MATH_TEXT_IPS = ["mi", "mo", "mn", "ms", "mtext"]
HTML_INLINE = ["b", "i", "span", "a", "em", "u", "code", "q7", "x-custom"]
HTML_BLOCK = ["div", "p", "ul", "section", "h1", "blockquote"]
HTML_VOID = ["br", "img", "input", "hr", "wbr"]
SAFE_TEXT = ["x", "hello world", " ", "1 > 2", "a]b", "]]", "--", "\n", "é", "a=b", "'q'", "/", "\r\n", "\t"]


# When set, the shapes of the known findings (self-closing root, root directly in foreign content, an HTML
# `title` inside an integration point, CDATA directly in an integration point) are not generated, so that a
# document cannot hide a *different* divergence behind a known one.
_CLEAN = False


def fattrs(rng):
    s = ""
    for _ in range(rng.choice([0, 0, 0, 1, 1, 2])):
        n = rng.choice(["id", "d", "fill", "viewBox", "xlink:href", "class", "xml:lang", "definitionURL", "x"])
        v = rng.choice(["", "b", "M0 0", "x y", "#a", ">", "/"])
        q = rng.choice(['"', "'"])
        s += rng.choice(lex.WS) + (n if rng.random() < 0.15 else f"{n}={q}{v}{q}")
    return s


def cdata(rng):
    # the opener is case-sensitive in the standard: a differently spelled one is a bogus comment
    opener = "<![CDATA[" if rng.random() < 0.85 else rng.choice(["<![cdata[", "<![CData[", "<![CDATA ["])
    return opener + rng.choice(["x", "<b>", "]]", "]", "]>", "", "</svg>", "<textarea>", "a]]b", "<!--"]) + "]]>"


def html_inside(rng, depth, inline_only=False):
    """well-nested HTML content (may contain text-mode elements and islands).
    `inline_only` (inside annotation-xml): no block elements and no `a` — html5ever 0.39 does not treat MathML
    annotation-xml as a scope boundary ("has an element in button scope" / adoption agency), so with an open
    `<p>` / `<a>` outside the island it pops the whole island where WHATWG does not (an artefact of the
    oracle, see docs/pkg-ref.md)."""
    s = ""
    for _ in range(rng.randrange(0, 4)):
        r = rng.random()
        if r < 0.25:
            s += rng.choice(SAFE_TEXT)
        elif r < 0.45:
            n = rng.choice([x for x in HTML_INLINE if x != "a"] if inline_only else HTML_INLINE + HTML_BLOCK)
            s += "<" + lex.caseify(rng, n) + fattrs(rng) + ">" + html_inside(rng, depth + 1, inline_only) + "</" + lex.caseify(rng, n) + ">"
        elif r < 0.55:
            s += "<" + rng.choice([x for x in HTML_VOID if not (inline_only and x == "hr")]) + fattrs(rng) + rng.choice([">", "/>", " />"])
        elif r < 0.75:
            n = rng.choice(["textarea", "script", "style", "iframe", "noembed", "noscript", "noframes"] + ([] if _CLEAN else ["title"])
                           + ([] if inline_only else ["xmp"]))  # `<hr>` and `<xmp>` also "close a p element"
            inner = rng.choice(["x", "<b>x</b>", "</b>", "<svg>", "</svg>", "<![CDATA[", "<!--", "<!-- </x> -->", "]]>", "", "</" + n[:-1] + ">"])
            s += "<" + lex.caseify(rng, n) + fattrs(rng) + ">" + inner + "</" + lex.caseify(rng, n) + ">"
        elif r < 0.83:
            s += rng.choice(["<!--c-->", "<!-- <svg> -->", "<!---->", "<!--]]>-->"])
        elif r < 0.88 and not _CLEAN:
            # a CDATA section where HTML is expected: directly inside the integration-point element it IS a
            # CDATA section (the adjusted current node is a foreign element), inside an HTML element a bogus comment
            s += cdata(rng)
        elif depth < 3:
            s += island(rng, depth + 1)
    return s


def foreign_children(rng, root, depth):
    s = ""
    for _ in range(rng.randrange(0, 5)):
        r = rng.random()
        if r < 0.2:
            s += rng.choice(SAFE_TEXT)
        elif r < 0.32:
            s += cdata(rng)
        elif r < 0.40:
            s += rng.choice(["<!--c-->", "<!-- </svg> -->", "<!--<![CDATA[-->"])
        elif r < 0.60:
            n = rng.choice(SVG_ELEMS if root == "svg" else MATH_ELEMS)
            if rng.random() < 0.35:
                s += "<" + n + fattrs(rng) + rng.choice(["/>", " />"])
            else:
                inner = foreign_children(rng, root, depth + 1) if depth < 3 else ""
                if n in ("style", "script"):
                    # in foreign content these are ordinary elements: keep the content well-nested markup
                    inner = rng.choice(["x", cdata(rng), "<g></g>", ""])
                s += "<" + n + fattrs(rng) + ">" + inner + "</" + n + ">"
        elif r < 0.90:
            if root == "svg":
                n = rng.choice(SVG_IPS)
                nn = n if rng.random() < 0.8 else rng.choice([n.lower(), n.upper()])
                s += "<" + nn + fattrs(rng) + ">" + html_inside(rng, depth + 1) + "</" + nn + ">"
            else:
                if rng.random() < 0.7:
                    n = rng.choice(MATH_TEXT_IPS)
                    s += "<" + n + fattrs(rng) + ">" + html_inside(rng, depth + 1) + "</" + n + ">"
                else:
                    enc = rng.choice(["text/html", "application/xhtml+xml", "TEXT/HTML", "Application/XHTML+XML"])
                    q = rng.choice(['"', "'", ""])
                    s += "<annotation-xml" + rng.choice(["", " id=a"]) + " encoding=" + q + enc + q + ">" + html_inside(rng, depth + 1, True) + "</annotation-xml>"
        elif depth < 3 and rng.random() < 0.5 and not _CLEAN:
            # a foreign root directly inside foreign content (F11 family)
            s += island(rng, depth + 1)
    return s


def island(rng, depth=0):
    root = rng.choice(["svg", "math"])
    name = lex.caseify(rng, root)
    if rng.random() < 0.12 and not _CLEAN:
        return "<" + name + fattrs(rng) + rng.choice(["/>", " />"])
    return "<" + name + fattrs(rng) + ">" + foreign_children(rng, root, depth) + "</" + name + ">"


def foreign_document(rng, no_known=False):
    global _CLEAN
    _CLEAN = no_known
    pre = rng.choice(["", "", "<!DOCTYPE html>", "<p>", "<div>a", "<body>", "x"])
    s = pre
    for _ in range(rng.choice([1, 1, 1, 2, 3])):
        s += island(rng)
        s += rng.choice(["", "", "x", "<p>y</p>", "<textarea><b></textarea>", "<b>z</b>", "<title><i></title>", "<!--c-->"])
    return clean(s)


# ---------------------------------------------------------------- known shapes (kept at a low rate)

KNOWN = [
    "<svg/><textarea><b>x</b></textarea>", "<math/><title><i></title>", "<div><svg /><style><a></style>",
    "<svg><math><mi><textarea><b></textarea></mi></math></svg>", "<math><svg><title><textarea><b></textarea></title></svg></math>",
    "<svg><desc><title>a</title><textarea><b></textarea></desc></svg>", "<math><mi><mi>a</mi><textarea><b></textarea></mi></math>",
    "<svg><foreignObject><desc>a</desc><xmp><b></xmp></foreignObject></svg>",
    "<textarea a=><b>x</b></textarea>", "<script a=><b>x</b></script><i>", "<title a= ><b></title>",
    "<svg><desc><![CDATA[x<b>]]></desc></svg>", "<math><mi><![CDATA[<textarea>]]><b></b></mi></math>",
    "<frameset><iframe class=\"", "<select><title a",
    "<template><col><textarea><script>alert(1)</script></textarea>", "<template><select></template><frameset><script><frame src=x></script>",
    "<math><mi><mglyph><textarea><img src onerror=alert(1)>", "<svg><desc><frameset></frameset></desc><noframes><b>x</b></noframes>",
    "<svg><desc><frameset></frameset></desc><![CDATA[<b>]]>",
    "<table><tr><td><svg><foreignObject><td></td></foreignObject><![CDATA[><img src onerror=alert(1)>]]>",
    "<table><svg><desc><td></td></desc><![CDATA[><script>alert(1)</script>]]>", "<svg><a><desc><a><a></a></a><textarea><img src onerror=alert(1)>",
    "<svg><x><desc><p><x><hr></x><textarea><img src onerror=alert(1)>",
    "<table><td><select><td><select><xmp><script>alert(1)</script>", "<template><select></template><select><xmp>", "<body><frameset><select><noframes>",
]


# ---------------------------------------------------------------- shapes of package tb's findings + near-misses
# docs/pkg-tb.md §5. Each stream returns (label, document); label "<stream>:pos" = the shape is present (a
# divergence is expected when the content tokenises differently as text and as markup), "<stream>:near" = a
# near-miss (one ingredient removed: the oracle must stay silent or name something else).

TEXT_SWITCH = ["textarea", "title", "style", "script", "xmp", "iframe", "noembed", "noframes", "noscript", "plaintext"]
TB_CONTENT = ["<b>x</b>", "<script>alert(1)</script>", "x", "<!--c-->", "<img src onerror=alert(1)>", "<svg><g></g></svg>",
              "</b>", "<![CDATA[x]]>", "<p>", "<frame src=x>", "<i>y", "a<br>b", ""]


def tag_open(rng, name, extra=""):
    return "<" + lex.caseify(rng, name) + extra + rng.choice(["", "", " id=a", " class='k'", "\n", " x=\"1\" y"]) + ">"


def text_elem_tb(rng, name=None, close_p=0.85):
    name = name or rng.choice(TEXT_SWITCH)
    inner = rng.choice(TB_CONTENT)
    if name == "script":
        inner = inner.replace("<!--", "<!-")  # keep clear of the escaped states: one end tag ends the element
    s = tag_open(rng, name) + inner
    if rng.random() < close_p:
        s += "</" + lex.caseify(rng, name) + ">"
    return s


def tb1(rng):
    """F-tb-1: text-switching start tag "in column group" with a template as the current node."""
    pre = rng.choice(["", "", "<!DOCTYPE html>", "<div>", "<body>", "<table>", "x", "<p>a"])
    kind = rng.random()
    before = "".join(rng.choice(["", "", " ", "\n", "<!--c-->", "<meta>", "<title>t</title>", "<script>s</script>", "<style></style>", "x"])
                     for _ in range(rng.choice([0, 0, 1, 2])))
    col = rng.choice(["<col>", "<COL span=2>", "<col/>", "<col><col>", "<col></col>", "<col></colgroup>", "<col><template></template>",
                      "<col><!--c-->", "<col> ", "<col><template><b></b></template>", "<col><div>", "<col></div><tr>"])
    tail = rng.choice(["", "", "</template>", "<b>t</b>", "</template><textarea><i></textarea>", "<p>z", "</template><b>k</b>"])
    n_elems = rng.choice([1, 1, 1, 2])
    body = "".join(text_elem_tb(rng) for _ in range(n_elems))
    if kind < 0.5:
        label, doc = "tb1:pos", pre + tag_open(rng, "template") + before + col + body + tail
        if rng.random() < 0.2:  # nested in another template
            doc = pre + "<template>" + tag_open(rng, "template") + before + col + body + "</template>" + tail
    else:
        label = "tb1:near"
        v = rng.randrange(8)
        if v == 0:    # no template at all
            doc = pre + before + col + body + tail.replace("</template>", "")
        elif v == 1:  # a real table: colgroup is the current node
            doc = pre + "<table>" + before + col + body + tail.replace("</template>", "</table>")
        elif v == 2:  # colgroup / col in colgroup under the template: current node IS a colgroup
            doc = pre + tag_open(rng, "template") + before + rng.choice(["<colgroup>", "<colgroup><col>", "<colgroup></colgroup>", "<colgroup><col></colgroup>"]) + body + tail
        elif v == 3:  # the template mode was replaced before the col
            doc = pre + tag_open(rng, "template") + rng.choice(["<div></div>", "<tr>", "<td>", "<caption></caption>", "<tbody>", "<p>", "<b>"]) + col + body + tail
        elif v == 4:  # template closed before the text element
            doc = pre + tag_open(rng, "template") + before + col + "</template>" + body + tail.replace("</template>", "")
        elif v == 5:  # no col
            doc = pre + tag_open(rng, "template") + before + body + tail
        elif v == 6:  # the shape, but nothing that tokenises differently
            name = rng.choice(TEXT_SWITCH[:-1])
            doc = pre + tag_open(rng, "template") + before + col + "<" + name + ">" + rng.choice(["x", "", "a b"]) + "</" + name + ">" + tail
        else:         # template inside svg: a foreign element
            doc = pre + "<svg><template>" + col + "</template></svg>" + body
    return label, doc


def tb2(rng):
    """F-tb-2: select popped with its template; guard stays "in select"; frameset; script / textarea."""
    pre = rng.choice(["", "", "<!DOCTYPE html>", " ", "<!--c-->", "<head>", "<div>", "<html>"])
    tpre = rng.choice(["", "", " ", "<div>", "<p>x</p>", "<b>"])
    sel = tag_open(rng, "select") + rng.choice(["", "", "<option>a", "<option>a</option>", "<optgroup>", "x"])
    between = rng.choice(["", "", "<!--c-->", " ", "<meta>", "\n"])
    fs = tag_open(rng, "frameset") + rng.choice(["", "", "<frame>", "<frame src=y>", " "])
    elem_name = rng.choice(["script", "script", "script", "textarea"])
    elem = text_elem_tb(rng, elem_name)
    tail = rng.choice(["", "", "</frameset>", "<noframes><b></noframes>", "<frame>", "</frameset><noframes>z</noframes>"])
    if rng.random() < 0.5:
        return "tb2:pos", pre + "<template>" + tpre + sel + "</template>" + between + fs + elem + tail
    v = rng.randrange(7)
    if v == 0:    # select closed explicitly
        doc = pre + "<template>" + tpre + sel + "</select></template>" + between + fs + elem + tail
    elif v == 1:  # no template: select closed
        doc = pre + sel + "</select>" + between + fs + elem + tail
    elif v == 2:  # no template, select left open (frameset is then ignored)
        doc = pre + sel + between + fs + elem + tail
    elif v == 3:  # select left through an input
        doc = pre + "<template>" + tpre + sel + "<input></template>" + between + fs + elem + tail
    elif v == 4:  # frameset-ok already "not ok" / a body with content: the frameset is ignored
        doc = pre + "<template>" + tpre + sel + "</template>" + rng.choice(["x", "<p>x", "<br>", "<table>", "<body>"]) + fs + elem + tail
    elif v == 5:  # other text tags: refused by the guard ("in select")
        doc = pre + "<template>" + tpre + sel + "</template>" + between + fs + text_elem_tb(rng, rng.choice(["title", "style", "xmp", "noframes", "iframe"])) + tail
    else:         # no frameset
        doc = pre + "<template>" + tpre + sel + "</template>" + between + elem + tail
    return "tb2:near", doc


def tb4(rng):
    """F-tb-4: mglyph / malignmark directly inside a MathML text integration point."""
    pre = rng.choice(["", "", "<p>", "<div>a", "<!DOCTYPE html>"])
    wrap_o, wrap_c = rng.choice([("", ""), ("", ""), ("<mrow>", "</mrow>"), ("<semantics>", "</semantics>")])
    ip = rng.choice(MATH_TEXT_IPS)
    g = rng.choice(["mglyph", "malignmark"])
    gname = lex.caseify(rng, g)
    before = rng.choice(["", "", "x", "<b></b>", " ", "<!--c-->"])
    inner = rng.choice([text_elem_tb(rng, close_p=1.0), text_elem_tb(rng, close_p=1.0), "<![CDATA[<b>]]>", "<![CDATA[x]]>", "<g></g>",
                        "x", "", "<mglyph></mglyph>", text_elem_tb(rng, close_p=0.3)])
    after = rng.choice(["", "", "x", "<b>k</b>", "<![CDATA[y]]>", text_elem_tb(rng, close_p=1.0)])
    tail = rng.choice(["", "<p>y</p>", "<textarea><b></textarea>", "x"])
    math_o, math_c = "<math>" + wrap_o, wrap_c + "</math>"
    if rng.random() < 0.5:
        doc = pre + math_o + f"<{ip}>" + before + f"<{gname}{fattrs(rng)}>" + inner + f"</{gname}>" + after + f"</{ip}>" + math_c + tail
        if rng.random() < 0.15:
            doc = doc[: rng.randrange(len(doc) // 2, len(doc) + 1)]
        return "tb4:pos", doc
    v = rng.randrange(6)
    if v == 0:    # directly in math: foreign for both
        doc = pre + math_o + f"<{gname}>" + inner + f"</{gname}>" + math_c + tail
    elif v == 1:  # inside an HTML element inside the integration point: an unknown HTML element for both
        w = rng.choice(["b", "span", "div"])
        doc = pre + math_o + f"<{ip}><{w}><{gname}>" + inner + f"</{gname}></{w}></{ip}>" + math_c + tail
    elif v == 2:  # self-closing: popped at once
        doc = pre + math_o + f"<{ip}>" + before + f"<{gname}/>" + inner + after + f"</{ip}>" + math_c + tail
    elif v == 3:  # an HTML integration point of SVG: HTML rules
        sip = rng.choice(SVG_IPS)
        doc = pre + f"<svg><{sip}><{gname}>" + inner + f"</{gname}></{sip}></svg>" + tail
    elif v == 4:  # annotation-xml[text/html]: HTML rules
        doc = pre + math_o + "<annotation-xml encoding=text/html>" + f"<{gname}>" + inner + f"</{gname}></annotation-xml>" + math_c + tail
    else:         # plain HTML
        doc = pre + f"<{gname}>" + inner + f"</{gname}>" + tail
    return "tb4:near", doc


def tb5(rng):
    """F-tb-5: a frameset start tag inside an integration point while frameset-ok is still "ok"."""
    ok_pre = rng.choice(["", "", "<!DOCTYPE html>", " ", "<div>", "<p>", "<!--c-->", "<b>", "<html>"])
    root_o, ip_o, ip_c, root_c = rng.choice([
        ("<svg>", "<desc>", "</desc>", "</svg>"), ("<svg>", "<title>", "</title>", "</svg>"),
        ("<svg>", "<foreignObject>", "</foreignObject>", "</svg>"), ("<math>", "<mi>", "</mi>", "</math>"),
        ("<math>", "<annotation-xml encoding=text/html>", "</annotation-xml>", "</math>"),
        ("<svg><g>", "<desc>", "</desc>", "</g></svg>"), ("<math><mrow>", "<mtext>", "</mtext>", "</mrow></math>")])
    isl_o, isl_c = root_o + ip_o, ip_c + root_c
    inner_o, inner_c = rng.choice([("", ""), ("", ""), ("<b>", "</b>"), ("<div>", "</div>"), ("<span><i>", "</i></span>")])
    fs = tag_open(rng, "frameset") + rng.choice(["", "", "<frame>", "<frame src=x>"]) + rng.choice(["</frameset>", "</frameset>", ""])
    # what follows the integration point *inside* the island is where the two parsers are in different namespaces
    mid = rng.choice(["<![CDATA[<b>]]>", "<noframes><b>x</b></noframes>", "<noframes><!--</noframes>", "<g></g>", "", "x", "<![CDATA[x]]>"])
    tail = rng.choice(["<noframes><b>x</b></noframes>", "<![CDATA[<b>]]>", "<noframes><!--</noframes>", "<g></g>", "x", "",
                       "<noframes></b></noframes><frame>", "<!--c-->"])
    if rng.random() < 0.5:
        doc = ok_pre + isl_o + inner_o + fs + inner_c + rng.choice([ip_c, ip_c, ""]) + mid + rng.choice([root_c, root_c, ""]) + tail
        return "tb5:pos", doc
    v = rng.randrange(5)
    if v == 0:    # frameset-ok "not ok": text / br / … before
        # (an explicit <body> start tag sets the flag to "not ok" too)
        doc = rng.choice(["x", "<br>", "<p>x", "<input>", "<li>", "a<div>", "<body>"]) + isl_o + inner_o + fs + inner_c + isl_c + tail
    elif v == 1:  # text inside the island before the frameset
        doc = ok_pre + isl_o + rng.choice(["a", "<li>", "<br>", "<b>x"]) + inner_o + fs + inner_c + isl_c + tail
    elif v == 2:  # frameset as a foreign element (not in an integration point)
        root = rng.choice(["svg", "math"])
        doc = ok_pre + f"<{root}>" + fs + f"</{root}>" + tail.replace("<![CDATA[<b>]]>", "")
    elif v == 3:  # frameset outside any island
        doc = ok_pre + fs + tail.replace("<![CDATA[<b>]]>", "<!--d-->")
    else:         # island without frameset
        doc = ok_pre + isl_o + inner_o + inner_c + isl_c + tail
    return "tb5:near", doc


def tb3(rng):
    """F-tb-3a/b/c: divergences under the *legacy* select text only; html5ever 0.39 implements the 2025 text, so
    these must show NO divergence (the guard is merely conservative there)."""
    t = rng.choice(["xmp", "noframes", "title", "style", "textarea", "script", "iframe", "noembed", "noscript"])
    elem = text_elem_tb(rng, t)
    v = rng.randrange(3)
    if v == 0:
        doc = rng.choice(["<table><td>", "<table><tr><td>", "<table><tbody><tr><th>", "<table><caption>"]) + "<select>" + rng.choice(["", "<option>a"]) \
            + rng.choice(["<td>", "<tr>", "<caption>", "<th>"]) + "<select>" + elem + rng.choice(["", "<script>alert(1)</script>", "</select>x"])
    elif v == 1:
        doc = "<template>" + rng.choice(["", "<div>"]) + "<select></template><select>" + elem + rng.choice(["", "</select>", "<b>x</b>"])
    else:
        doc = rng.choice(["<body>", "<p>", "x"]) + "<frameset>" + "<select>" + elem + rng.choice(["", "</select>"])
    return "tb3:legacy", doc


TABLE_STRUCT = ["caption", "col", "colgroup", "tbody", "td", "tfoot", "th", "thead", "tr"]
ISLAND_IPS = [("<svg>", "<desc>", "</desc>", "</svg>"), ("<svg>", "<title>", "</title>", "</svg>"),
              ("<svg>", "<foreignObject>", "</foreignObject>", "</svg>"), ("<math>", "<mi>", "</mi>", "</math>"),
              ("<math>", "<annotation-xml encoding=text/html>", "</annotation-xml>", "</math>"),
              ("<svg><g>", "<desc>", "</desc>", "</g></svg>"), ("<math><mrow>", "<mtext>", "</mtext>", "</mrow></math>")]
# content that a parser still inside the island (SVG / MathML) and a parser back in HTML tokenise differently
AFTER_IP = ["<![CDATA[><img src onerror=alert(1)>]]>", "<![CDATA[><script>alert(1)</script>]]>", "<textarea><img src onerror=alert(1)></textarea>",
            "<style><b></style>", "<![CDATA[<b>]]>", "<title><i></title>", "<g></g>", "", "x"]


def tb7(rng):
    """F-tb-7: a table-structure start tag inside an integration point of an island that sits in a table."""
    # (prefix reaching a table insertion mode, may `table` act there?)
    cell_ctx = [("<table><tr><td>", False), ("<table><td>", False), ("<table><tr><th>", False), ("<table><caption>", False),
                ("<table><tbody><tr><td>a", False), ("<div><table><tr><td>", False)]
    foster_ctx = [("<table>", True), ("<table><tr>", True), ("<table><tbody>", True), ("<table><thead><tr>", True)]
    ctx, table_acts = rng.choice(cell_ctx + cell_ctx + foster_ctx)
    root_o, ip_o, ip_c, root_c = rng.choice(ISLAND_IPS)
    wrap_o, wrap_c = rng.choice([("", ""), ("", ""), ("<b>", "</b>"), ("<div>", "</div>"), ("<p>", "</p>"), ("<span><i>", "</i></span>")])
    if "annotation-xml" in ip_o and wrap_o in ("<p>", "<div>"):
        # html5ever does not treat annotation-xml as a scope boundary (docs/pkg-ref.md): a stray </p> or a <div> with an
        # open <p> outside would be artefacts of the oracle
        wrap_o, wrap_c = "", ""
    tags = TABLE_STRUCT + (["table"] if table_acts else [])
    t = rng.choice(tags)
    # (`table` is always closed: an open table makes the tree builder ignore the end tags behind it — F-tb-6 family)
    tag = tag_open(rng, t) + rng.choice(["", "", "x", " "]) + ("" if t == "col" else "</table>" if t == "table" else rng.choice(["</" + t + ">", "</" + t + ">", ""]))
    after = rng.choice(AFTER_IP)
    tail = rng.choice(["", "", "</td></tr></table>", "</table>", "x", "<p>y</p>"])
    closes = rng.choice([ip_c, ip_c, ""]) + after + rng.choice([root_c, root_c, ""])
    if rng.random() < 0.5:
        return "tb7:pos", ctx + root_o + ip_o + wrap_o + tag + wrap_c + closes + tail
    v = rng.randrange(7)
    if v == 0:    # the island is not inside a table: "in body" ignores the tag
        doc = rng.choice(["", "<div>", "<p>", "<!DOCTYPE html>", "<ul><li>"]) + root_o + ip_o + wrap_o + tag + wrap_c + closes + tail.replace("</td></tr></table>", "").replace("</table>", "")
    elif v == 1:  # a table of its own inside the integration point: the tag belongs to that table
        if t == "table":  # (`<table>` in a table mode of the inner table closes it: the surplus </table> is the end-tag form of the shape)
            tag = "<tr><td>x</td></tr>"
        inner = "<table>" + rng.choice(["", "<tr>", "<tbody>"]) + tag + "</table>"
        doc = rng.choice([c for c, _ in cell_ctx]) + root_o + ip_o + wrap_o + inner + wrap_c + ip_c + after + root_c + tail
    elif v == 2:  # `<table>` in a cell / caption: "in body" inserts a nested table
        c2 = rng.choice([c for c, _ in cell_ctx])
        doc = c2 + root_o + ip_o + wrap_o + "<table></table>" + wrap_c + ip_c + after + root_c + tail
    elif v == 3:  # the island is closed before the tag
        doc = ctx + root_o + ip_o + wrap_o + wrap_c + ip_c + root_c + tag + after + tail
    elif v == 4:  # the tag in foreign (non-integration-point) content: a foreign element
        doc = ctx + root_o + tag + after + root_c + tail
    elif v == 5:  # a template between the table and the island: mode "in body"
        doc = rng.choice(["<table><tr><td>", "<td>", "<table><td>"]) + "<template>" + root_o + ip_o + wrap_o + tag + wrap_c + ip_c + after + root_c + "</template>" + tail
    else:         # other start tags in the same place
        other = rng.choice(["div", "b", "li", "option", "x", "span"])  # (not p: a stray </p> in annotation-xml is an html5ever artefact)
        doc = ctx + root_o + ip_o + wrap_o + f"<{other}>x</{other}>" + wrap_c + ip_c + after + root_c + tail
    return "tb7:near", doc


def tb8(rng):
    """F-tb-8: an end tag arriving while the integration-point element is the current node walks down the foreign
    part of the stack and pops a like-named foreign ancestor."""
    pre = rng.choice(["", "", "<p>", "<div>a", "<!DOCTYPE html>"])
    math = rng.random() < 0.3
    if math:
        root, anc, ip, ip_c = "math", rng.choice(["mrow", "x", "semantics"]), rng.choice(MATH_TEXT_IPS), None
    else:
        root, anc, ip, ip_c = "svg", rng.choice(["a", "a", "x", "g", "text"]), rng.choice(["desc", "title", "foreignObject"]), None
    ip_o, ip_c = f"<{ip}>", f"</{ip}>"
    after = rng.choice(["<textarea><img src onerror=alert(1)>", "<textarea><b></textarea>", "<style><b></style>", "<![CDATA[<b>]]>",
                        "<title><i></title>", "x", ""])
    tail = rng.choice(["", f"</{root}>", f"</{ip}></{root}>", "<p>y"])
    # ways to have </anc> arrive with the integration point as current node
    forms = []
    if anc == "a":
        forms.append(f"<a><a></a></a>")                      # adoption agency closes the first <a>
        forms.append(f"<a>x<a>y</a></a>")
    forms.append(f"<p><{anc}><hr></{anc}>")                   # <hr> closes the <p> (and the <{anc}> in it)
    forms.append(f"<p><{anc}><div></div></{anc}>")
    forms.append(f"<li><{anc}><li></{anc}>")
    forms.append(f"</{anc}>")                                  # stray
    forms.append(f"<{anc}></{anc}></{anc}>")                  # one end tag too many
    forms.append(f"<b></b></{anc.upper()}>")
    form = rng.choice(forms)
    if rng.random() < 0.5:
        return "tb8:pos", pre + f"<{root}><{anc}{fattrs(rng)}>" + ip_o + form + after + tail
    v = rng.randrange(6)
    if v == 0:    # the HTML child closed explicitly, everything well-nested
        doc = pre + f"<{root}><{anc}>" + ip_o + f"<{anc}>x</{anc}>" + ip_c + f"</{anc}>" + after.replace("<![CDATA[<b>]]>", "") + f"</{root}>"
    elif v == 1:  # no like-named foreign ancestor
        other = "g" if anc != "g" else "x"
        doc = pre + f"<{root}><{other}>" + ip_o + form + after + tail
    elif v == 2:  # the like-named ancestor is an HTML element outside the island
        doc = pre + f"<{anc}><{root}>" + ip_o + form + after + tail
    elif v == 3:  # an HTML element is still open in the integration point: "in body" handles the end tag
        doc = pre + f"<{root}><{anc}>" + ip_o + f"<div></{anc}>" + after + tail
    elif v == 4:  # the end tag is the integration point's own
        doc = pre + f"<{root}><{anc}>" + ip_o + "<b></b>" + ip_c + after.replace("<![CDATA[<b>]]>", "<![CDATA[x]]>") + f"</{anc}></{root}>"
    else:         # an HTML integration point between: the walk stops at the HTML element
        doc = pre + f"<{root}><{anc}>" + ip_o + f"<div><{root}>" + ip_o + f"</{anc}>" + after + tail
    return "tb8:near", doc


TB_STREAMS = [tb1] * 3 + [tb2] * 2 + [tb4] * 2 + [tb5] * 2 + [tb3] + [tb7] * 3 + [tb8] * 3
LABELS = {}


def cuts_for(rng, n):
    r = rng.random()
    if r < 0.45 or n == 0:
        return []
    if r < 0.55:
        return list(range(1, n))
    k = rng.randrange(1, 5)
    cs = sorted(rng.randrange(0, n + 1) for _ in range(k))
    if rng.random() < 0.2:
        cs = sorted(cs + [rng.choice(cs)])
    return cs


def gen(rng, n, tier, pid):
    out = []
    for _ in range(n):
        r = rng.random()
        label = None
        if r < 0.45:
            doc = soup_document(rng)
        elif r < 0.74:
            doc = foreign_document(rng, no_known=rng.random() < 0.4)
        elif r < 0.985:
            label, doc = rng.choice(TB_STREAMS)(rng)
            doc = clean(doc)
        else:
            doc = rng.choice(KNOWN)
        if doc.startswith("\ufeff"):
            doc = doc[1:]
        b = doc.encode("utf-8")
        case = "%s %s %s" % (rng.choice(MODES), b.hex() or "-", ",".join(map(str, cuts_for(rng, len(b)))) or "-")
        if label:
            LABELS[case] = label
        out.append(case)
    return out


def nontrivial(case, obs):
    return len(case.split()[1]) > 16


def stats(cases, obs):
    from collections import Counter

    c = Counter()
    for case, o in zip(cases, obs):
        f = case.split()
        c["cases"] += 1
        c["mode:" + f[0]] += 1
        doc = bytes.fromhex(f[1]) if f[1] != "-" else b""
        low = doc.lower()
        c["family:" + ("foreign" if (b"<svg" in low or b"<math" in low) else "soup")] += 1
        if f[2] != "-":
            c["chunked"] += 1
        c["result:" + o.split()[0]] += 1
        lab = LABELS.get(case)  # only known when gen() ran in this process
        if lab:
            c["stream:" + lab] += 1
        for part in o.split(" ||ORACLE:")[1:]:
            c["oracle:" + part.split()[0]] += 1
            if lab:
                c["stream:" + lab + " -> " + part.split()[0]] += 1
    return dict(c)
