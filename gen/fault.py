"""Generator for lane `fault`: lex cases + failure injection at a token index / memory limit / graceful flags."""
import lex


def gen(rng, n, tier, pid):
    out = []
    for c in lex.gen(rng, n, tier, pid):
        fail_at = 0 if rng.random() < 0.35 else rng.randrange(1, 9)
        g = rng.choice([0, 0, 1, 2, 3, 3])
        maxmem = 0 if rng.random() < 0.5 else rng.choice([1, 2, 5, 8, 16, 30, 64, 100, 200, 1024])
        prealloc = rng.choice([0, 0, 0, 4, 16, 1024])
        out.append(f"{c} {fail_at} {g} {maxmem} {prealloc}")
    return out


project = lex.project


def nontrivial(case, obs):
    return ";hnd" in obs or ";mem" in obs or obs.startswith(("hnd", "mem")) or lex.nontrivial(case, obs)


def stats(cases, obs):
    import collections
    c = collections.Counter()
    for o in obs:
        parts = o.split(" # ")
        if len(parts) == 3:
            c["res:" + parts[0].split(";")[-1]] += 1
        else:
            c["other"] += 1
    return {"distribution": dict(c)}
