"""Generator for lane `hash` (C03): tag-name byte strings, biased to the boundaries of LocalNameHash.

Streams: table names (with case variants), random alphabet names of length 0..16 (first byte a
letter), names around the 12/13/14-byte limit with first letters around `j`, the sentinel name
`jzzzzzzzzzzzz` and its neighbours, names starting with digits, names with one byte outside the
alphabet (`-`, `0`, `7`, `:`, `@`, `[`, `` ` ``, `{`, high bytes), fully random bytes.
"""
ALPHA = "abcdefghijklmnopqrstuvwxyz"
DIG = "123456"
TABLE = ["a", "div", "span", "h1", "h6", "svg", "math", "foreignobject", "blockquote", "plaintext", "textarea",
         "template", "annotation-xml", "noscript", "frameset", "select", "title", "desc", "mi", "mtext", "script"]
BAD = [0x2D, 0x30, 0x37, 0x38, 0x39, 0x3A, 0x40, 0x5B, 0x60, 0x7B, 0x00, 0x20, 0x2F, 0x3E, 0x80, 0xC3, 0xFF]


def hx(b):
    return bytes(b).hex() if len(b) else "-"


def rand_name(rng, n, first_letters=ALPHA):
    if n == 0:
        return b""
    s = rng.choice(first_letters)
    for _ in range(n - 1):
        s += rng.choice(ALPHA + DIG) if rng.random() < 0.85 else rng.choice("zZaA16")
    if rng.random() < 0.3:
        s = "".join(c.upper() if rng.random() < 0.5 else c for c in s)
    return s.encode()


def kind(rng):
    r = rng.random()
    if r < 0.10:
        t = rng.choice(TABLE)
        return "table", "".join(c.upper() if rng.random() < 0.3 else c for c in t).encode()
    if r < 0.40:
        return "alpha", rand_name(rng, rng.randrange(0, 17))
    if r < 0.62:
        n = rng.choice([11, 12, 13, 13, 13, 14, 15])
        return "limit", rand_name(rng, n, "abhijklJKz")
    if r < 0.72:
        base = bytearray(b"jzzzzzzzzzzzz")
        m = rng.random()
        if m < 0.25:
            pass
        elif m < 0.5:
            base[rng.randrange(13)] = ord(rng.choice("yzZ6ajJiIkK"))
        elif m < 0.75:
            base = base[: rng.randrange(10, 14)]
        else:
            base += rng.choice([b"z", b"a", b"1", b"zz"])
        if rng.random() < 0.3:
            base = bytearray(bytes(base).upper())
        return "sentinel", bytes(base)
    if r < 0.80:
        return "digit-first", (rng.choice(DIG) * rng.randrange(1, 15) + rng.choice(["", "a", "z", "div"])).encode()
    if r < 0.93:
        b = bytearray(rand_name(rng, rng.randrange(1, 15)))
        b.insert(rng.randrange(len(b) + 1), rng.choice(BAD))
        return "bad-byte", bytes(b)
    return "random", bytes(rng.randrange(256) for _ in range(rng.randrange(0, 18)))


def gen(rng, n, tier, pid):
    return [hx(kind(rng)[1]) for _ in range(n)]


def nontrivial(case, obs):
    return not obs.startswith("18446744073709551615") and case != "-"


def stats(cases, obs):
    d = {"empty-hash": 0, "valid-hash": 0, "len13-valid": 0, "len>=14": 0}
    for c, o in zip(cases, obs):
        n = 0 if c == "-" else len(c) // 2
        if o.startswith("18446744073709551615"):
            d["empty-hash"] += 1
        else:
            d["valid-hash"] += 1
            if n == 13:
                d["len13-valid"] += 1
        if n >= 14:
            d["len>=14"] += 1
    return d
