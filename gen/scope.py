"""Case generator for lane `scope` (property C05). Format: see lean/LolHtml/Lane/Scope.lean.

A case is a tag-event script (rendered to HTML by the Rust side), a handler registration and chunk
cuts. The namespace letter of every start tag (`o` HTML / `O` foreign) is computed here with the same
rules as lol-html's tree-builder simulator for the names used (svg enters, `</svg>`/`</p>`/`</br>`
leave, break-out tags leave); the Rust side re-validates it with a probe run (BADSCRIPT otherwise).
"""

HTML_NAMES = ["div", "span", "p", "a", "b", "i", "ul", "li", "em", "section", "x-a"]
VOID_NAMES = ["br", "img", "hr", "input"]
FOREIGN_NAMES = ["g", "path", "circle", "a", "x-a"]
BREAKOUT = {"b", "br", "div", "em", "hr", "i", "img", "li", "p", "span", "ul"}
SEL_NAMES = HTML_NAMES + VOID_NAMES + ["svg", "g", "path", "circle", "*", "*", "*"]


def _subset(rng, letters, p=0.5):
    return "".join(c for c in letters if rng.random() < p)


def gen_sels(rng, shape):
    n = rng.choice([0, 1, 1, 2, 2, 3, 4, 6])
    out = []
    for _ in range(n):
        name = rng.choice(SEL_NAMES)
        flags = _subset(rng, "ect", 0.6)
        if shape == "removed" and "e" not in flags and rng.random() < 0.7:
            flags = "e" + flags
        beh = ""
        if "e" in flags:
            pr = 0.5 if shape == "removed" else 0.12
            beh = _subset(rng, "rim", pr)
        k = rng.choice([0, 0, 1, 1, 2, 3]) if "e" in flags else 0
        mod = rng.choice([1, 1, 1, 2, 3])
        rem = rng.randrange(mod)
        out.append("%s:%s:%d:%d:%d" % (name, flags + beh, k, mod, rem))
    return out


def gen_docs(rng):
    n = rng.choice([0, 0, 1, 1, 2, 3])
    out = []
    for _ in range(n):
        out.append(_subset(rng, "dcte", 0.5) or "n")
    return out


class Doc:
    """Builds the event list while tracking the namespace like the tree-builder simulator."""

    def __init__(self):
        self.evs = []
        self.ns = ["html"]
        self.open = []  # names the generator believes are open (only to pick end tags)

    def cur_foreign(self):
        return self.ns[-1] != "html"

    def start(self, name, self_closing=False):
        if name == "svg":
            self.ns.append("svg")
        elif self.cur_foreign() and name in BREAKOUT:
            self.ns.pop()
        foreign = self.cur_foreign()
        self.evs.append(("O" if foreign else "o") + name + ("/" if self_closing else ""))
        pushed = (not self_closing) if foreign else (name not in VOID_NAMES)
        if pushed:
            self.open.append(name)

    def end(self, name):
        if self.cur_foreign() and (name == "svg" or name in ("p", "br")):
            self.ns.pop()
        self.evs.append("e" + name)
        if name in self.open:
            idx = len(self.open) - 1 - self.open[::-1].index(name)
            del self.open[idx:]

    def other(self, k):
        if k == "t" and self.evs and self.evs[-1] == "t":
            return
        self.evs.append(k)


def pick_name(rng, d):
    if d.cur_foreign():
        r = rng.random()
        if r < 0.75:
            return rng.choice(FOREIGN_NAMES)
        if r < 0.85:
            return "svg"
        return rng.choice(HTML_NAMES + VOID_NAMES)  # may break out
    r = rng.random()
    if r < 0.70:
        return rng.choice(HTML_NAMES)
    if r < 0.85:
        return rng.choice(VOID_NAMES)
    return "svg"


def gen_script(rng, shape, size):
    d = Doc()
    if rng.random() < 0.3:
        d.other("d")
    for _ in range(size):
        r = rng.random()
        if r < 0.30:
            name = pick_name(rng, d)
            if shape == "foreign" and not d.cur_foreign() and rng.random() < 0.4:
                name = "svg"
            sc = rng.random() < (0.4 if d.cur_foreign() else 0.08)
            d.start(name, sc)
        elif r < 0.55:
            if shape == "nested":
                if d.open:
                    d.end(d.open[-1])
            elif shape == "unclosed":
                if d.open and rng.random() < 0.3:
                    d.end(d.open[-1])
            else:
                q = rng.random()
                if d.open and q < 0.55:
                    d.end(rng.choice(d.open))  # possibly an ancestor: pops several
                elif q < 0.8:
                    d.end(rng.choice(HTML_NAMES + VOID_NAMES + ["svg", "g"]))  # possibly stray
                elif d.open:
                    d.end(d.open[-1])
        elif r < 0.80:
            d.other("t")
        elif r < 0.95:
            d.other("c")
        else:
            d.other("d")
    if shape == "nested":
        while d.open:
            d.end(d.open[-1])
    return d.evs


def rendered_len(evs):
    n = 0
    for i, e in enumerate(evs):
        if e == "t":
            n += len("x%d;" % i)
        elif e == "c":
            n += len("<!--c%d-->" % i)
        elif e == "d":
            n += 15
        elif e[0] == "e":
            n += len(e) - 1 + 3
        else:
            n += len(e) - 1 + 2
    return n


SHAPES = ["nested", "misnested", "misnested", "unclosed", "foreign", "removed"]


def gen(rng, n, tier, pid):
    out = []
    for _ in range(n):
        shape = rng.choice(SHAPES)
        size = rng.choice([0, 1, 2, 4, 8, 12, 20, 30, 45] + ([70, 120] if tier == "thorough" else []))
        evs = gen_script(rng, shape, size)
        sels = gen_sels(rng, shape)
        docs = gen_docs(rng)
        total = rendered_len(evs)
        ncuts = rng.choice([0, 0, 1, 2, 3, 6])
        cuts = sorted(rng.randrange(total + 1) for _ in range(ncuts)) if total else []
        out.append(
            "%s %s %s %s"
            % (
                ",".join(sels) or "-",
                ",".join(docs) or "-",
                ",".join(evs) or "-",
                ",".join(map(str, cuts)) or "-",
            )
        )
    return out


def nontrivial(case, obs):
    return obs.strip() not in ("-", "") and not obs.startswith(("BADSCRIPT", "bad-case", "ERROR"))


def stats(cases, obs):
    st = {
        "cases": len(cases),
        "nonempty_log": 0,
        "with_foreign": 0,
        "with_self_closing": 0,
        "with_void": 0,
        "with_stray_or_ancestor_end": 0,
        "unclosed_at_eof": 0,
        "with_remove_content": 0,
        "with_end_tag_handler_run": 0,
        "with_cuts": 0,
        "no_selectors": 0,
        "badscript": 0,
        "invocations": 0,
    }
    for c, o in zip(cases, obs):
        sels, docs, script, cuts = c.split()
        evs = [] if script == "-" else script.split(",")
        st["nonempty_log"] += o.strip() != "-"
        st["with_foreign"] += any(e[0] == "O" for e in evs)
        st["with_self_closing"] += any(e.endswith("/") for e in evs)
        st["with_void"] += any(e[0] == "o" and e[1:].rstrip("/") in VOID_NAMES for e in evs)
        opened = []
        odd = False
        for e in evs:
            if e[0] in "oO":
                nm = e[1:].rstrip("/")
                pushed = (not e.endswith("/")) if e[0] == "O" else nm not in VOID_NAMES
                if pushed:
                    opened.append(nm)
            elif e[0] == "e" and len(e) > 1:
                nm = e[1:]
                if not opened or opened[-1] != nm:
                    odd = True
                if nm in opened:
                    idx = len(opened) - 1 - opened[::-1].index(nm)
                    del opened[idx:]
        st["with_stray_or_ancestor_end"] += odd
        st["unclosed_at_eof"] += bool(opened)
        st["with_remove_content"] += any(
            ("r" in s.split(":")[1] or "i" in s.split(":")[1]) for s in sels.split(",") if s != "-"
        )
        st["with_end_tag_handler_run"] += ",X" in ("," + o)
        st["with_cuts"] += cuts != "-"
        st["no_selectors"] += sels == "-"
        st["badscript"] += o.startswith("BADSCRIPT")
        st["invocations"] += 0 if o.strip() == "-" else o.split(" ||")[0].count(",") + 1
    return st
