"""Case generator for lane `mem` (property C10).

case = `M prealloc itemSizeSel op,op,…`   (see lean/LolHtml/Lane/Mem.lean)

Strategy: build an operation list that follows the protocol of the real callers
(TransformStream::write: init_with / append / shift, Stack: push / drain) with a small reference
simulation under an infinite limit, record every usage level the run goes through, then choose the
limit M at / next to one of those levels (boundary bias), or 0, or far above, or usize::MAX.
A malformed stream adds prealloc > M (preallocation clamped to M) / > isize::MAX (dropped), out-of-range shift/drain (caller contract
violations = panics on both sides) and unparsable tokens.
"""

USIZE_MAX = (1 << 64) - 1
ISIZE_MAX = (1 << 63) - 1
ITEM_SIZES = [1, 8, 7, 24, 512]


def min_cap(isz):
    return max(8, 128 // isz)


class Sim:
    """reference replay with an infinite limit (only to steer the generator)"""

    def __init__(self, prealloc, isz):
        self.usage = prealloc
        self.acap = prealloc
        self.alen = 0
        self.vcap = 0
        self.vlen = 0
        self.isz = isz
        self.levels = {prealloc}

    def append(self, n):
        if self.acap < self.alen + n:
            self.usage += self.alen + n - self.acap
            self.acap = self.alen + n
        self.alen += n
        self.levels.add(self.usage)

    def init(self, n):
        self.alen = 0
        self.append(n)

    def shift(self, k):
        self.alen -= k

    def push(self):
        if self.vlen >= self.vcap:
            add = max(self.vcap, min_cap(self.isz))
            self.usage += add * self.isz
            self.vcap += add
        self.vlen += 1
        self.levels.add(self.usage)

    def drain(self, k):
        self.vlen = k


def size(rng, tier):
    r = rng.random()
    if r < 0.15:
        return rng.choice([0, 0, 1, 2])
    if r < 0.6:
        return rng.randrange(0, 40)
    if r < 0.9:
        return rng.randrange(0, 1500)
    return rng.randrange(0, 20000 if tier == "thorough" else 6000)


def gen_ops(rng, tier, prealloc, isz, malformed):
    sim = Sim(prealloc, isz)
    toks = []
    nops = rng.choice([0, 1, 2, 3, 5, 8, 12, 20, 30])
    style = rng.choice(["mixed", "arena", "stack", "writeproto"])
    buffered = False
    for _ in range(nops):
        if style == "arena":
            kind = rng.choice("aaiss")
        elif style == "stack":
            kind = rng.choice("pppd")
        elif style == "writeproto":
            # TransformStream::write: init_with when nothing is buffered, else append then shift
            kind = rng.choice("wwwp") if rng.random() < 0.9 else "d"
        else:
            kind = rng.choice("aaisppd")
        if kind == "w":
            if not buffered:
                n = size(rng, tier)
                toks.append(f"i{n}")
                sim.init(n)
                buffered = n > 0 or rng.random() < 0.5
            else:
                n = size(rng, tier)
                toks.append(f"a{n}")
                sim.append(n)
                k = rng.choice([0, sim.alen, rng.randrange(0, sim.alen + 1)])
                if k >= sim.alen and rng.random() < 0.7:
                    buffered = False  # consumed everything: no shift, flag reset
                else:
                    k = min(k, sim.alen)
                    toks.append(f"s{k}")
                    sim.shift(k)
        elif kind == "a":
            n = size(rng, tier)
            toks.append(f"a{n}")
            sim.append(n)
        elif kind == "i":
            n = size(rng, tier)
            toks.append(f"i{n}")
            sim.init(n)
        elif kind == "s":
            if malformed and rng.random() < 0.3:
                k = sim.alen + rng.choice([1, 2, 100])
                toks.append(f"s{k}")
                break
            k = rng.choice([0, sim.alen, rng.randrange(0, sim.alen + 1)])
            toks.append(f"s{k}")
            sim.shift(k)
        elif kind == "p":
            c = rng.choice([1, 1, 1, 2, 3, 7, 8, 9, 15, 16, 17, 33, 64, 65, 129])
            if isz == 512 and c > 40:
                c = rng.choice([1, 8, 9, 17])
            toks.append("p" if c == 1 and rng.random() < 0.5 else f"p{c}")
            for _ in range(c):
                sim.push()
        elif kind == "d":
            if malformed and rng.random() < 0.3:
                k = sim.vlen + rng.choice([1, 5])
                toks.append(f"d{k}")
                break
            k = rng.choice([0, sim.vlen, rng.randrange(0, sim.vlen + 1)])
            toks.append(f"d{k}")
            sim.drain(k)
    return toks, sim


def repair(rng, toks, M, prealloc, isz):
    """Replay under the real limit M (failed charges stay) and clamp shift/drain arguments that the
    failures made out of range, so that the run keeps going after an error."""
    # Arena::new clamps the preallocation to the limit; above isize::MAX the reservation is dropped
    size = min(prealloc, M)
    usage, acap, alen, vcap, vlen = (size, size, 0, 0, 0) if size <= ISIZE_MAX else (0, 0, 0, 0, 0)
    out = []
    for t in toks:
        c, arg = t[0], (int(t[1:]) if len(t) > 1 else 1)
        if c in "ai":
            if c == "i":
                alen = 0
            if acap < alen + arg:
                usage += alen + arg - acap
                if usage <= M:
                    acap = alen + arg
                    alen += arg
            else:
                alen += arg
        elif c == "s":
            if arg > alen:
                arg = rng.choice([0, alen, rng.randrange(0, alen + 1)])
                t = f"s{arg}"
            alen -= arg
        elif c == "p":
            for _ in range(arg):
                if vlen < vcap:
                    vlen += 1
                else:
                    add = max(vcap, min_cap(isz))
                    usage += add * isz
                    if usage <= M:
                        vcap += add
                        vlen += 1
        elif c == "d":
            if arg > vlen:
                arg = rng.choice([0, vlen, rng.randrange(0, vlen + 1)])
                t = f"d{arg}"
            vlen = arg
        out.append(t)
    return out


def choose_limit(rng, sim, prealloc):
    levels = sorted(sim.levels)
    r = rng.random()
    if r < 0.50:
        lv = rng.choice(levels)
        return max(0, lv + rng.choice([-1, 0, 0, 1]))
    if r < 0.60:
        return rng.randrange(0, levels[-1] + 2)
    if r < 0.68:
        return levels[-1] + rng.randrange(0, 5000)
    if r < 0.76:
        return USIZE_MAX
    if r < 0.80:
        return rng.choice([ISIZE_MAX, ISIZE_MAX + 1, USIZE_MAX - 1, 1 << 32])
    if r < 0.88:
        return prealloc + rng.choice([0, 1, 7, 8, 127, 128, 129])
    if r < 0.94:
        return rng.choice([0, 1, 7, 8, 127, 128, 129, 1023, 1024, 4095, 4096, 4097])
    return rng.randrange(0, 3000)


def one(rng, tier):
    malformed = rng.random() < 0.08
    sel = rng.randrange(5)
    isz = ITEM_SIZES[sel]
    prealloc = rng.choice([0, 0, 1, 64, 1024, 1024, rng.randrange(0, 3000)])
    toks, sim = gen_ops(rng, tier, prealloc, isz, malformed)
    M = choose_limit(rng, sim, prealloc)
    if malformed and rng.random() < 0.12:
        # reservation larger than isize::MAX: the charge may pass, try_reserve_exact cannot
        prealloc = rng.choice([ISIZE_MAX + 1, USIZE_MAX, ISIZE_MAX + 12345])
        # (a limit in [2^40, isize::MAX] would make the clamped reservation a real multi-terabyte
        #  allocation, whose failure is outside the model: "the allocator does not fail")
        M = rng.choice([USIZE_MAX, USIZE_MAX, ISIZE_MAX + 1, prealloc, rng.randrange(0, 5000)])
    elif malformed and rng.random() < 0.5 and prealloc > 0:
        M = rng.randrange(0, prealloc)  # preallocation does not fit: clamped to M (was finding F5)
    elif M < prealloc and rng.random() < 0.7:
        M = prealloc  # keep most cases inside the theorem's hypothesis
    if not malformed or rng.random() < 0.7:
        toks = repair(rng, toks, M, prealloc, isz)
    if malformed and rng.random() < 0.1:
        toks.append(rng.choice(["x3", "a", "p-1", "s", "a1x"]))
    return f"{M} {prealloc} {sel} {','.join(toks) if toks else '-'}"


def gen(rng, n, tier, pid):
    return [one(rng, tier) for _ in range(n)]


def nontrivial(case, obs):
    return " ok:" in obs or " err:" in obs


def stats(cases, obs):
    d = {
        "cases": len(cases),
        "with_err": 0,
        "all_ok_nonempty": 0,
        "panic_prealloc": 0,
        "prealloc_not_fitting": 0,
        "panic_shift_or_drain": 0,
        "bad_case": 0,
        "no_ops": 0,
        "steps_ok": 0,
        "steps_err": 0,
        "limit_usize_max": 0,
        "limit_zero": 0,
        "oracle_flags": 0,
    }
    per_size = {}
    for c, o in zip(cases, obs):
        f = c.split(" ")
        main = o.split(" ||ORACLE:")[0]
        if "||ORACLE:" in o:
            d["oracle_flags"] += 1
        if main == "bad-case":
            d["bad_case"] += 1
            continue
        if f[0] == str(USIZE_MAX):
            d["limit_usize_max"] += 1
        if f[0] == "0":
            d["limit_zero"] += 1
        per_size[f[2]] = per_size.get(f[2], 0) + 1
        if int(f[1]) > int(f[0]) or int(f[1]) > ISIZE_MAX:
            d["prealloc_not_fitting"] += 1
        ne = main.count(" err:")
        no = main.count(" ok:")
        d["steps_ok"] += no
        d["steps_err"] += ne
        if "PANIC-prealloc" in main:
            d["panic_prealloc"] += 1
        elif "PANIC-shift" in main or "PANIC-drain" in main:
            d["panic_shift_or_drain"] += 1
        if ne:
            d["with_err"] += 1
        elif no:
            d["all_ok_nonempty"] += 1
        elif "PANIC" not in main:
            d["no_ops"] += 1
    d["per_item_size_sel"] = dict(sorted(per_size.items()))
    return d
