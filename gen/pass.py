"""Generator for lane `pass`: documents with non-ASCII text for every supported encoding, cuts anywhere."""
POOLS = [
    "hello world <>&",                      # ascii
    "éàüñ ¿¡ÆØ",                            # latin-1
    "Привет мир Жя",                        # cyrillic
    "Γειά σου κόσμε",                       # greek
    "こんにちは世界 あア亜",                  # japanese
    "你好世界 汉字",                          # chinese
    "안녕하세요 한글",                        # korean
    "שלום עולם",                             # hebrew
    "مرحبا بالعالم",                          # arabic
    "สวัสดีโลก",                             # thai
    "ĄąĘęŁłŻż čšžř",                        # central european
    "😀 𝄞 🐈",                               # non-BMP
]
TAGS = ["<p>", "</p>", "<b>", "</b>", "<div class=x>", "</div>", "<br>", "<!--c-->", "<span a='é'>", "</span>", "<title>", "</title>", "<script>", "</script>"]


LATIN1, CYR, GREEK, JP, CN, KR, HEB, ARA, THAI, CE = POOLS[1], POOLS[2], POOLS[3], POOLS[4], POOLS[5], POOLS[6], POOLS[7], POOLS[8], POOLS[9], POOLS[10]
# pools by index into lol_html::test_utils::ASCII_COMPATIBLE_ENCODINGS
ENC_POOL = {0: "你好世界 漢字", 1: JP, 2: KR, 3: CN + JP + "😀", 4: CN, 5: CYR, 6: CE, 7: "ĦħĤĥ éà", 8: "ĄąĒēĢģ", 9: CYR, 10: ARA, 11: GREEK,
            12: HEB, 13: HEB, 14: "ĄąĒēÆØ", 15: "ĄąĒēŁł", 16: "ḂḃĊċ éà", 17: LATIN1, 18: "ĄąĆćŁł éà", 19: CYR, 20: CYR, 21: LATIN1,
            22: JP, 23: "".join(POOLS), 24: THAI, 25: CE, 26: CYR, 27: LATIN1, 28: GREEK, 29: LATIN1, 30: HEB, 31: ARA,
            32: "ĄąĒēŁł", 33: "éàü ăơư", 34: CYR, 35: "".join(chr(c) for c in range(0xF780, 0xF7A0))}


def text(rng, ei=None):
    pool = ENC_POOL.get(ei, rng.choice(POOLS)) if (ei is not None and rng.random() < 0.85) else POOLS[0]
    n = rng.randrange(1, 12)
    s = "".join(rng.choice(pool) for _ in range(n))
    return s.replace("<", "").replace("&", "")


def gen(rng, n, tier, pid):
    out = []
    for _ in range(n):
        ei = rng.randrange(36)
        parts = []
        for _ in range(rng.randrange(1, 8)):
            parts.append(rng.choice(TAGS) if rng.random() < 0.5 else text(rng, ei))
        if rng.random() < 0.15:  # long text node (internal decoder buffer is 1024 bytes)
            parts.append(text(rng, ei) * rng.randrange(100, 400))
        doc = "".join(parts)
        k = rng.choice([0, 1, 1, 2, 3, 5, 9])
        cuts = sorted(rng.randrange(0, 1001) for _ in range(k))
        out.append(f"{ei} {doc.encode('utf-8').hex() or '-'} {','.join(map(str, cuts)) or '-'} {rng.randrange(6)}")
    return out


def nontrivial(case, obs):
    return obs.startswith("enc=") and "writes=1 " not in obs


def stats(cases, obs):
    import collections
    c = collections.Counter()
    for o in obs:
        c[o.split(" ")[0] if o.startswith("enc=") else o.split(" ||")[0][:20]] += 1
    return {"distribution": dict(c)}
