"""Generator for lane `pass`: documents with non-ASCII text for every supported encoding, cuts anywhere."""
POOLS = [
    "hello world <>&",                      # ascii
    "éàüñ ¿¡ÆØ",                            # latin-1
    "Привет мир Жя",                        # cyrillic
    "Γειά σου κόσμε",                       # greek
    "こんにちは世界 あア亜",                  # japanese
    "你好世界 汉字",                          # chinese
    "안녕하세요 한글",                        # korean
    "שלום עולם",                             # hebrew
    "مرحبا بالعالم",                          # arabic
    "สวัสดีโลก",                             # thai
    "ĄąĘęŁłŻż čšžř",                        # central european
    "😀 𝄞 🐈",                               # non-BMP
]
TAGS = ["<p>", "</p>", "<b>", "</b>", "<div class=x>", "</div>", "<br>", "<!--c-->", "<span a='é'>", "</span>", "<title>", "</title>", "<script>", "</script>"]


LATIN1, CYR, GREEK, JP, CN, KR, HEB, ARA, THAI, CE = POOLS[1], POOLS[2], POOLS[3], POOLS[4], POOLS[5], POOLS[6], POOLS[7], POOLS[8], POOLS[9], POOLS[10]
# pools by index into lol_html::test_utils::ASCII_COMPATIBLE_ENCODINGS
ENC_POOL = {0: "你好世界 漢字", 1: JP, 2: KR, 3: CN + JP + "😀", 4: CN, 5: CYR, 6: CE, 7: "ĦħĤĥ éà", 8: "ĄąĒēĢģ", 9: CYR, 10: ARA, 11: GREEK,
            12: HEB, 13: HEB, 14: "ĄąĒēÆØ", 15: "ĄąĒēŁł", 16: "ḂḃĊċ éà", 17: LATIN1, 18: "ĄąĆćŁł éà", 19: CYR, 20: CYR, 21: LATIN1,
            22: JP, 23: "".join(POOLS), 24: THAI, 25: CE, 26: CYR, 27: LATIN1, 28: GREEK, 29: LATIN1, 30: HEB, 31: ARA,
            32: "ĄąĒēŁł", 33: "éàü ăơư", 34: CYR, 35: "".join(chr(c) for c in range(0xF780, 0xF7A0))}


def text(rng, ei=None):
    pool = ENC_POOL.get(ei, rng.choice(POOLS)) if (ei is not None and rng.random() < 0.85) else POOLS[0]
    n = rng.randrange(1, 12)
    s = "".join(rng.choice(pool) for _ in range(n))
    if ei in (3, 23, None) and rng.random() < 0.25:
        # (only UTF-8 and gb18030 can encode it) U+FEFF is an ordinary (valid, canonical) character inside a document: at the start of a text node, inside it,
        # and right where a write may begin
        k = rng.randrange(0, len(s) + 1)
        s = s[:k] + "\ufeff" + s[k:]
    return s.replace("<", "").replace("&", "")


# tag names with non-ASCII characters: in Shift_JIS / Big5 / GBK / EUC-KR / gb18030 their trail bytes fall into A-Z / a-z
NAME_TAILS = ["ア", "ポ", "僉", "亜", "한", "é", "Ж", "x"]


def odd_tag(rng, ei):
    pool = ENC_POOL.get(ei, "")
    own = [c for c in pool if c.isalpha()]
    tail = rng.choice(own) if own else "x"
    if ei in (3, 23) and rng.random() < 0.4:
        tail = rng.choice(NAME_TAILS)
    name = rng.choice(["x", "Ab", "q"]) + tail + rng.choice(["", "Z", "-y"])
    return rng.choice(["<%s>" % name, "</%s>" % name, "<%s a=b>t</%s>" % (name, name), "</%s >" % name])


# encoding index -> characters whose trail byte is an ASCII capital in that encoding (byte-wise case folding of a
# tag name would corrupt them)
TRAIL_AZ = {22: "アィ", 0: "丁七丈三", 4: "丄丅丆", 3: "丄丅丆", 2: "갂갃갅"}


def name_case(rng):
    """an element whose name carries such a character, closed by its own end tag, under the tag-name handler set (6)"""
    ei = rng.choice(list(TRAIL_AZ))
    ch = rng.choice(TRAIL_AZ[ei])
    name = rng.choice(["x", "Ab", "q-"]) + ch + rng.choice(["", "Z", "-y", ch])
    doc = rng.choice(["", "t", "<p>"]) + "<%s%s>%s</%s%s>" % (name, rng.choice(["", " a=b"]), rng.choice(["", "u", "<b>v</b>"]), name,
                                                              rng.choice(["", " ", "\n"])) + rng.choice(["", "w"])
    k = rng.choice([0, 1, 2, 3])
    cuts = sorted(rng.randrange(0, 1001) for _ in range(k))
    return f"{ei} {doc.encode('utf-8').hex()} {','.join(map(str, cuts)) or '-'} 6"


def feff_case(rng):
    """U+FEFF inside text under a text handler, with a write starting right at it (UTF-8 / gb18030)"""
    ei = rng.choice([23, 23, 3])
    pre, post = rng.choice(["<p>foo", "<p>", "x", "<div>é"]), rng.choice(["bar</p>", "</p>", "y", "\ufeffz"])
    doc = pre + "\ufeff" + post
    enc = "utf-8" if ei == 23 else "gb18030"
    total = len(doc.encode(enc))
    at = len(pre.encode(enc)) * 1000 // total  # per-mille cut just before U+FEFF (the harness floors)
    cuts = sorted({at, min(1000, at + 1)} | ({rng.randrange(0, 1001)} if rng.random() < 0.5 else set()))
    return f"{ei} {doc.encode('utf-8').hex()} {','.join(map(str, cuts))} {rng.choice([1, 2, 3, 4])}"


def gen(rng, n, tier, pid):
    out = []
    for _ in range(n):
        r0 = rng.random()
        if r0 < 0.04:
            out.append(name_case(rng))
            continue
        if r0 < 0.08:
            out.append(feff_case(rng))
            continue
        ei = rng.randrange(36)
        parts = []
        for _ in range(rng.randrange(1, 8)):
            r = rng.random()
            parts.append(rng.choice(TAGS) if r < 0.42 else (odd_tag(rng, ei) if r < 0.52 else text(rng, ei)))
        if rng.random() < 0.15:  # long text node (internal decoder buffer is 1024 bytes)
            parts.append(text(rng, ei) * rng.randrange(100, 400))
        doc = "".join(parts)
        k = rng.choice([0, 1, 1, 2, 3, 5, 9])
        cuts = sorted(rng.randrange(0, 1001) for _ in range(k))
        out.append(f"{ei} {doc.encode('utf-8').hex() or '-'} {','.join(map(str, cuts)) or '-'} {rng.randrange(7)}")
    return out


def nontrivial(case, obs):
    return obs.startswith("enc=") and "writes=1 " not in obs


def stats(cases, obs):
    import collections
    c = collections.Counter()
    for o in obs:
        c[o.split(" ")[0] if o.startswith("enc=") else o.split(" ||")[0][:20]] += 1
    return {"distribution": dict(c)}
