"""Generator for lane `proto` (C11/C12): public HtmlRewriter, all encodings, end / bail-out content, failure injection."""
import importlib
_p = importlib.import_module("pass")

STRS = ["", "", "x", "<b>end</b>", "é 2024", "© 2024", "Жя", "あ", "😀", "a&b"]


def gen(rng, n, tier, pid):
    out = []
    base = _p.gen(rng, n, tier, pid)
    for c in base:
        ei, doc, cuts, _hs = c.split(" ")
        pool = _p.ENC_POOL.get(int(ei), "x")
        def s():
            r = rng.random()
            if r < 0.35:
                return ""
            if r < 0.6:
                return rng.choice(STRS)
            return rng.choice(pool) + rng.choice(["", " x", "<i>"])
        end_s, bail_s = s(), s()
        fail_at = 0 if rng.random() < 0.45 else rng.randrange(1, 12)
        graceful = rng.choice([0, 0, 1, 2, 3, 3])
        maxmem = 0 if rng.random() < 0.7 else rng.choice([0, 1, 8, 64, 200, 832, 1024, 1100, 2000])
        prealloc = rng.choice([0, 0, 16, 1024])
        mutate = 0 if rng.random() < 0.6 else rng.randrange(1, 7)
        hexs = lambda t: t.encode("utf-8").hex() or "-"
        out.append(f"{ei} {doc} {cuts} {hexs(end_s)} {hexs(bail_s)} {fail_at} {graceful} {maxmem} {prealloc} {mutate}")
    return out


def nontrivial(case, obs):
    return obs.startswith("enc=") and "res=ok" not in obs or " calls=" in obs and "SKIP" not in obs


def stats(cases, obs):
    import collections
    c = collections.Counter()
    for o in obs:
        for f in o.split(" "):
            if f.startswith("res="):
                c[f] += 1
        if o.startswith("SKIP"):
            c["skip"] += 1
    return {"distribution": dict(c)}
