"""Case generator for lane `thr` (property C18, implementation only).
case: `<input hex> <cuts> <threads> <seed> <config>`  (see harness/src/lanes/thr.rs)
Documents come from an adversarial fragment alphabet (tags, comments, text, partial tokens, a few
text-mode switching elements); cuts anywhere, including empty chunks."""

FRAGS = [
    "<div>", "</div>", "<p>", "</p>", "<a href=x>", "<a>", "</a>", "<b>", "</b>", "text", " ", "&amp;", "<!--c-->",
    "<!-- a -- b -->", "<br>", "<img src=1 />", "<p class='k'>", "<script>if(a<b){}</script>", "<textarea><b></textarea>",
    "<title>t</title>", "<svg><a href=y></a></svg>", "<!DOCTYPE html>", "<", "</", "<a hr", "é", "中", "<li>", "</li>",
    "<ul>", "</ul>", "<span id=s>", "</span>", "<!--", "-->", "<a href='q'>", "<b >", "</b >",
]


def gen(rng, n, tier, pid):
    cases = []
    for _ in range(n):
        doc = "".join(rng.choice(FRAGS) for _ in range(rng.randint(0, 14))).encode("utf-8")
        k = rng.choice([0, 1, 2, 3, 5, 8])
        cuts = sorted(rng.randrange(0, len(doc) + 1) for _ in range(k)) if doc else []
        if cuts and rng.random() < 0.2:
            cuts.append(cuts[-1])  # an empty chunk
            cuts.sort()
        threads = rng.choice([2, 3, 4, 8])
        cases.append(
            "%s %s %d %d %d"
            % (doc.hex() or "-", ",".join(map(str, cuts)) or "-", threads, rng.getrandbits(48), rng.randrange(4))
        )
    return cases


def nontrivial(case, obs):
    return len(case.split()[0]) > 20


def stats(cases, obs):
    from collections import Counter

    c = Counter()
    for case, o in zip(cases, obs):
        c["cases"] += 1
        c["config%s" % case.split()[4]] += 1
        c["result:" + o.split()[0].split(":")[0]] += 1
        if "ORACLE" in o:
            c["oracle:" + o.split("||ORACLE:")[1].split()[0]] += 1
    return dict(c)
