"""Generator for lane `metacs` (C05 with the optional meta-charset handler): ASCII documents with <meta charset> /
<meta http-equiv content> tags at various places, nested elements, comments and text; selectors over them."""
import lex

METAS = ['<meta charset="utf-8">', "<meta charset=UTF-8>", '<meta charset="windows-1252">', "<META CHARSET='ascii'>",
         '<meta http-equiv="Content-Type" content="text/html; charset=utf-8">', '<meta http-equiv=content-type content="text/html;charset=iso-8859-2">',
         '<meta charset="nope">', "<meta charset>", '<meta name=x content=y>', '<meta charset="utf-16">', "<meta/>"]
TAGS = ["div", "p", "span", "a", "b", "head", "body", "li", "meta", "title", "x-y"]
SELS = ["*", "meta", "div", "p", "head meta", "div > p", "body *", "span", "a[href]", "meta[charset]", "title", "li:nth-child(2)", "head > *"]


def doc(rng):
    s = rng.choice(["", "<!DOCTYPE html>", "<html>"])
    open_ = []
    for _ in range(rng.randrange(2, 14)):
        r = rng.random()
        if r < 0.22:
            s += rng.choice(METAS)
        elif r < 0.5:
            t = rng.choice(TAGS)
            s += "<%s%s>" % (t, rng.choice(["", " class=x", " href=y", " id=i"]))
            if t != "meta":
                open_.append(t)
        elif r < 0.7 and open_:
            s += "</%s>" % (open_.pop() if rng.random() < 0.7 else rng.choice(open_))
        elif r < 0.85:
            s += rng.choice(["text", "a b", " ", "x&amp;y"])
        else:
            s += rng.choice(["<!--c-->", "<!---->", "<br>"])
    return s


def gen(rng, n, tier, pid):
    out = []
    for _ in range(n):
        d = doc(rng).encode("ascii")
        cuts = lex.cuts_for(rng, len(d))
        sels = rng.sample(SELS, rng.choice([1, 1, 2, 3, 4]))
        out.append("%s %s %s" % (d.hex() or "-", ",".join(map(str, cuts)) or "-", ",".join(x.encode().hex() for x in sels)))
    return out


def nontrivial(case, obs):
    return obs.startswith("n_inv=") and not obs.startswith("n_inv=0 ")
