"""Case generator for lane `selpure` (C04 pure leaf functions: An+B test, attribute operators).

gen(rng, n, tier, pid) -> list[str]; every random choice comes from `rng`.
Mix: ~30 % `nth`, ~38 % `attr`, ~14 % `el`, ~14 % `elop`, ~4 % malformed lines.
"""

I32_MIN, I32_MAX = -2**31, 2**31 - 1
MAX_INDEX = 4096
OPS = ["eq", "inc", "dash", "pre", "suf", "sub"]
FLAGS = ["s", "i", "d", "h"]
WS = [0x20, 0x09, 0x0A, 0x0D, 0x0C]


def hx(bs):
    return bytes(bs).hex() if bs else "-"


# ---------------------------------------------------------------- nth
def small_index(rng, tier):
    top = MAX_INDEX if tier != "quick" else 400
    r = rng.random()
    if r < 0.5:
        return rng.randint(1, 12)
    if r < 0.9:
        return rng.randint(1, min(top, 200))
    return rng.randint(1, top)


def boundary_i32(rng):
    base = rng.choice([I32_MIN, I32_MAX, 0, -1, 1, 2**30, -2**30, 2**16, -2**16])
    v = base + rng.randint(-6, 6)
    return max(I32_MIN, min(I32_MAX, v))


def gen_nth(rng, tier):
    i = small_index(rng, tier)
    r = rng.random()
    if r < 0.30:  # small everyday selectors
        a = rng.randint(-6, 6)
        b = rng.randint(-12, 12)
    elif r < 0.45:  # guaranteed solvable: pick n, a then b = i - a*n
        a = rng.randint(-50, 50)
        n = rng.randint(0, 60)
        b = i - a * n
    elif r < 0.70:
        # zone where i - b does not fit an i32 (wrapped around before /repo 614f5b5):
        # i - b >= 2^31, i.e. b <= i - 2^31 (b very negative)
        b = I32_MIN + rng.randint(0, max(0, i - 1))
        d = i - b                       # true difference, in [2^31, 2^31 + i)
        w = d - 2**32                   # what the old wrapping_sub produced (negative)
        k = rng.random()
        if k < 0.35:                    # positive divisor of the true difference -> CSS matches
            a = rng.choice(divisors(d, rng))
        elif k < 0.70:                  # negative divisor of the wrapped value -> the old code matched
            a = -rng.choice(divisors(-w, rng))
        elif k < 0.85:
            a = rng.choice([1, -1, 2, -2, 0, I32_MIN, I32_MAX])
        else:
            a = boundary_i32(rng)
    elif r < 0.85:  # just outside the wrap-around zone, and other extremes
        b = max(I32_MIN, min(I32_MAX, I32_MIN + i + rng.randint(0, 8)))
        a = rng.choice([1, -1, 2, 3, -3, 0, I32_MAX, I32_MIN, boundary_i32(rng)])
    else:
        a = boundary_i32(rng)
        b = boundary_i32(rng)
    a = max(I32_MIN, min(I32_MAX, a))
    b = max(I32_MIN, min(I32_MAX, b))
    return f"nth {a} {b} {i}"


def divisors(x, rng):
    """A few divisors of x > 0 that fit in i32 (trial division by small primes, bounded work)."""
    ds = {1}
    y = x
    for p in (2, 3, 5, 7, 11, 13, 17, 19, 23, 29, 31, 37, 41, 43, 47):
        while y % p == 0:
            ds |= {d * p for d in ds}
            y //= p
    ds |= {x // d for d in ds}
    ds = [d for d in ds if 0 < d <= I32_MAX]
    rng.shuffle(ds)
    return ds[:6] or [1]


# ---------------------------------------------------------------- attr
ALPHA = list(b"abAB-zZ") + WS[:2]


def rand_word(rng, lo=0, hi=4):
    r = rng.random()
    n = rng.randint(lo, hi)
    if r < 0.7:
        return [rng.choice(list(b"abAB-")) for _ in range(n)]
    if r < 0.85:
        return [rng.choice(list(b"abAB-kK@[`{zZ09_")) for _ in range(n)]
    # valid UTF-8 non-ASCII pieces and a few specials
    out = []
    for _ in range(n):
        out += list(rng.choice(["é", "K", "ſ", "a", "Z", "-", "K", "😀", "\x7f", "\x01"]).encode())
    return out


def flip_case(rng, w):
    out = []
    for b in w:
        if rng.random() < 0.5 and (65 <= b <= 90 or 97 <= b <= 122):
            b ^= 0x20
        out.append(b)
    return out


def gen_attr(rng, tier):
    op = rng.choice(OPS)
    flag = rng.choice(FLAGS)
    ns = "html" if rng.random() < 0.65 else "svg"
    r = rng.random()
    needle = rand_word(rng, 0 if rng.random() < 0.25 else 1, 4)
    ws = lambda: [rng.choice(WS) for _ in range(rng.randint(1, 2))]
    near = flip_case(rng, needle) if rng.random() < 0.5 else list(needle)
    if r < 0.12:
        value = rand_word(rng, 0, 6)
    elif r < 0.30:      # value built around the needle: prefix / suffix / infix / exact / dash
        shape = rng.choice(["exact", "pre", "suf", "mid", "dash", "dashonly", "almost"])
        pad = lambda: rand_word(rng, 0, 3)
        value = {
            "exact": near,
            "pre": near + pad(),
            "suf": pad() + near,
            "mid": pad() + near + pad(),
            "dash": near + [0x2D] + pad(),
            "dashonly": near + [0x2D],
            "almost": (near[:-1] + pad()) if near else pad(),
        }[shape]
    elif r < 0.55:      # whitespace separated words, needle somewhere (or not)
        words = [rand_word(rng, 0, 3) for _ in range(rng.randint(0, 4))]
        if rng.random() < 0.7:
            words.insert(rng.randint(0, len(words)), near)
        value = []
        if rng.random() < 0.3:
            value += ws()
        for k, w in enumerate(words):
            if k:
                value += ws()
            value += w
        if rng.random() < 0.3:
            value += ws()
    elif r < 0.75:      # repeated first byte / overlapping candidates for the substring loop
        f = needle[:1] or [0x61]
        value = []
        for _ in range(rng.randint(1, 4)):
            value += f * rng.randint(1, 3) + (near[1:] if rng.random() < 0.5 else rand_word(rng, 0, 2))
        if rng.random() < 0.5:
            value = value[: max(0, len(value) - rng.randint(0, 2))]
    elif r < 0.85:      # needle itself contains whitespace or a dash
        needle = rand_word(rng, 0, 2) + [rng.choice(WS + [0x2D])] + rand_word(rng, 0, 2)
        value = rng.choice([needle, needle + [0x2D, 0x61], [0x61] + needle, flip_case(rng, needle)])
    elif r < 0.93:      # raw bytes in the value (not UTF-8, NUL, quotes, markup)
        value = [rng.choice([0, 0x22, 0x27, 0x3C, 0x3E, 0x26, 0x80, 0xFF, 0xC3, 0x61, 0x41, 0x20])
                 for _ in range(rng.randint(0, 6))]
        if rng.random() < 0.5:
            needle = [b for b in value[: rng.randint(0, 3)] if b < 0x80] 
    else:               # empty operand / empty value corner
        needle = [] if rng.random() < 0.7 else needle
        value = rng.choice([[], [0x20], [0x61], [0x2D], [0x2D, 0x61], [0x61, 0x20, 0x20, 0x62], [0x20, 0x61]])
    return f"attr {op} {flag} {ns} {hx(value)} {hx(needle)}"


# ---------------------------------------------------------------- el
NAME_POOL = [b"id", b"ID", b"Id", b"class", b"CLASS", b"clAss", b"idx", b"i", b"data-x", b"DATA-X",
             b"k\xc3\xa9", b"K\xc3\x89", b"x:y", b"_a", b"a.b", b"type"]


def gen_el(rng, tier):
    kind = rng.choice(["id", "class", "has"])
    ns = "html" if rng.random() < 0.7 else "svg"
    key = rand_word(rng, 1, 3) or [0x61]
    attrs = []
    for _ in range(rng.randint(0, 4)):
        name = list(rng.choice(NAME_POOL))
        r = rng.random()
        if r < 0.4:
            val = flip_case(rng, key) if rng.random() < 0.4 else list(key)
        elif r < 0.7:
            words = [rand_word(rng, 0, 2) for _ in range(rng.randint(0, 3))]
            words.insert(rng.randint(0, len(words)), list(key))
            val = []
            for k, w in enumerate(words):
                if k:
                    val += [rng.choice(WS)] * rng.randint(1, 2)
                val += w
        else:
            val = rand_word(rng, 0, 3)
        attrs.append((name, val))
    if kind == "has" and rng.random() < 0.7:
        key = flip_case(rng, list(rng.choice(NAME_POOL)))
    s = ",".join(f"{bytes(n).hex()}:{hx(v)}" for n, v in attrs) or "-"
    return f"el {kind} {ns} {hx(key)} {s}"


# ---------------------------------------------------------------- elop
CI_NAMES = ("accept accept-charset align alink axis bgcolor charset checked clear codetype color compact "
            "declare defer dir direction disabled enctype face frame hreflang http-equiv lang language link "
            "media method multiple nohref noresize noshade nowrap readonly rel rev rules scope scrolling "
            "selected shape target text type valign valuetype vlink").split()
CS_NAMES = ["data-k", "href", "types", "typ", "langx", "class", "id", "x-type", "acceptcharset", "k\u00e9",
            "value", "name", "src", "title", "style", "width", "accept_charset", "httpequiv", "vlin", "alinks"]


def gen_elop(rng, tier):
    op = rng.choice(OPS)
    flag = rng.choice(["s", "i", "n", "n"])
    ns = "html" if rng.random() < 0.65 else "svg"
    base = rng.choice(CI_NAMES if rng.random() < 0.55 else CS_NAMES)
    sel_name = flip_case(rng, list(base.encode())) if rng.random() < 0.4 else list(base.encode())
    needle = rand_word(rng, 0 if rng.random() < 0.1 else 1, 3)
    attrs = []
    for _ in range(rng.randint(0, 3)):
        r = rng.random()
        if r < 0.6:
            name = flip_case(rng, list(base.encode())) if rng.random() < 0.5 else list(base.encode())
        else:
            name = list(rng.choice(CI_NAMES + CS_NAMES).encode())
        near = flip_case(rng, needle) if rng.random() < 0.5 else list(needle)
        shape = rng.choice(["exact", "pre", "suf", "mid", "dash", "word", "other"])
        pad = lambda: rand_word(rng, 0, 2)
        val = {
            "exact": near,
            "pre": near + pad(),
            "suf": pad() + near,
            "mid": pad() + near + pad(),
            "dash": near + [0x2D] + pad(),
            "word": pad() + [rng.choice(WS)] + near + [rng.choice(WS)] + pad(),
            "other": pad(),
        }[shape]
        attrs.append((name, val))
    s = ",".join(f"{bytes(n).hex()}:{hx(v)}" for n, v in attrs) or "-"
    return f"elop {op} {flag} {ns} {hx(sel_name)} {hx(needle)} {s}"


# ---------------------------------------------------------------- malformed
def gen_bad(rng):
    return rng.choice([
        "nth 1 2", "nth x 1 1", "nth 1 1 0", "nth 1 1 5000", "nth 2147483648 0 1", "nth 1 -2147483649 1",
        "attr foo d html 61 61", "attr eq q html 61 61", "attr eq d xml 61 61", "attr eq d html 6 61",
        "attr eq d html 61 ff", "attr eq d html 61 00", "attr eq d html 2227 61", "attr sub i html 61 c3",
        "attr pre s html 61 eda080", "attr pre s html 61 c080",
        "el id html - 6964:61", "el id html 61 6964", "el id html 61 20:61", "el foo html 61 -",
        "el has html 61 3d:61", "", "zzz", "elop eq q html 61 61 -", "elop eq n html - 61 -",
        "elop eq n html 61 61 61:61:61",
    ])


def gen(rng, n, tier, pid):
    out = []
    for _ in range(n):
        r = rng.random()
        if r < 0.30:
            out.append(gen_nth(rng, tier))
        elif r < 0.68:
            out.append(gen_attr(rng, tier))
        elif r < 0.82:
            out.append(gen_el(rng, tier))
        elif r < 0.96:
            out.append(gen_elop(rng, tier))
        else:
            out.append(gen_bad(rng))
    return out


def nontrivial(case, obs):
    return obs not in ("bad-case",) and not obs.startswith("selector-error")


def stats(cases, obs):
    from collections import Counter
    c = Counter()
    for case, o in zip(cases, obs):
        f = case.split()
        kind = f[0] if f else "empty"
        o0 = o.split(" ||ORACLE:")[0]
        if kind == "nth" and o0 not in ("bad-case",):
            a, b, i = int(f[1]), int(f[2]), int(f[3])
            zone = "wrap" if i - b >= 2**31 else "nowrap"
            c[f"nth/{zone}/{o0.split()[0]}"] += 1
        elif kind == "attr" and len(f) == 6 and o0 in ("0", "1"):
            c[f"attr/{f[1]}/{o0}"] += 1
            c[f"attr-flag/{f[2]}-{f[3]}"] += 1
            if f[5] == "-":
                c["attr/empty-operand"] += 1
        elif kind == "el" and o0 in ("0", "1"):
            c[f"el/{f[1]}/{o0}"] += 1
        elif kind == "elop" and o0 in ("0", "1"):
            c[f"elop/{f[1]}/{o0}"] += 1
            c[f"elop-flag/{f[2]}-{f[3]}/{o0}"] += 1
        else:
            c[f"other/{o0.split()[0] if o0 else 'empty'}"] += 1
        if "||ORACLE:" in o:
            c["oracle/" + o.split("||ORACLE:")[1].split()[0]] += 1
    return dict(sorted(c.items()))
