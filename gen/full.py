"""Case generator for lane `full` (the whole rewriter as one model; syntax: lean/LolHtml/Lane/Full.lean).

Documents: (a) the adversarial fragment grammar of gen/lex.py, (b) the structured tag documents of
gen/sel.py interleaved with comments / text / doctypes, (c) both concatenated — always ASCII (the text
decoder is the `enc` package's model; with ASCII it is the identity on bytes).
Handlers: selector entries (selectors of gen/sel.py's grammar, aimed at the document's tags or random)
carrying any non-empty subset of element / comments / text closures; document entries carrying any
non-empty subset of doctype / comments / text / end closures.  Scripts: observers (`-`, `oe.-`) or
the op grammar of gen/edit.py, optionally failing (`!`).

pid `OBS` (or tier `obs`): observers only.
"""
import lex
import sel
import edit

ASCII_MAP = {"é": "e", "ÿ": "y", "\xff": "~", "日": "n", "本": "h"}


def asciify(s):
    return "".join(ASCII_MAP.get(c, c if ord(c) < 128 else "?") for c in s)


def hx(b):
    if isinstance(b, str):
        b = b.encode()
    return b.hex() if b else "-"


# ---------------------------------------------------------------- documents

def lex_doc(rng):
    n = rng.choice([1, 1, 2, 2, 3, 3, 4, 5, 6, 8])
    s = "".join(lex.fragment(rng) for _ in range(n))
    if rng.random() < 0.2:
        s = s[: rng.randrange(0, len(s) + 1)]
    return asciify(s)


FILLERS = ["<!--c-->", "<!---->", "x", "hello ", " ", "a &amp; b", "1 > 0", "<!DOCTYPE html>", "<!doctype a PUBLIC 'p' \"s\">",
           "<!-- <b> -->", "\n", "<?pi?>", "</>", "<![CDATA[x]]>"]


def sel_doc(rng, tier):
    evs = sel.gen_doc(rng, False, tier)
    out = ""
    for e in evs:
        out += sel.html_of([e]).decode()
        if rng.random() < 0.3:
            out += rng.choice(FILLERS)
    return out, evs


def document(rng, tier):
    r = rng.random()
    evs = None
    if r < 0.45:
        s = lex_doc(rng)
    elif r < 0.85:
        s, evs = sel_doc(rng, tier)
    else:
        s, evs = sel_doc(rng, tier)
        s = s + lex_doc(rng) if rng.random() < 0.5 else lex_doc(rng) + s
    if rng.random() < 0.1:
        s = s[: rng.randrange(0, len(s) + 1)]
    return s.encode("ascii", "replace"), evs


# ---------------------------------------------------------------- selectors

SIMPLE_NAMES = lex.PLAIN_TAGS + lex.TEXT_TAGS + ["svg", "math", "desc", "mi", "g", "font"] + sel.HTML_TAGS


def simple_sellist(rng):
    r = rng.random()
    if r < 0.3:
        return [[[("u",)]]]
    n = rng.choice(SIMPLE_NAMES)
    if ":" in n:
        n = "div"
    comp = [("t", sel.rand_case(rng, n))]
    if rng.random() < 0.3:
        comp.append(rng.choice([("e", "class"), ("e", "id"), ("i", "x"), ("k", "foo"), ("e", "href"), ("a", "a", "eq", "b", "cs"),
                                ("f",), ("g",), ("n", 2, 1), ("o", 0, 1)]))
    cx = [comp]
    if rng.random() < 0.3:
        cx = [[("t", rng.choice(["div", "p", "svg", "a", "b", "span", "table", "select"]))], rng.choice(["c", "d"])] + cx
    return [cx]


def gen_selector(rng, evs, tree):
    r = rng.random()
    if evs and tree and r < 0.55:
        return sel.gen_sellist_for_doc(rng, evs, tree)
    if r < 0.8:
        return simple_sellist(rng)
    return sel.gen_sellist(rng)


# ---------------------------------------------------------------- handlers

def obs_script(rng, kind):
    if kind == "e" and rng.random() < 0.35:
        return ",".join(["oe.-"] * rng.choice([1, 1, 2]))
    return "-"


def gen_scripts(rng, kind, mode):
    n = rng.choice([1, 1, 2, 3])
    out = []
    for _ in range(n):
        if mode == "obs" or rng.random() < 0.25:
            s = obs_script(rng, kind)
        else:
            s = edit.gen_script(rng, kind)
        if mode == "fail" and rng.random() < 0.2:
            s += "!"
        out.append(s)
    return "|".join(out)


def nonempty_subset(rng, kinds, weights):
    while True:
        ks = [k for k, w in zip(kinds, weights) if rng.random() < w]
        if ks:
            return ks


def gen_handlers(rng, nsel, ndoc, mode):
    entries = []
    for _ in range(nsel):
        ks = nonempty_subset(rng, ["e", "c", "t"], [0.75, 0.25, 0.3])
        entries.append("S/" + "/".join("%s=%s" % (k, gen_scripts(rng, k, mode)) for k in ks))
    for _ in range(ndoc):
        ks = nonempty_subset(rng, ["d", "c", "t", "z"], [0.3, 0.4, 0.4, 0.3])
        entries.append("D/" + "/".join("%s=%s" % (k, gen_scripts(rng, k, mode)) for k in ks))
    return ";".join(entries) or "-"


def nested_doc(rng):
    """deeply nested same-name elements with mis-nesting: several open elements with removed content /
    deferred end-tag edits at once, popped together by one end tag or never closed"""
    names = rng.sample(["div", "span", "p", "b", "li", "x-y", "section"], rng.choice([1, 2, 3]))
    s = ""
    open_ = []
    for _ in range(rng.randrange(3, 14)):
        r = rng.random()
        if r < 0.5:
            n = rng.choice(names)
            s += "<%s%s>" % (sel.rand_case(rng, n), rng.choice(["", "", " id=x", " class='foo bar'", " a"]))
            open_.append(n)
        elif r < 0.8 and open_:
            n = open_.pop() if rng.random() < 0.6 else rng.choice(open_)
            s += "</%s>" % n
        elif r < 0.9:
            s += rng.choice(["t", "<!--c-->", "<br>", "<img/>", " "])
        else:
            s += "</%s>" % rng.choice(names)
    return s, names


def handover_doc(rng):
    """tags the tag scanner has to hand to the lexer (RequestLexeme): foreign content whose integration points hold end
    tags with unhashable names, `font` / annotation-xml candidates, each directly followed by start tags that selectors
    aim at; with only selector-scoped handlers the parser goes scan -> lex -> scan around them"""
    root = rng.choice(["math", "svg"])
    ips = ["mi", "mo", "mtext", "ms", "annotation-xml encoding=text/html"] if root == "math" else ["desc", "title", "foreignObject"]
    targets = rng.sample(["b", "i", "span", "a", "q7", "li"], 2)
    s = rng.choice(["", "<p>", "x"]) + "<" + root + ">"
    for _ in range(rng.randrange(1, 4)):
        ip = rng.choice(ips)
        s += "<" + ip + ">"
        for _ in range(rng.randrange(1, 4)):
            r = rng.random()
            if r < 0.45:
                s += rng.choice(["</x-custom>", "</my:el>", "</annotation-xml>", "</a1-b>", "</" + "z" * 14 + ">"])
            elif r < 0.6:
                s += rng.choice(["<font color=red>", "<font>", "<annotation-xml encoding='TEXT/html'>", "<x-custom a=b>"])
            else:
                s += "t"
            t = rng.choice(targets)
            s += "<%s%s>%s" % (t, rng.choice(["", " class=foo", " id=x"]), rng.choice(["y", "", "</%s>" % t]))
        if rng.random() < 0.8:
            s += "</" + ip.split(" ")[0] + ">"
    if rng.random() < 0.8:
        s += "</" + root + ">"
    s += "<%s>z</%s>" % (targets[0], targets[0])
    return s, targets


def gen_case(rng, tier, mode):
    shape = rng.random()
    doc, evs = document(rng, tier)
    tree = sel.doc_tree(evs, False) if evs else None
    nsel = rng.choice([0, 1, 1, 1, 2, 2, 3, 4])
    ndoc = rng.choice([0, 0, 0, 1, 1, 2])
    sels = [gen_selector(rng, evs, tree) for _ in range(nsel)]
    if shape < 0.04:
        # typed-counter shapes of gen/sel.py (multi-level pops with :nth-of-type selectors)
        sels, evs = sel.typed_counter_case(rng)
        doc = sel.html_of(evs)
        nsel = len(sels)
    elif shape < 0.07:
        # many registered selectors: match-id sets beyond one / two machine words
        nsel = rng.choice([31, 32, 33, 63, 64, 65, 66, 70])
        sels = [gen_selector(rng, evs, tree) if rng.random() < 0.5 else simple_sellist(rng) for _ in range(nsel)]
    elif shape < 0.12:
        s, names = handover_doc(rng)
        doc = s.encode()
        nsel = rng.choice([1, 2, 3])
        ndoc = rng.choice([0, 0, 0, 1])
        sels = [[[[("t", rng.choice(names))]]] if rng.random() < 0.8 else [[[("u",)]]] for _ in range(nsel)]
    elif shape < 0.2:
        s, names = nested_doc(rng)
        doc = s.encode()
        nsel = rng.choice([1, 2, 3])
        sels = [[[[("t", rng.choice(names))]]] if rng.random() < 0.8 else [[[("u",)]]] for _ in range(nsel)]
    handlers = gen_handlers(rng, nsel, ndoc, mode)
    cuts = lex.cuts_for(rng, len(doc))
    strict = int(rng.random() < 0.35)
    g = rng.choice([0, 0, 0, 1, 2, 3])
    maxmem = 0
    if shape > 0.9 and len(doc) > 0:
        # memory-limit shapes: the VM's open-element stack is not charged in the model, so memory limits
        # only without selectors; small limits so that buffering an unfinished tail fails
        nsel, sels = 0, []
        handlers = gen_handlers(rng, 0, rng.choice([0, 1, 1, 2]), mode)
        maxmem = rng.choice([1, 2, 3, 5, 8, rng.randrange(1, len(doc) + 2)])
        g = rng.choice([0, 2, 2, 3, 3, 1])
    elif nsel == 0 and rng.random() < 0.3 and len(doc) > 0:
        maxmem = rng.randrange(1, len(doc) + 2)
    return " ".join([
        doc.hex() or "-",
        ",".join(map(str, cuts)) or "-",
        str(strict),
        str(g),
        str(maxmem),
        sel.enc_selset(sels),
        ",".join(hx(sel.css_sellist(sl)) for sl in sels) or "-",
        handlers,
    ])


def gen(rng, n, tier, pid):
    out = []
    for _ in range(n):
        if pid == "OBS" or tier == "obs":
            mode = "obs"
        else:
            r = rng.random()
            mode = "obs" if r < 0.3 else ("fail" if r < 0.5 else "mut")
        out.append(gen_case(rng, tier, mode))
    return out


def project(pid, case, line):
    if line.startswith("PANIC"):
        return "PANIC"
    return line


def nontrivial(case, obs):
    return obs.split(" # ")[-1] != "-"


def stats(cases, obs):
    import collections
    c = collections.Counter()
    for case, o in zip(cases, obs):
        f = case.split(" ")
        c["cases"] += 1
        c["with_selectors"] += f[5] != "0"
        c["with_doc_handlers"] += ";D/" in (";" + f[7])
        c["with_mutation"] += any(k in f[7] for k in (".h", ".t", "rm", "rk", ".s"))
        c["with_fail"] += "!" in f[7]
        c["with_maxmem"] += f[4] != "0"
        if o is None:
            continue
        parts = o.split(" ||ORACLE:")[0].split(" # ")
        if len(parts) != 3:
            c["malformed-or-panic"] += 1
            continue
        c["res:" + parts[0].split(";")[-1]] += 1
        log = [] if parts[2] == "-" else parts[2].split(";")
        c["log_entries"] += len(log)
        for e in log:
            c["inv:" + e[0]] += 1
        c["cases_with_invocation"] += bool(log)
        c["output_differs_from_input"] += "".join(x for x in parts[1].split(";") if x != "-") != (f[0] if f[0] != "-" else "")
    return dict(c)
