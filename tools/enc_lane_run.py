#!/usr/bin/env python3
"""Development helper for lane `enc`: generate cases for the given seeds, run model and implementation,
compare through `gen/enc.py`'s `project`, print differences, oracle flags and the case distribution.

usage: tools/enc_lane_run.py <n per seed> <seed> [<seed> ...]
"""
import collections
import os
import random
import subprocess
import sys

HERE = os.path.dirname(os.path.dirname(os.path.abspath(__file__)))
sys.path.insert(0, os.path.join(HERE, "gen"))
import enc  # noqa: E402

DRIVER = os.path.join(HERE, "lean", ".lake", "build", "bin", "driver")
HARNESS = os.path.join(HERE, "harness", "target", "debug", "verif_harness")


def run(binp, cases):
    p = subprocess.run([binp, "enc"], input="\n".join(cases) + "\n", capture_output=True, text=True)
    return p.stdout.split("\n")


def main():
    n = int(sys.argv[1])
    tot = diffs = 0
    flags = collections.Counter()
    st = collections.Counter()
    for seed in sys.argv[2:]:
        corpus = []
        cdir = os.path.join(HERE, "corpus", "enc")
        if os.path.isdir(cdir):
            for fn in sorted(os.listdir(cdir)):
                corpus += [l.rstrip("\n") for l in open(os.path.join(cdir, fn)) if l.strip() and not l.startswith("#")]
        cases = corpus + enc.gen(random.Random(int(seed)), n, "quick", "C13")
        model = run(DRIVER, cases)
        raw = run(HARNESS, cases)
        for c, m, r in zip(cases, model, raw):
            tot += 1
            parts = r.split(" ||ORACLE:")
            for fl in parts[1:]:
                flags[fl.split(" ")[0]] += 1
            if enc.project("C13", c, m) != enc.project("C13", c, parts[0]):
                diffs += 1
                print("DIFF", c[:160])
                print("   M", m[:160])
                print("   I", r[:220])
            if r.startswith("PANIC"):
                flags["PANIC"] += 1
            if m == "impl-only":
                st["impl-only"] += 1
            if any(x in m for x in ("bad-case", "fuel", "dropped", "render-fail")):
                st["bad-model-output"] += 1
        for k, v in enc.stats(cases, None).items():
            st[k] += v
    print("total", tot, "diffs", diffs, "oracle flags", dict(flags))
    for k in sorted(st):
        print("  ", k, st[k])


if __name__ == "__main__":
    main()
