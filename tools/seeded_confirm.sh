#!/bin/bash
# Confirm a seeded mutant produced by an independent agent: usage seeded_confirm.sh <srcdir> <id> <demo-file-name>
# - fresh scratch worktree of /repo HEAD, apply patch, full suite must pass, demo must FAIL; without patch demo must PASS.
set -u
src=$1; id=$2; demo=$3
wt=/tmp/mutv/$id
export CARGO_TARGET_DIR=/tmp/mutv/target CARGO_NET_OFFLINE=true
mkdir -p /tmp/mutv
git -C /repo worktree remove --force $wt 2>/dev/null
git -C /repo worktree add -q --detach $wt HEAD || exit 2
cd $wt
cp $src/tests/$demo tests/ 2>/dev/null || cp $src/$demo tests/
echo "== without patch: demo must pass"
cargo test --offline --test ${demo%.rs} 2>&1 | grep -E "^test result|error(\[|:)" | head -3
git apply $src/patch.diff || { echo "PATCH DOES NOT APPLY"; exit 3; }
echo "== with patch: build + full suite (excluding demo)"
mv tests/$demo /tmp/mutv/$demo.keep
cargo test --workspace --no-fail-fast --offline 2>&1 | grep -E "^test result|FAILED|error(\[|:)" | head -6
mv /tmp/mutv/$demo.keep tests/$demo
echo "== with patch: demo must fail"
cargo test --offline --test ${demo%.rs} 2>&1 | grep -E "^test result|error(\[|:)" | head -3
cd /; git -C /repo worktree remove --force $wt
