#!/bin/bash
# usage: seeded_intake.sh <mutdir-name> <seeded-id> <check>...   (confirm, store, run checks)
d=$1; sid=$2; shift 2
/verif/tools/seeded_confirm.sh /tmp/mut/$d $d demo_$d.rs 2>&1 | grep -E "^==|test result|DOES NOT" | tr '\n' ' '; echo
mkdir -p /verif/seeded/$sid; cp /tmp/mut/$d/patch.diff /verif/seeded/$sid/; cp /tmp/mut/$d/tests/demo_$d.rs /verif/seeded/$sid/; cp /tmp/mut/$d/NOTES.md /verif/seeded/$sid/
/verif/tools/seeded_run.sh $sid "$@" 2>&1 | grep -E "^---|^VIOLATION|^\[|^oracle|^obligation|^lane|^directed" | cut -c1-250
