#!/bin/bash
# Line coverage of /repo's sources by the correspondence lanes (generator quality, not a check):
# builds the harness with source-based coverage (nightly + llvm-tools), runs every lane's quick-tier
# cases of every property through it, and writes docs/coverage.md. usage: tools/coverage.sh [cases-per-lane]
set -u
cd /verif
N=${1:-3000}
TC=nightly
LLVM=$(dirname $(rustup run $TC rustc --print target-libdir))/bin
OUT=/verif/harness/target-cov
rm -rf $OUT/prof; mkdir -p $OUT/prof
(cd harness && LLVM_PROFILE_FILE=$OUT/prof/build-%p.profraw CARGO_TARGET_DIR=$OUT RUSTFLAGS="-C instrument-coverage" CARGO_NET_OFFLINE=true rustup run $TC cargo build --offline 2>&1 | tail -2)
BIN=$OUT/debug/verif_harness
[ -x $BIN ] || { echo "instrumented build failed"; exit 1; }
python3 - "$N" "$BIN" "$OUT" <<'PY'
import sys, os, random, subprocess
sys.path.insert(0, '/verif')
from vlib import core
from vlib.props import PROPS
n, binp, out = int(sys.argv[1]), sys.argv[2], sys.argv[3]
seen = set()
for pid, P in sorted(PROPS.items()):
    for lu in P["lanes"]:
        lane = lu["lane"]
        if lane in seen or lane == "echo":
            continue
        seen.add(lane)
        mod = core.load_lane(lu.get("gen", lane))
        cases = core.corpus_cases(lane) + mod.gen(random.Random(7), min(n, lu["n_quick"] * 2), "quick", pid)
        env = dict(os.environ, LLVM_PROFILE_FILE=f"{out}/prof/{lane}-%p.profraw")
        # shard over 16 processes
        k = 16
        procs = []
        for i in range(k):
            part = cases[i::k]
            if not part:
                continue
            p = subprocess.Popen([binp, lane], stdin=subprocess.PIPE, stdout=subprocess.DEVNULL, stderr=subprocess.DEVNULL, env=env)
            procs.append((p, ("\n".join(part) + "\n").encode()))
        for p, data in procs:
            try:
                p.communicate(data, timeout=1800)
            except Exception:
                p.kill()
        print(f"lane {lane}: {len(cases)} cases", flush=True)
PY
$LLVM/llvm-profdata merge -sparse $OUT/prof/*.profraw -o $OUT/all.profdata
$LLVM/llvm-cov report $BIN -instr-profile=$OUT/all.profdata --ignore-filename-regex='(\.cargo|rustc|/verif/|tests\.rs|/tests/|verif_hooks)' 2>/dev/null > $OUT/report.txt
python3 - $OUT/report.txt <<'PY'
import sys, re
rows = []
for l in open(sys.argv[1]):
    p = l.split()
    if len(p) >= 13 and p[0].endswith('.rs'):
        # Filename Regions Missed Cover Functions Missed Executed Lines Missed Cover Branches Missed Cover
        rows.append((p[0], int(p[7]), int(p[8]), p[9], p[3]))
tot = [l for l in open(sys.argv[1]) if l.startswith('TOTAL')]
with open('/verif/docs/coverage.md', 'w') as f:
    f.write("# Line coverage of /repo by the correspondence lanes\n\nProduced by `tools/coverage.sh` (source-based coverage, nightly llvm-tools; all lanes, quick-tier generators,\nseed 7). This measures generator quality — what the model ⇄ implementation comparison can see — not proof.\nTest modules and the verification hooks are excluded.\n\n| file | lines | missed | line cover | region cover |\n|---|---|---|---|---|\n")
    for r in sorted(rows):
        f.write(f"| {r[0]} | {r[1]} | {r[2]} | {r[3]} | {r[4]} |\n")
    if tot:
        p = tot[0].split()
        f.write(f"| **TOTAL** | {p[7]} | {p[8]} | {p[9]} | {p[3]} |\n")
print(open('/verif/docs/coverage.md').read()[-3000:])
PY
