#!/bin/bash
# Apply a seeded mutant to /repo, run the given checks, undo. usage: seeded_run.sh <seeded-id> <check-id>...
id=$1; shift
cd /verif
git -C /repo diff --quiet || { echo "/repo not clean"; exit 2; }
git -C /repo apply /verif/seeded/$id/patch.diff || { echo "patch does not apply"; exit 3; }
for c in "$@"; do
  echo "--- check $c against seeded $id"
  ./check $c --tier quick 2>&1 | grep -E "^VIOLATION|^KNOWN|^\[|^oracle|^obligation|^lane-div|^directed" | cut -c1-400
done
git -C /repo checkout -- .
git -C /repo status --short | head -3
