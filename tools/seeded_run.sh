#!/bin/bash
# Apply a seeded mutant to /repo, run the given checks, undo. usage: seeded_run.sh <seeded-id> <check-id>...
id=$1; shift
cd /verif
git -C /repo diff --quiet || { echo "/repo not clean"; exit 2; }
# evidence files must describe runs on the unchanged tree only: keep them aside
rm -rf /tmp/evidence.keep; cp -r /verif/evidence /tmp/evidence.keep
git -C /repo apply /verif/seeded/$id/patch.diff || { echo "patch does not apply"; exit 3; }
for c in "$@"; do
  echo "--- check $c against seeded $id"
  ./check $c --tier quick 2>&1 | grep -E "^VIOLATION|^KNOWN|^\[|^oracle|^obligation|^lane-div|^directed" | cut -c1-400
done
git -C /repo checkout -- .
rm -rf /verif/evidence; mv /tmp/evidence.keep /verif/evidence
git -C /repo status --short | head -3
# rebuild the binaries and generated tables from the clean tree again
(cd /verif && python3 -c "import sys; sys.path.insert(0,'.'); from vlib import core; core.run_translators()" && cd lean && lake build driver >/dev/null 2>&1; cd /verif/harness && cargo build --offline >/dev/null 2>&1)
