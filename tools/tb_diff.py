#!/usr/bin/env python3
"""show the first differing token of every differing case of lane tb: tb_diff.py cases model impl [max]"""
import sys
cases=open(sys.argv[1]).read().splitlines(); m=open(sys.argv[2]).read().splitlines(); i=open(sys.argv[3]).read().splitlines()
mx=int(sys.argv[4]) if len(sys.argv)>4 else 20
n=0
for c,a,b in zip(cases,m,i):
    if a!=b:
        n+=1
        if n>mx: continue
        ta=a.split(); tb=b.split(); tc=c.split()
        k=next((j for j in range(min(len(ta),len(tb))) if ta[j]!=tb[j]), min(len(ta),len(tb)))
        print("CASE", " ".join(tc[:k+2]))
        print("  at token", k, tc[k+1] if k+1<len(tc) else "?", "prev:", ta[k-1] if k>0 else "-")
        print("  model:", ta[k] if k<len(ta) else "<none>")
        print("  impl :", tb[k] if k<len(tb) else "<none>")
print("differing cases:", n, "of", len(cases))
