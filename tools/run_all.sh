#!/bin/bash
# run every claimed check on the current tree (default tier quick), print one summary line each
cd /verif
tier=${1:-quick}
for id in $(python3 -c "
import json; print(' '.join(c['property_id'] for c in json.load(open('MANIFEST.json'))['checks']))"); do
  ./check $id --tier $tier 2>&1 | grep -E "^VIOLATION|^\[$id\]" | cut -c1-220
done
