#!/usr/bin/env python3
"""Generator for lane `tbn` (Lean only): well-nested foreign-content islands with ARBITRARY enumerated names inside
integration points, in an arbitrary well-nested HTML context, minus the known deviation shapes:

  F2   self-closing svg / math root                     (never generated)
  F11  svg / math start tag inside foreign content      (foreign element names exclude svg, math)
  F12  HTML element inside an integration point carrying an integration-point name of the island's namespace
  F33  mglyph / malignmark start tag inside an integration point
  F34  frameset start tag inside an integration point
  F-tb-7  table-structure start tag (caption col colgroup tbody td tfoot th thead tr) inside an integration point
          (leaves the island when the insertion mode is a table mode)
  F-tb-8  foreign element named like an HTML element that can be closed implicitly (option optgroup a button form select
          rb rt rtc rp): an end tag left over inside the integration point walks down to it
  F-tb-6  stand-alone start tag of a non-void element (everything non-void gets its end tag)
  breakout tags / font inside foreign content (they leave the island: not well-nested)
  plaintext (swallows the rest of the document)

usage: tbf_gen.py <seed> <n> [--shape F33|F34|F12|F11]   (with --shape: the shape IS generated, to show the lane sees it)
"""
import random, sys
sys.path.insert(0, __file__.rsplit("/", 2)[0] + "/gen")
import tb as T

VOIDLIKE = ["area", "br", "embed", "img", "keygen", "wbr", "param", "source", "track", "image", "base", "basefont", "bgsound",
            "link", "meta", "input", "hr", "caption", "col", "colgroup", "frame", "head", "tbody", "td", "tfoot", "th", "thead",
            "tr", "html", "body"]
TSTRUCT = ["caption", "col", "colgroup", "tbody", "td", "tfoot", "th", "thead", "tr", "table"]
IMPLIED = ["option", "optgroup", "a", "button", "form", "select", "rb", "rt", "rtc", "rp"]
RAW = ["xmp", "iframe", "noembed", "textarea", "title", "style", "script", "noscript", "noframes"]
BREAKOUT = ["b", "big", "blockquote", "body", "br", "center", "code", "dd", "div", "dl", "dt", "em", "embed", "h1", "h2", "h3",
            "h4", "h5", "h6", "head", "hr", "i", "img", "li", "listing", "menu", "meta", "nobr", "ol", "p", "pre", "ruby", "s",
            "small", "span", "strong", "strike", "sub", "sup", "table", "tt", "u", "ul", "var", "font"]
IP = {"svg": ["foreignobject", "desc", "title"], "math": ["mi", "mo", "mn", "ms", "mtext", "annotation-xml"]}
ALL = [n for n in T.ALL if n != "plaintext"]


def html_seq(rng, depth, ns, shape):
    """well-nested HTML content inside an integration point of an island of namespace `ns`"""
    out = []
    for _ in range(rng.randint(0, 4)):
        r = rng.random()
        if r < 0.12:
            out.append(T.char(rng)); continue
        n = rng.choice(ALL)
        if n in ("svg", "math"):
            if depth > 0:
                out += island(rng, depth - 1, n, shape)
            continue
        if n in ("mglyph", "malignmark") and shape != "F33":
            continue
        if n == "frameset" and shape != "F34":
            continue
        if n in IP[ns] and shape != "F12":
            continue
        if n == "template":
            continue
        if n in TSTRUCT and shape != "F-tb-7":
            continue
        if n in VOIDLIKE:
            out.append(T.start(rng, n, 0.1)); continue
        if n in RAW:
            out += ["S:" + n, "C:t", "E:" + n]; continue
        out.append(T.start(rng, n, 0.03))
        if depth > 0:
            out += html_seq(rng, depth - 1, ns, shape)
        out.append("E:" + n)
    return out


def foreign_seq(rng, depth, ns, shape):
    out = []
    for _ in range(rng.randint(0, 4)):
        r = rng.random()
        if r < 0.1:
            out.append(T.char(rng)); continue
        n = rng.choice(ALL + T.OTHER * 4 + IP[ns] * 6)
        if n in IP[ns]:
            s = "S:" + n
            if n == "annotation-xml":
                s += ";e=" + rng.choice("hx")
            out.append(s)
            out += html_seq(rng, depth, ns, shape)
            out.append("E:" + n)
            continue
        if n in BREAKOUT or n == "annotation-xml":
            continue
        if n in ("svg", "math") and shape != "F11":
            continue
        if n in IMPLIED and shape != "F-tb-8":
            continue
        if rng.random() < 0.2:
            out.append("S:" + n + "/"); continue
        out.append("S:" + n)
        if depth > 0:
            out += foreign_seq(rng, depth - 1, ns, shape)
        out.append("E:" + n)
    return out


def island(rng, depth, root, shape):
    return ["S:" + root] + foreign_seq(rng, depth, root, shape) + ["E:" + root]


def context(rng):
    """a well-nested HTML context: open elements (closed again after the island)"""
    pool = ["div", "p", "span", "ul", "li", "b", "a", "select", "button", "h1", "form", "dl", "dt", "object", "section", "x"]
    if SHAPE == "F-tb-7":
        pool += ["table", "tr", "td", "caption"] * 2
    ctx = [rng.choice(pool) for _ in range(rng.randint(0, 4))]
    return ctx


def one(rng, shape):
    ctx = context(rng)
    toks = []
    if rng.random() < 0.5:
        toks.append("S:body")
    toks += ["S:" + n for n in ctx]
    for _ in range(rng.randint(1, 2)):
        toks += island(rng, 3, rng.choice(["svg", "math"]), shape)
    toks += ["E:" + n for n in reversed(ctx)]
    if rng.random() < 0.3:
        toks.append("S:textarea")
    return "s1 nonstrict " + " ".join(toks)


SHAPE = None

if __name__ == "__main__":
    seed, n = int(sys.argv[1]), int(sys.argv[2])
    shape = sys.argv[4] if len(sys.argv) > 4 and sys.argv[3] == "--shape" else None
    SHAPE = shape
    rng = random.Random(seed)
    for _ in range(n):
        print(one(rng, shape))
