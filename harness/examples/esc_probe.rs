//! Probes for findings noted in docs/pkg-esc.md (run: cargo run --offline --example esc_probe).
use encoding_rs::{SHIFT_JIS, WINDOWS_1252};
use lol_html::{AsciiCompatibleEncoding, HtmlRewriter, Settings, doc_comments, element};
use std::cell::RefCell;
use std::rc::Rc;

fn run<'h>(doc: &[u8], enc: &'static encoding_rs::Encoding, s: Settings<'h, '_>) -> Result<Vec<u8>, String> {
    let mut out = vec![];
    {
        let mut rw = HtmlRewriter::new(s.with_encoding(AsciiCompatibleEncoding::new(enc).unwrap()), |c: &[u8]| {
            out.extend_from_slice(c)
        });
        rw.write(doc).map_err(|e| format!("{e:?}"))?;
        rw.end().map_err(|e| format!("{e:?}"))?;
    }
    Ok(out)
}

fn main() {
    // P1: read accessors decode with BOM sniffing (base/bytes.rs:114 `encoding.decode(..)`).
    let seen = Rc::new(RefCell::new(vec![]));
    let s2 = seen.clone();
    let doc = b"<!--\xFF\xFEab--><a title=\"\xEF\xBB\xBF\xE9\">";
    let s3 = seen.clone();
    run(
        doc,
        WINDOWS_1252,
        Settings::new()
            .append_document_content_handler(doc_comments!(move |c| {
                s2.borrow_mut().push(format!("comment.text() = {:?}", c.text()));
                Ok(())
            }))
            .append_element_content_handler(element!("a", move |el| {
                s3.borrow_mut().push(format!("get_attribute(title) = {:?}", el.get_attribute("title")));
                Ok(())
            })),
    )
    .unwrap();
    println!("P1 windows-1252 doc {:?}:", String::from_utf8_lossy(doc));
    for l in seen.borrow().iter() {
        println!("   {l}");
    }
    println!("   expected (windows-1252): comment \"ÿþab\", title \"ï»¿é\"");

    // P2: set_attribute with a name whose Shift_JIS encoding has a trail byte in b'A'..=b'Z'
    // (KATAKANA LETTER A, U+30A2 = 0x83 0x41): eq_case_insensitive's debug_assert / duplicate attribute.
    let r = std::panic::catch_unwind(|| {
        run(
            b"<a b=c>",
            SHIFT_JIS,
            Settings::new().append_element_content_handler(element!("a", |el| {
                el.set_attribute("\u{30A2}", "1").unwrap();
                el.set_attribute("\u{30A2}", "2").unwrap();
                Ok(())
            })),
        )
    });
    // P2b: the attribute already exists in the source
    let r2 = std::panic::catch_unwind(|| {
        run(
            b"<a \x83\x41=0>",
            SHIFT_JIS,
            Settings::new().append_element_content_handler(element!("a", |el| {
                el.set_attribute("\u{30A2}", "1").unwrap();
                Ok(())
            })),
        )
    });
    match r2 {
        Ok(Ok(out)) => println!("P2b shift_jis <a \u{30A2}=0> + set_attribute(\u{30A2},1) -> {:?}", SHIFT_JIS.decode(&out).0),
        Ok(Err(e)) => println!("P2b error {e}"),
        Err(_) => println!("P2b PANIC (debug_assert in eq_case_insensitive)"),
    }
    match r {
        Ok(Ok(out)) => println!("P2 shift_jis output bytes: {:02x?}  = {:?}", out, SHIFT_JIS.decode(&out).0),
        Ok(Err(e)) => println!("P2 error {e}"),
        Err(_) => println!("P2 PANIC (debug_assert in eq_case_insensitive)"),
    }
}
