#![allow(dead_code)]
pub fn to_hex(b: &[u8]) -> String {
    let mut s = String::with_capacity(b.len() * 2);
    for x in b {
        s.push_str(&format!("{x:02x}"));
    }
    s
}
pub fn hex_or_dash(b: &[u8]) -> String {
    if b.is_empty() { "-".into() } else { to_hex(b) }
}
pub fn of_hex(s: &str) -> Option<Vec<u8>> {
    if s == "-" {
        return Some(vec![]);
    }
    if s.len() % 2 != 0 {
        return None;
    }
    (0..s.len() / 2)
        .map(|i| u8::from_str_radix(&s[2 * i..2 * i + 2], 16).ok())
        .collect()
}
pub fn nat_list(s: &str) -> Option<Vec<usize>> {
    if s == "-" {
        return Some(vec![]);
    }
    s.split(',').map(|t| t.parse().ok()).collect()
}
pub fn nat_list_str(l: &[usize]) -> String {
    if l.is_empty() {
        "-".into()
    } else {
        l.iter().map(|x| x.to_string()).collect::<Vec<_>>().join(",")
    }
}
/// Split `input` at the given (sorted, possibly repeated => empty chunk) cut offsets.
pub fn split_at_cuts<'a>(input: &'a [u8], cuts: &[usize]) -> Vec<&'a [u8]> {
    let mut res = vec![];
    let mut prev = 0;
    for &c in cuts {
        let c = c.min(input.len()).max(prev);
        res.push(&input[prev..c]);
        prev = c;
    }
    res.push(&input[prev..]);
    res
}
