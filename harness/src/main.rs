//! Correspondence harness: runs the real lol-html (path dependency on /repo, rebuilt from the
//! current working tree by cargo on every check) on one case per stdin line and prints one
//! canonical observation line per case. The Lean driver does the same with the model.
mod lanes;
mod util;

use std::io::{BufRead, Write};

fn main() {
    let args: Vec<String> = std::env::args().collect();
    if args.len() != 2 {
        eprintln!("usage: verif_harness <lane>");
        std::process::exit(2);
    }
    let Some(f) = lanes::find(&args[1]) else {
        eprintln!("unknown lane {}", args[1]);
        std::process::exit(2);
    };
    // keep panic messages out of stderr noise; lanes use catch_unwind themselves
    std::panic::set_hook(Box::new(|_| {}));
    let stdin = std::io::stdin();
    let stdout = std::io::stdout();
    let mut out = std::io::BufWriter::new(stdout.lock());
    for line in stdin.lock().lines() {
        let line = line.unwrap();
        let l = line.trim_end_matches(['\n', '\r']);
        let res = std::panic::catch_unwind(|| f(l));
        match res {
            Ok(s) => writeln!(out, "{s}").unwrap(),
            Err(e) => {
                let msg = e
                    .downcast_ref::<String>()
                    .cloned()
                    .or_else(|| e.downcast_ref::<&str>().map(|s| s.to_string()))
                    .unwrap_or_default();
                writeln!(out, "PANIC {}", msg.replace('\n', " ")).unwrap()
            }
        }
    }
    out.flush().unwrap();
}
