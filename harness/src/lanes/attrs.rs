//! Lane `attrs` (properties C16, C14): the element / attribute read API on the REAL HtmlRewriter.
//!
//! case:  <ctx html|svg|math> <tag bytes hex> <cut | -> [<edit[,edit]* | ->] <query hex[,query hex]* | ->
//!        the document is `prefix ++ tag bytes` with prefix "" / "<svg>" / "<math>", encoding windows-1252
//!        (every byte round-trips), written in two pieces when a cut position is given.
//!        edit = s:<name hex>:<value hex> (set_attribute) | r:<name hex> (remove_attribute) | n:<name hex> (set_tag_name);
//!        the edits are applied in order to EVERY element, in its handler, after the first round of reads; then
//!        tag_name / tag_name_preserve_case / attributes() / the queries are read again.
//! obs :  <res;..> # one record per element-handler invocation, `;`-separated:
//!        E:<tag_name>:<tag_name_preserve_case>:<ns 0|1|2>:<self_closing>:<can_have_content>:<src s-e>:
//!          <attr[+attr]* | ->:<query result[,..] | ->
//!        attr  = <name()>~<name_preserve_case()>=<value()>@<name loc s-e>/<value loc s-e>   (N/N when None)
//!        query = g<get_attribute: hex | - (empty) | N (None)>h<has_attribute 0|1>
//!        with an edit script each record continues `:A:<edit result[,..]>:<tag_name>:<tag_name_preserve_case>:<attrs>:<queries>`
//!          edit result = o | eE | eF<ch hex> (AttributeNameError) | tE | tI | tF<ch hex> (TagNameError)
//!        strings are printed as the hex of their windows-1252 bytes (the read accessors decode without BOM
//!        handling since the repair of the BOM-sniffing finding, so this is exact for every byte string).
//!
//! Oracle (independent of the Lean model): a WHATWG-state attribute parser written here, cross-checked
//! against html5ever's tokenizer (tag token) and tree builder (namespace), compared with what the
//! handler observed for the case's tag. ` ||ORACLE:C16:<tag> …`:
//!   F8-lookup-rejected-name         (REPAIRED finding; a violation if it shows up) get/has_attribute miss, or
//!                                   remove_attribute leaves, an attribute that attributes() lists because the
//!                                   name is validated with the setter's reject list
//!   F9-integration-point-namespace  namespace_uri of an HTML integration point element (svg desc/title/
//!                                   foreignObject, math mi/mo/mn/ms/mtext, annotation-xml with an HTML encoding)
//!                                   is XHTML; html5ever: SVG/MathML
//!   edit-read                       a read after the edit script differs from the list algebra (set: first match replaced
//!                                   or appended; remove: every match gone; rename: new name) applied to the first reads
//!   bom-sniffing-read-accessor      (REPAIRED finding; a violation if it shows up) a name/value beginning with a BOM is
//!                                   decoded as UTF-8/UTF-16
//!   foreign-root-inside-foreign-namespace  `<math><svg>` reports SVG (html5ever: MathML) and vice versa (pkg-simthm's finding)
//!   anything else is a distinct tag (name, attrs, lookup, self-closing, content, namespace, location, count).
use crate::util::*;
use encoding_rs::WINDOWS_1252;
use html5ever::tendril::TendrilSink;
use lol_html::{AsciiCompatibleEncoding, HtmlRewriter, Settings, element};
use markup5ever_rcdom::{Handle, NodeData, RcDom};
use std::cell::RefCell;
use std::rc::Rc;

fn dec(b: &[u8]) -> String {
    WINDOWS_1252.decode_without_bom_handling(b).0.into_owned()
}
fn enc(s: &str) -> Vec<u8> {
    WINDOWS_1252.encode(s).0.into_owned()
}
fn has_bom(b: &[u8]) -> bool {
    b.starts_with(&[0xEF, 0xBB, 0xBF]) || b.starts_with(&[0xFF, 0xFE]) || b.starts_with(&[0xFE, 0xFF])
}
fn lower(b: &[u8]) -> Vec<u8> {
    b.to_ascii_lowercase()
}

// ---------------------------------------------------------------------------------------------
// Independent reference: WHATWG tokenizer states for a start tag (13.2.5.6, .8, .32-.40), on bytes.
// No character references, no duplicate dropping, no lower-casing, no NUL replacement.
#[derive(Debug, Clone, PartialEq, Eq)]
struct RefAttr {
    name: (usize, usize),
    value: (usize, usize),
}
#[derive(Debug, Clone, PartialEq, Eq)]
struct RefTag {
    name: (usize, usize),
    attrs: Vec<RefAttr>,
    self_closing: bool,
    end: usize,
}
#[derive(Clone, Copy, PartialEq, Eq, Debug)]
enum S {
    TagName,
    BeforeAttrName,
    AttrName,
    AfterAttrName,
    BeforeAttrValue,
    ValueDq,
    ValueSq,
    ValueUnq,
    AfterValueQuoted,
    SelfClosing,
}
fn ws(b: u8) -> bool {
    matches!(b, b'\t' | b'\n' | 0x0C | b' ' | b'\r')
}
/// `None`: not a start tag; `Some(None)`: unfinished; `Some(Some(tag))`: finished.
fn ref_parse(t: &[u8]) -> Option<Option<RefTag>> {
    if t.len() < 2 || t[0] != b'<' || !t[1].is_ascii_alphabetic() {
        return None;
    }
    let mut st = S::TagName;
    let mut name = (1usize, 1usize);
    let mut attrs: Vec<RefAttr> = vec![];
    let mut cur: Option<RefAttr> = None;
    let mut i = 2usize;
    macro_rules! emit {
        ($sc:expr) => {{
            if let Some(a) = cur.take() {
                attrs.push(a);
            }
            return Some(Some(RefTag { name, attrs, self_closing: $sc, end: i + 1 }));
        }};
    }
    while i < t.len() {
        let b = t[i];
        match st {
            S::TagName => {
                if ws(b) {
                    name.1 = i;
                    st = S::BeforeAttrName;
                } else if b == b'/' {
                    name.1 = i;
                    st = S::SelfClosing;
                } else if b == b'>' {
                    name.1 = i;
                    emit!(false);
                }
            }
            S::BeforeAttrName => {
                if ws(b) {
                } else if b == b'/' || b == b'>' {
                    st = S::AfterAttrName;
                    continue; // reconsume
                } else {
                    if let Some(a) = cur.take() {
                        attrs.push(a);
                    }
                    cur = Some(RefAttr { name: (i, i + 1), value: (i + 1, i + 1) });
                    st = S::AttrName;
                }
            }
            S::AttrName => {
                if ws(b) || b == b'/' || b == b'>' {
                    st = S::AfterAttrName;
                    continue;
                } else if b == b'=' {
                    st = S::BeforeAttrValue;
                } else {
                    let a = cur.as_mut().unwrap();
                    a.name.1 = i + 1;
                    a.value = (i + 1, i + 1);
                }
            }
            S::AfterAttrName => {
                if ws(b) {
                } else if b == b'/' {
                    st = S::SelfClosing;
                } else if b == b'=' {
                    st = S::BeforeAttrValue;
                } else if b == b'>' {
                    emit!(false);
                } else {
                    if let Some(a) = cur.take() {
                        attrs.push(a);
                    }
                    cur = Some(RefAttr { name: (i, i + 1), value: (i + 1, i + 1) });
                    st = S::AttrName;
                }
            }
            S::BeforeAttrValue => {
                if ws(b) {
                } else if b == b'"' {
                    cur.as_mut().unwrap().value = (i + 1, i + 1);
                    st = S::ValueDq;
                } else if b == b'\'' {
                    cur.as_mut().unwrap().value = (i + 1, i + 1);
                    st = S::ValueSq;
                } else if b == b'>' {
                    emit!(false);
                } else {
                    cur.as_mut().unwrap().value = (i, i);
                    st = S::ValueUnq;
                    continue;
                }
            }
            S::ValueDq | S::ValueSq => {
                let q = if st == S::ValueDq { b'"' } else { b'\'' };
                if b == q {
                    st = S::AfterValueQuoted;
                } else {
                    cur.as_mut().unwrap().value.1 = i + 1;
                }
            }
            S::ValueUnq => {
                if ws(b) {
                    st = S::BeforeAttrName;
                } else if b == b'>' {
                    emit!(false);
                } else {
                    cur.as_mut().unwrap().value.1 = i + 1;
                }
            }
            S::AfterValueQuoted => {
                if ws(b) {
                    st = S::BeforeAttrName;
                } else if b == b'/' {
                    st = S::SelfClosing;
                } else if b == b'>' {
                    emit!(false);
                } else {
                    st = S::BeforeAttrName;
                    continue;
                }
            }
            S::SelfClosing => {
                if b == b'>' {
                    emit!(true);
                } else {
                    st = S::BeforeAttrName;
                    continue;
                }
            }
        }
        i += 1;
    }
    Some(None)
}

// ---------------------------------------------------------------------------------------------
// html5ever: tag token of the tag bytes alone, and namespace of the element in the whole document.
struct H5Sink(RefCell<Vec<(String, Vec<(String, String)>, bool)>>);
impl html5ever::tokenizer::TokenSink for H5Sink {
    type Handle = ();
    fn process_token(&self, token: html5ever::tokenizer::Token, _l: u64) -> html5ever::tokenizer::TokenSinkResult<()> {
        use html5ever::tokenizer::{TagKind, Token};
        if let Token::TagToken(t) = token {
            if t.kind == TagKind::StartTag {
                self.0.borrow_mut().push((
                    t.name.to_string(),
                    t.attrs.iter().map(|a| (a.name.local.to_string(), a.value.to_string())).collect(),
                    t.self_closing,
                ));
            }
        }
        html5ever::tokenizer::TokenSinkResult::Continue
    }
}
fn h5e_tag(tag: &[u8]) -> Option<(String, Vec<(String, String)>, bool)> {
    use html5ever::tendril::StrTendril;
    use html5ever::tokenizer::{BufferQueue, Tokenizer, TokenizerOpts};
    let text = dec(tag);
    let input = BufferQueue::default();
    input.push_back(StrTendril::from(&*text));
    let tok = Tokenizer::new(H5Sink(RefCell::new(vec![])), TokenizerOpts { discard_bom: false, ..Default::default() });
    let _ = tok.feed(&input);
    tok.end();
    tok.sink.0.into_inner().into_iter().next()
}
fn last_element(h: &Handle, out: &mut Option<(String, String)>) {
    if let NodeData::Element { name, .. } = &h.data {
        *out = Some((name.ns.to_string(), name.local.to_string()));
    }
    for c in h.children.borrow().iter() {
        last_element(c, out);
    }
}
fn h5e_last_element(doc: &[u8]) -> Option<(String, String)> {
    let text = dec(doc);
    let dom = html5ever::parse_document(RcDom::default(), Default::default()).one(text);
    let mut r = None;
    last_element(&dom.document, &mut r);
    r
}

const VOID: [&str; 17] = [
    "area", "base", "basefont", "bgsound", "br", "col", "embed", "hr", "img", "input", "keygen", "link", "meta",
    "param", "source", "track", "wbr",
];
const SVG_IP: [&str; 3] = ["desc", "title", "foreignobject"];
const MATH_IP: [&str; 5] = ["mi", "mo", "mn", "ms", "mtext"];

#[derive(Debug, Clone)]
struct SeenAttr {
    name: String,
    name_pc: String,
    value: String,
    name_loc: Option<(usize, usize)>,
    value_loc: Option<(usize, usize)>,
}
#[derive(Debug, Clone)]
struct Seen {
    name: String,
    name_pc: String,
    ns: u8,
    sc: bool,
    chc: bool,
    src: (usize, usize),
    attrs: Vec<SeenAttr>,
    queries: Vec<(Option<String>, bool)>,
    after: Option<After>,
}
#[derive(Debug, Clone)]
struct After {
    results: Vec<String>,
    name: String,
    name_pc: String,
    attrs: Vec<SeenAttr>,
    queries: Vec<(Option<String>, bool)>,
}
#[derive(Debug, Clone)]
enum Edit {
    Set(Vec<u8>, Vec<u8>),
    Rm(Vec<u8>),
    Rename(Vec<u8>),
}
fn parse_edit(e: &str) -> Option<Edit> {
    let p: Vec<&str> = e.split(':').collect();
    match p.as_slice() {
        ["s", n, v] => Some(Edit::Set(of_hex(n)?, of_hex(v)?)),
        ["r", n] => Some(Edit::Rm(of_hex(n)?)),
        ["n", n] => Some(Edit::Rename(of_hex(n)?)),
        _ => None,
    }
}
fn rejected_attr_name(lq: &[u8]) -> bool {
    lq.is_empty() || lq.iter().any(|b| matches!(b, b' ' | b'\n' | b'\r' | b'\t' | 0x0C | b'/' | b'>' | b'='))
}
fn read_attrs(el: &lol_html::html_content::Element) -> Vec<SeenAttr> {
    el.attributes()
        .iter()
        .map(|a| SeenAttr {
            name: a.name(),
            name_pc: a.name_preserve_case(),
            value: a.value(),
            name_loc: a.name_source_location().map(|l| (l.bytes().start, l.bytes().end)),
            value_loc: a.value_source_location().map(|l| (l.bytes().start, l.bytes().end)),
        })
        .collect()
}

fn ns_num(uri: &str) -> u8 {
    match uri {
        "http://www.w3.org/1999/xhtml" => 0,
        "http://www.w3.org/2000/svg" => 1,
        "http://www.w3.org/1998/Math/MathML" => 2,
        _ => 9,
    }
}

fn show(s: &str, _src: Option<&[u8]>) -> String {
    hex_or_dash(&enc(s))
}

pub fn run(line: &str) -> String {
    let f0: Vec<&str> = line.split(' ').collect();
    let (f, edits_s): (Vec<&str>, &str) = match f0.len() {
        4 => (f0.clone(), "-"),
        5 => (vec![f0[0], f0[1], f0[2], f0[4]], f0[3]),
        _ => return "bad-case".into(),
    };
    let edits: Vec<Edit> = if edits_s == "-" {
        vec![]
    } else {
        match edits_s.split(',').map(parse_edit).collect::<Option<Vec<_>>>() {
            Some(e) => e,
            None => return "bad-case".into(),
        }
    };
    let prefix: &[u8] = match f[0] {
        "html" => b"",
        "svg" => b"<svg>",
        "math" => b"<math>",
        _ => return "bad-case".into(),
    };
    let Some(tag) = of_hex(f[1]) else { return "bad-case".into() };
    let cut: Option<usize> = if f[2] == "-" { None } else { f[2].parse().ok() };
    let queries: Vec<Vec<u8>> = if f[3] == "-" {
        vec![]
    } else {
        match f[3].split(',').map(of_hex).collect::<Option<Vec<_>>>() {
            Some(q) => q,
            None => return "bad-case".into(),
        }
    };
    let mut doc = prefix.to_vec();
    doc.extend_from_slice(&tag);

    let seen: Rc<RefCell<Vec<Seen>>> = Rc::new(RefCell::new(vec![]));
    let s1 = seen.clone();
    let qs = queries.clone();
    let eds = edits.clone();
    let settings = Settings::new()
        .append_element_content_handler(element!("*", move |el| {
            let attrs = read_attrs(el);
            let loc = el.source_location().bytes();
            let mut seen_el = Seen {
                name: el.tag_name(),
                name_pc: el.tag_name_preserve_case(),
                ns: ns_num(el.namespace_uri()),
                sc: el.is_self_closing(),
                chc: el.can_have_content(),
                src: (loc.start, loc.end),
                attrs,
                queries: qs.iter().map(|q| (el.get_attribute(&dec(q)), el.has_attribute(&dec(q)))).collect(),
                after: None,
            };
            if !eds.is_empty() {
                use lol_html::errors::{AttributeNameError as AE, TagNameError as TE};
                let mut results = vec![];
                for e in &eds {
                    results.push(match e {
                        Edit::Set(n, v) => match el.set_attribute(&dec(n), &dec(v)) {
                            Ok(()) => "o".to_string(),
                            Err(AE::Empty) => "eE".into(),
                            Err(AE::ForbiddenCharacter(c)) => format!("eF{}", hex_or_dash(&enc(&c.to_string()))),
                            Err(AE::UnencodableCharacter) => "eU".into(),
                        },
                        Edit::Rm(n) => {
                            el.remove_attribute(&dec(n));
                            "o".into()
                        }
                        Edit::Rename(n) => match el.set_tag_name(&dec(n)) {
                            Ok(()) => "o".to_string(),
                            Err(TE::Empty) => "tE".into(),
                            Err(TE::InvalidFirstCharacter) => "tI".into(),
                            Err(TE::ForbiddenCharacter(c)) => format!("tF{}", hex_or_dash(&enc(&c.to_string()))),
                            Err(TE::UnencodableCharacter) => "tU".into(),
                        },
                    });
                }
                seen_el.after = Some(After {
                    results,
                    name: el.tag_name(),
                    name_pc: el.tag_name_preserve_case(),
                    attrs: read_attrs(el),
                    queries: qs.iter().map(|q| (el.get_attribute(&dec(q)), el.has_attribute(&dec(q)))).collect(),
                });
            }
            s1.borrow_mut().push(seen_el);
            Ok(())
        }))
        .with_encoding(AsciiCompatibleEncoding::new(WINDOWS_1252).unwrap());
    let mut results: Vec<String> = vec![];
    {
        let mut rw = HtmlRewriter::new(settings, |_: &[u8]| {});
        let pieces: Vec<&[u8]> = match cut {
            Some(c) => split_at_cuts(&doc, &[c]),
            None => vec![&doc[..]],
        };
        let mut failed = false;
        for p in pieces {
            match rw.write(p) {
                Ok(()) => results.push("ok".into()),
                Err(e) => {
                    results.push(format!("err({e})").replace(' ', "_"));
                    failed = true;
                    break;
                }
            }
        }
        if !failed {
            match rw.end() {
                Ok(()) => results.push("ok".into()),
                Err(e) => results.push(format!("err({e})").replace(' ', "_")),
            }
        }
    }
    let seen = seen.borrow().clone();

    // ---- observation -------------------------------------------------------------------------
    let slice = |r: Option<(usize, usize)>| -> Option<&[u8]> { r.and_then(|(s, e)| doc.get(s..e)) };
    let recs: Vec<String> = seen
        .iter()
        .map(|e| {
            let attrs = if e.attrs.is_empty() {
                "-".to_string()
            } else {
                e.attrs
                    .iter()
                    .map(|a| {
                        let loc = match (a.name_loc, a.value_loc) {
                            (Some(n), Some(v)) => format!("{}-{}/{}-{}", n.0, n.1, v.0, v.1),
                            _ => "N/N".into(),
                        };
                        format!(
                            "{}~{}={}@{}",
                            show(&a.name, slice(a.name_loc)),
                            show(&a.name_pc, slice(a.name_loc)),
                            show(&a.value, slice(a.value_loc)),
                            loc
                        )
                    })
                    .collect::<Vec<_>>()
                    .join("+")
            };
            let qres = if e.queries.is_empty() {
                "-".to_string()
            } else {
                e.queries
                    .iter()
                    .zip(queries.iter())
                    .map(|((g, h), q)| {
                        // canonicalisation only: source bytes of the value the lookup should have hit
                        let lq = lower(q);
                        let hit = e.attrs.iter().find(|a| slice(a.name_loc).map(lower) == Some(lq.clone()));
                        let src = hit.and_then(|a| slice(a.value_loc));
                        let gs = match g {
                            None => "N".to_string(),
                            Some(s) => show(s, src),
                        };
                        format!("g{}h{}", gs, if *h { 1 } else { 0 })
                    })
                    .collect::<Vec<_>>()
                    .join(",")
            };
            let after = match &e.after {
                None => String::new(),
                Some(a) => {
                    let attrs = if a.attrs.is_empty() {
                        "-".to_string()
                    } else {
                        a.attrs
                            .iter()
                            .map(|x| {
                                let loc = match (x.name_loc, x.value_loc) {
                                    (Some(n), Some(v)) => format!("{}-{}/{}-{}", n.0, n.1, v.0, v.1),
                                    _ => "N/N".into(),
                                };
                                format!(
                                    "{}~{}={}@{}",
                                    show(&x.name, slice(x.name_loc)),
                                    show(&x.name_pc, slice(x.name_loc)),
                                    show(&x.value, slice(x.value_loc)),
                                    loc
                                )
                            })
                            .collect::<Vec<_>>()
                            .join("+")
                    };
                    let qres = if a.queries.is_empty() {
                        "-".to_string()
                    } else {
                        a.queries
                            .iter()
                            .map(|(g, h)| {
                                let gs = match g {
                                    None => "N".to_string(),
                                    Some(s) => hex_or_dash(&enc(s)),
                                };
                                format!("g{}h{}", gs, if *h { 1 } else { 0 })
                            })
                            .collect::<Vec<_>>()
                            .join(",")
                    };
                    format!(
                        ":A:{}:{}:{}:{}:{}",
                        a.results.join(","),
                        hex_or_dash(&enc(&a.name)),
                        hex_or_dash(&enc(&a.name_pc)),
                        attrs,
                        qres
                    )
                }
            };
            format!(
                "E:{}:{}:{}:{}:{}:{}-{}:{}:{}{}",
                hex_or_dash(&enc(&e.name)),
                hex_or_dash(&enc(&e.name_pc)),
                e.ns,
                e.sc as u8,
                e.chc as u8,
                e.src.0,
                e.src.1,
                attrs,
                qres,
                after
            )
        })
        .collect();
    let obs = format!("{} # {}", results.join(";"), if recs.is_empty() { "-".to_string() } else { recs.join(";") });

    // ---- oracle ------------------------------------------------------------------------------
    let mut flags: Vec<String> = vec![];
    let mut flag = |tag: &str, msg: String| flags.push(format!(" ||ORACLE:C16:{tag} {}", msg.replace('\n', "\\n")));
    let n_prefix = if prefix.is_empty() { 0 } else { 1 };
    let expected = ref_parse(&tag);
    // cross-check of the reference parser itself against html5ever's tag token, when the tag contains
    // nothing html5ever transforms (character references, CR, NUL) — names lower-cased, first duplicate kept
    if let Some(Some(rt)) = &expected {
        if !tag.iter().any(|&b| b == b'&' || b == b'\r' || b == 0) {
            let want_name = dec(&tag[rt.name.0..rt.name.1]).to_ascii_lowercase();
            let mut want_attrs: Vec<(String, String)> = vec![];
            for a in &rt.attrs {
                let n = dec(&tag[a.name.0..a.name.1]).to_ascii_lowercase();
                if !want_attrs.iter().any(|(m, _)| *m == n) {
                    want_attrs.push((n, dec(&tag[a.value.0..a.value.1])));
                }
            }
            match h5e_tag(&tag) {
                Some((n, at, sc)) if n == want_name && at == want_attrs && sc == rt.self_closing => {}
                other => flag("oracle-selfcheck", format!("reference parser {want_name:?} {want_attrs:?} {} vs html5ever {other:?}", rt.self_closing)),
            }
        }
    }
    if results.iter().any(|r| r != "ok") {
        flag("error", format!("rewriter failed: {results:?}"));
    } else {
        match &expected {
            // not a start tag at all: whatever follows may contain tags of its own
            None => {}
            Some(None) => {
                if seen.len() != n_prefix {
                    flag("count", format!("{} elements seen, expected {} (unfinished start tag)", seen.len(), n_prefix));
                }
            }
            Some(Some(rt)) => {
                // bytes after the tag's `>` may form further tags; only the case's own tag is judged
                if seen.len() < n_prefix + 1 {
                    flag("count", format!("{} elements seen, expected at least {}", seen.len(), n_prefix + 1));
                } else {
                    let e = &seen[n_prefix];
                    let base = prefix.len();
                    let name_b = &tag[rt.name.0..rt.name.1];
                    if enc(&e.name) != lower(name_b) || enc(&e.name_pc) != name_b {
                        flag("name", format!("tag_name {:?}/{:?} expected {:?}", e.name, e.name_pc, dec(name_b)));
                    }
                    if e.src != (base, base + rt.end) {
                        flag("location-tag", format!("source_location {:?} expected {:?}", e.src, (base, base + rt.end)));
                    }
                    if e.sc != rt.self_closing {
                        flag("self-closing", format!("is_self_closing {} expected {}", e.sc, rt.self_closing));
                    }
                    // attributes(): all of them, in order, duplicates kept, raw values, exact locations
                    if e.attrs.len() != rt.attrs.len() {
                        flag("attrs-count", format!("{} attributes, expected {}", e.attrs.len(), rt.attrs.len()));
                    } else {
                        for (a, r) in e.attrs.iter().zip(rt.attrs.iter()) {
                            let (nb, vb) = (&tag[r.name.0..r.name.1], &tag[r.value.0..r.value.1]);
                            let nloc = Some((base + r.name.0, base + r.name.1));
                            let vloc = Some((base + r.value.0, base + r.value.1));
                            if a.name_loc != nloc || a.value_loc != vloc {
                                flag("location-attr", format!("{:?}/{:?} expected {:?}/{:?}", a.name_loc, a.value_loc, nloc, vloc));
                            }
                            if a.name != dec(&lower(nb)) || a.name_pc != dec(nb) || a.value != dec(vb) {
                                if has_bom(nb) || has_bom(vb) {
                                    flag("bom-sniffing-read-accessor", format!("attribute {:?}={:?} read as {:?}={:?}", dec(nb), dec(vb), a.name_pc, a.value));
                                } else {
                                    flag("attrs", format!("attribute {:?}={:?} read as {:?}/{:?}={:?}", dec(nb), dec(vb), a.name, a.name_pc, a.value));
                                }
                            }
                        }
                    }
                    // lookups: first attribute whose name matches ASCII case-insensitively
                    for (q, (g, h)) in queries.iter().zip(e.queries.iter()) {
                        let lq = lower(q);
                        let hit = rt.attrs.iter().find(|a| lower(&tag[a.name.0..a.name.1]) == lq);
                        let want = hit.map(|a| dec(&tag[a.value.0..a.value.1]));
                        if *g != want || *h != want.is_some() {
                            let rejected = lq.is_empty() || lq.iter().any(|b| matches!(b, b' ' | b'\n' | b'\r' | b'\t' | 0x0C | b'/' | b'>' | b'='));
                            if rejected && want.is_some() && g.is_none() && !*h {
                                flag("F8-lookup-rejected-name", format!("get_attribute({:?}) = None although attributes() lists it", dec(q)));
                            } else if hit.is_some_and(|a| has_bom(&tag[a.value.0..a.value.1])) && *h {
                                flag("bom-sniffing-read-accessor", format!("get_attribute({:?}) = {:?} expected {:?}", dec(q), g, want));
                            } else {
                                flag("lookup", format!("get_attribute({:?}) = {:?}/{} expected {:?}", dec(q), g, h, want));
                            }
                        }
                    }
                    // namespace from html5ever's tree builder, when its last element is this tag
                    let lname = dec(&lower(name_b));
                    if let Some((ns, local)) = h5e_last_element(&doc) {
                        if local.to_ascii_lowercase() == lname && rt.end == tag.len() && !tag.iter().any(|&b| b == b'\r' || b == 0) {
                            let want_ns = ns_num(&ns);
                            if e.ns != want_ns {
                                // annotation-xml with encoding=text/html | application/xhtml+xml is an HTML integration point too
                                let ann_ip = f[0] == "math" && lname == "annotation-xml" && !rt.self_closing
                                    && rt.attrs.iter().any(|a| {
                                        let n = lower(&tag[a.name.0..a.name.1]);
                                        let v = lower(&tag[a.value.0..a.value.1]);
                                        n == b"encoding" && (v == b"text/html" || v == b"application/xhtml+xml")
                                    });
                                let ip = (f[0] == "svg" && SVG_IP.contains(&lname.as_str()))
                                    || (f[0] == "math" && MATH_IP.contains(&lname.as_str()))
                                    || ann_ip;
                                if ip && e.ns == 0 {
                                    flag("F9-integration-point-namespace", format!("<{lname}> in {}: namespace_uri XHTML, html5ever {ns}", f[0]));
                                } else if f[0] != "html" && (lname == "svg" || lname == "math") && e.ns == (if lname == "svg" { 1 } else { 2 }) {
                                    // the simulator switches namespace on every svg/math start tag, even inside foreign
                                    // content where the standard inserts an element of the current namespace (pkg-simthm)
                                    flag("foreign-root-inside-foreign-namespace", format!("<{lname}> in {}: ns {} html5ever {ns}", f[0], e.ns));
                                } else {
                                    flag("namespace", format!("<{lname}> in {}: ns {} html5ever {ns}", f[0], e.ns));
                                }
                            }
                            // can_have_content against the namespace html5ever assigns
                            let want_chc = if want_ns == 0 { !VOID.contains(&lname.as_str()) } else { !rt.self_closing };
                            if e.chc != want_chc && e.ns == want_ns {
                                flag("content", format!("<{lname}> ns {want_ns} sc {}: can_have_content {} expected {want_chc}", rt.self_closing, e.chc));
                            }
                        }
                    }
                    // can_have_content against the namespace lol-html reports (internal consistency with the syntax)
                    let want_chc = if e.ns == 0 { !VOID.contains(&lname.as_str()) } else { !rt.self_closing };
                    if e.chc != want_chc {
                        flag("content", format!("<{lname}> reported ns {} sc {}: can_have_content {} expected {want_chc}", e.ns, rt.self_closing, e.chc));
                    }
                }
            }
        }
    }
    // ---- reads after edits: list algebra on the FIRST reads of every element (independent of the source syntax) ----
    for e in &seen {
        let Some(a) = &e.after else { continue };
        // reference state: (name as written, value, touched)
        let mut name_pc: Vec<u8> = enc(&e.name_pc);
        let mut list: Vec<(Vec<u8>, Vec<u8>, bool)> = e.attrs.iter().map(|x| (enc(&x.name_pc), enc(&x.value), false)).collect();
        let mut want_res: Vec<String> = vec![];
        let mut f8_shape = false; // a remove / lookup of a listed name that the setter's validator rejects
        for ed in &edits {
            match ed {
                Edit::Set(n, v) => {
                    let ln = lower(n);
                    if ln.is_empty() {
                        want_res.push("eE".into());
                    } else if let Some(c) = ln.iter().find(|b| matches!(b, b' ' | b'\n' | b'\r' | b'\t' | 0x0C | b'/' | b'>' | b'=')) {
                        want_res.push(format!("eF{}", hex_or_dash(&[*c])));
                    } else {
                        want_res.push("o".into());
                        match list.iter().position(|x| lower(&x.0) == ln) {
                            Some(i) => {
                                list[i].1 = v.clone();
                                list[i].2 = true;
                            }
                            None => list.push((ln, v.clone(), true)),
                        }
                    }
                }
                Edit::Rm(n) => {
                    let ln = lower(n);
                    want_res.push("o".into());
                    // "Removes an attribute with the name if it is present": every name attributes() can list
                    if rejected_attr_name(&ln) && list.iter().any(|x| lower(&x.0) == ln) {
                        f8_shape = true;
                    }
                    list.retain(|x| lower(&x.0) != ln);
                }
                Edit::Rename(n) => {
                    if n.is_empty() {
                        want_res.push("tE".into());
                    } else if !n[0].is_ascii_alphabetic() {
                        want_res.push("tI".into());
                    } else if let Some(c) = n.iter().find(|b| matches!(b, b' ' | b'\n' | b'\r' | b'\t' | 0x0C | b'/' | b'>')) {
                        want_res.push(format!("tF{}", hex_or_dash(&[*c])));
                    } else {
                        want_res.push("o".into());
                        name_pc = n.clone();
                    }
                }
            }
        }
        let bom = e.attrs.iter().any(|x| slice(x.name_loc).is_some_and(has_bom) || slice(x.value_loc).is_some_and(has_bom))
            || list.iter().any(|x| has_bom(&x.0) || has_bom(&x.1));
        if a.results != want_res {
            flag("edit-read", format!("edit results {:?} expected {:?}", a.results, want_res));
        }
        if enc(&a.name_pc) != name_pc || enc(&a.name) != lower(&name_pc) {
            flag("edit-read", format!("tag_name after edits {:?}/{:?} expected {:?}", a.name, a.name_pc, dec(&name_pc)));
        }
        let got: Vec<(Vec<u8>, Vec<u8>, Vec<u8>, bool)> =
            a.attrs.iter().map(|x| (enc(&x.name), enc(&x.name_pc), enc(&x.value), x.name_loc.is_none() || x.value_loc.is_none())).collect();
        let want: Vec<(Vec<u8>, Vec<u8>, Vec<u8>, bool)> = list.iter().map(|x| (lower(&x.0), x.0.clone(), x.1.clone(), x.2)).collect();
        if got != want {
            let tag = if bom { "bom-sniffing-read-accessor" } else if f8_shape { "F8-lookup-rejected-name" } else { "edit-read" };
            flag(tag, format!("attributes() after edits {:?} expected {:?}", got, want));
        }
        for (q, (g, h)) in queries.iter().zip(a.queries.iter()) {
            let lq = lower(q);
            let hit = list.iter().find(|x| lower(&x.0) == lq);
            let want = hit.map(|x| dec(&x.1));
            if *g != want || *h != want.is_some() {
                let tag = if rejected_attr_name(&lq) && want.is_some() && g.is_none() && !*h {
                    "F8-lookup-rejected-name"
                } else if bom {
                    "bom-sniffing-read-accessor"
                } else if f8_shape {
                    "F8-lookup-rejected-name"
                } else {
                    "edit-read"
                };
                flag(tag, format!("after edits get_attribute({:?}) = {:?}/{} expected {:?}", dec(q), g, h, want));
            }
        }
    }
    let mut out = obs;
    // one flag per line: an unexpected one wins over the known findings (F8 and BOM sniffing were repaired: violations)
    let known = |f: &String| f.contains(":F9-") || f.contains(":foreign-root-inside");
    if let Some(fl) = flags.iter().find(|f| !known(f)).or(flags.first()) {
        out.push_str(fl);
    }
    out
}
