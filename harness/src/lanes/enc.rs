//! Lane `enc` (property C13): drives the REAL `TextDecoder` (through `verif_hooks::VerifTextDecoder`),
//! the real `TextEncoder` / `IncompleteUtf8Resync` (through the public rewriter / streaming sink) and the
//! real meta-charset switch. Same protocol as lean/LolHtml/Lane/Enc.lean.
use crate::util::*;
use encoding_rs::Encoding;
use lol_html::AsciiCompatibleEncoding;
use lol_html::test_utils::ASCII_COMPATIBLE_ENCODINGS;
use lol_html::verif_hooks::{VerifDecodedChunk, VerifTextDecoder};

/// encodings the Lean side has an executable codec for: UTF-8, x-user-defined and the 28 single-byte
/// encodings (tables generated from encoding_rs' data.rs)
fn modelled(name: &str) -> bool {
    find_enc(name).is_some_and(|e| e == encoding_rs::UTF_8 || e.is_single_byte())
}

fn find_enc(name: &str) -> Option<&'static Encoding> {
    ASCII_COMPATIBLE_ENCODINGS.iter().copied().find(|e| e.name() == name)
}

fn chunks_str(cs: &[VerifDecodedChunk]) -> String {
    if cs.is_empty() {
        return "-".into();
    }
    cs.iter()
        .map(|(t, last, _, s, e)| format!("{}:{}:{}:{}", hex_or_dash(t.as_bytes()), *last as u8, s, e))
        .collect::<Vec<_>>()
        .join(" ")
}

fn rerun_without_empty(enc: &'static Encoding, start: usize, parts: &[&[u8]], last_mode: bool) -> String {
    let mut dec = VerifTextDecoder::new(AsciiCompatibleEncoding::new(enc).unwrap());
    let mut out: Vec<VerifDecodedChunk> = vec![];
    let mut pos = start;
    let n = parts.len();
    for (i, p) in parts.iter().enumerate() {
        let last = last_mode && i + 1 == n;
        if p.is_empty() && !last {
            continue;
        }
        dec.feed_text(pos, p, last, &mut out).unwrap();
        pos += p.len();
    }
    dec.flush_pending(&mut out).unwrap();
    out.iter().map(|c| c.0.as_str()).collect()
}

/// `decq <encoding> <hex>,<hex>,...`: whole-buffer decode of each item (service for gen/enc.py, which needs
/// the index facts of the byte windows of a multi-byte case).
fn run_decq(f: &[&str]) -> String {
    let [name, items] = f else { return "bad-case".into() };
    let Some(enc) = find_enc(name) else { return "bad-case".into() };
    let mut out = vec![];
    for it in items.split(',') {
        let Some(b) = of_hex(it) else { return "bad-case".into() };
        out.push(hex_or_dash(enc.decode_without_bom_handling(&b).0.as_bytes()));
    }
    out.join(",")
}

fn mb_observation(out: &[VerifDecodedChunk], start: usize, len: usize) -> String {
    if len <= 300 {
        return chunks_str(out);
    }
    let cat: String = out.iter().map(|c| c.0.as_str()).collect();
    let nlast = out.iter().filter(|c| c.1).count();
    let last_final = out.last().is_some_and(|c| c.1);
    let mut lo = start;
    let mut contiguous = true;
    for c in out {
        if c.3 != lo || c.4 < c.3 {
            contiguous = false;
            break;
        }
        lo = c.4;
    }
    contiguous = contiguous && lo == start + len;
    format!("cat:{} nlast:{nlast} lastfinal:{last_final} contiguous:{contiguous}", hex_or_dash(cat.as_bytes()))
}

fn run_dec(f: &[&str]) -> String {
    let (f, with_facts) = if f.len() == 6 { (&f[..5], true) } else { (f, false) };
    let [name, mode, start, hex, cuts] = f else { return "bad-case".into() };
    let (Some(enc), Ok(start), Some(bytes), Some(cuts)) =
        (find_enc(name), start.parse::<usize>(), of_hex(hex), nat_list(cuts))
    else {
        return "bad-case".into();
    };
    let last_mode = match *mode {
        "flush" => false,
        "last" => true,
        _ => return "bad-case".into(),
    };
    let parts = split_at_cuts(&bytes, &cuts);
    let mut dec = VerifTextDecoder::new(AsciiCompatibleEncoding::new(enc).unwrap());
    let mut out: Vec<VerifDecodedChunk> = vec![];
    let mut pos = start;
    let n = parts.len();
    for (i, p) in parts.iter().enumerate() {
        let last = last_mode && i + 1 == n;
        dec.feed_text(pos, p, last, &mut out).unwrap();
        pos += p.len();
    }
    dec.flush_pending(&mut out).unwrap();

    // ---- independent oracle: whole-buffer encoding_rs decode of the concatenated bytes
    let mut flag = String::new();
    let whole = enc.decode_without_bom_handling(&bytes).0.into_owned();
    let cat: String = out.iter().map(|c| c.0.as_str()).collect();
    let n_last = out.iter().filter(|c| c.1).count();
    if cat != whole {
        // known shape: encoding_rs two-byte decoders drop a pending lead byte when fed an empty slice
        let tag = if rerun_without_empty(enc, start, &parts, last_mode) == whole { "empty-feed-drops-lead" } else { "decode-mismatch" };
        flag = format!(" ||ORACLE:C13:{tag} {name} got {} want {}", to_hex(cat.as_bytes()), to_hex(whole.as_bytes()));
    } else if out.iter().any(|c| c.2 != enc.name()) {
        flag = format!(" ||ORACLE:C13:chunk-encoding {name}");
    } else if n_last != 1 || !out.last().is_some_and(|c| c.1) {
        flag = format!(" ||ORACLE:C13:last-flag {name} n_last={n_last}");
    } else {
        // ranges: contiguous and covering [start, start+len)
        let mut expect = start;
        let mut gap = None;
        for c in &out {
            if c.3 != expect || c.4 < c.3 {
                gap = Some((expect, c.3, c.4));
                break;
            }
            expect = c.4;
        }
        if let Some((e, s, t)) = gap {
            flag = format!(" ||ORACLE:C13:range-gap {name} expected chunk to start at {e}, got {s}..{t}");
        } else if expect != start + bytes.len() {
            flag = format!(" ||ORACLE:C13:range-end {name} end {expect} want {}", start + bytes.len());
        }
    }
    let obs = if with_facts {
        mb_observation(&out, start, bytes.len())
    } else if modelled(name) {
        chunks_str(&out)
    } else {
        "impl-only".into()
    };
    let flag = also_c14(flag);
    format!("{obs}{flag}")
}


fn pieces_of(s: &str) -> Option<Vec<Vec<u8>>> {
    s.split(',').map(of_hex).collect()
}

/// `tenc <encoding> <hex,hex,...>`: inserted content (ContentType::Html) through the real rewriter in a
/// document of the given encoding; observation = bytes the sink received for the inserted content.
fn run_tenc(f: &[&str]) -> String {
    use lol_html::html_content::ContentType;
    use lol_html::{HtmlRewriter, Settings, element};
    let [name, pieces] = f else { return "bad-case".into() };
    let (Some(enc), Some(pieces)) = (find_enc(name), pieces_of(pieces)) else { return "bad-case".into() };
    let Ok(pieces) = pieces.into_iter().map(String::from_utf8).collect::<Result<Vec<String>, _>>() else {
        return "bad-case".into();
    };
    let mut out: Vec<u8> = vec![];
    let mut empty_chunk_before_end = false;
    let mut ended = false;
    {
        let ps = pieces.clone();
        let mut rewriter = HtmlRewriter::new(
            Settings::new()
                .with_encoding(AsciiCompatibleEncoding::new(enc).unwrap())
                .append_element_content_handler(element!("a", move |el| {
                    for p in &ps {
                        el.before(p, ContentType::Html);
                    }
                    Ok(())
                })),
            |c: &[u8]| {
                if c.is_empty() {
                    if ended { empty_chunk_before_end = true; }
                    ended = true;
                } else if ended {
                    empty_chunk_before_end = true;
                }
                out.extend_from_slice(c)
            },
        );
        rewriter.write(b"<a>").unwrap();
        rewriter.end().unwrap();
    }
    if !out.ends_with(b"<a>") {
        return format!("no-tag {}", to_hex(&out));
    }
    out.truncate(out.len() - 3);
    let mut want: Vec<u8> = vec![];
    for p in &pieces {
        want.extend_from_slice(&enc.encode(p).0);
    }
    let mut flag = String::new();
    if out != want {
        flag = format!(" ||ORACLE:C13:encode-mismatch {name} got {} want {}", to_hex(&out), to_hex(&want));
    } else if empty_chunk_before_end {
        flag = format!(" ||ORACLE:C13:encode-empty-chunk {name}");
    }
    let obs = if modelled(name) { hex_or_dash(&out) } else { "impl-only".into() };
    format!("{obs}{flag}")
}

/// `resync <hex> <cuts>`: `StreamingHandlerSink::write_utf8_chunk` (→ `IncompleteUtf8Resync`) on the pieces,
/// in a UTF-8 document; then `write_str("")` to reveal a pending incomplete sequence (U+FFFD).
fn run_resync(f: &[&str]) -> String {
    use lol_html::html_content::ContentType;
    use lol_html::{HtmlRewriter, Settings, element, streaming};
    use std::sync::{Arc, Mutex};
    let [hex, cuts] = f else { return "bad-case".into() };
    let (Some(bytes), Some(cuts)) = (of_hex(hex), nat_list(cuts)) else { return "bad-case".into() };
    let parts: Vec<Vec<u8>> = split_at_cuts(&bytes, &cuts).into_iter().map(|p| p.to_vec()).collect();
    let status = Arc::new(Mutex::new(String::from("ok")));
    let mut chunks: Vec<Vec<u8>> = vec![];
    {
        let st = status.clone();
        let ps = parts.clone();
        let mut rewriter = HtmlRewriter::new(
            Settings::new_send().append_element_content_handler(element!("a", move |el| {
                let st = st.clone();
                let ps = ps.clone();
                el.streaming_before(streaming!(move |sink| {
                    for (i, p) in ps.iter().enumerate() {
                        if sink.write_utf8_chunk(p, ContentType::Html).is_err() {
                            *st.lock().unwrap() = format!("err@{i}");
                            return Ok(());
                        }
                    }
                    sink.write_str("", ContentType::Html);
                    Ok(())
                }));
                Ok(())
            })),
            |c: &[u8]| chunks.push(c.to_vec()),
        );
        rewriter.write(b"<a>").unwrap();
        rewriter.end().unwrap();
    }
    // drop the finalizing empty chunk and the `<a>` tag
    while chunks.last().is_some_and(|c| c.is_empty()) {
        chunks.pop();
    }
    if chunks.last().map(|c| c.as_slice()) != Some(b"<a>") {
        return format!("no-tag {:?}", chunks);
    }
    chunks.pop();
    let status = status.lock().unwrap().clone();
    let frags = if chunks.is_empty() {
        "-".to_string()
    } else {
        chunks.iter().map(|c| hex_or_dash(c)).collect::<Vec<_>>().join(",")
    };
    // ---- oracle: valid input is reassembled; nothing that is not valid UTF-8 is ever emitted
    let emitted: Vec<u8> = chunks.concat();
    let mut flag = String::new();
    let valid_whole = std::str::from_utf8(&bytes).is_ok();
    if std::str::from_utf8(&emitted).is_err() {
        flag = format!(" ||ORACLE:C13:resync-emitted-invalid {}", to_hex(&emitted));
    } else if valid_whole && (status != "ok" || emitted != bytes) {
        flag = format!(" ||ORACLE:C13:resync-valid-not-reassembled {status} {}", to_hex(&emitted));
    } else if !valid_whole {
        // the emitted bytes must be a prefix of the input (+ U+FFFD for a pending tail when all writes passed)
        let ok = if status == "ok" {
            emitted.strip_suffix("\u{FFFD}".as_bytes()).is_some_and(|e| bytes.starts_with(e))
        } else {
            bytes.starts_with(&emitted)
        };
        if !ok {
            flag = format!(" ||ORACLE:C13:resync-invalid-accepted {status} {}", to_hex(&emitted));
        }
    }
    format!("{status} {frags}{flag}")
}

/// Sink recording `set_encoding` calls and the bytes between them.
struct MetaSink {
    events: std::rc::Rc<std::cell::RefCell<Vec<String>>>,
    cur: std::rc::Rc<std::cell::RefCell<Vec<u8>>>,
}
impl MetaSink {
    fn flush(&mut self) {
        let mut cur = self.cur.borrow_mut();
        if !cur.is_empty() {
            self.events.borrow_mut().push(format!("B:{}", to_hex(&cur)));
            cur.clear();
        }
    }
}
impl lol_html::OutputSink for MetaSink {
    fn handle_chunk(&mut self, chunk: &[u8]) {
        self.cur.borrow_mut().extend_from_slice(chunk);
    }
    fn set_encoding(&mut self, e: AsciiCompatibleEncoding) {
        self.flush();
        let enc: &'static Encoding = e.into();
        self.events.borrow_mut().push(format!("S:{}", enc.name()));
    }
}

/// `meta <encoding> <adjust 0|1> <script> <cuts>`; script = comma-separated tokens
///   M:<label>  `<meta charset="label">`        H:<label>  `<meta http-equiv=... content="text/html; charset=label">`
///   B          `<b>` (handler inserts "é€" before it)   T:<hex>  raw text bytes (a text handler records the decoded text)
fn run_meta(f: &[&str]) -> String {
    use lol_html::html_content::ContentType;
    use lol_html::{HtmlRewriter, Settings, doc_text, element};
    use std::cell::RefCell;
    use std::rc::Rc;
    let [name, adjust, script, cuts] = f else { return "bad-case".into() };
    let (Some(enc), Some(cuts)) = (find_enc(name), nat_list(cuts)) else { return "bad-case".into() };
    let mut doc: Vec<u8> = vec![];
    for t in script.split(',') {
        if let Some(l) = t.strip_prefix("M:") {
            doc.extend_from_slice(format!("<meta charset=\"{l}\">").as_bytes());
        } else if let Some(l) = t.strip_prefix("H:") {
            doc.extend_from_slice(
                format!("<meta http-equiv=\"Content-Type\" content=\"text/html; charset={l}\">").as_bytes(),
            );
        } else if t == "B" {
            doc.extend_from_slice(b"<b>");
        } else if let Some(h) = t.strip_prefix("T:") {
            let Some(b) = of_hex(h) else { return "bad-case".into() };
            doc.extend_from_slice(&b);
        } else {
            return "bad-case".into();
        }
    }
    let events: Rc<RefCell<Vec<String>>> = Rc::new(RefCell::new(vec![]));
    let cur: Rc<RefCell<Vec<u8>>> = Rc::new(RefCell::new(vec![]));
    let text_acc: Rc<RefCell<String>> = Rc::new(RefCell::new(String::new()));
    {
        let sink = MetaSink { events: events.clone(), cur: cur.clone() };
        let ev = events.clone();
        let cur2 = cur.clone();
        let ta = text_acc.clone();
        let mut rewriter = HtmlRewriter::new(
            Settings::new()
                .with_encoding(AsciiCompatibleEncoding::new(enc).unwrap())
                .with_adjust_charset_on_meta_tag(*adjust == "1")
                .append_element_content_handler(element!("b", |el| {
                    el.before("\u{e9}\u{20ac}", ContentType::Html);
                    Ok(())
                }))
                .append_document_content_handler(doc_text!(move |t| {
                    ta.borrow_mut().push_str(t.as_str());
                    if t.last_in_text_node() {
                        // record in sink order: bytes so far, then the decoded text
                        let mut c = cur2.borrow_mut();
                        if !c.is_empty() {
                            ev.borrow_mut().push(format!("B:{}", to_hex(&c)));
                            c.clear();
                        }
                        ev.borrow_mut().push(format!("T:{}", hex_or_dash(ta.borrow().as_bytes())));
                        ta.borrow_mut().clear();
                    }
                    Ok(())
                })),
            sink,
        );
        for p in split_at_cuts(&doc, &cuts) {
            rewriter.write(p).unwrap();
        }
        rewriter.end().unwrap();
    }
    {
        let mut c = cur.borrow_mut();
        if !c.is_empty() {
            events.borrow_mut().push(format!("B:{}", to_hex(&c)));
            c.clear();
        }
    }
    let evs = events.borrow().clone();
    // ---- oracle: at most one change after the initial notification
    let n_set = evs.iter().filter(|e| e.starts_with("S:")).count();
    let mut flag = String::new();
    if n_set == 0 || !evs[0].starts_with("S:") {
        flag = " ||ORACLE:C13:meta-no-initial-set-encoding".into();
    } else if n_set > 2 {
        flag = format!(" ||ORACLE:C13:meta-changed-twice {n_set}");
    }
    format!("{}{flag}", evs.join(" "))
}

/// `loc <encoding> <hex text> <cuts>`: impl-only oracle through the PUBLIC API: `<p>` text `</p>` written in
/// pieces, a text handler records `source_location()`; the ranges of the chunks of the text node must be
/// contiguous and cover the text (C13/C14), and the text must be the whole-buffer decode.
fn run_loc(f: &[&str]) -> String {
    use lol_html::{HtmlRewriter, Settings, text};
    use std::cell::RefCell;
    use std::rc::Rc;
    let [name, hex, cuts] = f else { return "bad-case".into() };
    let (Some(enc), Some(text), Some(cuts)) = (find_enc(name), of_hex(hex), nat_list(cuts)) else {
        return "bad-case".into();
    };
    if text.iter().any(|&b| b == b'<' || b == b'&' || b == 0 || b == b'\r') || text.is_empty() {
        return "bad-case".into();
    }
    let mut doc = b"<p>".to_vec();
    doc.extend_from_slice(&text);
    doc.extend_from_slice(b"</p>");
    let seen: Rc<RefCell<Vec<(String, bool, usize, usize)>>> = Rc::new(RefCell::new(vec![]));
    {
        let seen2 = seen.clone();
        let mut rewriter = HtmlRewriter::new(
            Settings::new()
                .with_encoding(AsciiCompatibleEncoding::new(enc).unwrap())
                .append_element_content_handler(text!("p", move |t| {
                    let l = t.source_location().bytes();
                    seen2.borrow_mut().push((t.as_str().to_owned(), t.last_in_text_node(), l.start, l.end));
                    Ok(())
                })),
            |_: &[u8]| {},
        );
        for p in split_at_cuts(&doc, &cuts) {
            rewriter.write(p).unwrap();
        }
        rewriter.end().unwrap();
    }
    let seen = seen.borrow();
    let whole = enc.decode_without_bom_handling(&text).0.into_owned();
    let cat: String = seen.iter().map(|c| c.0.as_str()).collect();
    let mut flag = String::new();
    if cat != whole {
        flag = format!(" ||ORACLE:C13:public-decode-mismatch {name}");
    } else if seen.iter().filter(|c| c.1).count() != 1 || !seen.last().is_some_and(|c| c.1) {
        flag = format!(" ||ORACLE:C13:public-last-flag {name}");
    } else {
        let mut expect = 3;
        for c in seen.iter() {
            if c.2 != expect {
                flag = format!(
                    " ||ORACLE:C13:range-gap-public {name} chunk {} reported at {}..{}, previous chunk ended at {expect}",
                    to_hex(c.0.as_bytes()), c.2, c.3
                );
                break;
            }
            expect = c.3;
        }
        if flag.is_empty() && expect != 3 + text.len() {
            flag = format!(" ||ORACLE:C13:public-range-end {name}");
        }
    }
    let flag = also_c14(flag);
    format!("impl-only{flag}")
}

/// `compat <label>`: is the encoding accepted at configuration time?
fn run_compat(f: &[&str]) -> String {
    let [label] = f else { return "bad-case".into() };
    let Some(enc) = Encoding::for_label_no_replacement(label.as_bytes()) else { return "unknown".into() };
    let accepted = AsciiCompatibleEncoding::new(enc).is_some();
    let mut flag = String::new();
    if accepted != enc.is_ascii_compatible() || (accepted && !ASCII_COMPATIBLE_ENCODINGS.contains(&enc)) {
        flag = format!(" ||ORACLE:C13:compat {label}");
    }
    format!("{} {}{flag}", enc.name(), if accepted { "accepted" } else { "refused" })
}

pub fn run(line: &str) -> String {
    let f: Vec<&str> = line.split(' ').collect();
    match f.first() {
        Some(&"dec") => run_dec(&f[1..]),
        Some(&"decq") => run_decq(&f[1..]),
        Some(&"tenc") => run_tenc(&f[1..]),
        Some(&"resync") => run_resync(&f[1..]),
        Some(&"meta") => run_meta(&f[1..]),
        Some(&"loc") => run_loc(&f[1..]),
        Some(&"compat") => run_compat(&f[1..]),
        _ => "bad-case".into(),
    }
}

/// The source ranges of text chunks are property C14's subject as much as C13's: a range oracle is
/// reported under both.
fn also_c14(flag: String) -> String {
    if flag.contains(":range-") || flag.contains("-range-") {
        let dup = flag.replacen("||ORACLE:C13:", "||ORACLE:C14:", 1);
        format!("{flag}{dup}")
    } else {
        flag
    }
}
