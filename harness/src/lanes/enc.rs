//! Lane `enc` (property C13): drives the REAL `TextDecoder` (through `verif_hooks::VerifTextDecoder`),
//! the real `TextEncoder` / `IncompleteUtf8Resync` (through the public rewriter / streaming sink) and the
//! real meta-charset switch. Same protocol as lean/LolHtml/Lane/Enc.lean.
use crate::util::*;
use encoding_rs::Encoding;
use lol_html::AsciiCompatibleEncoding;
use lol_html::test_utils::ASCII_COMPATIBLE_ENCODINGS;
use lol_html::verif_hooks::{VerifDecodedChunk, VerifTextDecoder};

/// encodings the Lean side has an executable codec for
const MODELLED: [&str; 3] = ["UTF-8", "windows-1252", "ISO-8859-7"];

fn find_enc(name: &str) -> Option<&'static Encoding> {
    ASCII_COMPATIBLE_ENCODINGS.iter().copied().find(|e| e.name() == name)
}

fn chunks_str(cs: &[VerifDecodedChunk]) -> String {
    if cs.is_empty() {
        return "-".into();
    }
    cs.iter()
        .map(|(t, last, _, s, e)| format!("{}:{}:{}:{}", hex_or_dash(t.as_bytes()), *last as u8, s, e))
        .collect::<Vec<_>>()
        .join(" ")
}

fn run_dec(f: &[&str]) -> String {
    let [name, mode, start, hex, cuts] = f else { return "bad-case".into() };
    let (Some(enc), Ok(start), Some(bytes), Some(cuts)) =
        (find_enc(name), start.parse::<usize>(), of_hex(hex), nat_list(cuts))
    else {
        return "bad-case".into();
    };
    let last_mode = match *mode {
        "flush" => false,
        "last" => true,
        _ => return "bad-case".into(),
    };
    let parts = split_at_cuts(&bytes, &cuts);
    let mut dec = VerifTextDecoder::new(AsciiCompatibleEncoding::new(enc).unwrap());
    let mut out: Vec<VerifDecodedChunk> = vec![];
    let mut pos = start;
    let n = parts.len();
    for (i, p) in parts.iter().enumerate() {
        let last = last_mode && i + 1 == n;
        dec.feed_text(pos, p, last, &mut out).unwrap();
        pos += p.len();
    }
    dec.flush_pending(&mut out).unwrap();

    // ---- independent oracle: whole-buffer encoding_rs decode of the concatenated bytes
    let mut flag = String::new();
    let whole = enc.decode_without_bom_handling(&bytes).0.into_owned();
    let cat: String = out.iter().map(|c| c.0.as_str()).collect();
    let n_last = out.iter().filter(|c| c.1).count();
    if cat != whole {
        flag = format!(" ||ORACLE:C13:decode-mismatch {name} got {} want {}", to_hex(cat.as_bytes()), to_hex(whole.as_bytes()));
    } else if out.iter().any(|c| c.2 != enc.name()) {
        flag = format!(" ||ORACLE:C13:chunk-encoding {name}");
    } else if n_last != 1 || !out.last().is_some_and(|c| c.1) {
        flag = format!(" ||ORACLE:C13:last-flag {name} n_last={n_last}");
    } else {
        // ranges: contiguous and covering [start, start+len)
        let mut expect = start;
        let mut gap = None;
        for c in &out {
            if c.3 != expect || c.4 < c.3 {
                gap = Some((expect, c.3, c.4));
                break;
            }
            expect = c.4;
        }
        if let Some((e, s, t)) = gap {
            flag = format!(" ||ORACLE:C13:range-gap {name} expected chunk to start at {e}, got {s}..{t}");
        } else if expect != start + bytes.len() {
            flag = format!(" ||ORACLE:C13:range-end {name} end {expect} want {}", start + bytes.len());
        }
    }
    let obs = if MODELLED.contains(name) { chunks_str(&out) } else { "impl-only".into() };
    format!("{obs}{flag}")
}

pub fn run(line: &str) -> String {
    let f: Vec<&str> = line.split(' ').collect();
    match f.first() {
        Some(&"dec") => run_dec(&f[1..]),
        _ => "bad-case".into(),
    }
}
