//! Lane `lex`: the real TransformStream under a scripted observing TransformController.
//! See lean/LolHtml/Lane/Lex.lean for the protocol.
use crate::util::*;
use encoding_rs::WINDOWS_1252;
use lol_html::errors::RewritingError;
use lol_html::html_content::{DocumentEnd, TextType};
use lol_html::{
    LocalName, Namespace, SharedMemoryLimiter, StartTagHandlingResult, Token, TokenCaptureFlags,
    TransformController, TransformStream, TransformStreamSettings,
};
use std::cell::RefCell;
use std::rc::Rc;

#[derive(Default)]
pub struct Shared {
    pub log: Vec<String>,
    pub text_acc: Option<(usize, usize, u8, Vec<u8>)>,
}

pub struct Ctl {
    script: Vec<(u8, bool)>,
    init: u8,
    k: usize,
    shared: Rc<RefCell<Shared>>,
    /// fail at the n-th handle_token call (1-based; 0 = never)
    fail_at: usize,
    tokens_seen: usize,
}

/// extra configuration of the fault lane
#[derive(Clone, Copy, Default)]
pub struct Fault {
    pub fail_at: usize,
    pub bail_mem: bool,
    pub bail_handler: bool,
    pub max_mem: usize, // 0 = unlimited
    pub prealloc: usize,
}

fn enc(s: &str) -> Vec<u8> {
    WINDOWS_1252.encode(s).0.into_owned()
}

fn ns_num(ns: Namespace) -> u8 {
    match ns {
        Namespace::Html => 0,
        Namespace::Svg => 1,
        Namespace::MathML => 2,
    }
}

fn ns_num_uri(uri: &str) -> u8 {
    match uri {
        "http://www.w3.org/1999/xhtml" => 0,
        "http://www.w3.org/2000/svg" => 1,
        _ => 2,
    }
}

pub fn tt_num(t: TextType) -> u8 {
    match t {
        TextType::PlainText => 0,
        TextType::RCData => 1,
        TextType::RawText => 2,
        TextType::ScriptData => 3,
        TextType::Data => 4,
        TextType::CDataSection => 5,
    }
}

fn ln_str(n: &LocalName<'_>) -> String {
    match n {
        LocalName::Hash(h) => format!("h{}", h.verif_value()),
        LocalName::Bytes(b) => format!("b{}", hex_or_dash(b)),
    }
}

impl Ctl {
    fn item(&self) -> (u8, bool) {
        if self.script.is_empty() {
            (self.init, false)
        } else {
            self.script[self.k % self.script.len()]
        }
    }
}

fn flags(n: u8) -> TokenCaptureFlags {
    TokenCaptureFlags::from_bits_truncate(n)
}

pub fn token_str(token: &mut Token<'_>, sh: &mut Shared) {
    match token {
        Token::StartTag(t) => {
            let loc = t.source_location().bytes();
            let attrs: Vec<String> = t
                .attributes()
                .iter()
                .map(|a| {
                    let n = enc(&a.name_preserve_case());
                    let v = enc(&a.value());
                    let l = match (a.name_source_location(), a.value_source_location()) {
                        (Some(nl), Some(vl)) => format!(
                            "{}-{}/{}-{}",
                            nl.bytes().start,
                            nl.bytes().end,
                            vl.bytes().start,
                            vl.bytes().end
                        ),
                        _ => "N/N".into(),
                    };
                    format!("{}={}@{}", hex_or_dash(&n), hex_or_dash(&v), l)
                })
                .collect();
            sh.log.push(format!(
                "S:{}-{}:{}:{}:{}:{}",
                loc.start,
                loc.end,
                hex_or_dash(&enc(&t.name_preserve_case())),
                ns_num_uri(t.namespace_uri()),
                u8::from(t.self_closing()),
                if attrs.is_empty() { "-".into() } else { attrs.join("+") }
            ));
        }
        Token::EndTag(t) => {
            let loc = t.source_location().bytes();
            sh.log.push(format!(
                "T:{}-{}:{}",
                loc.start,
                loc.end,
                hex_or_dash(&enc(&t.name_preserve_case()))
            ));
        }
        Token::Comment(t) => {
            let loc = t.source_location().bytes();
            sh.log
                .push(format!("C:{}-{}:{}", loc.start, loc.end, hex_or_dash(&enc(&t.text()))));
        }
        Token::Doctype(t) => {
            let loc = t.source_location().bytes();
            let o = |x: Option<String>| x.map_or("N".to_string(), |s| hex_or_dash(&enc(&s)));
            sh.log.push(format!(
                "D:{}-{}:{}:{}:{}:{}",
                loc.start,
                loc.end,
                o(t.name()),
                o(t.public_id()),
                o(t.system_id()),
                u8::from(t.force_quirks())
            ));
        }
        Token::TextChunk(t) => {
            let loc = t.source_location().bytes();
            let b = enc(t.as_str());
            let acc = match sh.text_acc.take() {
                Some((s, _, tt, mut bs)) => {
                    bs.extend_from_slice(&b);
                    (s, loc.end, tt, bs)
                }
                None => (loc.start, loc.end, tt_num(t.text_type()), b),
            };
            if t.last_in_text_node() {
                sh.log
                    .push(format!("X:{}-{}:{}:{}", acc.0, acc.1, acc.2, hex_or_dash(&acc.3)));
            } else {
                sh.text_acc = Some(acc);
            }
        }
    }
}

impl TransformController for Ctl {
    fn initial_capture_flags(&self) -> TokenCaptureFlags {
        flags(self.init)
    }
    fn handle_start_tag(&mut self, name: LocalName<'_>, ns: Namespace) -> StartTagHandlingResult<Self> {
        let it = self.item();
        self.k += 1;
        self.shared
            .borrow_mut()
            .log
            .push(format!("hs:{}:{}", ln_str(&name), ns_num(ns)));
        if it.1 {
            let f = it.0;
            Err(lol_html::verif_hooks::info_request(Box::new(move |this: &mut Ctl, nattrs, sc| {
                this.shared
                    .borrow_mut()
                    .log
                    .push(format!("ax:{}:{}", nattrs, u8::from(sc)));
                flags(f)
            })))
        } else {
            Ok(flags(it.0))
        }
    }
    fn handle_end_tag(&mut self, name: LocalName<'_>) -> TokenCaptureFlags {
        let it = self.item();
        self.k += 1;
        self.shared.borrow_mut().log.push(format!("he:{}", ln_str(&name)));
        flags(it.0)
    }
    fn handle_token(&mut self, token: &mut Token<'_>) -> Result<(), RewritingError> {
        self.tokens_seen += 1;
        if self.fail_at != 0 && self.tokens_seen == self.fail_at {
            return Err(RewritingError::ContentHandlerError("injected".into()));
        }
        token_str(token, &mut self.shared.borrow_mut());
        Ok(())
    }
    fn handle_bail_out(&mut self, _e: &RewritingError, b: &mut lol_html::html_content::BailOut<'_>) {
        b.append("!", lol_html::html_content::ContentType::Html);
    }
    fn handle_end(&mut self, _: &mut DocumentEnd<'_>) -> Result<(), RewritingError> {
        Ok(())
    }
    fn should_emit_content(&self) -> bool {
        true
    }
}

pub fn err_str(e: &RewritingError) -> &'static str {
    match e {
        RewritingError::ParsingAmbiguity(_) => "amb",
        RewritingError::MemoryLimitExceeded(_) => "mem",
        RewritingError::ContentHandlerError(_) => "hnd",
        _ => "other",
    }
}

pub fn parse_script(s: &str) -> Option<Vec<(u8, bool)>> {
    if s == "-" {
        return Some(vec![]);
    }
    s.split(',')
        .map(|t| {
            if let Some(x) = t.strip_suffix('i') {
                x.parse().ok().map(|f| (f, true))
            } else {
                t.parse().ok().map(|f| (f, false))
            }
        })
        .collect()
}

pub struct RunRes {
    pub results: Vec<&'static str>,
    pub outs: Vec<Vec<u8>>,
    pub log: Vec<String>,
    pub out: Vec<u8>,
}

/// Run the real TransformStream under the scripted controller. `do_end = false` stops after the
/// last write (used by the latency oracle).
pub fn run_cfg(input: &[u8], cuts: &[usize], strict: bool, init: u8, script: &[(u8, bool)], do_end: bool) -> RunRes {
    run_cfg_fault(input, cuts, strict, init, script, do_end, Fault::default())
}

pub fn run_cfg_fault(input: &[u8], cuts: &[usize], strict: bool, init: u8, script: &[(u8, bool)], do_end: bool, fault: Fault) -> RunRes {
    let shared = Rc::new(RefCell::new(Shared::default()));
    let out = Rc::new(RefCell::new(Vec::<u8>::new()));
    let out2 = out.clone();
    let ctl = Ctl { script: script.to_vec(), init, k: 0, shared: shared.clone(), fail_at: fault.fail_at, tokens_seen: 0 };
    let mut ts = TransformStream::new(TransformStreamSettings {
        transform_controller: ctl,
        output_sink: move |c: &[u8]| out2.borrow_mut().extend_from_slice(c),
        preallocated_parsing_buffer_size: fault.prealloc,
        memory_limiter: SharedMemoryLimiter::new(if fault.max_mem == 0 { 1_000_000_000 } else { fault.max_mem }),
        encoding: lol_html::AsciiCompatibleEncoding::new(WINDOWS_1252).unwrap(),
        next_encoding: Default::default(),
        strict,
        graceful_bail_out_on_memory_limit_exceeded: fault.bail_mem,
        graceful_bail_out_on_content_handler_error: fault.bail_handler,
    });
    let mut results = vec![];
    let mut outs = vec![];
    let mut failed = false;
    for ch in split_at_cuts(input, cuts) {
        let before = out.borrow().len();
        let r = ts.write(ch);
        outs.push(out.borrow()[before..].to_vec());
        match r {
            Ok(()) => results.push("ok"),
            Err(e) => {
                results.push(err_str(&e));
                failed = true;
                break;
            }
        }
    }
    if !failed && do_end {
        let before = out.borrow().len();
        let r = ts.end();
        outs.push(out.borrow()[before..].to_vec());
        match r {
            Ok(()) => results.push("ok"),
            Err(e) => results.push(err_str(&e)),
        }
    }
    drop(ts);
    let mut sh = shared.borrow_mut();
    if let Some((s, e, tt, bs)) = sh.text_acc.take() {
        sh.log.push(format!("X?:{}-{}:{}:{}", s, e, tt, hex_or_dash(&bs)));
    }
    let log = std::mem::take(&mut sh.log);
    let o = out.borrow().clone();
    RunRes { results, outs, log, out: o }
}

fn parse_range(s: &str) -> Option<(usize, usize)> {
    let (a, b) = s.split_once('-')?;
    Some((a.parse().ok()?, b.parse().ok()?))
}

/// C14: reported ranges are inside the input, ordered, disjoint, and delimit the construct.
fn oracle_c14(input: &[u8], log: &[String]) -> Option<String> {
    let mut last_end = 0usize;
    for ev in log {
        let f: Vec<&str> = ev.split(':').collect();
        let kind = f[0];
        if !matches!(kind, "S" | "T" | "C" | "D" | "X" | "X?") {
            continue;
        }
        let (s, e) = parse_range(f[1])?;
        if s > e || e > input.len() {
            return Some(format!("range-out-of-bounds {ev}"));
        }
        if s < last_end {
            return Some(format!("range-goes-backwards {ev} (previous end {last_end})"));
        }
        last_end = e;
        let raw = &input[s..e];
        match kind {
            "S" | "T" => {
                if raw.first() != Some(&b'<') || raw.last() != Some(&b'>') {
                    return Some(format!("tag-range-not-delimited {ev}"));
                }
                let name = of_hex(f[2])?;
                let off = if kind == "S" { 1 } else { 2 };
                if raw.len() < off + name.len() || raw[off..off + name.len()] != name[..] {
                    return Some(format!("tag-name-not-at-range-start {ev}"));
                }
                if kind == "S" && f[5] != "-" {
                    for a in f[5].split('+') {
                        let (nv, loc) = a.split_once('@')?;
                        let (n, v) = nv.split_once('=')?;
                        let (n, v) = (of_hex(n)?, of_hex(v)?);
                        if loc == "N/N" {
                            return Some(format!("attr-location-missing name={} {ev}", to_hex(&n)));
                        }
                        let (nl, vl) = loc.split_once('/')?;
                        let (ns, ne) = parse_range(nl)?;
                        let (vs, ve) = parse_range(vl)?;
                        if ne > input.len() || ns > ne || input[ns..ne] != n[..] || ns < s || ne > e {
                            return Some(format!("attr-name-location-wrong {a} {ev}"));
                        }
                        if ve > input.len() || vs > ve || input[vs..ve] != v[..] || ve > e {
                            return Some(format!("attr-value-location-wrong {a} {ev}"));
                        }
                        if vs < ne {
                            return Some(format!("attr-value-location-before-name {a} {ev}"));
                        }
                    }
                }
            }
            "C" => {
                if !raw.starts_with(b"<") {
                    return Some(format!("comment-range-not-delimited {ev}"));
                }
            }
            "D" => {
                if !raw.starts_with(b"<!") {
                    return Some(format!("doctype-range-not-delimited {ev}"));
                }
            }
            _ => {
                // text: merged chunks must equal the input slice (windows-1252 round-trips)
                let b = of_hex(f[3])?;
                if b[..] != *raw {
                    return Some(format!("text-range-mismatch {ev}"));
                }
            }
        }
    }
    None
}

/// C06: the events a controller with schedule (`init`, `script`) would receive, selected from the
/// log of a run under a schedule that requests at least as much at every tag event. Tag events
/// (`hs`/`he`/`ax`) are always delivered; a token is delivered iff the flags in force (those returned
/// at the latest tag event, or the initial ones) request its kind.
fn project_for(log: &[String], init: u8, script: &[(u8, bool)]) -> Vec<String> {
    let mut cur = init;
    let mut k = 0usize;
    let mut out = vec![];
    for ev in log {
        let kind = ev.split(':').next().unwrap_or("");
        let keep = match kind {
            "hs" | "he" => {
                cur = if script.is_empty() { init } else { script[k % script.len()].0 };
                k += 1;
                true
            }
            "S" => cur & 4 != 0,
            "T" => cur & 8 != 0,
            "C" => cur & 2 != 0,
            "D" => cur & 16 != 0,
            "X" | "X?" => cur & 1 != 0,
            _ => true,
        };
        if keep {
            out.push(ev.clone());
        }
    }
    out
}

/// does the input contain `=` whitespace* `>` (the `before_attribute_value_state` `>` arm)?
fn has_attr_eq_gt(input: &[u8]) -> bool {
    let mut i = 0;
    while i < input.len() {
        if input[i] == b'=' {
            let mut j = i + 1;
            while j < input.len() && matches!(input[j], b' ' | b'\n' | b'\r' | b'\t' | b'\x0C') {
                j += 1;
            }
            if j < input.len() && input[j] == b'>' {
                return true;
            }
        }
        i += 1;
    }
    false
}

/// does the input end inside a tag (after the last `<` there is no `>`)?
/// Does the input end inside a tag that never finishes? Decided by the full lexer itself (non-strict,
/// every token captured, one write): the bytes after the last token it produced start an unfinished
/// `<name` / `</name` (the last `<` of the input may well sit inside that tag's attribute value).
fn in_unfinished_tag(input: &[u8]) -> bool {
    let full = run_cfg(input, &[], false, 31, &[], true);
    let mut last_end = 0usize;
    for ev in &full.log {
        // token events carry `<kind>:<start>-<end>:...`
        if let Some(range) = ev.split(':').nth(1) {
            if let Some((_, e)) = range.split_once('-') {
                if let Ok(e) = e.parse::<usize>() {
                    last_end = last_end.max(e);
                }
            }
        }
    }
    let rest = &input[last_end.min(input.len())..];
    rest.len() >= 2 && rest[0] == b'<' && (rest[1].is_ascii_alphabetic() || (rest[1] == b'/' && rest.len() >= 3 && rest[2].is_ascii_alphabetic()))
}

/// C06 oracle: schedule S against S ∪ O for observer sets O (extra flags at every tag event).
fn oracle_c06(input: &[u8], cuts: &[usize], strict: bool, init: u8, script: &[(u8, bool)], r: &RunRes) -> Option<String> {
    let all_ok = r.results.iter().all(|x| *x == "ok");
    for o in [1u8, 2, 16, 12] {
        if init & o == o && script.iter().all(|(f, _)| f & o == o) {
            continue; // O adds nothing to this schedule
        }
        let script_o: Vec<(u8, bool)> = script.iter().map(|(f, i)| (f | o, *i)).collect();
        let ro = run_cfg(input, cuts, strict, init | o, &script_o, true);
        let ro_ok = ro.results.iter().all(|x| *x == "ok");
        let proj = project_for(&ro.log, init, script);
        // a tag whose name is complete but which never ends (`<div` EOF, or an error in between) is
        // hinted by the tag scanner but never becomes a lexeme: one trailing hint is not an event of H's handlers
        let same = proj == r.log
            || (r.log.len() == proj.len() + 1
                && r.log[..proj.len()] == proj[..]
                && (r.log[proj.len()].starts_with("hs:") || r.log[proj.len()].starts_with("he:")));
        if r.results.last() != ro.results.last() {
            // the tag scanner consults the tree-builder simulator when the tag NAME is complete, the lexer
            // when the TAG is complete: an unterminated tag at the end of the input is seen by one only
            let unfinished = same && in_unfinished_tag(input);
            return Some(format!(
                "C06:{} with observer flags {o}: result {:?} without, {:?} with",
                if unfinished { "result-differs-unfinished-tag" } else { "events-differ result" },
                r.results.last(),
                ro.results.last()
            ));
        }
        if !same {
            let i = proj.iter().zip(r.log.iter()).position(|(a, b)| a != b).unwrap_or(proj.len().min(r.log.len()));
            return Some(format!(
                "C06:events-differ shape={} with observer flags {o}: first difference at event {i} without={:?} with={:?}",
                if has_attr_eq_gt(input) { "attr-eq-gt" } else { "other" },
                r.log.get(i),
                proj.get(i)
            ));
        }
        if all_ok && ro_ok && r.out != ro.out {
            return Some(format!("C06:output-differs with observer flags {o}"));
        }
    }
    None
}

/// C09 (absolute bound, no handlers): what may be held back after a write.
fn pending_allowed(p: &[u8]) -> bool {
    if p.is_empty() {
        return true;
    }
    // the start of one unfinished tag: '<' ['/'] name-prefix
    if p[0] == b'<' {
        let rest = if p.len() > 1 && p[1] == b'/' { &p[2..] } else { &p[1..] };
        if !rest.is_empty()
            && rest[0].is_ascii_alphabetic()
            && rest.iter().all(|&b| !matches!(b, b' ' | b'\n' | b'\r' | b'\t' | b'\x0C' | b'/' | b'>'))
        {
            return true;
        }
    }
    // a look-ahead of a few bytes ("<!DOCTYP", "<![CDATA", "<!-", "--", "]", "<!--<scrip" ...)
    p.len() <= 8
}

pub fn run(line: &str) -> String {
    let f: Vec<&str> = line.split(' ').collect();
    if f.len() != 5 {
        return "bad-case".into();
    }
    let (Some(input), Some(cuts), Ok(init), Some(script)) =
        (of_hex(f[0]), nat_list(f[1]), f[3].parse::<u8>(), parse_script(f[4]))
    else {
        return "bad-case".into();
    };
    let strict = f[2] == "1";
    let r = run_cfg(&input, &cuts, strict, init, &script, true);
    let evs = if r.log.is_empty() { "-".to_string() } else { r.log.join(";") };
    let outs: Vec<String> = r.outs.iter().map(|o| hex_or_dash(o)).collect();
    let obs = format!("{} # {} # {}", r.results.join(";"), outs.join(";"), evs);

    // ---- direct oracles on the implementation
    let mut oracle = String::new();
    let all_ok = r.results.iter().all(|x| *x == "ok");
    // C01: observing controller => concatenated sink bytes == input (when the run succeeded)
    if all_ok && r.out != input {
        oracle.push_str(&format!(
            " ||ORACLE:C01:passthrough sink != input (sink {} bytes, input {} bytes)",
            r.out.len(),
            input.len()
        ));
    }
    if r.results.last() == Some(&"amb") && !input.starts_with(&r.out) {
        oracle.push_str(" ||ORACLE:C01:ambiguity-prefix sink is not a prefix of the input");
    }
    // C02: same events and output as the single-write run
    if !cuts.is_empty() {
        let r0 = run_cfg(&input, &[], strict, init, &script, true);
        if r0.results.last() != r.results.last() {
            oracle.push_str(&format!(
                " ||ORACLE:C02:result-differs chunked={:?} single={:?}",
                r.results.last(),
                r0.results.last()
            ));
        } else if r0.log != r.log {
            let i = r0.log.iter().zip(r.log.iter()).position(|(a, b)| a != b).unwrap_or(r0.log.len().min(r.log.len()));
            oracle.push_str(&format!(
                " ||ORACLE:C02:events-differ first difference at event {} single={:?} chunked={:?}",
                i,
                r0.log.get(i),
                r.log.get(i)
            ));
        } else if all_ok && r0.out != r.out {
            oracle.push_str(" ||ORACLE:C02:output-differs");
        }
    }
    // C14
    if let Some(msg) = oracle_c14(&input, &r.log) {
        oracle.push_str(&format!(" ||ORACLE:C14:{msg}"));
    }
    // C06: handler independence (H vs H ∪ O)
    if let Some(msg) = oracle_c06(&input, &cuts, strict, init, &script, &r) {
        oracle.push_str(&format!(" ||ORACLE:{msg}"));
    }
    // C09: schedule independence of bytes_out after each write + absolute bound without handlers
    if cuts.len() <= 8 {
        let mut written = 0usize;
        let mut emitted = 0usize;
        let chunks = split_at_cuts(&input, &cuts);
        for (k, ch) in chunks.iter().enumerate() {
            if k >= r.results.len() || r.results[k] != "ok" {
                break;
            }
            written += ch.len();
            emitted += r.outs[k].len();
            if !cuts.is_empty() {
                let fresh = run_cfg(&input[..written], &[], strict, init, &script, false);
                if fresh.results.last() == Some(&"ok") && fresh.out.len() != emitted {
                    oracle.push_str(&format!(
                        " ||ORACLE:C09:schedule-dependent after write {k}: emitted {emitted} but a fresh rewriter given the same {written} bytes emitted {}",
                        fresh.out.len()
                    ));
                    break;
                }
            }
            if init == 0 && script.is_empty() {
                let pending = &input[emitted..written];
                if !pending_allowed(pending) {
                    // Is it exactly the single unfinished start tag that the lexer would also hold, for a
                    // tag whose namespace decision needs the whole tag (foreign-content special cases)?
                    let lexed = run_cfg(&input[..written], &[], strict, 31, &[], false);
                    let name: Vec<u8> = pending[1..]
                        .iter()
                        .take_while(|b| !matches!(**b, b' ' | b'\n' | b'\r' | b'\t' | b'\x0C' | b'/' | b'>'))
                        .map(|b| b.to_ascii_lowercase())
                        .collect();
                    let hashable = name.len() <= 12 && name.iter().all(|b| b.is_ascii_lowercase() || (b'1'..=b'6').contains(b));
                    let special = [&b"font"[..], b"desc", b"title", b"foreignobject", b"mi", b"mo", b"mn", b"ms", b"mtext"]
                        .contains(&&name[..])
                        || !hashable;
                    let site = if lexed.out.len() == emitted && pending[0] == b'<' && special {
                        "held-back-whole-tag-needing-attributes"
                    } else {
                        "held-back-too-much"
                    };
                    oracle.push_str(&format!(
                        " ||ORACLE:C09:{site} no handlers, after {written} bytes {} are held back: {}",
                        pending.len(),
                        to_hex(&pending[..pending.len().min(24)])
                    ));
                    break;
                }
                // a full lexer that holds nothing back => the scanner must hold nothing back
                if !pending.is_empty() {
                    let lexed = run_cfg(&input[..written], &[], strict, 31, &[], false);
                    if lexed.results.last() == Some(&"ok") && lexed.out.len() == written {
                        oracle.push_str(&format!(
                            " ||ORACLE:C09:held-back-at-token-boundary no handlers: {} bytes held back although the data ends at a token boundary",
                            pending.len()
                        ));
                        break;
                    }
                }
            }
        }
    }
    format!("{obs}{oracle}")
}


/// Lane `fault`: the lex lane with a failure injected at the n-th token, graceful flags, a memory limit
/// and a preallocation size.  case: <lex case> <failAt> <graceful bits mem=2,handler=1> <maxmem 0=unlimited> <prealloc>
pub fn run_fault(line: &str) -> String {
    let f: Vec<&str> = line.split(' ').collect();
    if f.len() != 9 {
        return "bad-case".into();
    }
    let (Some(input), Some(cuts), Ok(init), Some(script), Ok(fail_at), Ok(g), Ok(max_mem), Ok(prealloc)) = (
        of_hex(f[0]), nat_list(f[1]), f[3].parse::<u8>(), parse_script(f[4]),
        f[5].parse::<usize>(), f[6].parse::<u8>(), f[7].parse::<usize>(), f[8].parse::<usize>(),
    ) else {
        return "bad-case".into();
    };
    let fault = Fault { fail_at, bail_mem: g & 2 != 0, bail_handler: g & 1 != 0, max_mem, prealloc };
    let r = run_cfg_fault(&input, &cuts, f[2] == "1", init, &script, true, fault);
    let evs = if r.log.is_empty() { "-".to_string() } else { r.log.join(";") };
    let outs: Vec<String> = r.outs.iter().map(|o| hex_or_dash(o)).collect();
    format!("{} # {} # {}", r.results.join(";"), outs.join(";"), evs)
}
