//! Lane `lex`: the real TransformStream under a scripted observing TransformController.
//! See lean/LolHtml/Lane/Lex.lean for the protocol.
use crate::util::*;
use encoding_rs::WINDOWS_1252;
use lol_html::errors::RewritingError;
use lol_html::html_content::{DocumentEnd, TextType};
use lol_html::{
    LocalName, Namespace, SharedMemoryLimiter, StartTagHandlingResult, Token, TokenCaptureFlags,
    TransformController, TransformStream, TransformStreamSettings,
};
use std::cell::RefCell;
use std::rc::Rc;

#[derive(Default)]
pub struct Shared {
    pub log: Vec<String>,
    pub text_acc: Option<(usize, usize, u8, Vec<u8>)>,
}

pub struct Ctl {
    script: Vec<(u8, bool)>,
    init: u8,
    k: usize,
    shared: Rc<RefCell<Shared>>,
}

fn enc(s: &str) -> Vec<u8> {
    WINDOWS_1252.encode(s).0.into_owned()
}

fn ns_num(ns: Namespace) -> u8 {
    match ns {
        Namespace::Html => 0,
        Namespace::Svg => 1,
        Namespace::MathML => 2,
    }
}

fn ns_num_uri(uri: &str) -> u8 {
    match uri {
        "http://www.w3.org/1999/xhtml" => 0,
        "http://www.w3.org/2000/svg" => 1,
        _ => 2,
    }
}

pub fn tt_num(t: TextType) -> u8 {
    match t {
        TextType::PlainText => 0,
        TextType::RCData => 1,
        TextType::RawText => 2,
        TextType::ScriptData => 3,
        TextType::Data => 4,
        TextType::CDataSection => 5,
    }
}

fn ln_str(n: &LocalName<'_>) -> String {
    match n {
        LocalName::Hash(h) => format!("h{}", h.verif_value()),
        LocalName::Bytes(b) => format!("b{}", hex_or_dash(b)),
    }
}

impl Ctl {
    fn item(&self) -> (u8, bool) {
        if self.script.is_empty() {
            (self.init, false)
        } else {
            self.script[self.k % self.script.len()]
        }
    }
}

fn flags(n: u8) -> TokenCaptureFlags {
    TokenCaptureFlags::from_bits_truncate(n)
}

pub fn token_str(token: &mut Token<'_>, sh: &mut Shared) {
    match token {
        Token::StartTag(t) => {
            let loc = t.source_location().bytes();
            let attrs: Vec<String> = t
                .attributes()
                .iter()
                .map(|a| {
                    let n = enc(&a.name_preserve_case());
                    let v = enc(&a.value());
                    let l = match (a.name_source_location(), a.value_source_location()) {
                        (Some(nl), Some(vl)) => format!(
                            "{}-{}/{}-{}",
                            nl.bytes().start,
                            nl.bytes().end,
                            vl.bytes().start,
                            vl.bytes().end
                        ),
                        _ => "N/N".into(),
                    };
                    format!("{}={}@{}", hex_or_dash(&n), hex_or_dash(&v), l)
                })
                .collect();
            sh.log.push(format!(
                "S:{}-{}:{}:{}:{}:{}",
                loc.start,
                loc.end,
                hex_or_dash(&enc(&t.name_preserve_case())),
                ns_num_uri(t.namespace_uri()),
                u8::from(t.self_closing()),
                if attrs.is_empty() { "-".into() } else { attrs.join("+") }
            ));
        }
        Token::EndTag(t) => {
            let loc = t.source_location().bytes();
            sh.log.push(format!(
                "T:{}-{}:{}",
                loc.start,
                loc.end,
                hex_or_dash(&enc(&t.name_preserve_case()))
            ));
        }
        Token::Comment(t) => {
            let loc = t.source_location().bytes();
            sh.log
                .push(format!("C:{}-{}:{}", loc.start, loc.end, hex_or_dash(&enc(&t.text()))));
        }
        Token::Doctype(t) => {
            let loc = t.source_location().bytes();
            let o = |x: Option<String>| x.map_or("N".to_string(), |s| hex_or_dash(&enc(&s)));
            sh.log.push(format!(
                "D:{}-{}:{}:{}:{}:{}",
                loc.start,
                loc.end,
                o(t.name()),
                o(t.public_id()),
                o(t.system_id()),
                u8::from(t.force_quirks())
            ));
        }
        Token::TextChunk(t) => {
            let loc = t.source_location().bytes();
            let b = enc(t.as_str());
            let acc = match sh.text_acc.take() {
                Some((s, _, tt, mut bs)) => {
                    bs.extend_from_slice(&b);
                    (s, loc.end, tt, bs)
                }
                None => (loc.start, loc.end, tt_num(t.text_type()), b),
            };
            if t.last_in_text_node() {
                sh.log
                    .push(format!("X:{}-{}:{}:{}", acc.0, acc.1, acc.2, hex_or_dash(&acc.3)));
            } else {
                sh.text_acc = Some(acc);
            }
        }
    }
}

impl TransformController for Ctl {
    fn initial_capture_flags(&self) -> TokenCaptureFlags {
        flags(self.init)
    }
    fn handle_start_tag(&mut self, name: LocalName<'_>, ns: Namespace) -> StartTagHandlingResult<Self> {
        let it = self.item();
        self.k += 1;
        self.shared
            .borrow_mut()
            .log
            .push(format!("hs:{}:{}", ln_str(&name), ns_num(ns)));
        if it.1 {
            let f = it.0;
            Err(lol_html::verif_hooks::info_request(Box::new(move |this: &mut Ctl, nattrs, sc| {
                this.shared
                    .borrow_mut()
                    .log
                    .push(format!("ax:{}:{}", nattrs, u8::from(sc)));
                flags(f)
            })))
        } else {
            Ok(flags(it.0))
        }
    }
    fn handle_end_tag(&mut self, name: LocalName<'_>) -> TokenCaptureFlags {
        let it = self.item();
        self.k += 1;
        self.shared.borrow_mut().log.push(format!("he:{}", ln_str(&name)));
        flags(it.0)
    }
    fn handle_token(&mut self, token: &mut Token<'_>) -> Result<(), RewritingError> {
        token_str(token, &mut self.shared.borrow_mut());
        Ok(())
    }
    fn handle_end(&mut self, _: &mut DocumentEnd<'_>) -> Result<(), RewritingError> {
        Ok(())
    }
    fn should_emit_content(&self) -> bool {
        true
    }
}

pub fn err_str(e: &RewritingError) -> &'static str {
    match e {
        RewritingError::ParsingAmbiguity(_) => "amb",
        RewritingError::MemoryLimitExceeded(_) => "mem",
        RewritingError::ContentHandlerError(_) => "hnd",
        _ => "other",
    }
}

pub fn parse_script(s: &str) -> Option<Vec<(u8, bool)>> {
    if s == "-" {
        return Some(vec![]);
    }
    s.split(',')
        .map(|t| {
            if let Some(x) = t.strip_suffix('i') {
                x.parse().ok().map(|f| (f, true))
            } else {
                t.parse().ok().map(|f| (f, false))
            }
        })
        .collect()
}

pub fn run(line: &str) -> String {
    let f: Vec<&str> = line.split(' ').collect();
    if f.len() != 5 {
        return "bad-case".into();
    }
    let (Some(input), Some(cuts), Ok(init), Some(script)) =
        (of_hex(f[0]), nat_list(f[1]), f[3].parse::<u8>(), parse_script(f[4]))
    else {
        return "bad-case".into();
    };
    let strict = f[2] == "1";
    let shared = Rc::new(RefCell::new(Shared::default()));
    let out = Rc::new(RefCell::new(Vec::<u8>::new()));
    let out2 = out.clone();
    let ctl = Ctl { script, init, k: 0, shared: shared.clone() };
    let mut ts = TransformStream::new(TransformStreamSettings {
        transform_controller: ctl,
        output_sink: move |c: &[u8]| out2.borrow_mut().extend_from_slice(c),
        preallocated_parsing_buffer_size: 0,
        memory_limiter: SharedMemoryLimiter::new(1_000_000_000),
        encoding: lol_html::AsciiCompatibleEncoding::new(WINDOWS_1252).unwrap(),
        next_encoding: Default::default(),
        strict,
        graceful_bail_out_on_memory_limit_exceeded: false,
        graceful_bail_out_on_content_handler_error: false,
    });
    let mut results = vec![];
    let mut outs = vec![];
    let mut failed = false;
    for ch in split_at_cuts(&input, &cuts) {
        let before = out.borrow().len();
        let r = ts.write(ch);
        outs.push(hex_or_dash(&out.borrow()[before..]));
        match r {
            Ok(()) => results.push("ok"),
            Err(e) => {
                results.push(err_str(&e));
                failed = true;
                break;
            }
        }
    }
    if !failed {
        let before = out.borrow().len();
        let r = ts.end();
        outs.push(hex_or_dash(&out.borrow()[before..]));
        match r {
            Ok(()) => results.push("ok"),
            Err(e) => results.push(err_str(&e)),
        }
    }
    let mut sh = shared.borrow_mut();
    if let Some((s, e, tt, bs)) = sh.text_acc.take() {
        sh.log.push(format!("X?:{}-{}:{}:{}", s, e, tt, hex_or_dash(&bs)));
    }
    let evs = if sh.log.is_empty() { "-".to_string() } else { sh.log.join(";") };
    let obs = format!("{} # {} # {}", results.join(";"), outs.join(";"), evs);
    // ---- direct oracles on the implementation
    let mut oracle = String::new();
    // C01: observing controller => concatenated sink bytes == input (when the run succeeded)
    let all_ok = results.iter().all(|r| *r == "ok");
    if all_ok && *out.borrow() != input {
        oracle.push_str(&format!(
            " ||ORACLE:C01:passthrough sink != input (sink {} bytes, input {} bytes)",
            out.borrow().len(),
            input.len()
        ));
    }
    if !all_ok && results.last() == Some(&"amb") && !input.starts_with(&out.borrow()) {
        oracle.push_str(" ||ORACLE:C01:ambiguity-prefix sink is not a prefix of the input");
    }
    format!("{obs}{oracle}")
}
