//! Lane `pass` (implementation only): pass-through identity and chunk invariance through the PUBLIC
//! HtmlRewriter in every supported encoding, with text that the encoding can round-trip, and cuts
//! anywhere (inside multi-byte characters too).
//! case: <encoding index 0..35> <document as UTF-8 hex> <cuts in per-mille of the encoded length, comma separated | -> <handler set 0..5>
//! obs : summary `enc=<name> len=<n> writes=<k> ok` | `SKIP <why>`
use crate::util::*;
use lol_html::html_content::ContentType;
use lol_html::test_utils::ASCII_COMPATIBLE_ENCODINGS;
use lol_html::{HtmlRewriter, Settings, doc_comments, doc_text, element, text};
use std::cell::RefCell;
use std::rc::Rc;

struct Out {
    names: Vec<String>, // tag-name accessor inconsistencies (handler set 6)
    sink: Vec<u8>,
    texts: Vec<String>, // merged text nodes seen by the first text handler
    cur: String,
}

fn run(enc: &'static encoding_rs::Encoding, input: &[u8], cuts: &[usize], hs: u8) -> Result<Out, String> {
    let out = Rc::new(RefCell::new(Out { names: vec![], sink: vec![], texts: vec![], cur: String::new() }));
    let o1 = out.clone();
    let o2 = out.clone();
    let settings = Settings::new()
        .with_encoding(lol_html::AsciiCompatibleEncoding::new(enc).ok_or("not ascii compatible")?);
    let text_log = move |t: &mut lol_html::html_content::TextChunk<'_>| {
        let mut o = o2.borrow_mut();
        o.cur.push_str(t.as_str());
        if t.last_in_text_node() {
            let s = std::mem::take(&mut o.cur);
            o.texts.push(s);
        }
        Ok(())
    };
    let settings = match hs {
        0 => {
            drop(text_log);
            settings
        }
        1 => settings.append_document_content_handler(doc_text!(text_log)),
        2 => settings
            .append_document_content_handler(doc_text!(text_log))
            .append_document_content_handler(doc_comments!(|_c| Ok(()))),
        3 => settings
            .append_element_content_handler(element!("*", |_e| Ok(())))
            .append_element_content_handler(text!("*", text_log)),
        4 => settings.append_element_content_handler(text!("p", text_log)),
        6 => {
            // tag-name accessors: the lower-cased name is the ASCII-lower-cased DECODED name, for start and end tags
            drop(text_log);
            let o3 = out.clone();
            settings.append_element_content_handler(element!("*", move |e| {
                let (n, pc) = (e.tag_name(), e.tag_name_preserve_case());
                if n != pc.to_ascii_lowercase() {
                    o3.borrow_mut().names.push(format!("start tag_name()={n:?} preserve_case={pc:?}"));
                }
                let o4 = o3.clone();
                let _ = e.on_end_tag(lol_html::end_tag!(move |t| {
                    let (n, pc) = (t.name(), t.name_preserve_case());
                    if n != pc.to_ascii_lowercase() {
                        o4.borrow_mut().names.push(format!("end name()={n:?} preserve_case={pc:?}"));
                    }
                    Ok(())
                }));
                Ok(())
            }))
        }
        _ => {
            drop(text_log);
            settings.append_element_content_handler(element!("b", |e| {
                let _ = e.tag_name();
                Ok(())
            }))
        }
    };
    let _ = ContentType::Html;
    let mut rw = HtmlRewriter::new(settings, move |c: &[u8]| o1.borrow_mut().sink.extend_from_slice(c));
    for ch in split_at_cuts(input, cuts) {
        rw.write(ch).map_err(|e| format!("write error {e}"))?;
    }
    rw.end().map_err(|e| format!("end error {e}"))?;
    let o = Rc::try_unwrap(out).map_err(|_| "rc")?.into_inner();
    Ok(o)
}

pub fn run_lane(line: &str) -> String {
    let f: Vec<&str> = line.split(' ').collect();
    if f.len() != 4 {
        return "bad-case".into();
    }
    let (Ok(ei), Some(doc), Some(cuts_pm), Ok(hs)) = (f[0].parse::<usize>(), of_hex(f[1]), nat_list(f[2]), f[3].parse::<u8>())
    else {
        return "bad-case".into();
    };
    let enc = ASCII_COMPATIBLE_ENCODINGS[ei % ASCII_COMPATIBLE_ENCODINGS.len()];
    let Ok(doc) = String::from_utf8(doc) else { return "SKIP not-utf8".into() };
    let (bytes, _, unmappable) = enc.encode(&doc);
    if unmappable {
        return "SKIP unmappable".into();
    }
    let (back, had_err) = enc.decode_without_bom_handling(&bytes);
    if had_err || back != doc {
        return "SKIP no-round-trip".into();
    }
    let input = bytes.into_owned();
    let mut cuts: Vec<usize> = cuts_pm.iter().map(|p| p * input.len() / 1000).collect();
    cuts.sort_unstable();
    let chunked = match run(enc, &input, &cuts, hs) {
        Ok(o) => o,
        Err(e) => return format!("enc={} len={} ERR {e}", enc.name(), input.len()),
    };
    let single = match run(enc, &input, &[], hs) {
        Ok(o) => o,
        Err(e) => return format!("enc={} len={} ERR(single) {e}", enc.name(), input.len()),
    };
    let mut oracle = String::new();
    if chunked.sink != input {
        let i = chunked.sink.iter().zip(input.iter()).position(|(a, b)| a != b).unwrap_or(chunked.sink.len().min(input.len()));
        oracle.push_str(&format!(
            " ||ORACLE:C01:passthrough-encoded {} handlers={hs} cuts={:?}: sink != input, first difference at byte {i} (sink {} bytes, input {} bytes)",
            enc.name(), cuts, chunked.sink.len(), input.len()
        ));
    }
    if single.sink != input {
        oracle.push_str(&format!(" ||ORACLE:C01:passthrough-encoded-single {} handlers={hs}: sink != input in one write", enc.name()));
    }
    if let Some(m) = chunked.names.first().or(single.names.first()) {
        oracle.push_str(&format!(" ||ORACLE:C13:tag-name-accessors-disagree {} {m}", enc.name()));
    }
    if chunked.texts != single.texts {
        oracle.push_str(&format!(
            " ||ORACLE:C02:text-nodes-differ {} handlers={hs} cuts={:?}: text nodes seen by the handler depend on the chunking",
            enc.name(), cuts
        ));
    }
    // the convenience entry point `rewrite_str` (UTF-8, resynchronising sink) with no handlers
    if ei % ASCII_COMPATIBLE_ENCODINGS.len() == 0 || enc == encoding_rs::UTF_8 {
        match lol_html::rewrite_str(&doc, lol_html::RewriteStrSettings::new()) {
            Ok(out) if out == doc => {}
            Ok(out) => oracle.push_str(&format!(" ||ORACLE:C01:rewrite-str-identity output differs ({} vs {} bytes)", out.len(), doc.len())),
            Err(e) => oracle.push_str(&format!(" ||ORACLE:C01:rewrite-str-identity error {e}")),
        }
    }
    format!("enc={} len={} writes={} nodes={} ok{oracle}", enc.name(), input.len(), cuts.len() + 1, single.texts.len())
}
