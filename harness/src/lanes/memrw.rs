//! Lane `memrw` (property C10, implementation only): drives the REAL rewriter on inputs built to grow
//! its buffers, for a sweep of memory limits, and checks the property's oracle directly.
//!
//! case  = `kind prealloc inputhex cuts M,M,…`
//!   kind: tsall | tstags | tsscan   TransformStream + a pass-through TransformController capturing
//!                                   all / only tags / nothing, with a SharedMemoryLimiter created
//!                                   here (so the accounted usage can be read)
//!         rwall | rwsel | rwnone    HtmlRewriter with `*` element+comment+text handlers / nesting
//!                                   selectors / no handlers (all handlers leave the content alone)
//!   cuts: chunk boundaries (`-` = one chunk)
//! output = `kind n=<len> k=<chunks> | M=<M>:<res>:ret=<max retained>:use=<max usage|->:heap=<max live heap growth>:out=<bytes out> …`
//!   res: ok | mem@<call> | other@<call> | PANIC-new | panic@<call>   (call k = `end`)
//! oracle (appended as ` ||ORACLE:C10:<site> …`, first violation only):
//!   constructor-panic         the constructor panics (was finding F5 for prealloc > M; repaired in /repo 6823fd9)
//!   retained-exceeds-max      bytes_in − bytes_out > M after a successful write
//!   text-decoder-held-uncharged   same, but the retained bytes are exactly the incomplete UTF-8
//!                             sequence at the end of the input so far (≤ 3 bytes, kept by the
//!                             text decoder of a text-capturing configuration and never charged)
//!   usage-exceeds-max         accounted usage > M after a successful call
//!   usage-below-retained      accounted usage < retained bytes after a successful write
//!   heap-growth-exceeds-max   after a successful write the live heap (counting allocator) has grown by
//!                             more than M + 16 KiB since the rewriter was constructed: memory that
//!                             depends on the input and is not charged to the limiter
//!   heap-growth-without-retained-input   same, and the growth is more than 64 × the retained input
//!                             (memory kept for open elements, not for buffered input)
//!   panic                     a call panicked
//!   not-monotone              a larger limit stops earlier / differently than a smaller one
//!   output-differs            two fully successful runs produced different output
//!   not-deterministic         the same case run twice stopped differently / produced different output
use crate::util::*;
use lol_html::errors::RewritingError;
use lol_html::html_content::DocumentEnd;
use lol_html::{
    AsciiCompatibleEncoding, HtmlRewriter, LocalName, MemorySettings, Namespace, Settings,
    SharedMemoryLimiter, StartTagHandlingResult, Token, TokenCaptureFlags, TransformController,
    TransformStream, TransformStreamSettings, comments, doc_comments, doc_text, element, text,
};
use std::alloc::{GlobalAlloc, Layout, System};
use std::cell::RefCell;
use std::panic::{AssertUnwindSafe, catch_unwind};
use std::rc::Rc;
use std::sync::atomic::{AtomicUsize, Ordering};

/// Pass-through allocator that counts live heap bytes, so that the lane can compare what the
/// rewriter really holds with what it accounts for (the harness is single-threaded).
struct CountingAlloc;
static LIVE: AtomicUsize = AtomicUsize::new(0);

unsafe impl GlobalAlloc for CountingAlloc {
    unsafe fn alloc(&self, l: Layout) -> *mut u8 {
        let p = unsafe { System.alloc(l) };
        if !p.is_null() {
            LIVE.fetch_add(l.size(), Ordering::Relaxed);
        }
        p
    }
    unsafe fn dealloc(&self, p: *mut u8, l: Layout) {
        unsafe { System.dealloc(p, l) };
        LIVE.fetch_sub(l.size(), Ordering::Relaxed);
    }
    unsafe fn realloc(&self, p: *mut u8, l: Layout, new_size: usize) -> *mut u8 {
        let q = unsafe { System.realloc(p, l, new_size) };
        if !q.is_null() {
            LIVE.fetch_sub(l.size(), Ordering::Relaxed);
            LIVE.fetch_add(new_size, Ordering::Relaxed);
        }
        q
    }
}

#[global_allocator]
static ALLOC: CountingAlloc = CountingAlloc;

/// Allowance for the rewriter's lazily allocated fixed-size scratch buffers when comparing the
/// live heap growth with the limit.
const HEAP_SLACK: usize = 16 * 1024;

pub(crate) struct PassThrough(pub(crate) TokenCaptureFlags);

impl TransformController for PassThrough {
    fn initial_capture_flags(&self) -> TokenCaptureFlags {
        self.0
    }
    fn handle_start_tag(&mut self, _: LocalName<'_>, _: Namespace) -> StartTagHandlingResult<Self> {
        Ok(self.0)
    }
    fn handle_end_tag(&mut self, _: LocalName<'_>) -> TokenCaptureFlags {
        self.0
    }
    fn handle_token(&mut self, _: &mut Token<'_>) -> Result<(), RewritingError> {
        Ok(())
    }
    fn handle_end(&mut self, _: &mut DocumentEnd<'_>) -> Result<(), RewritingError> {
        Ok(())
    }
    fn should_emit_content(&self) -> bool {
        true
    }
}

#[derive(Clone, PartialEq, Eq, Debug)]
enum Stop {
    Ok,
    Mem(usize),
    Other(usize),
    PanicNew,
    Panic(usize),
}

impl Stop {
    fn show(&self) -> String {
        match self {
            Stop::Ok => "ok".into(),
            Stop::Mem(i) => format!("mem@{i}"),
            Stop::Other(i) => format!("other@{i}"),
            Stop::PanicNew => "PANIC-new".into(),
            Stop::Panic(i) => format!("panic@{i}"),
        }
    }
    /// number of calls that completed successfully (writes, then `end`)
    fn progress(&self, ncalls: usize) -> usize {
        match self {
            Stop::Ok => ncalls,
            Stop::Mem(i) | Stop::Other(i) | Stop::Panic(i) => *i,
            Stop::PanicNew => 0,
        }
    }
}

struct RunResult {
    stop: Stop,
    max_retained: usize,
    max_usage: Option<usize>,
    /// largest growth of the live heap since construction, measured after successful writes
    max_heap: usize,
    out: Vec<u8>,
    violation: Option<String>,
}

trait Driver {
    fn write(&mut self, data: &[u8]) -> Result<(), RewritingError>;
    fn end(self: Box<Self>) -> Result<(), RewritingError>;
}

struct TsDriver<O: lol_html::OutputSink>(TransformStream<PassThrough, O>);
impl<O: lol_html::OutputSink> Driver for TsDriver<O> {
    fn write(&mut self, data: &[u8]) -> Result<(), RewritingError> {
        self.0.write(data)
    }
    fn end(mut self: Box<Self>) -> Result<(), RewritingError> {
        self.0.end()
    }
}

struct RwDriver<'h, O: lol_html::OutputSink>(HtmlRewriter<'h, O>);
impl<O: lol_html::OutputSink> Driver for RwDriver<'_, O> {
    fn write(&mut self, data: &[u8]) -> Result<(), RewritingError> {
        self.0.write(data)
    }
    fn end(self: Box<Self>) -> Result<(), RewritingError> {
        self.0.end()
    }
}

fn make_driver<'a>(
    kind: &str,
    max: usize,
    prealloc: usize,
    out: Rc<RefCell<Vec<u8>>>,
) -> Option<(Box<dyn Driver + 'a>, Option<SharedMemoryLimiter>)> {
    let sink = move |c: &[u8]| out.borrow_mut().extend_from_slice(c);
    let ts_flags = match kind {
        "tsall" => Some(TokenCaptureFlags::all()),
        "tstags" => Some(TokenCaptureFlags::NEXT_START_TAG | TokenCaptureFlags::NEXT_END_TAG),
        "tsscan" => Some(TokenCaptureFlags::empty()),
        _ => None,
    };
    if let Some(flags) = ts_flags {
        let limiter = SharedMemoryLimiter::new(max);
        let ts = TransformStream::new(TransformStreamSettings {
            transform_controller: PassThrough(flags),
            output_sink: sink,
            preallocated_parsing_buffer_size: prealloc,
            memory_limiter: limiter.clone(),
            encoding: AsciiCompatibleEncoding::utf_8(),
            next_encoding: Default::default(),
            strict: false,
            graceful_bail_out_on_memory_limit_exceeded: false,
            graceful_bail_out_on_content_handler_error: false,
        });
        return Some((Box::new(TsDriver(ts)), Some(limiter)));
    }
    let mem = MemorySettings::new()
        .with_max_allowed_memory_usage(max)
        .with_preallocated_parsing_buffer_size(prealloc);
    let settings = match kind {
        "rwall" => Settings::new()
            .append_element_content_handler(element!("*", |_| Ok(())))
            .append_element_content_handler(comments!("*", |_| Ok(())))
            .append_element_content_handler(text!("*", |_| Ok(())))
            .append_document_content_handler(doc_comments!(|_| Ok(())))
            .append_document_content_handler(doc_text!(|_| Ok(()))),
        "rwsel" => Settings::new()
            .append_element_content_handler(element!("div div span", |_| Ok(())))
            .append_element_content_handler(element!("div > p", |_| Ok(())))
            .append_element_content_handler(element!("[a]", |_| Ok(())))
            .append_element_content_handler(element!("p:nth-child(2)", |_| Ok(()))),
        "rwnone" => Settings::new(),
        _ => return None,
    }
    .with_strict(false)
    .with_memory_settings(mem);
    Some((Box::new(RwDriver(HtmlRewriter::new(settings, sink))), None))
}

/// Length of the incomplete UTF-8 sequence `b` ends with (0 if it ends on a character boundary).
fn incomplete_utf8_suffix(b: &[u8]) -> usize {
    for back in 1..=3.min(b.len()) {
        let c = b[b.len() - back];
        if c & 0xC0 == 0x80 {
            continue; // continuation byte
        }
        let need = if c >= 0xF0 {
            4
        } else if c >= 0xE0 {
            3
        } else if c >= 0xC0 {
            2
        } else {
            1
        };
        return if need > back { back } else { 0 };
    }
    0
}

fn run_one(kind: &str, max: usize, prealloc: usize, chunks: &[&[u8]]) -> Option<RunResult> {
    let total: usize = chunks.iter().map(|c| c.len()).sum();
    // everything the harness itself will need is allocated before the baseline is taken
    let out = Rc::new(RefCell::new(Vec::<u8>::with_capacity(2 * total + 64)));
    let made = catch_unwind(AssertUnwindSafe(|| make_driver(kind, max, prealloc, out.clone())));
    let mut res = RunResult {
        stop: Stop::Ok,
        max_retained: 0,
        max_usage: None,
        max_heap: 0,
        out: vec![],
        violation: None,
    };
    let (mut drv, limiter) = match made {
        Ok(Some(x)) => x,
        Ok(None) => return None,
        Err(_) => {
            res.stop = Stop::PanicNew;
            res.violation =
                Some(format!("constructor-panic constructor panics with prealloc={prealloc} max={max}"));
            return Some(res);
        }
    };
    let mut bytes_in = 0usize;
    let mut seen: Vec<u8> = Vec::with_capacity(total);
    let heap_base = LIVE.load(Ordering::Relaxed);
    let note_usage = |res: &mut RunResult, call: usize| {
        if let Some(l) = &limiter {
            let u = l.verif_current_usage();
            res.max_usage = Some(res.max_usage.unwrap_or(0).max(u));
            if u > max && res.violation.is_none() {
                res.violation = Some(format!("usage-exceeds-max call#{call} usage={u} max={max}"));
            }
            Some(u)
        } else {
            None
        }
    };
    note_usage(&mut res, 0);
    for (i, c) in chunks.iter().enumerate() {
        bytes_in += c.len();
        seen.extend_from_slice(c);
        match catch_unwind(AssertUnwindSafe(|| drv.write(c))) {
            Err(_) => {
                res.stop = Stop::Panic(i);
                if res.violation.is_none() {
                    res.violation = Some(format!("panic write#{i} max={max}"));
                }
                break;
            }
            Ok(Err(RewritingError::MemoryLimitExceeded(_))) => {
                res.stop = Stop::Mem(i);
                break;
            }
            Ok(Err(_)) => {
                res.stop = Stop::Other(i);
                break;
            }
            Ok(Ok(())) => {
                let retained = bytes_in - out.borrow().len().min(bytes_in);
                res.max_retained = res.max_retained.max(retained);
                if retained > max && res.violation.is_none() {
                    let site = if retained == incomplete_utf8_suffix(&seen) {
                        "text-decoder-held-uncharged"
                    } else {
                        "retained-exceeds-max"
                    };
                    let at = if site == "text-decoder-held-uncharged" {
                        " site=rewritable_units/text_decoder.rs:TextDecoder.pending_text_streaming_decoder(held bytes of an incomplete character, never charged)"
                    } else {
                        ""
                    };
                    res.violation = Some(format!(
                        "{site} kind={kind} write#{i} in={bytes_in} out={} retained={retained} max={max} usage={}{at}",
                        out.borrow().len(),
                        limiter.as_ref().map_or("-".to_string(), |l| l.verif_current_usage().to_string())
                    ));
                }
                let heap = LIVE.load(Ordering::Relaxed).saturating_sub(heap_base);
                res.max_heap = res.max_heap.max(heap);
                if heap > max.saturating_add(HEAP_SLACK) && res.violation.is_none() {
                    // growth that the buffered input cannot explain (e.g. owned element names in
                    // the open-element stack) vs. growth proportional to the buffered input
                    // (e.g. the lexer's attribute outlines of an unterminated tag)
                    let site = if heap > retained.saturating_mul(64).saturating_add(HEAP_SLACK) {
                        "heap-growth-without-retained-input"
                    } else {
                        "heap-growth-exceeds-max"
                    };
                    let at = if site == "heap-growth-without-retained-input" {
                        "selectors_vm/stack.rs:StackItem.local_name+open_name_counts(owned element names of open elements; LimitedVec charges size_of::<StackItem>() only)"
                    } else {
                        "parser/lexer/mod.rs:AttributeBuffer(attribute outlines of the buffered tag) and other per-input allocations proportional to the retained input"
                    };
                    res.violation = Some(format!(
                        "{site} kind={kind} write#{i} live heap grew by {heap} bytes since construction, max={max}, retained input={retained} site={at}"
                    ));
                }
                if let Some(u) = note_usage(&mut res, i) {
                    if u < retained && retained != incomplete_utf8_suffix(&seen) && res.violation.is_none() {
                        res.violation =
                            Some(format!("usage-below-retained write#{i} usage={u} retained={retained}"));
                    }
                }
            }
        }
    }
    if res.stop == Stop::Ok {
        let k = chunks.len();
        match catch_unwind(AssertUnwindSafe(|| drv.end())) {
            Err(_) => {
                res.stop = Stop::Panic(k);
                if res.violation.is_none() {
                    res.violation = Some(format!("panic end max={max}"));
                }
            }
            Ok(Err(RewritingError::MemoryLimitExceeded(_))) => res.stop = Stop::Mem(k),
            Ok(Err(_)) => res.stop = Stop::Other(k),
            Ok(Ok(())) => {
                note_usage(&mut res, k);
            }
        }
    }
    res.out = out.borrow().clone();
    Some(res)
}

pub fn run(line: &str) -> String {
    let f: Vec<&str> = line.split(' ').filter(|s| !s.is_empty()).collect();
    if f.len() != 5 {
        return "bad-case".into();
    }
    let kind = f[0];
    let (Ok(prealloc), Some(input), Some(cuts), Some(mut limits)) =
        (f[1].parse::<usize>(), of_hex(f[2]), nat_list(f[3]), nat_list(f[4]))
    else {
        return "bad-case".into();
    };
    limits.sort_unstable();
    limits.dedup();
    let chunks = split_at_cuts(&input, &cuts);
    let ncalls = chunks.len() + 1;
    let mut s = format!("{kind} n={} k={} |", input.len(), chunks.len());
    let mut oracle: Option<String> = None;
    let mut prev: Option<(usize, RunResult)> = None;
    for &m in &limits {
        let Some(r) = run_one(kind, m, prealloc, &chunks) else {
            return "bad-case".into();
        };
        // determinism: the same configuration and writes give the same results and output
        if let Some(r2) = run_one(kind, m, prealloc, &chunks) {
            if (r2.stop != r.stop || r2.out != r.out || r2.max_usage != r.max_usage)
                && oracle.is_none()
            {
                oracle = Some(format!("not-deterministic M={m}: {} vs {}", r.stop.show(), r2.stop.show()));
            }
        }
        s.push_str(&format!(
            " M={m}:{}:ret={}:use={}:heap={}:out={}",
            r.stop.show(),
            r.max_retained,
            r.max_usage.map_or("-".to_string(), |u| u.to_string()),
            r.max_heap,
            r.out.len()
        ));
        if oracle.is_none() {
            oracle = r.violation.clone();
        }
        if let Some((pm, p)) = &prev {
            let bad = match &p.stop {
                // success, or a stop that does not depend on the limit, must be reproduced exactly
                Stop::Ok | Stop::Other(_) | Stop::Panic(_) => r.stop != p.stop,
                _ => r.stop.progress(ncalls) < p.stop.progress(ncalls),
            };
            if bad && oracle.is_none() {
                // (also across the preallocation size: Arena::new clamps it to the limit, /repo 6823fd9)
                let site = "not-monotone";
                oracle = Some(format!(
                    "{site} M={pm}:{} but M={m}:{} prealloc={prealloc}",
                    p.stop.show(),
                    r.stop.show()
                ));
            }
            if p.stop == Stop::Ok
                && r.stop == Stop::Ok
                && p.out != r.out
                && oracle.is_none()
            {
                oracle = Some(format!("output-differs M={pm} vs M={m}"));
            }
        }
        prev = Some((m, r));
    }
    if let Some(o) = oracle {
        s.push_str(&format!(" ||ORACLE:C10:{o}"));
    }
    s
}
