//! Lane `sel` (property C04): selector sets × tag-event scripts on the REAL `HtmlRewriter`.
//!
//! Case format: see gen/sel.py. Observation (same as lean/LolHtml/Lane/Sel.lean):
//!   hits=<i:o,…|-> ref=<i:o,…|-> css=<hex,…> ast=<{:?} of selectors_vm::Ast>
//! `hits` = (selector index, start-tag ordinal) for every element-handler invocation of the real
//! rewriter run under the given cuts; `ref` = an independent naive CSS matcher on the tree the script
//! induces (oracle). When they differ the line gets ` ||ORACLE:C04:<site-tag> …`.
use crate::util::*;
use lol_html::html_content::Element;
use lol_html::selectors_vm::Ast;
use lol_html::{ElementContentHandlers, HtmlRewriter, Selector, Settings};
use std::borrow::Cow;
use std::cell::RefCell;
use std::rc::Rc;

// ------------------------------------------------------------------------------------------ AST

#[derive(Clone, Debug)]
enum Simple {
    Type(Vec<u8>),
    Universal,
    Id(Vec<u8>),
    Class(Vec<u8>),
    AttrExists(Vec<u8>),
    Attr(Vec<u8>, String, Vec<u8>, String),
    NthChild(i64, i64),
    NthOfType(i64, i64),
    Not(Vec<Vec<Simple>>),
}
type Compound = Vec<Simple>;
/// compounds in source order with the combinator ('c' | 'd') *before* each but the first
type Complex = Vec<(char, Compound)>;
type SelList = Vec<Complex>;

struct Toks<'a> {
    t: Vec<&'a str>,
    i: usize,
}
impl<'a> Toks<'a> {
    fn next(&mut self) -> Option<&'a str> {
        let r = self.t.get(self.i).copied();
        self.i += 1;
        r
    }
    fn nat(&mut self) -> Option<usize> {
        self.next()?.parse().ok()
    }
    fn int(&mut self) -> Option<i64> {
        self.next()?.parse().ok()
    }
    fn hex(&mut self) -> Option<Vec<u8>> {
        of_hex(self.next()?)
    }
}

fn p_simple(t: &mut Toks) -> Option<Simple> {
    Some(match t.next()? {
        "t" => Simple::Type(t.hex()?),
        "u" => Simple::Universal,
        "i" => Simple::Id(t.hex()?),
        "k" => Simple::Class(t.hex()?),
        "e" => Simple::AttrExists(t.hex()?),
        "a" => {
            let n = t.hex()?;
            let op = t.next()?.to_string();
            let v = t.hex()?;
            let cs = t.next()?.to_string();
            Simple::Attr(n, op, v, cs)
        }
        "n" => Simple::NthChild(t.int()?, t.int()?),
        "o" => Simple::NthOfType(t.int()?, t.int()?),
        "f" => Simple::NthChild(0, 1),
        "g" => Simple::NthOfType(0, 1),
        "x" => {
            let k = t.nat()?;
            let mut args = vec![];
            for _ in 0..k {
                args.push(p_compound(t)?);
            }
            Simple::Not(args)
        }
        _ => return None,
    })
}
fn p_compound(t: &mut Toks) -> Option<Compound> {
    let j = t.nat()?;
    (0..j).map(|_| p_simple(t)).collect()
}
fn p_selset(s: &str) -> Option<Vec<SelList>> {
    let mut t = Toks { t: s.split(',').collect(), i: 0 };
    let n = t.nat()?;
    let mut out = vec![];
    for _ in 0..n {
        let k = t.nat()?;
        let mut sl = vec![];
        for _ in 0..k {
            let m = t.nat()?;
            let mut cx = vec![(' ', p_compound(&mut t)?)];
            for _ in 1..m {
                let c = t.next()?.chars().next()?;
                cx.push((c, p_compound(&mut t)?));
            }
            sl.push(cx);
        }
        out.push(sl);
    }
    if t.i == t.t.len() { Some(out) } else { None }
}

// ------------------------------------------------------------------------------------------ script

#[derive(Clone, Debug)]
struct Start {
    name: Vec<u8>,
    ns: char,
    self_closing: bool,
    attrs: Vec<(Vec<u8>, Option<Vec<u8>>)>,
}
enum Ev {
    Start(Start),
    End(Vec<u8>),
    Text(Vec<u8>),
}

fn p_script(s: &str) -> Option<Vec<Ev>> {
    if s == "-" {
        return Some(vec![]);
    }
    s.split(';')
        .map(|e| {
            let f: Vec<&str> = e.split(':').collect();
            Some(match f.as_slice() {
                ["s", n, ns, sc, attrs] => Ev::Start(Start {
                    name: of_hex(n)?,
                    ns: ns.chars().next()?,
                    self_closing: *sc == "1",
                    attrs: if *attrs == "-" {
                        vec![]
                    } else {
                        attrs
                            .split('&')
                            .map(|a| match a.split_once('=') {
                                Some((n, v)) => Some((of_hex(n)?, Some(if v.is_empty() { vec![] } else { of_hex(v)? }))),
                                None => Some((of_hex(a)?, None)),
                            })
                            .collect::<Option<_>>()?
                    },
                }),
                ["e", n] => Ev::End(of_hex(n)?),
                ["t", x] => Ev::Text(of_hex(x)?),
                _ => return None,
            })
        })
        .collect()
}

/// HTML text + byte offset of every start tag (by ordinal)
fn render(evs: &[Ev]) -> (Vec<u8>, Vec<usize>) {
    let mut out = vec![];
    let mut offs = vec![];
    for e in evs {
        match e {
            Ev::Start(s) => {
                offs.push(out.len());
                out.push(b'<');
                out.extend_from_slice(&s.name);
                for (n, v) in &s.attrs {
                    out.push(b' ');
                    out.extend_from_slice(n);
                    if let Some(v) = v {
                        out.extend_from_slice(b"=\"");
                        out.extend_from_slice(v);
                        out.push(b'"');
                    }
                }
                out.extend_from_slice(if s.self_closing { b" />" } else { b">" });
            }
            Ev::End(n) => {
                out.extend_from_slice(b"</");
                out.extend_from_slice(n);
                out.push(b'>');
            }
            Ev::Text(t) => out.extend_from_slice(t),
        }
    }
    (out, offs)
}

// ------------------------------------------------------------------------------------------ reference matcher

const VOID: &[&str] = &[
    "area", "base", "basefont", "bgsound", "br", "col", "embed", "hr", "img", "input", "keygen", "link", "meta",
    "param", "source", "track", "wbr",
];

struct Node {
    tag: Start,
    parent: Option<usize>,
    /// index among the element children of the parent (0-based), and the sibling node ids before it
    prev: Vec<usize>,
}

fn build_tree(evs: &[Ev], esi: bool) -> Vec<Node> {
    let mut nodes: Vec<Node> = vec![];
    let mut children: Vec<Vec<usize>> = vec![]; // per node
    let mut root_children: Vec<usize> = vec![];
    let mut open: Vec<usize> = vec![];
    for e in evs {
        match e {
            Ev::Start(s) => {
                let id = nodes.len();
                let parent = open.last().copied();
                let sibs = match parent {
                    Some(p) => &mut children[p],
                    None => &mut root_children,
                };
                let prev = sibs.clone();
                sibs.push(id);
                nodes.push(Node { tag: s.clone(), parent, prev });
                children.push(vec![]);
                let lname = s.name.to_ascii_lowercase();
                let closes_at_once = if s.ns == 'h' {
                    VOID.iter().any(|v| v.as_bytes() == lname)
                        || (esi && (s.name == b"esi:include" || s.name == b"esi:comment"))
                } else {
                    s.self_closing
                };
                if !closes_at_once {
                    open.push(id);
                }
            }
            Ev::End(n) => {
                if let Some(pos) = open.iter().rposition(|&i| nodes[i].tag.name.eq_ignore_ascii_case(n)) {
                    open.truncate(pos);
                }
            }
            Ev::Text(_) => {}
        }
    }
    nodes
}

fn attr<'a>(t: &'a Start, name: &[u8]) -> Option<&'a [u8]> {
    t.attrs
        .iter()
        .find(|(n, _)| n.eq_ignore_ascii_case(name))
        .map(|(_, v)| v.as_deref().unwrap_or(b""))
}
fn is_ws(b: u8) -> bool {
    matches!(b, b' ' | b'\t' | b'\n' | b'\r' | 0x0c)
}
fn ceq(ins: bool, a: &[u8], b: &[u8]) -> bool {
    if ins { a.eq_ignore_ascii_case(b) } else { a == b }
}
fn nth(a: i64, b: i64, i: i64) -> bool {
    // ∃ n ≥ 0, a·n + b = i
    if a == 0 {
        return i == b;
    }
    let d = i - b;
    d % a == 0 && d / a >= 0
}

#[derive(Clone, Copy, PartialEq)]
enum Sem {
    /// CSS Selectors semantics
    Css,
    /// CSS, except that `:not()` is read as lol-html flattens it: every simple selector of the argument
    /// negated separately and conjoined, a nested `:not()` flipping the sign (finding F3)
    FlatNot,
}

fn m_simple(nodes: &[Node], id: usize, s: &Simple, sem: Sem) -> bool {
    let n = &nodes[id];
    match s {
        Simple::Type(t) => n.tag.name.eq_ignore_ascii_case(t),
        Simple::Universal => true,
        Simple::Id(v) => attr(&n.tag, b"id") == Some(v.as_slice()),
        Simple::Class(v) => attr(&n.tag, b"class").is_some_and(|c| c.split(|&b| is_ws(b)).any(|p| p == v.as_slice())),
        Simple::AttrExists(a) => attr(&n.tag, a).is_some(),
        Simple::Attr(a, op, v, cs) => {
            let Some(actual) = attr(&n.tag, a) else { return false };
            let ins = match cs.as_str() {
                "ai" => true,
                "ih" => n.tag.ns == 'h',
                _ => false,
            };
            match op.as_str() {
                "eq" => ceq(ins, actual, v),
                "inc" => {
                    !v.is_empty()
                        && !v.iter().any(|&b| is_ws(b))
                        && actual.split(|&b| is_ws(b)).any(|p| ceq(ins, p, v))
                }
                "dash" => {
                    ceq(ins, actual, v)
                        || (actual.len() > v.len() && actual[v.len()] == b'-' && ceq(ins, &actual[..v.len()], v))
                }
                "pfx" => {
                    !v.is_empty()
                        && actual.len() >= v.len()
                        && ceq(ins, &actual[..v.len()], v)
                }
                "sfx" => {
                    !v.is_empty()
                        && actual.len() >= v.len()
                        && ceq(ins, &actual[actual.len() - v.len()..], v)
                }
                "sub" => !v.is_empty() && actual.windows(v.len()).any(|w| ceq(ins, w, v)),
                _ => false,
            }
        }
        Simple::NthChild(a, b) => nth(*a, *b, n.prev.len() as i64 + 1),
        Simple::NthOfType(a, b) => {
            let k = n.prev.iter().filter(|&&p| nodes[p].tag.name.eq_ignore_ascii_case(&n.tag.name)).count();
            nth(*a, *b, k as i64 + 1)
        }
        Simple::Not(args) => match sem {
            Sem::Css => !args.iter().any(|c| m_compound(nodes, id, c, sem)),
            _ => args.iter().all(|c| c.iter().all(|s| flat(nodes, id, s, true, sem))),
        },
    }
}
/// flattened reading: literal with sign
fn flat(nodes: &[Node], id: usize, s: &Simple, neg: bool, sem: Sem) -> bool {
    match s {
        Simple::Not(args) => args.iter().all(|c| c.iter().all(|t| flat(nodes, id, t, !neg, sem))),
        _ => m_simple(nodes, id, s, sem) != neg,
    }
}
fn m_compound(nodes: &[Node], id: usize, c: &Compound, sem: Sem) -> bool {
    c.iter().all(|s| m_simple(nodes, id, s, sem))
}
/// does `cx[..=k]` match with its last compound on node `id`?
fn m_complex(nodes: &[Node], id: usize, cx: &Complex, k: usize, sem: Sem) -> bool {
    if !m_compound(nodes, id, &cx[k].1, sem) {
        return false;
    }
    if k == 0 {
        return true;
    }
    match cx[k].0 {
        'c' => nodes[id].parent.is_some_and(|p| m_complex(nodes, p, cx, k - 1, sem)),
        _ => {
            let mut a = nodes[id].parent;
            while let Some(p) = a {
                if m_complex(nodes, p, cx, k - 1, sem) {
                    return true;
                }
                a = nodes[p].parent;
            }
            false
        }
    }
}
fn reference(sels: &[SelList], nodes: &[Node], sem: Sem) -> Vec<(usize, usize)> {
    let mut out = vec![];
    for id in 0..nodes.len() {
        for (i, sl) in sels.iter().enumerate() {
            if sl.iter().any(|cx| m_complex(nodes, id, cx, cx.len() - 1, sem)) {
                out.push((i, id));
            }
        }
    }
    out
}

fn f3_shape(sl: &SelList) -> bool {
    fn simple(s: &Simple, in_not: bool) -> bool {
        match s {
            Simple::Not(args) => in_not || args.iter().any(|c| c.len() >= 2 || c.iter().any(|t| simple(t, true))),
            _ => false,
        }
    }
    sl.iter().any(|cx| cx.iter().any(|(_, c)| c.iter().any(|s| simple(s, false))))
}
// ------------------------------------------------------------------------------------------ the real thing

fn hits_str(h: &[(usize, usize)]) -> String {
    if h.is_empty() {
        return "-".into();
    }
    let mut h = h.to_vec();
    h.sort_by_key(|&(i, o)| (o, i));
    h.iter().map(|(i, o)| format!("{i}:{o}")).collect::<Vec<_>>().join(",")
}

/// run the real rewriter; returns (selector idx, byte offset of the start tag, namespace uri)
fn run_real(css: &[String], html: &[u8], cuts: &[usize], esi: bool) -> Result<Vec<(usize, usize, &'static str)>, String> {
    let log: Rc<RefCell<Vec<(usize, usize, &'static str)>>> = Rc::default();
    let mut settings = Settings::new().with_strict(false).with_enable_esi_tags(esi);
    for (i, text) in css.iter().enumerate() {
        let sel: Selector = text.parse().map_err(|e| format!("parse-error({i}):{e:?}"))?;
        let log = log.clone();
        settings = settings.append_element_content_handler((
            Cow::Owned(sel),
            ElementContentHandlers::default().element(move |el: &mut Element<'_, '_>| {
                log.borrow_mut().push((i, el.source_location().bytes().start, el.namespace_uri()));
                Ok(())
            }),
        ));
    }
    let mut rw = HtmlRewriter::new(settings, |_: &[u8]| {});
    for chunk in split_at_cuts(html, cuts) {
        rw.write(chunk).map_err(|e| format!("write-error:{e:?}"))?;
    }
    rw.end().map_err(|e| format!("end-error:{e:?}"))?;
    let r = log.borrow().clone();
    Ok(r)
}

pub fn run(line: &str) -> String {
    let f: Vec<&str> = line.split(' ').collect();
    let [esi, cuts, sels_s, css_s, script] = f.as_slice() else { return "bad-case".into() };
    let (Some(sels), Some(evs), Some(cuts)) = (p_selset(sels_s), p_script(script), nat_list(cuts)) else {
        return "bad-case".into();
    };
    let esi = *esi == "1";
    let Some(css): Option<Vec<String>> =
        css_s.split(',').map(|h| of_hex(h).and_then(|b| String::from_utf8(b).ok())).collect()
    else {
        return "bad-case".into();
    };
    if css.len() != sels.len() {
        return "bad-case".into();
    }
    let (html, offs) = render(&evs);
    let ord_of = |off: usize| offs.iter().position(|&o| o == off);

    // Ast dump
    let mut ast = Ast::default();
    for (i, text) in css.iter().enumerate() {
        match text.parse::<Selector>() {
            Ok(s) => ast.add_selector(&s, i as u32),
            Err(e) => return format!("parse-error({i}):{e:?}"),
        }
    }

    let raw = match run_real(&css, &html, &cuts, esi) {
        Ok(r) => r,
        Err(e) => return e,
    };
    let mut hits = vec![];
    for &(i, off, _) in &raw {
        match ord_of(off) {
            Some(o) => hits.push((i, o)),
            None => return format!("unknown-offset:{off}"),
        }
    }

    // namespace claim check: a second run with `*` alone
    let mut nsdiff = String::new();
    let starts: Vec<&Start> = evs.iter().filter_map(|e| if let Ev::Start(s) = e { Some(s) } else { None }).collect();
    match run_real(&["*".to_string()], &html, &cuts, esi) {
        Ok(all) => {
            if all.len() != starts.len() {
                nsdiff = format!(" nsdiff=count:{}vs{}", all.len(), starts.len());
            } else {
                for (k, &(_, off, uri)) in all.iter().enumerate() {
                    let want = match starts[k].ns {
                        'h' => "http://www.w3.org/1999/xhtml",
                        's' => "http://www.w3.org/2000/svg",
                        _ => "http://www.w3.org/1998/Math/MathML",
                    };
                    if ord_of(off) != Some(k) || uri != want {
                        nsdiff = format!(" nsdiff={k}");
                        break;
                    }
                }
            }
        }
        Err(e) => nsdiff = format!(" nsdiff=err:{e}"),
    }

    let nodes = build_tree(&evs, esi);
    let reference_hits = reference(&sels, &nodes, Sem::Css);
    let css_hex = css.iter().map(|c| hex_or_dash(c.as_bytes())).collect::<Vec<_>>().join(",");
    let mut line = format!(
        "hits={} ref={} css={} ast={:?}{}",
        hits_str(&hits),
        hits_str(&reference_hits),
        css_hex,
        ast,
        nsdiff
    );

    // oracle: implementation vs CSS semantics, per selector
    let mut hs = hits.clone();
    hs.sort();
    let mut rs = reference_hits.clone();
    rs.sort();
    if hs != rs {
        let flat_hits = reference(&sels, &nodes, Sem::FlatNot);
        let mut tags: Vec<String> = vec![];
        let mut sites: Vec<String> = vec![];
        for (i, sl) in sels.iter().enumerate() {
            let of = |v: &[(usize, usize)]| {
                let mut x: Vec<usize> = v.iter().filter(|h| h.0 == i).map(|h| h.1).collect();
                x.sort();
                x
            };
            let (h, r) = (of(&hits), of(&reference_hits));
            if h == r {
                continue;
            }
            // F3 only when the selector has the shape and the flattened reading explains the hits
            let tag = if f3_shape(sl) && h == of(&flat_hits) { "F3-not-compound" } else { "mismatch" };
            sites.push(tag.to_string());
            tags.push(format!("{tag} sel#{i}=`{}` impl={:?} css={:?}", css[i], h, r));
        }
        sites.sort();
        sites.dedup();
        let site = if sites.iter().any(|t| t == "mismatch") { "mismatch".to_string() } else { sites.join("+") };
        line.push_str(&format!(
            " ||ORACLE:C04:{site} html=`{}` {}",
            String::from_utf8_lossy(&html),
            tags.join(" ; ")
        ));
    }
    line
}
