//! Lane `capi` (implementation side): one generated script is executed
//!   (1) through the REAL `lol_html_*` extern "C" entry points of /repo/c-api (crate `lolhtml`), every
//!       top-level call on the worker thread named by the script (three threads per case), and
//!   (2) through the Rust API (`lol_html::*`), mirroring the script call by call and applying the
//!       *documented* encoding of results (return codes, NULL/`Str`, last-error per thread).
//! The printed observation (diffed with `Model.CApi.run` via lean/LolHtml/Lane/CApi.lean) is what the C
//! caller sees: every return value in call order, last-error presence per thread, number of objects not
//! freed, drop-callback count of every streaming handler.
//! Oracle (` ||ORACLE:C17:<tag> …`): C run ≠ Rust run (values, sink bytes, error messages); a failure
//! return that does not set LAST_ERROR on the calling thread; an attribute iterator left dangling by a
//! header-permitted history; LAST_ERROR of one thread visible on another (C18).
//! Case grammar: see gen/capi.py.
#![allow(clippy::missing_safety_doc, dangerous_implicit_autorefs, unsafe_op_in_unsafe_fn, unused_imports, unused_unsafe, clippy::all)]

use crate::util::*;
use libc::{c_char, c_int, c_void};
use lol_html::html_content::{
    Attribute, Comment, ContentType, Doctype, DocumentEnd, Element, EndTag, StreamingHandler,
    StreamingHandlerSink, TextChunk, UserData,
};
use lol_html::{
    AsciiCompatibleEncoding, DocumentContentHandlers, ElementContentHandlers, HtmlRewriter,
    MemorySettings, Selector, Settings,
};
use lolhtml::rewriter_builder::HtmlRewriterBuilder;
use lolhtml::{CStreamingHandler, RewriterDirective};
use std::borrow::Cow;
use std::collections::HashMap;
use std::sync::mpsc;

// ------------------------------------------------------------------------------------------ script

#[derive(Clone, Debug)]
pub enum SArg {
    Null,
    Mk { reserved_null: bool, has_write_all: bool, has_drop: bool, script: usize },
}

#[derive(Clone, Debug)]
pub enum COp {
    StrGet { dst: usize, f: usize },
    OptStrGet { dst: usize, f: usize, args: Vec<Vec<u8>> },
    IntGet { f: usize, args: Vec<Vec<u8>> },
    Fallible { f: usize, args: Vec<Vec<u8>> },
    Infallible { f: usize, args: Vec<Vec<u8>>, is_html: bool },
    Void { f: usize },
    BoolGet { f: usize },
    RawGet { f: usize },
    BytesFallible { f: usize, b: Vec<u8>, is_html: bool },
    AddEndTagHandler { hid: usize },
    ClearEndTagHandlers,
    Streaming { f: usize, h: SArg },
    IterGet { dst: usize },
    IterNext { it: usize },
    IterFree { it: usize },
    AttrStrGet { dst: usize, it: usize, f: usize },
    StrFree { v: usize },
    TakeLastError { dst: usize },
}

#[derive(Clone, Debug)]
pub struct HDef {
    pub ops: Vec<COp>,
    pub stop_at: Option<usize>,
    pub ret: i32,
}

#[derive(Clone, Debug)]
pub enum TopOp {
    BuilderNew { dst: usize },
    SelectorParse { dst: usize, s: Vec<u8> },
    AddDoc { b: usize, hs: [Option<usize>; 4] },
    AddElem { b: usize, sel: usize, hs: [Option<usize>; 3] },
    Build { dst: usize, b: usize, enc: Vec<u8>, prealloc: usize, max: usize, graceful: bool, strict: bool, esi: bool },
    Write { r: usize, chunk: Vec<u8> },
    End { r: usize },
    RewriterFree { r: usize },
    BuilderFree { b: usize },
    SelectorFree { s: usize },
    StrFree { v: usize },
    TakeLastError { dst: usize },
}

pub struct Case {
    pub prog: Vec<HDef>,
    pub calls: Vec<(usize, TopOp)>,
}

struct Toks<'a> {
    it: std::str::SplitWhitespace<'a>,
}
impl<'a> Toks<'a> {
    fn tok(&mut self) -> Option<&'a str> {
        self.it.next()
    }
    fn nat(&mut self) -> Option<usize> {
        self.tok()?.parse().ok()
    }
    fn int(&mut self) -> Option<i32> {
        self.tok()?.parse().ok()
    }
    fn opt_nat(&mut self) -> Option<Option<usize>> {
        let t = self.tok()?;
        if t == "-" { Some(None) } else { t.parse().ok().map(Some) }
    }
    fn flag(&mut self) -> Option<bool> {
        match self.tok()? {
            "1" => Some(true),
            "0" => Some(false),
            _ => None,
        }
    }
    fn hex(&mut self) -> Option<Vec<u8>> {
        of_hex(self.tok()?)
    }
    fn hexes(&mut self, n: usize) -> Option<Vec<Vec<u8>>> {
        (0..n).map(|_| self.hex()).collect()
    }
}

fn parse_sarg(t: &str) -> Option<SArg> {
    if t == "n" {
        return Some(SArg::Null);
    }
    let (fl, sc) = t.split_once(':')?;
    let b: Vec<bool> = fl.chars().map(|c| c == '1').collect();
    if b.len() != 3 {
        return None;
    }
    Some(SArg::Mk { reserved_null: b[0], has_write_all: b[1], has_drop: b[2], script: sc.parse().ok()? })
}

fn parse_cop(t: &mut Toks) -> Option<COp> {
    Some(match t.tok()? {
        "sg" => COp::StrGet { dst: t.nat()?, f: t.nat()? },
        "og" => {
            let (dst, f, n) = (t.nat()?, t.nat()?, t.nat()?);
            COp::OptStrGet { dst, f, args: t.hexes(n)? }
        }
        "ig" => COp::IntGet { f: t.nat()?, args: vec![t.hex()?] },
        "fa" => {
            let (f, n) = (t.nat()?, t.nat()?);
            COp::Fallible { f, args: t.hexes(n)? }
        }
        "in" => {
            let (f, is_html, n) = (t.nat()?, t.flag()?, t.nat()?);
            COp::Infallible { f, args: t.hexes(n)?, is_html }
        }
        "vo" => COp::Void { f: t.nat()? },
        "bg" => COp::BoolGet { f: t.nat()? },
        "rg" => COp::RawGet { f: t.nat()? },
        "bf" => COp::BytesFallible { f: t.nat()?, is_html: t.flag()?, b: t.hex()? },
        "eh" => COp::AddEndTagHandler { hid: t.nat()? },
        "ce" => COp::ClearEndTagHandlers,
        "st" => COp::Streaming { f: t.nat()?, h: parse_sarg(t.tok()?)? },
        "it" => COp::IterGet { dst: t.nat()? },
        "nx" => COp::IterNext { it: t.nat()? },
        "if" => COp::IterFree { it: t.nat()? },
        "ag" => COp::AttrStrGet { dst: t.nat()?, it: t.nat()?, f: t.nat()? },
        "sf" => COp::StrFree { v: t.nat()? },
        "tl" => COp::TakeLastError { dst: t.nat()? },
        _ => return None,
    })
}

pub fn parse_case(line: &str) -> Option<Case> {
    let mut t = Toks { it: line.split_whitespace() };
    if t.tok()? != "P" {
        return None;
    }
    let n = t.nat()?;
    let mut prog = vec![];
    for _ in 0..n {
        if t.tok()? != "H" {
            return None;
        }
        let stop_at = t.opt_nat()?;
        let ret = t.int()?;
        let nops = t.nat()?;
        let mut ops = vec![];
        for _ in 0..nops {
            ops.push(parse_cop(&mut t)?);
        }
        prog.push(HDef { ops, stop_at, ret });
    }
    if t.tok()? != "T" {
        return None;
    }
    let mut calls = vec![];
    while let Some(tid) = t.tok() {
        let tid: usize = tid.parse().ok()?;
        let op = match t.tok()? {
            "BN" => TopOp::BuilderNew { dst: t.nat()? },
            "SP" => TopOp::SelectorParse { dst: t.nat()?, s: t.hex()? },
            "AD" => TopOp::AddDoc { b: t.nat()?, hs: [t.opt_nat()?, t.opt_nat()?, t.opt_nat()?, t.opt_nat()?] },
            "AE" => TopOp::AddElem { b: t.nat()?, sel: t.nat()?, hs: [t.opt_nat()?, t.opt_nat()?, t.opt_nat()?] },
            "BU" => {
                let (dst, b, _cls, enc) = (t.nat()?, t.nat()?, t.nat()?, t.hex()?);
                TopOp::Build { dst, b, enc, prealloc: t.nat()?, max: t.nat()?, graceful: t.flag()?, strict: t.flag()?, esi: t.flag()? }
            }
            "WR" => {
                let (r, chunk) = (t.nat()?, t.hex()?);
                t.tok()?; // predicted events (model side only)
                t.tok()?;
                TopOp::Write { r, chunk }
            }
            "EN" => TopOp::End { r: t.nat()? },
            "RF" => TopOp::RewriterFree { r: t.nat()? },
            "BF" => TopOp::BuilderFree { b: t.nat()? },
            "XF" => TopOp::SelectorFree { s: t.nat()? },
            "SF" => TopOp::StrFree { v: t.nat()? },
            "TL" => TopOp::TakeLastError { dst: t.nat()? },
            _ => return None,
        };
        calls.push((tid, op));
    }
    Some(Case { prog, calls })
}

// ------------------------------------------------------------------------------------- shared bits

/// `lolhtml::Str` has private fields; same layout (`#[repr(C)]`, string.rs:5).
#[repr(C)]
#[derive(Clone, Copy)]
struct RawStr {
    data: *const c_char,
    len: usize,
}
fn raw_of(s: lolhtml::Str) -> RawStr {
    unsafe { std::mem::transmute::<lolhtml::Str, RawStr>(s) }
}
fn str_of(r: RawStr) -> lolhtml::Str {
    unsafe { std::mem::transmute::<RawStr, lolhtml::Str>(r) }
}
fn raw_bytes(r: RawStr) -> Vec<u8> {
    if r.data.is_null() { vec![] } else { unsafe { std::slice::from_raw_parts(r.data as *const u8, r.len) }.to_vec() }
}

/// The rewritable unit a handler was called with (raw pointer; both runs use it).
#[derive(Clone, Copy)]
enum Unit {
    Element(*mut Element<'static, 'static>),
    Comment(*mut Comment<'static>),
    Text(*mut TextChunk<'static>),
    Doctype(*mut Doctype<'static>),
    DocEnd(*mut DocumentEnd<'static>),
    EndTag(*mut EndTag<'static>),
    Sink(*mut StreamingHandlerSink<'static>),
}

const USER_DATA: usize = 0x1234;
const STOPPED: &str = "The rewriter has been stopped.";
const UNINIT: &str = "Not all fields of the struct were initialized";

/// One observed result: the token diffed with the model, and the full value compared C vs Rust.
#[derive(Clone, Debug, PartialEq)]
struct Obs {
    tok: String,
    val: String,
}
fn obs(tok: impl Into<String>, val: impl Into<String>) -> Obs {
    Obs { tok: tok.into(), val: val.into() }
}
fn code(n: i32) -> Obs {
    obs(n.to_string(), "")
}

#[derive(Default)]
struct Common {
    log: Vec<Obs>,
    calls: Vec<usize>,
    drops: Vec<usize>,   // per streaming handler (creation order): drop callbacks / drops
    ran: Vec<usize>,     // per streaming handler: write_all runs
    sinks: Vec<Vec<u8>>, // per built rewriter (creation order)
    sink_final: Vec<usize>,
    epoch: usize,
    scope: usize,
    fault: Option<String>, // `FAULT x` / `NOTPERMITTED x`: the run stops here (mirrors the model)
    poisoned: Vec<usize>,  // rewriter variables whose last write failed
    oracle: Vec<String>,
    tid: usize,
}

// ------------------------------------------------------------------------------------------ C run

enum CVal {
    Null,
    Builder(*mut HtmlRewriterBuilder),
    Selector(*mut Selector),
    Rewriter(*mut lolhtml::rewriter::HtmlRewriter),
    Str(RawStr),
    Iter { p: *mut std::slice::Iter<'static, Attribute<'static>>, last: *const Attribute<'static>, epoch: usize, len0: usize, pos: usize },
}

struct CRun {
    prog: Vec<HDef>,
    c: Common,
    vars: HashMap<usize, CVal>,
    live: HashMap<usize, &'static str>, // allocation ledger: serial -> kind, entries removed on free
    var_ids: HashMap<usize, usize>,     // variable -> serial of the object it holds
    serial: usize,
    ctxs: Vec<*mut HCtx>,
    cov_label: String,
}

struct HCtx {
    run: *mut CRun,
    hid: usize,
    idx: usize, // streaming handler index / sink index
}

fn mk_ctx(run: *mut CRun, hid: usize, idx: usize) -> *mut c_void {
    let p = Box::into_raw(Box::new(HCtx { run, hid, idx }));
    unsafe { (*run).ctxs.push(p) };
    p as *mut c_void
}

static TAKES: std::sync::atomic::AtomicUsize = std::sync::atomic::AtomicUsize::new(0);
static SETS: std::sync::atomic::AtomicUsize = std::sync::atomic::AtomicUsize::new(0);

/// Run `f` and report whether LAST_ERROR of this thread was set during it, without disturbing the
/// slot: it was iff it is `Some` afterwards and either was `None` before, or holds a different allocation
/// (errors.rs:20 allocates the new message before the old one is dropped), or a nested probe saw a set /
/// a `take_last_error` happened meanwhile (after which the allocator may hand out the old address again).
fn with_err_probe<T>(f: impl FnOnce() -> T) -> (T, Option<String>) {
    use std::sync::atomic::Ordering::SeqCst;
    let before = lolhtml::errors::LAST_ERROR.with(|e| e.borrow().as_ref().map(|s| s.as_ptr() as usize));
    let (takes, sets) = (TAKES.load(SeqCst), SETS.load(SeqCst));
    let r = f();
    let after = lolhtml::errors::LAST_ERROR.with(|e| e.borrow().as_ref().map(|s| (s.as_ptr() as usize, s.to_string())));
    let set = match (before, after) {
        (_, None) => None,
        (None, Some((_, m))) => Some(m),
        (Some(b), Some((a, m))) => (a != b || TAKES.load(SeqCst) != takes || SETS.load(SeqCst) != sets).then_some(m),
    };
    if set.is_some() {
        SETS.fetch_add(1, SeqCst);
    }
    (r, set)
}

unsafe extern "C" fn c_sink(chunk: *const c_char, len: usize, ud: *mut c_void) {
    let ctx = &*(ud as *const HCtx);
    let run = &mut *ctx.run;
    if len == 0 {
        run.c.sink_final[ctx.idx] += 1;
    } else {
        run.c.sinks[ctx.idx].extend_from_slice(std::slice::from_raw_parts(chunk as *const u8, len));
    }
}

unsafe fn c_handler(unit: Unit, ud: *mut c_void) -> RewriterDirective {
    let ctx = &*(ud as *const HCtx);
    let run = ctx.run;
    if (*run).c.fault.is_some() {
        return RewriterDirective::Continue;
    }
    let hid = ctx.hid;
    let k = (*run).c.calls[hid];
    (*run).c.calls[hid] += 1;
    (*run).c.scope += 1;
    let ops = (*run).prog[hid].ops.clone();
    for op in &ops {
        if (*run).c.fault.is_some() {
            break;
        }
        c_unit_op(run, unit, op);
    }
    if (*run).prog[hid].stop_at == Some(k) { RewriterDirective::Stop } else { RewriterDirective::Continue }
}
unsafe extern "C" fn c_h_element(u: *mut Element, ud: *mut c_void) -> RewriterDirective {
    c_handler(Unit::Element(u as *mut _), ud)
}
unsafe extern "C" fn c_h_comment(u: *mut Comment, ud: *mut c_void) -> RewriterDirective {
    c_handler(Unit::Comment(u as *mut _), ud)
}
unsafe extern "C" fn c_h_text(u: *mut TextChunk, ud: *mut c_void) -> RewriterDirective {
    c_handler(Unit::Text(u as *mut _), ud)
}
unsafe extern "C" fn c_h_doctype(u: *mut Doctype, ud: *mut c_void) -> RewriterDirective {
    c_handler(Unit::Doctype(u as *mut _), ud)
}
unsafe extern "C" fn c_h_docend(u: *mut DocumentEnd, ud: *mut c_void) -> RewriterDirective {
    c_handler(Unit::DocEnd(u as *mut _), ud)
}
unsafe extern "C" fn c_h_endtag(u: *mut EndTag, ud: *mut c_void) -> RewriterDirective {
    c_handler(Unit::EndTag(u as *mut _), ud)
}
unsafe extern "C" fn c_write_all(sink: &mut StreamingHandlerSink<'_>, ud: *mut c_void) -> c_int {
    let ctx = &*(ud as *const HCtx);
    let run = ctx.run;
    (*run).c.ran[ctx.idx] += 1;
    if (*run).c.fault.is_some() {
        return 0;
    }
    let hid = ctx.hid;
    (*run).c.calls[hid] += 1;
    (*run).c.scope += 1;
    let ops = (*run).prog[hid].ops.clone();
    let unit = Unit::Sink(sink as *mut StreamingHandlerSink<'_> as *mut _);
    for op in &ops {
        c_unit_op(run, unit, op);
    }
    (*run).prog[hid].ret
}
unsafe extern "C" fn c_drop(ud: *mut c_void) {
    let ctx = &*(ud as *const HCtx);
    (*ctx.run).c.drops[ctx.idx] += 1;
}

fn ct(is_html: bool) -> ContentType {
    if is_html { ContentType::Html } else { ContentType::Text }
}

macro_rules! p {
    ($v:expr) => {
        ($v.as_ptr() as *const c_char, $v.len())
    };
}

impl CRun {
    /// A call returned a new object into variable `var`.
    fn bind(&mut self, var: usize, val: CVal, kind: &'static str) {
        self.serial += 1;
        self.live.insert(self.serial, kind);
        self.var_ids.insert(var, self.serial);
        self.vars.insert(var, val);
    }
    /// The object held by `var` was freed.
    fn unbind(&mut self, var: usize) {
        if let Some(id) = self.var_ids.remove(&var) {
            self.live.remove(&id);
        }
        self.vars.insert(var, CVal::Null);
    }
    fn null(&mut self, var: usize) {
        self.var_ids.remove(&var);
        self.vars.insert(var, CVal::Null);
    }
    /// A `lol_html_str_t` result: `s0` = `data == NULL`, `se` = non-NULL with `len == 0`, `s1` = non-NULL,
    /// non-empty (value: `null` / `len=0` / hex of the bytes).
    fn put_str(&mut self, dst: usize, s: RawStr) {
        if std::env::var_os("VERIF_CAPI_COV").is_some() {
            // development aid: which getter produced NULL / empty / non-empty (stderr)
            let cls = if s.data.is_null() { "null" } else if s.len == 0 { "empty" } else { "nonempty" };
            eprintln!("COV {} {cls}", self.cov_label);
        }
        if s.data.is_null() {
            self.c.log.push(obs("s0", "null"));
            self.null(dst);
        } else {
            let b = raw_bytes(s);
            self.c.log.push(if b.is_empty() { obs("se", "len=0") } else { obs("s1", to_hex(&b)) });
            self.bind(dst, CVal::Str(s), "str");
        }
    }
    /// Same for a getter that lol_html.h documents without a NULL case (tag name, comment text, attribute
    /// name/value, end-tag name): a NULL `data` breaks the header contract whatever the Rust run says.
    fn put_str_never_null(&mut self, dst: usize, s: RawStr, getter: &str) {
        if s.data.is_null() {
            self.c.oracle.push(format!("C17:str-null-contract {getter} returned data == NULL; lol_html.h documents no NULL result for it (an empty string is non-NULL with len 0)"));
        }
        self.put_str(dst, s);
    }
}

unsafe fn c_fail_check(run: *mut CRun, failed: bool, set: &Option<String>, what: &str) {
    if failed && set.is_none() {
        (*run).c.oracle.push(format!("C17:no-last-error {what} returned a failure value without setting LAST_ERROR"));
    }
    if let (Some(m), true) = (set, failed) {
        (*run).c.log.last_mut().unwrap().val.push_str(&format!("!{m}"));
    }
}

unsafe fn c_unit_op(run: *mut CRun, unit: Unit, op: &COp) {
    use lolhtml::comment::*;
    use lolhtml::doctype::*;
    use lolhtml::document_end::*;
    use lolhtml::element::*;
    use lolhtml::streaming::*;
    use lolhtml::text_chunk::*;
    let r = &mut *run;
    match op {
        COp::StrGet { dst, f } => {
            let s = match (unit, *f) {
                (Unit::Element(e), 0) => lol_html_element_tag_name_get(e),
                (Unit::Element(e), 1) => lol_html_element_tag_name_get_preserve_case(e),
                (Unit::Comment(c), 30) => lol_html_comment_text_get(c),
                (Unit::EndTag(t), 60) => lol_html_end_tag_name_get(t),
                (Unit::EndTag(t), 61) => lol_html_end_tag_name_get_preserve_case(t),
                _ => panic!("bad-case strGet"),
            };
            r.cov_label = format!("f{f}");
            r.put_str_never_null(*dst, raw_of(s), &format!("string getter f={f}"));
        }
        COp::OptStrGet { dst, f, args } => {
            let (s, set) = with_err_probe(|| match (unit, *f) {
                (Unit::Element(e), 4) => {
                    let (d, l) = p!(args[0]);
                    lol_html_element_get_attribute(e, d, l)
                }
                (Unit::Doctype(d), 50) => lol_html_doctype_name_get(d),
                (Unit::Doctype(d), 51) => lol_html_doctype_public_id_get(d),
                (Unit::Doctype(d), 52) => lol_html_doctype_system_id_get(d),
                _ => panic!("bad-case optStrGet"),
            });
            r.cov_label = format!("f{f}");
            r.put_str(*dst, raw_of(s));
            if let Some(m) = set {
                r.c.log.last_mut().unwrap().val.push_str(&format!("!{m}"));
            }
        }
        COp::IntGet { f, args } => {
            let (n, set) = with_err_probe(|| match (unit, *f) {
                (Unit::Element(e), 5) => {
                    let (d, l) = p!(args[0]);
                    lol_html_element_has_attribute(e, d, l)
                }
                _ => panic!("bad-case intGet"),
            });
            r.c.log.push(code(n));
            c_fail_check(run, n == -1, &set, "has_attribute");
        }
        COp::Fallible { f, args } => {
            let (n, set) = with_err_probe(|| match (unit, *f) {
                (Unit::Element(e), 2) => {
                    let (d, l) = p!(args[0]);
                    lol_html_element_tag_name_set(e, d, l)
                }
                (Unit::Element(e), 6) => {
                    let (d, l) = p!(args[0]);
                    let (d2, l2) = p!(args[1]);
                    lol_html_element_set_attribute(e, d, l, d2, l2)
                }
                (Unit::Comment(c), 31) => {
                    let (d, l) = p!(args[0]);
                    lol_html_comment_text_set(c, d, l)
                }
                _ => panic!("bad-case fallible"),
            });
            if *f == 6 && n == 0 {
                r.c.epoch += 1;
            }
            r.c.log.push(code(n));
            c_fail_check(run, n != 0, &set, "fallible setter");
        }
        COp::Infallible { f, args, is_html } => {
            let h = *is_html;
            let (d, l) = p!(args[0]);
            let (n, set) = with_err_probe(|| match (unit, *f) {
                (Unit::Element(e), 7) => lol_html_element_remove_attribute(e, d, l),
                (Unit::Element(e), 8) => lol_html_element_prepend(e, d, l, h),
                (Unit::Element(e), 9) => lol_html_element_append(e, d, l, h),
                (Unit::Element(e), 10) => lol_html_element_before(e, d, l, h),
                (Unit::Element(e), 11) => lol_html_element_after(e, d, l, h),
                (Unit::Element(e), 12) => lol_html_element_set_inner_content(e, d, l, h),
                (Unit::Element(e), 13) => lol_html_element_replace(e, d, l, h),
                (Unit::Comment(c), 10) => lol_html_comment_before(c, d, l, h),
                (Unit::Comment(c), 11) => lol_html_comment_after(c, d, l, h),
                (Unit::Comment(c), 13) => lol_html_comment_replace(c, d, l, h),
                (Unit::Text(c), 10) => lol_html_text_chunk_before(c, d, l, h),
                (Unit::Text(c), 11) => lol_html_text_chunk_after(c, d, l, h),
                (Unit::Text(c), 13) => lol_html_text_chunk_replace(c, d, l, h),
                (Unit::EndTag(c), 10) => lol_html_end_tag_before(c, d, l, h),
                (Unit::EndTag(c), 11) => lol_html_end_tag_after(c, d, l, h),
                (Unit::EndTag(c), 13) => lol_html_end_tag_replace(c, d, l, h),
                (Unit::EndTag(c), 62) => lol_html_end_tag_name_set(c, d, l),
                (Unit::DocEnd(c), 9) => lol_html_doc_end_append(c, d, l, h),
                (Unit::Sink(s), 70) => lol_html_streaming_sink_write_str(s, d, l, h),
                _ => panic!("bad-case infallible"),
            });
            if *f == 7 && n == 0 {
                r.c.epoch += 1;
            }
            r.c.log.push(code(n));
            c_fail_check(run, n != 0, &set, "content function");
        }
        COp::Void { f } => {
            match (unit, *f) {
                (Unit::Element(e), 14) => lol_html_element_remove(e),
                (Unit::Element(e), 15) => lol_html_element_remove_and_keep_content(e),
                (Unit::Element(e), 20) => lol_html_element_user_data_set(e, USER_DATA as *mut c_void),
                (Unit::Comment(c), 14) => lol_html_comment_remove(c),
                (Unit::Comment(c), 20) => lol_html_comment_user_data_set(c, USER_DATA as *mut c_void),
                (Unit::Text(c), 14) => lol_html_text_chunk_remove(c),
                (Unit::Text(c), 20) => lol_html_text_chunk_user_data_set(c, USER_DATA as *mut c_void),
                (Unit::Doctype(c), 14) => lol_html_doctype_remove(c),
                (Unit::Doctype(c), 20) => lol_html_doctype_user_data_set(c, USER_DATA as *mut c_void),
                (Unit::EndTag(c), 14) => lol_html_end_tag_remove(c),
                _ => panic!("bad-case void"),
            }
            r.c.log.push(obs("v", ""));
        }
        COp::BoolGet { f } => {
            let b = match (unit, *f) {
                (Unit::Element(e), 16) => lol_html_element_is_removed(e),
                (Unit::Element(e), 17) => lol_html_element_is_self_closing(e),
                (Unit::Element(e), 18) => lol_html_element_can_have_content(e),
                (Unit::Comment(c), 16) => lol_html_comment_is_removed(c),
                (Unit::Text(c), 16) => lol_html_text_chunk_is_removed(c),
                (Unit::Text(c), 41) => lol_html_text_chunk_is_last_in_text_node(c),
                (Unit::Doctype(c), 16) => lol_html_doctype_is_removed(c),
                _ => panic!("bad-case boolGet"),
            };
            r.c.log.push(obs(if b { "b1" } else { "b0" }, ""));
        }
        COp::RawGet { f } => {
            let loc = |l: lolhtml::SourceLocationBytes| format!("{}-{}", l.start, l.end);
            let v = match (unit, *f) {
                (Unit::Element(e), 3) => std::ffi::CStr::from_ptr(lol_html_element_namespace_uri_get(e)).to_string_lossy().into_owned(),
                (Unit::Element(e), 19) => loc(lol_html_element_source_location_bytes(e)),
                (Unit::Element(e), 21) => format!("{:x}", lol_html_element_user_data_get(e) as usize),
                (Unit::Comment(c), 19) => loc(lol_html_comment_source_location_bytes(c)),
                (Unit::Comment(c), 21) => format!("{:x}", lol_html_comment_user_data_get(c) as usize),
                (Unit::Text(c), 40) => {
                    let t = lol_html_text_chunk_content_get(c);
                    let t: RawStr = std::mem::transmute(t);
                    to_hex(std::slice::from_raw_parts(t.data as *const u8, t.len))
                }
                (Unit::Text(c), 19) => loc(lol_html_text_chunk_source_location_bytes(c)),
                (Unit::Text(c), 21) => format!("{:x}", lol_html_text_chunk_user_data_get(c) as usize),
                (Unit::Doctype(c), 19) => loc(lol_html_doctype_source_location_bytes(c)),
                (Unit::Doctype(c), 21) => format!("{:x}", lol_html_doctype_user_data_get(c) as usize),
                (Unit::EndTag(c), 19) => loc(lol_html_end_tag_source_location_bytes(c)),
                _ => panic!("bad-case rawGet"),
            };
            r.c.log.push(obs("r", v));
        }
        COp::BytesFallible { f, b, is_html } => {
            let (d, l) = p!(b);
            let (n, set) = with_err_probe(|| match (unit, *f) {
                (Unit::Sink(s), 71) => lol_html_streaming_sink_write_utf8_chunk(s, d, l, *is_html),
                _ => panic!("bad-case bytesFallible"),
            });
            r.c.log.push(code(n));
            c_fail_check(run, n != 0, &set, "write_utf8_chunk");
        }
        COp::AddEndTagHandler { hid } => {
            let Unit::Element(e) = unit else { panic!("bad-case eh") };
            let ud = mk_ctx(run, *hid, 0);
            let (n, set) = with_err_probe(|| lol_html_element_add_end_tag_handler(e, c_h_endtag, ud));
            r.c.log.push(code(n));
            c_fail_check(run, n != 0, &set, "add_end_tag_handler");
        }
        COp::ClearEndTagHandlers => {
            let Unit::Element(e) = unit else { panic!("bad-case ce") };
            lol_html_element_clear_end_tag_handlers(e);
            r.c.log.push(obs("v", ""));
        }
        COp::Streaming { f, h } => {
            let mut st: std::mem::ManuallyDrop<CStreamingHandler>;
            let hp: *mut CStreamingHandler = match h {
                SArg::Null => std::ptr::null_mut(),
                SArg::Mk { reserved_null, has_write_all, has_drop, script } => {
                    let copied = *reserved_null;
                    let idx = if copied {
                        r.c.drops.push(0);
                        r.c.ran.push(0);
                        r.c.drops.len() - 1
                    } else {
                        usize::MAX
                    };
                    let ud = if copied { mk_ctx(run, *script, idx) } else { std::ptr::null_mut() };
                    // ManuallyDrop: the callee copies the struct bitwise; our copy must not run `Drop`
                    st = std::mem::ManuallyDrop::new(CStreamingHandler {
                        user_data: ud,
                        write_all_callback: if *has_write_all { Some(c_write_all) } else { None },
                        drop_callback: if *has_drop { Some(c_drop) } else { None },
                        reserved: if *reserved_null { std::ptr::null_mut() } else { 1usize as *mut c_void },
                    });
                    &mut *st
                }
            };
            let (n, set) = with_err_probe(|| match (unit, *f) {
                (Unit::Element(e), 8) => lol_html_element_streaming_prepend(e, hp),
                (Unit::Element(e), 9) => lol_html_element_streaming_append(e, hp),
                (Unit::Element(e), 10) => lol_html_element_streaming_before(e, hp),
                (Unit::Element(e), 11) => lol_html_element_streaming_after(e, hp),
                (Unit::Element(e), 12) => lol_html_element_streaming_set_inner_content(e, hp),
                (Unit::Element(e), 13) => lol_html_element_streaming_replace(e, hp),
                (Unit::Comment(c), 10) => lol_html_comment_streaming_before(c, hp),
                (Unit::Comment(c), 11) => lol_html_comment_streaming_after(c, hp),
                (Unit::Comment(c), 13) => lol_html_comment_streaming_replace(c, hp),
                (Unit::Text(c), 10) => lol_html_text_chunk_streaming_before(c, hp),
                (Unit::Text(c), 11) => lol_html_text_chunk_streaming_after(c, hp),
                (Unit::Text(c), 13) => lol_html_text_chunk_streaming_replace(c, hp),
                (Unit::EndTag(c), 10) => lol_html_end_tag_streaming_before(c, hp),
                (Unit::EndTag(c), 11) => lol_html_end_tag_streaming_after(c, hp),
                (Unit::EndTag(c), 13) => lol_html_end_tag_streaming_replace(c, hp),
                _ => panic!("bad-case streaming"),
            });
            r.c.log.push(code(n));
            c_fail_check(run, n != 0, &set, "streaming registration");
        }
        COp::IterGet { dst } => {
            let Unit::Element(e) = unit else { panic!("bad-case it") };
            let p = lol_html_attributes_iterator_get(e);
            r.c.log.push(obs(if p.is_null() { "p0" } else { "p1" }, ""));
            let epoch = r.c.epoch;
            let len0 = (&*e).attributes().len();
            r.bind(*dst, CVal::Iter { p: p as *mut _, last: std::ptr::null(), epoch, len0, pos: 0 }, "iter");
        }
        COp::IterNext { it } => {
            let Unit::Element(e) = unit else { panic!("bad-case nx") };
            let Some(CVal::Iter { p, epoch, len0, pos, .. }) = r.vars.get(it) else { panic!("bad-case nx var") };
            let (p, epoch, len0, pos) = (*p, *epoch, *len0, *pos);
            if epoch != r.c.epoch {
                // the model says: use after free. Confirm on the real objects without dereferencing:
                // the vector was collected with capacity == len, so a changed length means it was
                // reallocated (push) or had an element dropped and the tail shifted (retain).
                let it_words: [usize; 2] = std::ptr::read(p as *const [usize; 2]);
                let cur = (&*e).attributes();
                let (cs, ce) = (cur.as_ptr_range().start as usize, cur.as_ptr_range().end as usize);
                let stale_range = !(it_words[0] >= cs && it_words[0] <= ce && it_words[1] == ce);
                r.c.fault = Some("FAULT use-after-free".into());
                if cur.len() != len0 && stale_range {
                    r.c.oracle.push(format!(
                        "C17:iter-invalidated attribute iterator created over {len0} attribute(s), advanced {pos} time(s), used after set/remove_attribute left {} attribute(s): its range no longer matches the attribute vector; lol_html.h permits the call",
                        cur.len()
                    ));
                }
                return;
            }
            let a = lol_html_attributes_iterator_next(p as *mut _);
            r.c.log.push(obs(if a.is_null() { "p0" } else { "p1" }, ""));
            if let Some(CVal::Iter { last, pos, .. }) = r.vars.get_mut(it) {
                if !a.is_null() {
                    *last = a as *const _;
                    *pos += 1;
                }
            }
        }
        COp::IterFree { it } => {
            let Some(CVal::Iter { p, .. }) = r.vars.get(it) else { panic!("bad-case if var") };
            let p = *p;
            lol_html_attributes_iterator_free(p as *mut _);
            r.unbind(*it);
            r.c.log.push(obs("v", ""));
        }
        COp::AttrStrGet { dst, it, f } => {
            let Some(CVal::Iter { last, epoch, len0, .. }) = r.vars.get(it) else { panic!("bad-case ag var") };
            let (a, epoch, len0) = (*last, *epoch, *len0);
            if a.is_null() {
                r.c.fault = Some("NOTPERMITTED attribute pointer is NULL".into());
                return;
            }
            if epoch != r.c.epoch {
                r.c.fault = Some("FAULT use-after-free".into());
                if let Unit::Element(e) = unit {
                    let now = (&*e).attributes().len();
                    if now != len0 {
                        r.c.oracle.push(format!("C17:iter-invalidated attribute pointer obtained from an iterator over {len0} attribute(s) used after set/remove_attribute left {now}; lol_html.h permits the call"));
                    }
                }
                return;
            }
            let s = match *f {
                22 => lol_html_attribute_name_get(a),
                23 => lol_html_attribute_name_get_preserve_case(a),
                24 => lol_html_attribute_value_get(a),
                _ => panic!("bad-case ag"),
            };
            r.cov_label = format!("f{f}");
            r.put_str_never_null(*dst, raw_of(s), &format!("attribute getter f={f}"));
        }
        COp::StrFree { v } => c_str_free(r, *v),
        COp::TakeLastError { dst } => c_take_last_error(r, *dst),
    }
}

unsafe fn c_str_free(r: &mut CRun, v: usize) {
    match r.vars.get(&v) {
        Some(CVal::Str(s)) => {
            lolhtml::string::lol_html_str_free(str_of(*s));
            r.unbind(v);
        }
        _ => lolhtml::string::lol_html_str_free(str_of(RawStr { data: std::ptr::null(), len: 0 })),
    }
    r.c.log.push(obs("v", ""));
}

unsafe fn c_take_last_error(r: &mut CRun, dst: usize) {
    let s = raw_of(lolhtml::errors::lol_html_take_last_error());
    TAKES.fetch_add(1, std::sync::atomic::Ordering::SeqCst);
    r.cov_label = "take_last_error".into();
    r.put_str(dst, s);
}

unsafe fn c_top(run: *mut CRun, tid: usize, op: &TopOp) {
    use lolhtml::rewriter::*;
    use lolhtml::rewriter_builder::*;
    use lolhtml::selector::*;
    let r = &mut *run;
    r.c.tid = tid;
    if r.c.fault.is_some() {
        return;
    }
    match op {
        TopOp::BuilderNew { dst } => {
            let b = lol_html_rewriter_builder_new();
            r.c.log.push(obs(if b.is_null() { "p0" } else { "p1" }, ""));
            r.bind(*dst, CVal::Builder(b), "builder");
        }
        TopOp::SelectorParse { dst, s } => {
            let (d, l) = p!(s);
            let (sel, set) = with_err_probe(|| lol_html_selector_parse(d, l));
            if sel.is_null() {
                r.c.log.push(obs("p0", ""));
                r.null(*dst);
            } else {
                r.c.log.push(obs("p1", ""));
                r.bind(*dst, CVal::Selector(sel), "selector");
            }
            c_fail_check(run, sel.is_null(), &set, "selector_parse");
        }
        TopOp::AddDoc { b, hs } => {
            let Some(CVal::Builder(bp)) = r.vars.get(b) else { panic!("bad-case AD") };
            let bp = *bp;
            let ud: Vec<*mut c_void> = hs.iter().map(|h| h.map_or(std::ptr::null_mut(), |h| mk_ctx(run, h, 0))).collect();
            lol_html_rewriter_builder_add_document_content_handlers(
                bp,
                hs[0].map(|_| c_h_doctype as _),
                ud[0],
                hs[1].map(|_| c_h_comment as _),
                ud[1],
                hs[2].map(|_| c_h_text as _),
                ud[2],
                hs[3].map(|_| c_h_docend as _),
                ud[3],
            );
            r.c.log.push(obs("v", ""));
        }
        TopOp::AddElem { b, sel, hs } => {
            let Some(CVal::Builder(bp)) = r.vars.get(b) else { panic!("bad-case AE") };
            let Some(CVal::Selector(sp)) = r.vars.get(sel) else { panic!("bad-case AE sel") };
            let (bp, sp) = (*bp, *sp);
            let ud: Vec<*mut c_void> = hs.iter().map(|h| h.map_or(std::ptr::null_mut(), |h| mk_ctx(run, h, 0))).collect();
            let n = lol_html_rewriter_builder_add_element_content_handlers(
                bp,
                sp,
                hs[0].map(|_| c_h_element as _),
                ud[0],
                hs[1].map(|_| c_h_comment as _),
                ud[1],
                hs[2].map(|_| c_h_text as _),
                ud[2],
            );
            r.c.log.push(code(n));
        }
        TopOp::Build { dst, b, enc, prealloc, max, graceful, strict, esi } => {
            let Some(CVal::Builder(bp)) = r.vars.get(b) else { panic!("bad-case BU") };
            let bp = *bp;
            let mem = MemorySettings::new()
                .with_preallocated_parsing_buffer_size(*prealloc)
                .with_max_allowed_memory_usage(*max)
                .with_graceful_bail_out_on_memory_limit_exceeded(*graceful);
            r.c.sinks.push(vec![]);
            r.c.sink_final.push(0);
            let ud = mk_ctx(run, 0, r.c.sinks.len() - 1);
            let (d, l) = p!(enc);
            let (rw, set) = with_err_probe(|| {
                if *esi {
                    unstable_lol_html_rewriter_build_with_esi_tags(bp, d, l, mem, c_sink, ud, *strict)
                } else {
                    lol_html_rewriter_build(bp, d, l, mem, c_sink, ud, *strict)
                }
            });
            if rw.is_null() {
                r.c.log.push(obs("p0", ""));
                r.null(*dst);
            } else {
                r.c.log.push(obs("p1", ""));
                r.bind(*dst, CVal::Rewriter(rw), "rewriter");
            }
            c_fail_check(run, rw.is_null(), &set, "rewriter_build");
        }
        TopOp::Write { r: rv, chunk } => {
            let Some(CVal::Rewriter(rp)) = r.vars.get(rv) else { panic!("bad-case WR") };
            let rp = *rp;
            if r.c.poisoned.contains(rv) {
                r.c.fault = Some("NOTPERMITTED rewriter used after a failed write".into());
                return;
            }
            let (d, l) = p!(chunk);
            let (n, set) = with_err_probe(|| lol_html_rewriter_write(rp, d, l));
            let r = &mut *run;
            if r.c.fault.is_some() {
                return;
            }
            r.c.log.push(code(n));
            if n != 0 {
                r.c.poisoned.push(*rv);
            }
            c_fail_check(run, n != 0, &set, "rewriter_write");
        }
        TopOp::End { r: rv } => {
            let Some(CVal::Rewriter(rp)) = r.vars.get(rv) else { panic!("bad-case EN") };
            let rp = *rp;
            if r.c.poisoned.contains(rv) {
                r.c.fault = Some("NOTPERMITTED rewriter used after a failed write".into());
                return;
            }
            let (n, set) = with_err_probe(|| lol_html_rewriter_end(rp));
            let r = &mut *run;
            if r.c.fault.is_some() {
                return;
            }
            r.c.log.push(code(n));
            c_fail_check(run, n != 0, &set, "rewriter_end");
        }
        TopOp::RewriterFree { r: rv } => {
            let Some(CVal::Rewriter(rp)) = r.vars.get(rv) else { panic!("bad-case RF") };
            lol_html_rewriter_free(*rp);
            let r = &mut *run;
            r.unbind(*rv);
            r.c.log.push(obs("v", ""));
        }
        TopOp::BuilderFree { b } => {
            let Some(CVal::Builder(bp)) = r.vars.get(b) else { panic!("bad-case BF") };
            lol_html_rewriter_builder_free(*bp);
            r.unbind(*b);
            r.c.log.push(obs("v", ""));
        }
        TopOp::SelectorFree { s } => {
            let Some(CVal::Selector(sp)) = r.vars.get(s) else { panic!("bad-case XF") };
            lol_html_selector_free(*sp);
            r.unbind(*s);
            r.c.log.push(obs("v", ""));
        }
        TopOp::StrFree { v } => c_str_free(r, *v),
        TopOp::TakeLastError { dst } => c_take_last_error(r, *dst),
    }
}

// --------------------------------------------------------------------------------------- Rust run

#[derive(Clone)]
enum RReg {
    Doc([Option<usize>; 4]),
    Elem(Selector, [Option<usize>; 3]),
}

type RustRewriter = HtmlRewriter<'static, Box<dyn FnMut(&[u8])>>;

enum RVal {
    Null,
    Builder(Vec<RReg>),
    Selector(Selector),
    Rewriter(Option<Box<RustRewriter>>), // boxed: `vars` may rehash while `write` runs
    Str,
    Iter { pos: usize, len: usize, epoch: usize },
}

struct RRun {
    prog: Vec<HDef>,
    c: Common,
    vars: HashMap<usize, RVal>,
    live: HashMap<usize, &'static str>,
    var_ids: HashMap<usize, usize>,
    serial: usize,
    last_err: [Option<String>; 3],
}

impl RRun {
    fn bind(&mut self, var: usize, val: RVal, kind: &'static str) {
        self.serial += 1;
        self.live.insert(self.serial, kind);
        self.var_ids.insert(var, self.serial);
        self.vars.insert(var, val);
    }
    fn unbind(&mut self, var: usize) {
        if let Some(id) = self.var_ids.remove(&var) {
            self.live.remove(&id);
        }
        self.vars.insert(var, RVal::Null);
    }
    fn null(&mut self, var: usize) {
        self.var_ids.remove(&var);
        self.vars.insert(var, RVal::Null);
    }
    /// Documented encoding of `Option<String>` as `lol_html_str_t`.
    fn put_str(&mut self, dst: usize, s: Option<String>) {
        match s {
            None => {
                self.c.log.push(obs("s0", "null"));
                self.null(dst);
            }
            Some(s) => {
                // documented: only an absent value is NULL; `Some("")` is a non-NULL string of length 0
                self.c.log.push(if s.is_empty() { obs("se", "len=0") } else { obs("s1", to_hex(s.as_bytes())) });
                self.bind(dst, RVal::Str, "str");
            }
        }
    }
    /// Documented failure: the value `tok`, and the message becomes this thread's last error.
    fn fail(&mut self, tok: &str, msg: String) {
        self.c.log.push(obs(tok, format!("{}!{msg}", if tok == "s0" { "null" } else { "" })));
        self.last_err[self.c.tid] = Some(msg);
    }
}

/// `to_str!` of every argument in order.
fn decode<'a>(args: &'a [Vec<u8>]) -> Result<Vec<&'a str>, String> {
    args.iter().map(|a| std::str::from_utf8(a).map_err(|e| e.to_string())).collect()
}

struct RStreamer {
    run: *mut RRun,
    script: usize,
    idx: usize,
    has_drop: bool,
}
unsafe impl Send for RStreamer {}
impl StreamingHandler for RStreamer {
    fn write_all(self: Box<Self>, sink: &mut StreamingHandlerSink<'_>) -> Result<(), Box<dyn std::error::Error + Send + Sync>> {
        unsafe {
            let run = self.run;
            (*run).c.ran[self.idx] += 1;
            (*run).c.calls[self.script] += 1;
            (*run).c.scope += 1;
            let ops = (*run).prog[self.script].ops.clone();
            let unit = Unit::Sink(sink as *mut StreamingHandlerSink<'_> as *mut _);
            for op in &ops {
                r_unit_op(run, unit, op);
            }
            let ret = (*run).prog[self.script].ret;
            if ret == 0 { Ok(()) } else { Err(format!("write_all_callback reported error: {ret}").into()) }
        }
    }
}
impl Drop for RStreamer {
    fn drop(&mut self) {
        if self.has_drop {
            unsafe { (*self.run).c.drops[self.idx] += 1 };
        }
    }
}

unsafe fn r_handler(run: *mut RRun, hid: usize, unit: Unit) -> Result<(), Box<dyn std::error::Error + Send + Sync>> {
    if (*run).c.fault.is_some() {
        return Ok(());
    }
    let k = (*run).c.calls[hid];
    (*run).c.calls[hid] += 1;
    (*run).c.scope += 1;
    let ops = (*run).prog[hid].ops.clone();
    for op in &ops {
        if (*run).c.fault.is_some() {
            break;
        }
        r_unit_op(run, unit, op);
    }
    if (*run).prog[hid].stop_at == Some(k) { Err(STOPPED.into()) } else { Ok(()) }
}

unsafe fn r_unit_op(run: *mut RRun, unit: Unit, op: &COp) {
    let r = &mut *run;
    match op {
        COp::StrGet { dst, f } => {
            let s = match (unit, *f) {
                (Unit::Element(e), 0) => (*e).tag_name(),
                (Unit::Element(e), 1) => (*e).tag_name_preserve_case(),
                (Unit::Comment(c), 30) => (*c).text(),
                (Unit::EndTag(t), 60) => (*t).name(),
                (Unit::EndTag(t), 61) => (*t).name_preserve_case(),
                _ => panic!("bad-case strGet"),
            };
            r.put_str(*dst, Some(s));
        }
        COp::OptStrGet { dst, f, args } => match decode(args) {
            Err(m) => {
                r.fail("s0", m);
                r.null(*dst);
            }
            Ok(a) => {
                let s = match (unit, *f) {
                    (Unit::Element(e), 4) => (*e).get_attribute(a[0]),
                    (Unit::Doctype(d), 50) => (*d).name(),
                    (Unit::Doctype(d), 51) => (*d).public_id(),
                    (Unit::Doctype(d), 52) => (*d).system_id(),
                    _ => panic!("bad-case optStrGet"),
                };
                r.put_str(*dst, s);
            }
        },
        COp::IntGet { f, args } => match decode(args) {
            Err(m) => r.fail("-1", m),
            Ok(a) => {
                let b = match (unit, *f) {
                    (Unit::Element(e), 5) => (*e).has_attribute(a[0]),
                    _ => panic!("bad-case intGet"),
                };
                r.c.log.push(code(b as i32));
            }
        },
        COp::Fallible { f, args } => match decode(args) {
            Err(m) => r.fail("-1", m),
            Ok(a) => {
                let res: Result<(), String> = match (unit, *f) {
                    (Unit::Element(e), 2) => (*e).set_tag_name(a[0]).map_err(|e| e.to_string()),
                    (Unit::Element(e), 6) => (*e).set_attribute(a[0], a[1]).map_err(|e| e.to_string()),
                    (Unit::Comment(c), 31) => (*c).set_text(a[0]).map_err(|e| e.to_string()),
                    _ => panic!("bad-case fallible"),
                };
                match res {
                    Ok(()) => {
                        if *f == 6 {
                            r.c.epoch += 1;
                        }
                        r.c.log.push(code(0))
                    }
                    Err(m) => r.fail("-1", m),
                }
            }
        },
        COp::Infallible { f, args, is_html } => match decode(args) {
            Err(m) => r.fail("-1", m),
            Ok(a) => {
                let (s, t) = (a[0], ct(*is_html));
                match (unit, *f) {
                    (Unit::Element(e), 7) => {
                        (*e).remove_attribute(s);
                        r.c.epoch += 1;
                    }
                    (Unit::Element(e), 8) => (*e).prepend(s, t),
                    (Unit::Element(e), 9) => (*e).append(s, t),
                    (Unit::Element(e), 10) => (*e).before(s, t),
                    (Unit::Element(e), 11) => (*e).after(s, t),
                    (Unit::Element(e), 12) => (*e).set_inner_content(s, t),
                    (Unit::Element(e), 13) => (*e).replace(s, t),
                    (Unit::Comment(c), 10) => (*c).before(s, t),
                    (Unit::Comment(c), 11) => (*c).after(s, t),
                    (Unit::Comment(c), 13) => (*c).replace(s, t),
                    (Unit::Text(c), 10) => (*c).before(s, t),
                    (Unit::Text(c), 11) => (*c).after(s, t),
                    (Unit::Text(c), 13) => (*c).replace(s, t),
                    (Unit::EndTag(c), 10) => (*c).before(s, t),
                    (Unit::EndTag(c), 11) => (*c).after(s, t),
                    (Unit::EndTag(c), 13) => (*c).replace(s, t),
                    (Unit::EndTag(c), 62) => (*c).set_name_str(s.to_string()),
                    (Unit::DocEnd(c), 9) => (*c).append(s, t),
                    (Unit::Sink(k), 70) => (*k).write_str(s, t),
                    _ => panic!("bad-case infallible"),
                }
                r.c.log.push(code(0));
            }
        },
        COp::Void { f } => {
            let ud = USER_DATA as *mut c_void;
            match (unit, *f) {
                (Unit::Element(e), 14) => (*e).remove(),
                (Unit::Element(e), 15) => (*e).remove_and_keep_content(),
                (Unit::Element(e), 20) => (*e).set_user_data(ud),
                (Unit::Comment(c), 14) => (*c).remove(),
                (Unit::Comment(c), 20) => (*c).set_user_data(ud),
                (Unit::Text(c), 14) => (*c).remove(),
                (Unit::Text(c), 20) => (*c).set_user_data(ud),
                (Unit::Doctype(c), 14) => (*c).remove(),
                (Unit::Doctype(c), 20) => (*c).set_user_data(ud),
                (Unit::EndTag(c), 14) => (*c).remove(),
                _ => panic!("bad-case void"),
            }
            r.c.log.push(obs("v", ""));
        }
        COp::BoolGet { f } => {
            let b = match (unit, *f) {
                (Unit::Element(e), 16) => (*e).removed(),
                (Unit::Element(e), 17) => (*e).is_self_closing(),
                (Unit::Element(e), 18) => (*e).can_have_content(),
                (Unit::Comment(c), 16) => (*c).removed(),
                (Unit::Text(c), 16) => (*c).removed(),
                (Unit::Text(c), 41) => (*c).last_in_text_node(),
                (Unit::Doctype(c), 16) => (*c).removed(),
                _ => panic!("bad-case boolGet"),
            };
            r.c.log.push(obs(if b { "b1" } else { "b0" }, ""));
        }
        COp::RawGet { f } => {
            let loc = |l: lol_html::html_content::SourceLocation| format!("{}-{}", l.bytes().start, l.bytes().end);
            let udv = |d: &dyn std::any::Any| format!("{:x}", d.downcast_ref::<*mut c_void>().map_or(0, |p| *p as usize));
            let v = match (unit, *f) {
                (Unit::Element(e), 3) => (*e).namespace_uri().to_string(),
                (Unit::Element(e), 19) => loc((*e).source_location()),
                (Unit::Element(e), 21) => udv((*e).user_data()),
                (Unit::Comment(c), 19) => loc((*c).source_location()),
                (Unit::Comment(c), 21) => udv((*c).user_data()),
                (Unit::Text(c), 40) => to_hex((*c).as_str().as_bytes()),
                (Unit::Text(c), 19) => loc((*c).source_location()),
                (Unit::Text(c), 21) => udv((*c).user_data()),
                (Unit::Doctype(c), 19) => loc((*c).source_location()),
                (Unit::Doctype(c), 21) => udv((*c).user_data()),
                (Unit::EndTag(c), 19) => loc((*c).source_location()),
                _ => panic!("bad-case rawGet"),
            };
            r.c.log.push(obs("r", v));
        }
        COp::BytesFallible { f, b, is_html } => {
            let res = match (unit, *f) {
                (Unit::Sink(k), 71) => (*k).write_utf8_chunk(b, ct(*is_html)).map_err(|e| e.to_string()),
                _ => panic!("bad-case bytesFallible"),
            };
            match res {
                Ok(()) => r.c.log.push(code(0)),
                Err(m) => r.fail("-1", m),
            }
        }
        COp::AddEndTagHandler { hid } => {
            let Unit::Element(e) = unit else { panic!("bad-case eh") };
            let hid = *hid;
            let run2 = run as usize;
            match (*e).end_tag_handlers() {
                Some(h) => {
                    h.push(Box::new(move |end: &mut EndTag<'_>| unsafe {
                        r_handler(run2 as *mut RRun, hid, Unit::EndTag(end as *mut EndTag<'_> as *mut _))
                    }));
                    r.c.log.push(code(0));
                }
                None => r.fail("-1", "No end tag.".into()),
            }
        }
        COp::ClearEndTagHandlers => {
            let Unit::Element(e) = unit else { panic!("bad-case ce") };
            if let Some(h) = (*e).end_tag_handlers() {
                h.clear();
            }
            r.c.log.push(obs("v", ""));
        }
        COp::Streaming { f, h } => match h {
            // documented: "If `streaming_writer` is `NULL`, an error will be reported"
            // (`CStreamingHandlerError::Uninitialized`, /repo 9f8617f)
            SArg::Null => r.fail("-1", UNINIT.into()),
            SArg::Mk { reserved_null: false, .. } => r.fail("-1", UNINIT.into()),
            SArg::Mk { has_write_all, has_drop, script, .. } => {
                r.c.drops.push(0);
                r.c.ran.push(0);
                let idx = r.c.drops.len() - 1;
                let st = Box::new(RStreamer { run, script: *script, idx, has_drop: *has_drop });
                if !*has_write_all {
                    drop(st);
                    (&mut *run).fail("-1", UNINIT.into());
                    return;
                }
                match (unit, *f) {
                    (Unit::Element(e), 8) => (*e).streaming_prepend(st),
                    (Unit::Element(e), 9) => (*e).streaming_append(st),
                    (Unit::Element(e), 10) => (*e).streaming_before(st),
                    (Unit::Element(e), 11) => (*e).streaming_after(st),
                    (Unit::Element(e), 12) => (*e).streaming_set_inner_content(st),
                    (Unit::Element(e), 13) => (*e).streaming_replace(st),
                    (Unit::Comment(c), 10) => (*c).streaming_before(st),
                    (Unit::Comment(c), 11) => (*c).streaming_after(st),
                    (Unit::Comment(c), 13) => (*c).streaming_replace(st),
                    (Unit::Text(c), 10) => (*c).streaming_before(st),
                    (Unit::Text(c), 11) => (*c).streaming_after(st),
                    (Unit::Text(c), 13) => (*c).streaming_replace(st),
                    (Unit::EndTag(c), 10) => (*c).streaming_before(st),
                    (Unit::EndTag(c), 11) => (*c).streaming_after(st),
                    (Unit::EndTag(c), 13) => (*c).streaming_replace(st),
                    _ => panic!("bad-case streaming"),
                }
                (&mut *run).c.log.push(code(0));
            }
        },
        COp::IterGet { dst } => {
            let Unit::Element(e) = unit else { panic!("bad-case it") };
            let len = (*e).attributes().len();
            r.c.log.push(obs("p1", ""));
            let epoch = r.c.epoch;
            r.bind(*dst, RVal::Iter { pos: 0, len, epoch }, "iter");
        }
        COp::IterNext { it } => {
            let Some(RVal::Iter { pos, len, epoch }) = r.vars.get_mut(it) else { panic!("bad-case nx var") };
            if *epoch != r.c.epoch {
                r.c.fault = Some("FAULT use-after-free".into());
                return;
            }
            if *pos < *len {
                *pos += 1;
                r.c.log.push(obs("p1", ""));
            } else {
                r.c.log.push(obs("p0", ""));
            }
        }
        COp::IterFree { it } => {
            r.unbind(*it);
            r.c.log.push(obs("v", ""));
        }
        COp::AttrStrGet { dst, it, f } => {
            let Unit::Element(e) = unit else { panic!("bad-case ag") };
            let Some(RVal::Iter { pos, epoch, .. }) = r.vars.get(it) else { panic!("bad-case ag var") };
            if *pos == 0 {
                r.c.fault = Some("NOTPERMITTED attribute pointer is NULL".into());
                return;
            }
            if *epoch != r.c.epoch {
                r.c.fault = Some("FAULT use-after-free".into());
                return;
            }
            let a = &(*e).attributes()[*pos - 1];
            let s = match *f {
                22 => a.name(),
                23 => a.name_preserve_case(),
                24 => a.value(),
                _ => panic!("bad-case ag"),
            };
            r.put_str(*dst, Some(s));
        }
        COp::StrFree { v } => {
            r.unbind(*v);
            r.c.log.push(obs("v", ""));
        }
        COp::TakeLastError { dst } => {
            let m = r.last_err[r.c.tid].take();
            r.put_str(*dst, m);
        }
    }
}

unsafe fn r_top(run: *mut RRun, tid: usize, op: &TopOp) {
    let r = &mut *run;
    r.c.tid = tid;
    if r.c.fault.is_some() {
        return;
    }
    let runu = run as usize;
    match op {
        TopOp::BuilderNew { dst } => {
            r.c.log.push(obs("p1", ""));
            r.bind(*dst, RVal::Builder(vec![]), "builder");
        }
        TopOp::SelectorParse { dst, s } => {
            let res = std::str::from_utf8(s).map_err(|e| e.to_string()).and_then(|s| s.parse::<Selector>().map_err(|e| e.to_string()));
            match res {
                Ok(sel) => {
                    r.c.log.push(obs("p1", ""));
                    r.bind(*dst, RVal::Selector(sel), "selector");
                }
                Err(m) => {
                    r.fail("p0", m);
                    r.null(*dst);
                }
            }
        }
        TopOp::AddDoc { b, hs } => {
            let Some(RVal::Builder(regs)) = r.vars.get_mut(b) else { panic!("bad-case AD") };
            regs.push(RReg::Doc(*hs));
            r.c.log.push(obs("v", ""));
        }
        TopOp::AddElem { b, sel, hs } => {
            let Some(RVal::Selector(s)) = r.vars.get(sel) else { panic!("bad-case AE sel") };
            let s = s.clone();
            let Some(RVal::Builder(regs)) = r.vars.get_mut(b) else { panic!("bad-case AE") };
            regs.push(RReg::Elem(s, *hs));
            r.c.log.push(code(0));
        }
        TopOp::Build { dst, b, enc, prealloc, max, graceful, strict, esi } => {
            let Some(RVal::Builder(regs)) = r.vars.get(b) else { panic!("bad-case BU") };
            let regs = regs.clone();
            r.c.sinks.push(vec![]);
            r.c.sink_final.push(0);
            let idx = r.c.sinks.len() - 1;
            let encoding = match encoding_rs::Encoding::for_label_no_replacement(enc) {
                None => {
                    r.fail("p0", "Unknown character encoding has been provided.".into());
                    r.null(*dst);
                    return;
                }
                Some(e) => match AsciiCompatibleEncoding::new(e) {
                    None => {
                        r.fail("p0", "Expected ASCII-compatible encoding.".into());
                        r.null(*dst);
                        return;
                    }
                    Some(e) => e,
                },
            };
            let mut settings = Settings::new()
                .with_encoding(encoding)
                .with_memory_settings(
                    MemorySettings::new()
                        .with_preallocated_parsing_buffer_size(*prealloc)
                        .with_max_allowed_memory_usage(*max)
                        .with_graceful_bail_out_on_memory_limit_exceeded(*graceful),
                )
                .with_strict(*strict)
                .with_enable_esi_tags(*esi);
            // the C builder keeps element and document registrations in two vectors (rewriter_builder.rs:99)
            for reg in &regs {
                if let RReg::Elem(sel, hs) = reg {
                    let mut h = ElementContentHandlers::default();
                    if let Some(hid) = hs[0] {
                        h = h.element(move |u: &mut Element<'_, '_>| unsafe { r_handler(runu as *mut RRun, hid, Unit::Element(u as *mut Element<'_, '_> as *mut _)) });
                    }
                    if let Some(hid) = hs[1] {
                        h = h.comments(move |u: &mut Comment<'_>| unsafe { r_handler(runu as *mut RRun, hid, Unit::Comment(u as *mut Comment<'_> as *mut _)) });
                    }
                    if let Some(hid) = hs[2] {
                        h = h.text(move |u: &mut TextChunk<'_>| unsafe { r_handler(runu as *mut RRun, hid, Unit::Text(u as *mut TextChunk<'_> as *mut _)) });
                    }
                    settings = settings.append_element_content_handler((Cow::Owned(sel.clone()), h));
                }
            }
            for reg in &regs {
                if let RReg::Doc(hs) = reg {
                    let mut h = DocumentContentHandlers::default();
                    if let Some(hid) = hs[0] {
                        h = h.doctype(move |u: &mut Doctype<'_>| unsafe { r_handler(runu as *mut RRun, hid, Unit::Doctype(u as *mut Doctype<'_> as *mut _)) });
                    }
                    if let Some(hid) = hs[1] {
                        h = h.comments(move |u: &mut Comment<'_>| unsafe { r_handler(runu as *mut RRun, hid, Unit::Comment(u as *mut Comment<'_> as *mut _)) });
                    }
                    if let Some(hid) = hs[2] {
                        h = h.text(move |u: &mut TextChunk<'_>| unsafe { r_handler(runu as *mut RRun, hid, Unit::Text(u as *mut TextChunk<'_> as *mut _)) });
                    }
                    if let Some(hid) = hs[3] {
                        h = h.end(move |u: &mut DocumentEnd<'_>| unsafe { r_handler(runu as *mut RRun, hid, Unit::DocEnd(u as *mut DocumentEnd<'_> as *mut _)) });
                    }
                    settings = settings.append_document_content_handler(h);
                }
            }
            let sink: Box<dyn FnMut(&[u8])> = Box::new(move |c: &[u8]| unsafe {
                let r = &mut *(runu as *mut RRun);
                if c.is_empty() {
                    r.c.sink_final[idx] += 1;
                } else {
                    r.c.sinks[idx].extend_from_slice(c);
                }
            });
            match std::panic::catch_unwind(std::panic::AssertUnwindSafe(move || HtmlRewriter::new(settings, sink))) {
                Ok(rw) => {
                    let r = &mut *run;
                    r.c.log.push(obs("p1", ""));
                    r.bind(*dst, RVal::Rewriter(Some(Box::new(rw))), "rewriter");
                }
                Err(e) => {
                    let m = e.downcast_ref::<String>().cloned().or_else(|| e.downcast_ref::<&str>().map(|s| s.to_string())).unwrap_or_default();
                    let r = &mut *run;
                    r.fail("p0", m);
                    r.null(*dst);
                }
            }
        }
        TopOp::Write { r: rv, chunk } => {
            if r.c.poisoned.contains(rv) {
                r.c.fault = Some("NOTPERMITTED rewriter used after a failed write".into());
                return;
            }
            let Some(RVal::Rewriter(Some(rw))) = r.vars.get_mut(rv) else { panic!("bad-case WR") };
            let rw: *mut RustRewriter = &mut **rw;
            let res = (*rw).write(chunk);
            let r = &mut *run;
            if r.c.fault.is_some() {
                return;
            }
            match res {
                Ok(()) => r.c.log.push(code(0)),
                Err(e) => {
                    r.c.poisoned.push(*rv);
                    r.fail("-1", e.to_string())
                }
            }
        }
        TopOp::End { r: rv } => {
            if r.c.poisoned.contains(rv) {
                r.c.fault = Some("NOTPERMITTED rewriter used after a failed write".into());
                return;
            }
            let Some(RVal::Rewriter(slot)) = r.vars.get_mut(rv) else { panic!("bad-case EN") };
            let rw = slot.take().expect("bad-case EN twice");
            let res = rw.end();
            let r = &mut *run;
            if r.c.fault.is_some() {
                return;
            }
            match res {
                Ok(()) => r.c.log.push(code(0)),
                Err(e) => r.fail("-1", e.to_string()),
            }
        }
        TopOp::RewriterFree { r: rv } => {
            let old = r.vars.insert(*rv, RVal::Null);
            drop(old);
            let r = &mut *run;
            r.unbind(*rv);
            r.c.log.push(obs("v", ""));
        }
        TopOp::BuilderFree { b } => {
            r.unbind(*b);
            r.c.log.push(obs("v", ""));
        }
        TopOp::SelectorFree { s } => {
            r.unbind(*s);
            r.c.log.push(obs("v", ""));
        }
        TopOp::StrFree { v } => {
            r.unbind(*v);
            r.c.log.push(obs("v", ""));
        }
        TopOp::TakeLastError { dst } => {
            let m = r.last_err[tid].take();
            r.put_str(*dst, m);
        }
    }
}

// ------------------------------------------------------------------------------------------ driver

struct SendPtr(usize);
unsafe impl Send for SendPtr {}

fn summary(c: &Common, err_bits: &str, leaks: usize) -> String {
    format!("| E:{} L:{} D:{}", err_bits, leaks, nat_list_str(&c.drops))
}

pub fn run(line: &str) -> String {
    let Some(case) = parse_case(line) else { return "bad-case".into() };
    let nprog = case.prog.len();

    // ---- C run: three worker threads, every top-level call on the thread the script names
    let mut crun = Box::new(CRun {
        prog: case.prog.clone(),
        c: Common { calls: vec![0; nprog + 1], ..Default::default() },
        vars: HashMap::new(),
        live: HashMap::new(),
        var_ids: HashMap::new(),
        serial: 0,
        ctxs: vec![],
        cov_label: String::new(),
    });
    let crp = &mut *crun as *mut CRun as usize;
    let calls = std::sync::Arc::new(case.calls.clone());
    let mut txs = vec![];
    let mut joins = vec![];
    let (done_tx, done_rx) = mpsc::channel::<Option<String>>();
    for tid in 0..3usize {
        let (tx, rx) = mpsc::channel::<Option<usize>>();
        txs.push(tx);
        let calls = calls.clone();
        let done = done_tx.clone();
        let p = SendPtr(crp);
        joins.push(std::thread::spawn(move || {
            let p = p;
            while let Ok(msg) = rx.recv() {
                match msg {
                    Some(i) => {
                        let res = std::panic::catch_unwind(std::panic::AssertUnwindSafe(|| unsafe {
                            c_top(p.0 as *mut CRun, tid, &calls[i].1)
                        }));
                        let _ = done.send(res.err().map(|e| {
                            e.downcast_ref::<String>().cloned().or_else(|| e.downcast_ref::<&str>().map(|s| s.to_string())).unwrap_or_default()
                        }));
                    }
                    None => {
                        // end of case: is an error pending on this thread?
                        let s = raw_of(lolhtml::errors::lol_html_take_last_error());
                        let has = !s.data.is_null();
                        unsafe { lolhtml::string::lol_html_str_free(str_of(s)) };
                        let _ = done.send(Some(if has { "1".into() } else { "0".into() }));
                        break;
                    }
                }
            }
        }));
    }
    let mut panic_msg = None;
    for (i, (tid, _)) in case.calls.iter().enumerate() {
        txs[*tid % 3].send(Some(i)).unwrap();
        if let Some(m) = done_rx.recv().unwrap() {
            panic_msg = Some(m);
            break;
        }
    }
    let mut bits = String::new();
    for tx in &txs {
        tx.send(None).unwrap();
        bits.push_str(&done_rx.recv().unwrap().unwrap_or_default());
    }
    for j in joins {
        let _ = j.join();
    }
    if let Some(m) = panic_msg {
        return format!("PANIC {}", m.replace('\n', " "));
    }

    // ---- Rust run (single thread, last-error per thread emulated as documented)
    let mut rrun = Box::new(RRun {
        prog: case.prog.clone(),
        c: Common { calls: vec![0; nprog + 1], ..Default::default() },
        vars: HashMap::new(),
        live: HashMap::new(),
        var_ids: HashMap::new(),
        serial: 0,
        last_err: [None, None, None],
    });
    let rrp = &mut *rrun as *mut RRun;
    for (tid, op) in &case.calls {
        unsafe { r_top(rrp, *tid % 3, op) };
    }
    let rbits: String = rrun.last_err.iter().map(|e| if e.is_some() { '1' } else { '0' }).collect();
    // dropping the remaining Rust-side rewriters drops their boxed handlers
    let rleaks = rrun.live.len();
    let rvars = std::mem::take(&mut rrun.vars);
    drop(rvars);

    // ---- observation + oracle
    let c = &crun.c;
    let rc = &rrun.c;
    let mut oracle = c.oracle.clone();
    let line_c = if let Some(f) = &c.fault {
        f.clone()
    } else {
        let mut toks: Vec<String> = c.log.iter().map(|o| o.tok.clone()).collect();
        toks.push(summary(c, &bits, crun.live.len()));
        toks.join(" ")
    };
    let line_r = if let Some(f) = &rc.fault {
        f.clone()
    } else {
        let mut toks: Vec<String> = rc.log.iter().map(|o| o.tok.clone()).collect();
        toks.push(summary(rc, &rbits, rleaks));
        toks.join(" ")
    };
    if c.fault.is_none() && rc.fault.is_none() {
        let is_str = |t: &str| matches!(t, "s0" | "se" | "s1");
        if let Some(i) = (0..c.log.len().min(rc.log.len())).find(|&i| c.log[i].tok != rc.log[i].tok && is_str(&c.log[i].tok) && is_str(&rc.log[i].tok)) {
            // `None` <-> data == NULL, `Some("")` <-> non-NULL with len 0, `Some(v)` <-> the bytes of v
            oracle.push(format!("C17:str-marshalling result #{i}: C `{}` ({}) / Rust `{}` ({})", c.log[i].tok, c.log[i].val, rc.log[i].tok, rc.log[i].val));
        } else if line_c != line_r {
            oracle.push(format!("C17:c-vs-rust-codes C: {line_c} / Rust: {line_r}"));
        } else if let Some(i) = (0..c.log.len()).find(|&i| c.log[i].val != rc.log[i].val) {
            oracle.push(format!("C17:c-vs-rust-values result #{i}: C `{}` / Rust `{}`", c.log[i].val, rc.log[i].val));
        }
        if c.sinks != rc.sinks || c.sink_final != rc.sink_final {
            oracle.push(format!("C17:c-vs-rust-sink C {:?} / Rust {:?}", c.sinks.iter().map(|s| to_hex(s)).collect::<Vec<_>>(), rc.sinks.iter().map(|s| to_hex(s)).collect::<Vec<_>>()));
        }
        if c.ran != rc.ran {
            oracle.push(format!("C17:c-vs-rust-streaming-runs C {:?} / Rust {:?}", c.ran, rc.ran));
        }
    }
    for p in crun.ctxs.drain(..) {
        drop(unsafe { Box::from_raw(p) });
    }
    let mut out = line_c;
    for o in oracle.iter().take(1) {
        out.push_str(&format!(" ||ORACLE:{o}"));
    }
    out
}
